(* C08 / C04 at the level of the timeout pass: PassProofs.v continued.

   PassProofs.plain_head_iteration covers a PLAIN head (flags 0) whose first
   candidate name is free.  Here, for every benign oracle:

     history_head_iteration      the head carries the history flag (metadata 2):
                                 the version holds exactly the bytes from the
                                 remembered position on, the position file is
                                 rewritten to the length of the source
     handle_timeout_one_history_head   the same for handle_timeout
     history_versions_concatenate      passes over a growing file: the versions,
                                 in order, concatenate to the last content
     taken_names_iteration       a plain head whose first k candidate names are
                                 taken: the version goes to the k-th candidate,
                                 the k entries are untouched
     taken_trace_not_restored_refuted  ... but the error trace is NOT what it
                                 was: one try() per taken name is never closed
     Module Pass2Example         a concrete world for all of them

   All of them are instances of one lemma about a file head
   ([file_head_iteration]): get the head, read the position, run the copy loop
   ([store_phase], supplied by the instance), pop, write the journal line. *)
From K Require Import Str Dec Trace Fs World Progs Sieve Handler Linq LinqSpec LinqProofs
     DecProofs SyncProofs AbandonProofs JournalProofs QueueProofs Confine HistoryProofs PassProofs.
From K Require CrashCopy.
From Coq Require Import Lia.
Arguments N.add : simpl never.
Arguments N.sub : simpl never.
Arguments N.mul : simpl never.
Arguments N.of_nat : simpl never.
Arguments N.eqb : simpl never.
Arguments N.leb : simpl never.
Arguments Nat.pow : simpl never.
Arguments Nat.mul : simpl never.

(* ====================================================================== *)
(* 1. the error trace: k unclosed try()                                    *)
(* ====================================================================== *)

(* [tr_keep] (QueueProofs) says: still ok, and unchanged when no failed try is
   pending.  The copy loop of handle_timeout does NOT keep the trace when a
   candidate name is taken: `continue` skips finally(), so the depth of open
   try blocks grows by one per taken name. *)
Definition tr_leak (k : nat) (t t' : trace) : Prop :=
  tr_ok t' = true /\ (t_post t = 0 -> t' = mkTr (t_frames t) (k + t_pre t) 0).

Lemma tr_eta t : mkTr (t_frames t) (t_pre t) (t_post t) = t.
Proof. destruct t; reflexivity. Qed.

Lemma tr_leak_0 t t' : tr_leak 0 t t' <-> tr_keep t t'.
Proof.
  unfold tr_leak, tr_keep. cbn [Nat.add]. split; intros [A B]; (split; [exact A|]); intros H0.
  - rewrite (B H0). destruct t as [fr pre po]. cbn [t_post t_frames t_pre] in *. subst po. reflexivity.
  - rewrite (B H0). destruct t as [fr pre po]. cbn [t_post t_frames t_pre] in *. subst po. reflexivity.
Qed.

Lemma tr_keep_leak k a b c : tr_keep a b -> tr_leak k b c -> tr_leak k a c.
Proof.
  intros [A1 A2] [B1 B2]. split; [exact B1|]. intros H0. specialize (A2 H0). subst b. exact (B2 H0).
Qed.

Lemma tr_leak_keep k a b c : tr_leak k a b -> tr_keep b c -> tr_leak k a c.
Proof.
  intros [A1 A2] [B1 B2]. split; [exact B1|]. intros H0. specialize (A2 H0).
  rewrite <- A2. apply B2. rewrite A2. reflexivity.
Qed.

Lemma tr_leak_ok k a b : tr_leak k a b -> tr_ok b = true.
Proof. intros [H _]. exact H. Qed.

(* ====================================================================== *)
(* 2. single calls, the position file                                     *)
(* ====================================================================== *)

Lemma skipn_nth_cons {A} (l : list A) : forall n x, nth_error l n = Some x -> skipn n l = x :: skipn (S n) l.
Proof.
  induction l as [|a l IH]; intros [|n] x H; try discriminate.
  - injection H as ->. reflexivity.
  - cbn [nth_error] in H. change (skipn (S n) (a :: l)) with (skipn n l). rewrite (IH n x H). reflexivity.
Qed.

Lemma mkdir_all_clock o : benign o -> forall ds w r w',
  mkdir_all ds o w = (r, w') -> w_clock w' = w_clock w.
Proof.
  intros H. induction ds as [|d ds IH]; intros w r w' E.
  - cbn [mkdir_all] in E. unfold ret_ in E. injection E as _ <-. reflexivity.
  - cbn [mkdir_all] in E.
    rewrite (bind_some _ _ _ _ _ _ (k_mkdir_benign o w d H)) in E.
    destruct (fst (fs_mkdir d (w_fs w))) as [e|].
    + destruct e; try (apply IH in E; exact E);
        unfold bind, throw_errno, throw_context, throw_static, throw, mod_tr, get_tr, set_tr in E;
        cbn in E; injection E as _ <-; reflexivity.
    + apply IH in E. exact E.
Qed.

(* ----- read_counter ----- *)

Lemma read_digits_benign o i : benign o -> forall fuel pos acc w,
  length (f_bytes (get_file (w_fs w) i)) - pos < fuel ->
  exists w',
    read_digits fuel (FdFile i) pos acc o w =
      (Some (undec_aux (skipn pos (f_bytes (get_file (w_fs w) i))) acc), w') /\
    w_fs w' = w_fs w /\ w_tr w' = w_tr w /\ w_clock w' = w_clock w.
Proof.
  intros H. induction fuel as [|fuel IH]; intros pos acc w Hl; [lia|].
  cbn [read_digits]. unfold k_read1. unfold bind at 1. rewrite sys_benign by exact H.
  set (bs := f_bytes (get_file (w_fs w) i)) in *.
  destruct (nth_error bs pos) as [c|] eqn:En; cbn [fst snd].
  - rewrite (skipn_nth_cons bs pos c En). cbn [undec_aux].
    destruct (is_digit c).
    + match goal with |- context [read_digits fuel _ _ _ o ?x] => set (w1 := x) end.
      assert (Hlt : pos < length bs) by (apply nth_error_Some; congruence).
      destruct (IH (S pos) (acc * 10 + digit_val c)%N w1) as (w' & E & F & T & C).
      { change (w_fs w1) with (w_fs w). fold bs. lia. }
      change (w_fs w1) with (w_fs w) in E, F. fold bs in E.
      exists w'. split; [exact E|]. split; [exact F|]. split; [exact T | exact C].
    + unfold ret_. eexists. split; [reflexivity|]. cbn [w_fs w_tr w_clock]. auto.
  - assert (Hs : skipn pos bs = []) by (apply skipn_all2, nth_error_None; exact En).
    rewrite Hs. cbn [undec_aux]. unfold ret_. eexists. split; [reflexivity|].
    cbn [w_fs w_tr w_clock]. auto.
Qed.

(* no position has been remembered *)
Lemma read_counter_absent o w p :
  benign o -> tr_ok (w_tr w) = true ->
  lookup (w_fs w) p = None -> missing_errno p (w_fs w) = ENOENT ->
  exists w', read_counter p o w = (Some 0%N, w') /\
             w_fs w' = w_fs w /\ w_tr w' = w_tr w /\ w_clock w' = w_clock w.
Proof.
  intros H Hok Hl Em. unfold read_counter. rewrite when_ok_true by exact Hok.
  unfold k_open_read, k_open_gen. unfold bind at 1. rewrite sys_benign by exact H.
  unfold fs_open_read. rewrite Hl, Em. cbn [fst snd]. unfold ret_.
  eexists. split; [reflexivity|]. cbn [w_fs w_tr w_clock]. auto.
Qed.

(* the position file holds the decimal digits of n *)
Lemma read_counter_file o w p io n :
  benign o -> tr_ok (w_tr w) = true ->
  lookup (w_fs w) p = Some (NFile io) -> get_file (w_fs w) io = mkFile (dec n) true ->
  exists w', read_counter p o w = (Some n, w') /\
             w_fs w' = w_fs w /\ w_tr w' = w_tr w /\ w_clock w' = w_clock w.
Proof.
  intros H Hok Hl Hf. unfold read_counter. rewrite when_ok_true by exact Hok.
  destruct (k_open_read_file o w p io H Hl) as (w1 & E1 & F1 & T1).
  { rewrite Hf. reflexivity. }
  assert (C1 : w_clock w1 = w_clock w).
  { unfold k_open_read, k_open_gen in E1. rewrite sys_benign in E1 by exact H.
    apply (f_equal snd) in E1. cbn [snd] in E1. rewrite <- E1. reflexivity. }
  rewrite (bind_some _ _ _ _ _ _ E1).
  unfold file_len. unfold bind at 2. unfold get_fs, ret_. unfold bind at 1.
  destruct (read_digits_benign o io H (S (length (f_bytes (get_file (w_fs w1) io)))) 0 0%N w1)
    as (w2 & E2 & F2 & T2 & C2); [lia|].
  rewrite (bind_some _ _ _ _ _ _ E2). cbn [skipn] in *.
  destruct (k_close_benign o w2 H) as (w3 & E3 & F3 & T3).
  assert (C3 : w_clock w3 = w_clock w2).
  { unfold k_close in E3. rewrite sys_unit_benign in E3 by exact H.
    apply (f_equal snd) in E3. cbn [snd] in E3. rewrite <- E3. reflexivity. }
  rewrite (bind_some _ _ _ _ _ _ E3). unfold ret_.
  exists w3. rewrite F1, Hf. cbn [f_bytes]. fold (undec (dec n)). rewrite undec_dec.
  split; [reflexivity|]. split; [congruence|]. split; congruence.
Qed.

(* ----- write_counter with a positive position ----- *)

Lemma k_write1_benign o w i c :
  benign o ->
  exists w', k_write i [c] o w = (Some (inl 1), w') /\
             w_fs w' = fs_append i [c] (w_fs w) /\ w_tr w' = w_tr w /\ w_clock w' = w_clock w.
Proof.
  intros H. unfold k_write.
  assert (EL : transfer_limit false (length [c]) o w = (Some 1, w)).
  { unfold transfer_limit. cbn [length].
    destruct (H (w_n w)) as [E|[n [Hn [E|E]]]]; rewrite E; try reflexivity.
    rewrite Nat.min_r by lia. reflexivity. }
  rewrite (bind_some _ _ _ _ _ _ EL). rewrite sys_benign by exact H.
  cbn [firstn length fst snd]. eexists. split; [reflexivity|]. cbn [w_fs w_tr w_clock]. auto.
Qed.

Lemma write_digits_benign o i : benign o -> forall ds w,
  tr_ok (w_tr w) = true ->
  exists w', write_digits i ds o w = (Some tt, w') /\
    fs_dents (w_fs w') = fs_dents (w_fs w) /\ fs_next (w_fs w') = fs_next (w_fs w) /\
    get_file (w_fs w') i =
      mkFile (f_bytes (get_file (w_fs w) i) ++ ds) (f_readable (get_file (w_fs w) i)) /\
    (forall k, k <> i -> get_file (w_fs w') k = get_file (w_fs w) k) /\
    w_tr w' = w_tr w /\ w_clock w' = w_clock w.
Proof.
  intros H. induction ds as [|c ds IH]; intros w Hok.
  - exists w. cbn [write_digits]. unfold ret_. rewrite app_nil_r.
    split; [reflexivity|]. split; [reflexivity|]. split; [reflexivity|].
    split; [destruct (get_file (w_fs w) i); reflexivity|]. auto.
  - cbn [write_digits]. rewrite (bind_some _ _ _ _ _ _ (is_ok_eq o w)). rewrite Hok.
    destruct (k_write1_benign o w i c H) as (w1 & E1 & F1 & T1 & C1).
    rewrite (bind_some _ _ _ _ _ _ E1).
    destruct (IH w1) as (w2 & E2 & D2 & N2 & G2 & O2 & T2 & C2); [rewrite T1; exact Hok|].
    exists w2. split; [exact E2|].
    split; [rewrite D2, F1; reflexivity|]. split; [rewrite N2, F1; reflexivity|].
    split.
    { rewrite G2, F1, get_file_append_same. cbn [f_bytes f_readable].
      rewrite <- app_assoc. reflexivity. }
    split.
    { intros k Hk. rewrite (O2 k Hk), F1. apply get_file_append_other. exact Hk. }
    split; congruence.
Qed.

Lemma lookup_same_dents f f' x : fs_dents f' = fs_dents f -> lookup f' x = lookup f x.
Proof. intros D. unfold lookup. rewrite D. reflexivity. Qed.

Lemma get_file_truncate_same i f :
  get_file (fs_truncate i f) i = mkFile [] (f_readable (get_file f i)).
Proof.
  unfold fs_truncate, set_file. unfold get_file at 1. cbn [fs_files].
  rewrite nlookup_nupdate_same. reflexivity.
Qed.

Lemma get_file_truncate_other i k f : k <> i -> get_file (fs_truncate i f) k = get_file f k.
Proof.
  intros Hn. unfold fs_truncate, set_file. unfold get_file at 1. cbn [fs_files].
  rewrite nlookup_nupdate_other by exact Hn. reflexivity.
Qed.

(* "the position file is absent, or it is the regular file io" *)
Definition pos_node (f : fs) (offp : str) (io : nat) : Prop :=
  (lookup f offp = None /\ io = fs_next f) \/ lookup f offp = Some (NFile io).

Lemma write_counter_pos o w offp c io :
  benign o -> tr_ok (w_tr w) = true -> c <> 0%N ->
  (exists r, offp = ch_slash :: r) ->
  (forall d, In d (parents_of offp) -> lookup (w_fs w) d = Some NDir \/ lookup (w_fs w) d = None) ->
  pos_node (w_fs w) offp io ->
  exists w',
    write_counter offp c o w = (Some tt, w') /\ w_tr w' = w_tr w /\ w_clock w' = w_clock w /\
    lookup (w_fs w') offp = Some (NFile io) /\
    f_bytes (get_file (w_fs w') io) = dec c /\
    f_readable (get_file (w_fs w') io) =
      match lookup (w_fs w) offp with None => true | Some _ => f_readable (get_file (w_fs w) io) end /\
    fs_next (w_fs w') =
      match lookup (w_fs w) offp with None => S (fs_next (w_fs w)) | Some _ => fs_next (w_fs w) end /\
    (forall d, In d (parents_of offp) -> lookup (w_fs w') d = Some NDir) /\
    (forall x, x <> offp -> ~ In x (parents_of offp) -> lookup (w_fs w') x = lookup (w_fs w) x) /\
    (forall x, lookup (w_fs w) x <> None -> lookup (w_fs w') x = lookup (w_fs w) x) /\
    (forall k, k <> io -> get_file (w_fs w') k = get_file (w_fs w) k) /\
    (keys_nodup (w_fs w) -> keys_nodup (w_fs w')).
Proof.
  intros H Hok Hc [r Habs] Hpar Hpos.
  destruct (parents_of_chain r) as [Hch Hlast]. rewrite <- Habs in Hch, Hlast.
  destruct (mkdir_all_make o H (parents_of offp) root_path w eq_refl Hch Hpar)
    as [w1 [E1 [T1 [F1 [N1 [I1 [O1 [P1 L1]]]]]]]].
  pose proof (mkdir_all_clock o H _ _ _ _ E1) as C1.
  assert (ND1 : keys_nodup (w_fs w) -> keys_nodup (w_fs w1))
    by (intros Hnd; exact (mkdir_all_nodup o H _ _ _ _ E1 Hnd)).
  assert (G1 : forall k, get_file (w_fs w1) k = get_file (w_fs w) k)
    by (intros k; unfold get_file; rewrite F1; reflexivity).
  assert (Lo1 : lookup (w_fs w1) offp = lookup (w_fs w) offp)
    by (apply O1, parents_of_not_self).
  unfold write_counter. rewrite when_ok_true by exact Hok.
  apply N.eqb_neq in Hc. rewrite Hc.
  assert (Ecp : create_parents offp o w = (Some tt, w1)).
  { unfold create_parents. rewrite when_ok_true by exact Hok. exact E1. }
  rewrite (bind_some _ _ _ _ _ _ Ecp).
  rewrite (bind_some _ _ _ _ _ _ (is_ok_eq o w1)). rewrite T1, Hok.
  (* the open *)
  assert (Hopen : exists w2,
    k_open_w offp o w1 = (Some (inl (FdFile io)), w2) /\ w_tr w2 = w_tr w1 /\ w_clock w2 = w_clock w1 /\
    lookup (w_fs w2) offp = Some (NFile io) /\
    (forall x, x <> offp -> lookup (w_fs w2) x = lookup (w_fs w1) x) /\
    (forall k, k <> io -> get_file (w_fs w2) k = get_file (w_fs w1) k) /\
    f_readable (get_file (w_fs w2) io) =
      match lookup (w_fs w) offp with None => true | Some _ => f_readable (get_file (w_fs w) io) end /\
    fs_next (w_fs w2) =
      match lookup (w_fs w) offp with None => S (fs_next (w_fs w)) | Some _ => fs_next (w_fs w) end /\
    (keys_nodup (w_fs w1) -> keys_nodup (w_fs w2))).
  { unfold k_open_w, k_open_gen. rewrite sys_benign by exact H.
    unfold fs_open_create. rewrite Lo1.
    destruct Hpos as [[Hn Hio]|Hf].
    - rewrite Hn. rewrite fs_create_excl_ok; [|rewrite Lo1; exact Hn | rewrite Hlast; exact L1].
      cbn [fst snd]. rewrite N1, <- Hio. eexists. split; [reflexivity|]. cbn [w_fs w_tr w_clock].
      split; [reflexivity|]. split; [reflexivity|].
      assert (Hio1 : io = fs_next (w_fs w1)) by congruence.
      split; [rewrite Hio1; apply lookup_created_same; rewrite Lo1; exact Hn|].
      split; [intros x Hx; apply lookup_created_other; exact Hx|].
      split; [intros k Hk; apply get_file_created_other; congruence|].
      split; [rewrite Hio1; rewrite get_file_created_new; reflexivity|].
      split; [cbn [created fs_next]; congruence|].
      intros Hnd. apply keys_nodup_created; [exact Hnd | rewrite Lo1; exact Hn].
    - rewrite Hf. cbn [fst snd]. eexists. split; [reflexivity|]. cbn [w_fs w_tr w_clock].
      split; [reflexivity|]. split; [reflexivity|].
      split; [rewrite Lo1; exact Hf|]. split; [reflexivity|]. split; [reflexivity|].
      split; [apply (f_equal f_readable); apply G1|]. split; [exact N1|]. auto. }
  destruct Hopen as (w2 & E2 & T2 & C2 & L2 & O2 & G2 & R2 & N2 & ND2).
  rewrite (bind_some _ _ _ _ _ _ E2).
  (* ftruncate *)
  unfold k_ftruncate. rewrite (bind_some _ _ _ _ _ _ (sys_unit_benign o w2 _ _ H)). cbn [fst snd].
  match goal with |- context [bind (ret_ tt) _ o ?x] => set (w3 := x) end.
  rewrite (bind_some _ _ _ _ _ _ (ret_eq tt o w3)).
  assert (F3 : w_fs w3 = fs_truncate io (w_fs w2)) by reflexivity.
  assert (T3 : w_tr w3 = w_tr w2) by reflexivity.
  assert (C3 : w_clock w3 = w_clock w2) by reflexivity.
  clearbody w3.
  destruct (write_digits_benign o io H (dec c) w3) as (w4 & E4 & D4 & N4 & G4 & O4 & T4 & C4).
  { rewrite T3, T2, T1. exact Hok. }
  rewrite (bind_some _ _ _ _ _ _ E4).
  destruct (k_close_benign o w4 H) as (w5 & E5 & F5 & T5).
  assert (C5 : w_clock w5 = w_clock w4).
  { unfold k_close in E5. rewrite sys_unit_benign in E5 by exact H.
    apply (f_equal snd) in E5. cbn [snd] in E5. rewrite <- E5. reflexivity. }
  rewrite (bind_some _ _ _ _ _ _ E5). unfold ret_.
  assert (L5 : forall x, lookup (w_fs w5) x = lookup (w_fs w2) x).
  { intros x. rewrite F5, (lookup_same_dents _ _ x D4), F3. reflexivity. }
  assert (G5 : get_file (w_fs w5) io = mkFile (dec c) (f_readable (get_file (w_fs w2) io))).
  { rewrite F5, G4, F3, get_file_truncate_same. reflexivity. }
  exists w5. split; [reflexivity|].
  split; [congruence|]. split; [congruence|].
  split; [rewrite L5; exact L2|].
  split; [rewrite G5; reflexivity|].
  split; [rewrite G5; exact R2|].
  split; [rewrite F5, N4, F3; exact N2|].
  split.
  { intros d Hd. rewrite L5, O2; [exact (I1 d Hd)|]. intros ->. exact (parents_of_not_self _ Hd). }
  split; [intros x X1 X2; rewrite L5, (O2 x X1); exact (O1 x X2)|].
  split.
  { intros x Hx. rewrite L5. destruct (str_eqb_spec x offp) as [->|Hxo].
    - rewrite L2. destruct Hpos as [[Hn _]|Hf]; congruence.
    - rewrite (O2 x Hxo). exact (P1 x Hx). }
  split.
  { intros k Hk. rewrite F5, (O4 k Hk), F3, get_file_truncate_other by exact Hk.
    rewrite (G2 k Hk). apply G1. }
  intros Hnd. unfold keys_nodup. rewrite F5, D4, F3. exact (ND2 (ND1 Hnd)).
Qed.

(* ====================================================================== *)
(* 3. one iteration of the loop on a FILE head, whatever the copy does     *)
(* ====================================================================== *)

(* the metadata of a file entry without project part: the history flag alone *)
Definition meta_of (ish : bool) : N := if ish then 2%N else 0%N.

Lemma meta_shift ish : N.shiftr (meta_of ish) 2 = 0%N.
Proof. destruct ish; reflexivity. Qed.
Lemma meta_odd ish : N.odd (meta_of ish) = false.
Proof. destruct ish; reflexivity. Qed.
Lemma meta_bit ish : N.testbit (meta_of ish) 1 = ish.
Proof. destruct ish; reflexivity. Qed.
Lemma meta_sr2 ish : shift_right2 (meta_of ish) = 0.
Proof. destruct ish; reflexivity. Qed.

(* the store path handle_timeout starts from *)
Definition sp_of (cfg : config) (cpl : nat) (now : Z) (p : str) : store_path :=
  create_store_path (c_store_root cfg) (rel_of cpl p) (version_of cfg now).

(* what the copy phase (read the position; the copy loop) must leave intact *)
Record store_frame (qdir : str) (f f1 : fs) : Prop := {
  SF_exist : forall x, lookup f x <> None -> lookup f1 x = lookup f x;
  SF_queue : forall k, lookup f (join qdir (dec k)) = None -> lookup f1 (join qdir (dec k)) = None;
  SF_nodup : keys_nodup f1
}.

(* the copy phase, from any world that has the file system, the clock and
   (up to [tr_keep]) the trace of the start: it ends without error, with event
   [ev], [k] unclosed tries, and a file system in [P] *)
Definition store_phase (o : oracle) (cfg : config) (cpl : nat) (f : fs) (now : Z) (tr0 : trace)
           (p : str) (ish : bool) (ev : option str) (k : nat) (P : fs -> Prop) : Prop :=
  forall wc, w_fs wc = f -> w_clock wc = now -> tr_keep tr0 (w_tr wc) ->
  exists off wr st sp' wd,
    (if ish then read_counter (offset_name cfg cpl p) else ret_ 0%N) o wc = (Some off, wr) /\
    w_fs wr = f /\ tr_ok (w_tr wr) = true /\
    file_store_loop (S (S (dir_entry_count f (dirname (current_path (sp_of cfg cpl now p))))))
                    (sp_of cfg cpl now p) p (offset_name cfg cpl p) (N.to_nat off) ish cfg o wr
      = (Some (ev, st, sp'), wd) /\
    tr_leak k tr0 (w_tr wd) /\ w_clock wd = now /\ P (w_fs wd).

(* the rest of the iteration: the head link goes, the journal gets its line *)
Record pop_post (oj : option journal) (hname line : str) (f1 f' : fs) : Prop := {
  PP_head : lookup f' hname = None;
  PP_other : forall x, x <> hname -> lookup f' x = lookup f1 x;
  PP_files : forall k, (forall jn, oj = Some jn -> k <> j_ino jn) -> get_file f' k = get_file f1 k;
  PP_journal : forall jn, oj = Some jn ->
      f_bytes (get_file f' (j_ino jn)) = f_bytes (get_file f1 (j_ino jn)) ++ line /\
      f_readable (get_file f' (j_ino jn)) = f_readable (get_file f1 (j_ino jn));
  PP_next : fs_next f' = fs_next f1
}.

Lemma file_head_iteration o w h rev fuel p ish t rest ev k (P : fs -> Prop) :
  benign o -> tr_ok (w_tr w) = true -> keys_nodup (w_fs w) ->
  QRel (h_q h) (w_fs w) ((p, meta_of ish, t) :: rest) ->
  (q_deb (h_q h) <= w_clock w - t)%Z ->
  occurs p rest = false ->
  prefixb [ch_slash] p = true -> is_slash (last p ch_dot) = false -> h_cpl h <= length p ->
  length (version_of (h_cfg h) (w_clock w)) <= name_max ->
  existsb is_slash (version_of (h_cfg h) (w_clock w)) = false ->
  journal_fits (h_journal h) ev (w_clock w) ->
  store_phase o (h_cfg h) (h_cpl h) (w_fs w) (w_clock w) (w_tr w) p ish ev k P ->
  (forall f1, P f1 -> store_frame (q_dir (h_q h)) (w_fs w) f1) ->
  exists w' f1,
    handle_timeout_loop (S fuel) rev h o w =
      handle_timeout_loop fuel rev (set_q (popped p (h_q h)) h) o w' /\
    P f1 /\
    pop_post (h_journal h) (head_name (h_q h))
             (jline (h_journal h) ev (rel_of (h_cpl h) p) (w_clock w)) f1 (w_fs w') /\
    QRel (popped p (h_q h)) (w_fs w') rest /\
    keys_nodup (w_fs w') /\
    tr_leak k (w_tr w) (w_tr w') /\ w_clock w' = w_clock w.
Proof.
  intros H Hok Hnd HR Hdue Hocc Pabs Plast Pcpl Pvlen Pvslash Pjfits Hphase HPframe.
  set (q := h_q h) in *. set (cfg := h_cfg h) in *.
  cbn [handle_timeout_loop].
  rewrite (bind_some _ _ _ _ _ _ (is_ok_eq o w)). rewrite Hok. cbn [negb].
  rewrite (bind_some _ _ _ _ _ _ (try_eq o w)).
  set (wa := upd_tr tr_try w).
  assert (Hoka : tr_ok (w_tr wa) = true) by (apply tr_try_ok; exact Hok).
  fold q.
  destruct (get_head_ready o q wa (S (N.to_nat (q_size q))) p (meta_of ish) t rest H Hoka HR)
    as (wb & Eb & Fb & Cb & Kb).
  { apply Z.ltb_ge. exact Hdue. }
  { exact Hocc. }
  change (w_fs wa) with (w_fs w) in Fb. change (w_clock wa) with (w_clock w) in Cb.
  change (w_tr wa) with (tr_try (w_tr w)) in Kb.
  rewrite (bind_some _ _ _ _ _ _ Eb).
  rewrite (bind_some _ _ _ _ _ _ (finally_rethrow_eq _ o wb)).
  set (wc := upd_tr (tr_finally_rethrow_static M_linq_cannot_get_head) wb).
  assert (Kc : tr_keep (w_tr w) (w_tr wc)) by (apply tr_keep_finally_rethrow; assumption).
  assert (Fc : w_fs wc = w_fs w) by exact Fb.
  assert (Cc : w_clock wc = w_clock w) by exact Cb.
  pose proof (tr_keep_ok _ _ Kc) as Hokc.
  clearbody wc. clear Eb.
  cbv iota beta.
  rewrite (bind_some _ _ _ _ _ _ (is_ok_eq o wc)). rewrite Hokc. cbv iota.
  cbn [set_q h_cfg h_cpl h_q h_journal]. fold cfg.
  assert (Ets : get_timestamp (c_version_pattern cfg) o wc =
                (Some (Some (version_of cfg (w_clock w))), wc)).
  { unfold version_of. rewrite <- Cc. apply get_timestamp_ok; [exact Hokc|].
    rewrite Cc. exact Pvlen. }
  rewrite (bind_some _ _ _ _ _ _ Ets).
  rewrite (bind_some _ _ _ _ _ _ (is_ok_eq o wc)). rewrite Hokc. rewrite Pvslash.
  rewrite (bind_some _ _ _ _ _ _ (ret_eq tt o wc)).
  rewrite (bind_some _ _ _ _ _ _ (is_ok_eq o wc)). rewrite Hokc.
  rewrite meta_shift, meta_odd, meta_bit, meta_sr2.
  rewrite Pabs, Plast.
  assert (Hn0 : (N.of_nat (length p) <? 0)%N = false) by (apply N.ltb_ge; lia).
  assert (Hcpl : Nat.ltb (length p) (h_cpl h) = false) by (apply Nat.ltb_ge; exact Pcpl).
  rewrite Hn0, Hcpl. cbn [negb orb andb].
  fold (rel_of (h_cpl h) p). fold (offset_name cfg (h_cpl h) p).
  fold (sp_of cfg (h_cpl h) (w_clock w) p).
  destruct (Hphase wc Fc Cc Kc) as (off & wr & st & sp' & wd & Er & Fr & Hokr & Ed & Kd & Cd & HP).
  rewrite (bind_some _ _ _ _ _ _ Er).
  rewrite (bind_some _ _ _ _ _ _ (is_ok_eq o wr)). rewrite Hokr. cbn [negb].
  rewrite (bind_some _ _ _ _ _ _ (get_fs_eq o wr)). rewrite Fr.
  rewrite (bind_some _ _ _ _ _ _ Ed). clear Ed. cbv iota beta.
  pose proof (tr_leak_ok _ _ _ Kd) as Hokd.
  destruct (HPframe _ HP) as [Xex Xq Xnd].
  assert (HRd : QRel q (w_fs wd) ((p, meta_of ish, t) :: rest))
    by (apply (QRel_frame q (w_fs w)); assumption).
  destruct (pop_ok q p (meta_of ish) t rest o wd H Hokd Xnd HRd)
    as (we & Ee & HRe & Fe & NDe & Ke & Ce & Le & Oe & Ge).
  rewrite (bind_some _ _ _ _ _ _ Ee). clear Ee.
  pose proof (tr_keep_ok _ _ Ke) as Hoke.
  rewrite (bind_some _ _ _ _ _ _ (is_ok_eq o we)). rewrite Hoke. cbn [negb Nat.ltb Nat.leb andb].
  rewrite (bind_some _ _ _ _ _ _ (ret_eq tt o we)).
  destruct (record_event_ok o we ev (rel_of (h_cpl h) p)
              (set_q (popped p q) (set_q q h)) H Hoke)
    as (wf & Ef & Kf & Cf & Jf).
  { cbn [set_q h_journal]. rewrite Ce, Cd. exact Pjfits. }
  cbn [set_q h_journal] in Jf. rewrite Ce, Cd in Jf.
  rewrite (bind_some _ _ _ _ _ _ Ef). clear Ef.
  exists wf, (w_fs wd). split; [reflexivity|]. split; [exact HP|].
  assert (Lf : forall x, lookup (w_fs wf) x = lookup (w_fs we) x)
    by (intros x; exact (journal_step_lookup _ _ _ _ x Jf)).
  assert (Gde : forall j, get_file (w_fs we) j = get_file (w_fs wd) j)
    by (apply get_file_ext; exact Ge).
  split; [|split; [|split; [|split]]].
  - constructor.
    + rewrite Lf. exact Le.
    + intros x Hx. rewrite Lf. exact (Oe x Hx).
    + intros j Hj. rewrite (journal_step_file _ _ _ _ _ Jf Hj). apply Gde.
    + intros jn Hj. unfold journal_step in Jf. rewrite Hj in Jf. rewrite Hj.
      destruct Jf as (A1 & A2 & _). rewrite A1, A2, Gde. split; reflexivity.
    + rewrite (journal_step_next _ _ _ _ Jf), Fe. reflexivity.
  - exact (QRel_same_dents _ _ _ _ (journal_step_dents _ _ _ _ Jf) HRe).
  - exact (journal_step_nodup _ _ _ _ Jf NDe).
  - apply (tr_leak_keep k _ (w_tr wd)); [exact Kd|]. exact (tr_keep_trans _ _ _ Ke Kf).
  - congruence.
Qed.

(* ====================================================================== *)
(* 4. ancestors: ENOENT, not ENOTDIR                                      *)
(* ====================================================================== *)

Lemma anc_step f d prev :
  dirname d = prev ->
  (lookup f prev = Some NDir \/ lookup f prev = None) ->
  (forall fuel, anc_not_dir fuel f prev = false) ->
  forall fuel, anc_not_dir fuel f d = false.
Proof.
  intros Hd Hp Ha [|fuel]; [reflexivity|].
  cbn [anc_not_dir]. cbv zeta. rewrite Hd. destruct Hp as [Hp|Hp]; rewrite Hp; [reflexivity|].
  destruct (str_eqb prev d); [reflexivity | apply Ha].
Qed.

Lemma chain_anc f : forall ds prev,
  chain prev ds ->
  (lookup f prev = Some NDir \/ lookup f prev = None) ->
  (forall fuel, anc_not_dir fuel f prev = false) ->
  (forall d, In d ds -> lookup f d = Some NDir \/ lookup f d = None) ->
  (lookup f (last_or prev ds) = Some NDir \/ lookup f (last_or prev ds) = None) /\
  (forall fuel, anc_not_dir fuel f (last_or prev ds) = false).
Proof.
  induction ds as [|d ds IH]; intros prev Hch Hp Ha Hall.
  - cbn [last_or]. split; assumption.
  - destruct Hch as [Hd Hch]. cbn [last_or]. apply IH.
    + exact Hch.
    + apply Hall. left. reflexivity.
    + exact (anc_step f d prev Hd Hp Ha).
    + intros d' Hin. apply Hall. right. exact Hin.
Qed.

Lemma anc_root f fuel : anc_not_dir fuel f root_path = false.
Proof. destruct fuel; reflexivity. Qed.

(* every ancestor of p is a directory or absent: a missing p is ENOENT *)
Lemma missing_enoent_parents f p :
  (exists r, p = ch_slash :: r) ->
  (forall d, In d (parents_of p) -> lookup f d = Some NDir \/ lookup f d = None) ->
  missing_errno p f = ENOENT.
Proof.
  intros [r ->] Hall. apply missing_enoent.
  destruct (parents_of_chain r) as [Hch Hlast].
  destruct (chain_anc f (parents_of (ch_slash :: r)) root_path Hch (or_introl eq_refl)
              (anc_root f) Hall) as [Hp Ha].
  rewrite <- Hlast in Hp, Ha.
  exact (anc_step f (ch_slash :: r) _ eq_refl Hp Ha _).
Qed.

(* ====================================================================== *)
(* 5. the copy loop of a HISTORY head, first candidate free                *)
(* ====================================================================== *)

(* the remembered position: nothing (0), or a readable regular file that holds
   the decimal digits of a positive number *)
Definition pos_is (f : fs) (offp : str) (off : nat) : Prop :=
  (off = 0 /\ lookup f offp = None) \/
  (0 < off /\ exists io, lookup f offp = Some (NFile io) /\
                         get_file f io = mkFile (dec (N.of_nat off)) true /\ io < fs_next f).

(* the number of inodes the position file costs: 1 if it has to be created *)
Definition pos_new (f : fs) (offp : str) (b : str) : nat :=
  match lookup f offp with
  | None => if length b =? 0 then 0 else 1
  | Some _ => 0
  end.

(* the file system after the copy loop, relative to the one before *)
Record hist_store (dst offp : str) (b : str) (off : nat) (f f1 : fs) : Prop := {
  HS_dst : lookup f1 dst = Some (NFile (fs_next f));
  HS_bytes : f_bytes (get_file f1 (fs_next f)) = skipn off b;
  HS_par : forall d, In d (parents_of dst) -> lookup f1 d = Some NDir;
  HS_pos : pos_is f1 offp (length b);
  HS_pos_ino : forall io, lookup f1 offp = Some (NFile io) ->
                 lookup f offp = Some (NFile io) \/ (lookup f offp = None /\ io = S (fs_next f));
  HS_pos_par : 0 < length b -> forall d, In d (parents_of offp) -> lookup f1 d = Some NDir;
  HS_other : forall x, x <> dst -> ~ In x (parents_of dst) -> x <> offp -> ~ In x (parents_of offp) ->
                       lookup f1 x = lookup f x;
  HS_other0 : length b = 0 -> forall x, x <> dst -> ~ In x (parents_of dst) -> lookup f1 x = lookup f x;
  HS_exist : forall x, lookup f x <> None -> lookup f1 x = lookup f x;
  HS_files : forall k, k <> fs_next f -> (forall io, lookup f1 offp = Some (NFile io) -> k <> io) ->
                       get_file f1 k = get_file f k;
  HS_next : fs_next f1 = S (fs_next f) + pos_new f offp b;
  HS_nodup : keys_nodup f1
}.

Lemma file_store_hist o w cfg n sp src offp off i b :
  benign o -> tr_ok (w_tr w) = true -> keys_nodup (w_fs w) ->
  (exists rest, current_path sp = ch_slash :: rest) ->
  lookup (w_fs w) src = Some (NFile i) ->
  get_file (w_fs w) i = mkFile b true ->
  i < fs_next (w_fs w) ->
  lookup (w_fs w) (current_path sp) = None ->
  (forall d, In d (parents_of (current_path sp)) ->
             lookup (w_fs w) d = Some NDir \/ lookup (w_fs w) d = None) ->
  off <= length b ->
  (exists r, offp = ch_slash :: r) ->
  (forall d, In d (parents_of offp) -> lookup (w_fs w) d = Some NDir \/ lookup (w_fs w) d = None) ->
  pos_is (w_fs w) offp off ->
  (forall io, lookup (w_fs w) offp = Some (NFile io) -> io <> i) ->
  offp <> current_path sp -> ~ In offp (parents_of (current_path sp)) ->
  ~ In (current_path sp) (parents_of offp) ->
  exists w',
    file_store_loop (S n) sp src offp off true cfg o w = (Some (c_ev_stored cfg, true, sp), w') /\
    tr_keep (w_tr w) (w_tr w') /\ w_clock w' = w_clock w /\
    hist_store (current_path sp) offp b off (w_fs w) (w_fs w').
Proof.
  intros H Hok Hnd Habs Hsrc Hfile Hino Hdst Hpar Hle Hoabs Hopar Hpos Hposrc Hod Hop Hdo.
  set (dst := current_path sp) in *.
  cbn [file_store_loop]. fold dst.
  rewrite (bind_some _ _ _ _ _ _ (try_eq o w)).
  set (w1 := upd_tr tr_try w).
  assert (Hok1 : tr_ok (w_tr w1) = true) by (apply tr_try_ok; exact Hok).
  destruct (sync_file_correct_mkparents o w1 dst src off i b H Hok1 Habs Hsrc Hfile Hino Hdst Hpar)
    as (w2 & j & E2 & Hok2 & T2 & J2 & L2 & B2 & I2 & O2 & P2 & G2i & G2).
  destruct (sync_file_struct o w1 dst src off i b H Hok1 Habs Hsrc Hfile Hino Hdst Hpar)
    as (w2' & E2' & N2 & C2 & ND2).
  rewrite E2 in E2'. injection E2' as <-.
  change (w_fs w1) with (w_fs w) in *. change (w_clock w1) with (w_clock w) in *.
  subst j.
  rewrite (bind_some _ _ _ _ _ _ E2).
  rewrite (bind_some _ _ _ _ _ _ (catch_static_ok M_src_missing o w2 Hok2)). cbv iota.
  rewrite (bind_some _ _ _ _ _ _ (catch_static_ok M_not_regular o w2 Hok2)). cbv iota.
  rewrite (bind_some _ _ _ _ _ _ (catch_static_ok M_src_denied o w2 Hok2)). cbv iota.
  rewrite (bind_some _ _ _ _ _ _ (catch_static_ok M_dst_exists o w2 Hok2)). cbv iota.
  rewrite (Nat.max_r _ _ Hle).
  (* the ancestors of the position file after the copy *)
  assert (Hopar2 : forall d, In d (parents_of offp) ->
                             lookup (w_fs w2) d = Some NDir \/ lookup (w_fs w2) d = None).
  { intros d Hd. destruct (str_in_dec d (parents_of dst)) as [Hin|Hnin].
    - left. exact (I2 d Hin).
    - rewrite O2; [exact (Hopar d Hd) | | exact Hnin]. intros ->. exact (Hdo Hd). }
  assert (Lo2 : lookup (w_fs w2) offp = lookup (w_fs w) offp) by (apply O2; assumption).
  assert (Hfin : forall w3, tr_ok (w_tr w3) = true -> w_tr w3 = w_tr w2 ->
             (do b0 <- is_ok; finally_;; ret_ (c_ev_stored cfg, b0, sp)) o w3 =
             (Some (c_ev_stored cfg, true, sp), upd_tr tr_finally w3) /\
             tr_keep (w_tr w) (w_tr (upd_tr tr_finally w3))).
  { intros w3 Hok3 T3.
    rewrite (bind_some _ _ _ _ _ _ (is_ok_eq o w3)). rewrite Hok3.
    rewrite (bind_some _ _ _ _ _ _ (finally_eq o w3)). unfold ret_. split; [reflexivity|].
    cbn [upd_tr w_tr]. rewrite T3, T2.
    apply tr_keep_finally; [exact Hok | apply tr_keep_refl; exact Hok1]. }
  destruct (Nat.eq_dec (length b) 0) as [Hb0|Hbpos].
  - (* nothing to remember: the position file stays absent *)
    assert (Hoff0 : off = 0) by lia.
    assert (Hoabsent : lookup (w_fs w) offp = None).
    { destruct Hpos as [[_ A]|[A _]]; [exact A | lia]. }
    rewrite Hb0. change (N.of_nat 0) with 0%N.
    destruct (write_counter_zero_absent o w2 offp H Hok2) as (w3 & E3 & F3 & T3 & C3).
    { rewrite Lo2. exact Hoabsent. }
    { apply missing_enoent_parents; assumption. }
    rewrite (bind_some _ _ _ _ _ _ E3).
    destruct (Hfin w3) as [Ef Kf]; [rewrite T3; exact Hok2 | exact T3|].
    rewrite Ef. eexists. split; [reflexivity|]. split; [exact Kf|].
    cbn [upd_tr w_fs w_clock]. split; [congruence|]. rewrite F3.
    constructor.
    + exact L2.
    + exact B2.
    + exact I2.
    + left. split; [exact Hb0 | rewrite Lo2; exact Hoabsent].
    + intros io Hio. rewrite Lo2, Hoabsent in Hio. discriminate.
    + intros Hlt. lia.
    + intros x X1 X2 _ _. exact (O2 x X1 X2).
    + intros _ x X1 X2. exact (O2 x X1 X2).
    + intros x Hx. apply P2; [|exact Hx]. intros ->. exact (Hx Hdst).
    + intros k K1 _. exact (G2 k K1).
    + rewrite N2. unfold pos_new. rewrite Hoabsent, Hb0. cbn [Nat.eqb]. lia.
    + exact (ND2 Hnd).
  - (* the new position is written *)
    assert (Hc : N.of_nat (length b) <> 0%N) by lia.
    assert (Hnode : exists io, pos_node (w_fs w2) offp io /\
              (lookup (w_fs w) offp = None -> io = S (fs_next (w_fs w))) /\
              (lookup (w_fs w) offp <> None ->
               io < fs_next (w_fs w) /\ io <> i /\ f_readable (get_file (w_fs w) io) = true)).
    { destruct Hpos as [[_ A]|[_ (io & A1 & A2 & A3)]].
      - exists (S (fs_next (w_fs w))). split; [left; rewrite Lo2, N2; auto|].
        split; [reflexivity | congruence].
      - exists io. split; [right; rewrite Lo2; exact A1|]. split; [congruence|].
        intros _. split; [exact A3|]. split; [exact (Hposrc io A1)|]. rewrite A2. reflexivity. }
    destruct Hnode as (io & Hnode & Hio_new & Hio_old).
    destruct (write_counter_pos o w2 offp (N.of_nat (length b)) io H Hok2 Hc Hoabs Hopar2 Hnode)
      as (w3 & E3 & T3 & C3 & L3 & B3 & R3 & N3 & I3 & O3 & P3 & G3 & ND3).
    rewrite (bind_some _ _ _ _ _ _ E3).
    destruct (Hfin w3) as [Ef Kf]; [rewrite T3; exact Hok2 | exact T3|].
    rewrite Ef. eexists. split; [reflexivity|]. split; [exact Kf|].
    cbn [upd_tr w_fs w_clock]. split; [congruence|].
    assert (Hio_ne : fs_next (w_fs w) <> io).
    { destruct (lookup (w_fs w) offp) eqn:El.
      - destruct Hio_old as [A _]; [discriminate | lia].
      - rewrite (Hio_new eq_refl). lia. }
    constructor.
    + rewrite P3; [exact L2 | congruence].
    + rewrite (G3 _ Hio_ne). exact B2.
    + intros d Hd. rewrite P3; [exact (I2 d Hd) | rewrite (I2 d Hd); discriminate].
    + right. split; [lia|]. exists io. split; [exact L3|]. split.
      * assert (Hr : f_readable (get_file (w_fs w3) io) = true).
        { rewrite R3, Lo2. destruct (lookup (w_fs w) offp) eqn:El; [|reflexivity].
          destruct Hio_old as (A1 & A2 & A3); [discriminate|].
          rewrite G2 by lia. exact A3. }
        destruct (get_file (w_fs w3) io) as [bs rd]. cbn [f_bytes f_readable] in *. congruence.
      * rewrite N3, Lo2, N2. destruct (lookup (w_fs w) offp) eqn:El.
        -- destruct Hio_old as [A _]; [discriminate | lia].
        -- rewrite (Hio_new eq_refl). lia.
    + intros io' Hio'. rewrite L3 in Hio'. injection Hio' as <-.
      destruct (lookup (w_fs w) offp) eqn:El.
      * left. destruct Hnode as [[A _]|A]; [rewrite Lo2 in A; discriminate | rewrite Lo2 in A; exact A].
      * right. split; [reflexivity | exact (Hio_new eq_refl)].
    + intros _ d Hd. exact (I3 d Hd).
    + intros x X1 X2 X3 X4. rewrite (O3 x X3 X4). exact (O2 x X1 X2).
    + intros Hb0. contradiction.
    + intros x Hx.
      assert (Hx2 : lookup (w_fs w2) x = lookup (w_fs w) x).
      { apply P2; [|exact Hx]. intros ->. exact (Hx Hdst). }
      rewrite P3; [exact Hx2 | rewrite Hx2; exact Hx].
    + intros k K1 K2. rewrite G3; [exact (G2 k K1) | exact (K2 io L3)].
    + rewrite N3, Lo2, N2. unfold pos_new.
      destruct (lookup (w_fs w) offp); [lia|].
      destruct (Nat.eqb_spec (length b) 0); lia.
    + exact (ND3 (ND2 Hnd)).
Qed.

(* ====================================================================== *)
(* 6. one iteration of the loop on a due HISTORY head                      *)
(* ====================================================================== *)

Lemma current_sp_of cfg cpl now p : current_path (sp_of cfg cpl now p) = store_name cfg cpl now p.
Proof. apply current_path_create. Qed.

(* [p] the queued path, [i] the inode of the source, [b] its content, [off]
   the remembered position *)
Record hist_ok (cfg : config) (cpl : nat) (oj : option journal) (qdir : str)
       (f : fs) (now : Z) (p : str) (i : nat) (b : str) (off : nat) : Prop := {
  (* as in PassProofs.plain_ok: the entry, the version string, the source, the first candidate *)
  HO_abs : prefixb [ch_slash] p = true;
  HO_last : is_slash (last p ch_dot) = false;
  HO_cpl : cpl <= length p;
  HO_vlen : length (version_of cfg now) <= name_max;
  HO_vslash : existsb is_slash (version_of cfg now) = false;
  HO_src : lookup f p = Some (NFile i);
  HO_file : get_file f i = mkFile b true;
  HO_ino : i < fs_next f;
  HO_root_abs : exists r, c_store_root cfg = ch_slash :: r;
  HO_dst_free : lookup f (store_name cfg cpl now p) = None;
  HO_dst_par : forall d, In d (parents_of (store_name cfg cpl now p)) ->
                         lookup f d = Some NDir \/ lookup f d = None;
  HO_dst_q : Str.under qdir (store_name cfg cpl now p) = false;
  (* the remembered position: not beyond the end of the file (the file is append-only);
     absent for 0, otherwise a readable file with the decimal digits, not the source itself *)
  HO_off_le : off <= length b;
  HO_pos : pos_is f (offset_name cfg cpl p) off;
  HO_pos_src : forall io, lookup f (offset_name cfg cpl p) = Some (NFile io) -> io <> i;
  (* where the position file lives: nothing but directories on the way, not in the
     queue directory, apart from the new version *)
  HO_oroot_abs : exists r, c_offset_root cfg = ch_slash :: r;
  HO_off_par : forall d, In d (parents_of (offset_name cfg cpl p)) ->
                         lookup f d = Some NDir \/ lookup f d = None;
  HO_off_q : Str.under qdir (offset_name cfg cpl p) = false;
  HO_off_ne : offset_name cfg cpl p <> store_name cfg cpl now p;
  HO_off_nin : ~ In (offset_name cfg cpl p) (parents_of (store_name cfg cpl now p));
  HO_dst_nin : ~ In (store_name cfg cpl now p) (parents_of (offset_name cfg cpl p));
  (* the journal, if any *)
  HO_jfits : journal_fits oj (c_ev_stored cfg) now;
  HO_jino : forall jn, oj = Some jn ->
              j_ino jn <> i /\ j_ino jn < fs_next f /\
              forall io, lookup f (offset_name cfg cpl p) = Some (NFile io) -> j_ino jn <> io
}.

(* the file system after the iteration, relative to the one before *)
Record hist_post (cfg : config) (cpl : nat) (oj : option journal) (hname : str)
       (f f' : fs) (now : Z) (p : str) (b : str) (off : nat) : Prop := {
  (* (1) exactly one new version, holding the bytes from the remembered position on *)
  HP_dst : lookup f' (store_name cfg cpl now p) = Some (NFile (fs_next f));
  HP_bytes : f_bytes (get_file f' (fs_next f)) = skipn off b;
  HP_par : forall d, In d (parents_of (store_name cfg cpl now p)) -> lookup f' d = Some NDir;
  (* (2) the position file holds the decimal of the length of the source; it is
     absent when that is 0 (it was absent before: off <= length b = 0) *)
  HP_pos : pos_is f' (offset_name cfg cpl p) (length b);
  HP_pos_ino : forall io, lookup f' (offset_name cfg cpl p) = Some (NFile io) ->
      lookup f (offset_name cfg cpl p) = Some (NFile io) \/
      (lookup f (offset_name cfg cpl p) = None /\ io = S (fs_next f));
  HP_pos_par : 0 < length b -> forall d, In d (parents_of (offset_name cfg cpl p)) ->
                                         lookup f' d = Some NDir;
  (* (3) the head link is gone *)
  HP_head : lookup f' hname = None;
  (* every other name is as before *)
  HP_other : forall x, x <> store_name cfg cpl now p -> ~ In x (parents_of (store_name cfg cpl now p)) ->
                       x <> offset_name cfg cpl p -> ~ In x (parents_of (offset_name cfg cpl p)) ->
                       x <> hname -> lookup f' x = lookup f x;
  HP_other0 : length b = 0 ->
              forall x, x <> store_name cfg cpl now p -> ~ In x (parents_of (store_name cfg cpl now p)) ->
                        x <> hname -> lookup f' x = lookup f x;
  HP_exist : forall x, x <> hname -> lookup f x <> None -> lookup f' x = lookup f x;
  (* every other inode but the position file and the journal is as before *)
  HP_files : forall k, k <> fs_next f ->
                       (forall io, lookup f' (offset_name cfg cpl p) = Some (NFile io) -> k <> io) ->
                       (forall jn, oj = Some jn -> k <> j_ino jn) ->
                       get_file f' k = get_file f k;
  HP_journal : forall jn, oj = Some jn ->
      f_bytes (get_file f' (j_ino jn)) =
        f_bytes (get_file f (j_ino jn)) ++ jline oj (c_ev_stored cfg) (rel_of cpl p) now /\
      f_readable (get_file f' (j_ino jn)) = f_readable (get_file f (j_ino jn));
  HP_next : fs_next f' = S (fs_next f) + pos_new f (offset_name cfg cpl p) b
}.

Lemma offset_name_abs cfg cpl p :
  (exists r, c_offset_root cfg = ch_slash :: r) -> exists r, offset_name cfg cpl p = ch_slash :: r.
Proof. intros [r Hr]. unfold offset_name. rewrite Hr. eexists. reflexivity. Qed.

Lemma store_name_abs cfg cpl now p :
  (exists r, c_store_root cfg = ch_slash :: r) -> exists r, store_name cfg cpl now p = ch_slash :: r.
Proof. intros [r Hr]. unfold store_name. rewrite Hr. eexists. reflexivity. Qed.

Theorem history_head_iteration o w h rev fuel p t rest i b off :
  benign o -> tr_ok (w_tr w) = true -> keys_nodup (w_fs w) ->
  QRel (h_q h) (w_fs w) ((p, 2%N, t) :: rest) ->        (* metadata 2: the history flag alone *)
  (q_deb (h_q h) <= w_clock w - t)%Z ->                 (* the head is due *)
  occurs p rest = false ->                               (* and is the last entry of its burst *)
  hist_ok (h_cfg h) (h_cpl h) (h_journal h) (q_dir (h_q h)) (w_fs w) (w_clock w) p i b off ->
  exists w',
    handle_timeout_loop (S fuel) rev h o w =
      handle_timeout_loop fuel rev (set_q (popped p (h_q h)) h) o w' /\
    hist_post (h_cfg h) (h_cpl h) (h_journal h) (head_name (h_q h))
              (w_fs w) (w_fs w') (w_clock w) p b off /\
    QRel (popped p (h_q h)) (w_fs w') rest /\
    keys_nodup (w_fs w') /\
    tr_keep (w_tr w) (w_tr w') /\ w_clock w' = w_clock w.
Proof.
  intros H Hok Hnd HR Hdue Hocc HO.
  destruct HO as [Pabs Plast Pcpl Pvlen Pvslash Psrc Pfile Pino Prabs Pfree Ppar Pq
                  Ple Ppos Pposrc Porabs Popar Poq Pone Ponin Pdnin Pjfits Pjino].
  set (q := h_q h) in *. set (cfg := h_cfg h) in *. set (cpl := h_cpl h) in *.
  set (dst := store_name cfg cpl (w_clock w) p) in *.
  set (offp := offset_name cfg cpl p) in *.
  pose proof (offset_name_abs cfg cpl p Porabs) as Hoabs. fold offp in Hoabs.
  pose proof (store_name_abs cfg cpl (w_clock w) p Prabs) as Hdabs. fold dst in Hdabs.
  change 2%N with (meta_of true) in HR.
  destruct (file_head_iteration o w h rev fuel p true t rest (c_ev_stored cfg) 0
              (hist_store dst offp b off (w_fs w)) H Hok Hnd HR Hdue Hocc Pabs Plast Pcpl Pvlen Pvslash Pjfits)
    as (w' & f1 & E & HS & HPP & HR' & Hnd' & K' & C').
  { (* the copy phase *)
    intros wc Fc Cc Kc. fold cfg cpl offp.
    pose proof (tr_keep_ok _ _ Kc) as Hokc.
    assert (Hread : exists wr, read_counter offp o wc = (Some (N.of_nat off), wr) /\
                               w_fs wr = w_fs w /\ w_tr wr = w_tr wc /\ w_clock wr = w_clock w).
    { destruct Ppos as [[-> A]|[_ (io & A1 & A2 & A3)]].
      - destruct (read_counter_absent o wc offp H Hokc) as (wr & Er & Fr & Tr & Cr).
        { rewrite Fc. exact A. }
        { rewrite Fc. apply missing_enoent_parents; assumption. }
        exists wr. split; [exact Er|]. split; [congruence|]. split; [exact Tr | congruence].
      - destruct (read_counter_file o wc offp io (N.of_nat off) H Hokc) as (wr & Er & Fr & Tr & Cr).
        { rewrite Fc. exact A1. }
        { rewrite Fc. exact A2. }
        exists wr. split; [exact Er|]. split; [congruence|]. split; [exact Tr | congruence]. }
    destruct Hread as (wr & Er & Fr & Tr & Cr).
    assert (Hokr : tr_ok (w_tr wr) = true) by (rewrite Tr; exact Hokc).
    destruct (file_store_hist o wr cfg (S (dir_entry_count (w_fs w) (dirname (current_path (sp_of cfg cpl (w_clock w) p)))))
                (sp_of cfg cpl (w_clock w) p) p offp off i b H Hokr)
      as (wd & Ed & Kd & Cd & HSd);
      try (lazymatch goal with
           | |- context [read_counter] => idtac
           | _ => rewrite ?current_sp_of; fold dst; rewrite ?Fr; assumption
           end).
    exists (N.of_nat off), wr, true, (sp_of cfg cpl (w_clock w) p), wd.
    split; [exact Er|]. split; [exact Fr|]. split; [exact Hokr|].
    rewrite Nat2N.id. split; [exact Ed|].
    split; [apply tr_leak_0; apply (tr_keep_trans _ _ _ Kc); rewrite <- Tr; exact Kd|].
    split; [congruence|]. rewrite current_sp_of in HSd. fold dst in HSd. rewrite Fr in HSd. exact HSd. }
  { (* the copy phase keeps the queue *)
    intros f1 HS. constructor.
    - exact (HS_exist _ _ _ _ _ _ HS).
    - intros k Hk.
      destruct (under_join_dec (q_dir q) k dst (QR_nroot _ _ _ HR) Pq) as [A1 A2].
      destruct (under_join_dec (q_dir q) k offp (QR_nroot _ _ _ HR) Poq) as [B1 B2].
      rewrite (HS_other _ _ _ _ _ _ HS);
        [exact Hk | exact (fun X => A1 (eq_sym X)) | exact A2 | exact (fun X => B1 (eq_sym X)) | exact B2].
    - exact (HS_nodup _ _ _ _ _ _ HS). }
  exists w'. split; [exact E|].
  split; [|split; [exact HR'|]; split; [exact Hnd'|]; split; [apply tr_leak_0; exact K' | exact C']].
  destruct HS as [Sdst Sbytes Spar Spos Sposino Spospar Sother Sother0 Sexist Sfiles Snext Snd].
  destruct HPP as [Phead Pother Pfiles Pjournal Pnext].
  fold q cfg cpl dst offp in Phead, Pother, Pfiles, Pjournal, Pnext |- *.
  destruct (under_join_dec (q_dir q) (q_head q) dst (QR_nroot _ _ _ HR) Pq) as [Hhd Hhp].
  destruct (under_join_dec (q_dir q) (q_head q) offp (QR_nroot _ _ _ HR) Poq) as [Hho Hhop].
  fold (head_name q) in Hhd, Hhp, Hho, Hhop.
  (* the journal inode is not one the copy phase writes *)
  assert (Hjf1 : forall jn, h_journal h = Some jn -> get_file f1 (j_ino jn) = get_file (w_fs w) (j_ino jn)).
  { intros jn Hj. destruct (Pjino jn Hj) as (J1 & J2 & J3). apply Sfiles; [lia|].
    intros io Hio. destruct (Sposino io Hio) as [A|[_ A]]; [exact (J3 io A) | lia]. }
  constructor; fold dst offp.
  - rewrite Pother by exact Hhd. exact Sdst.
  - rewrite Pfiles; [exact Sbytes|]. intros jn Hj. destruct (Pjino jn Hj) as (_ & J2 & _). lia.
  - intros d Hd. rewrite Pother; [exact (Spar d Hd)|]. intros ->. exact (Hhp Hd).
  - destruct Spos as [[A1 A2]|[A1 (io & A2 & A3 & A4)]].
    + left. split; [exact A1|]. rewrite Pother by exact Hho. exact A2.
    + right. split; [exact A1|]. exists io. split; [rewrite Pother by exact Hho; exact A2|].
      split; [|rewrite Pnext; exact A4].
      rewrite Pfiles; [exact A3|]. intros jn Hj. destruct (Pjino jn Hj) as (_ & J2 & J3).
      destruct (Sposino io A2) as [A|[_ A]]; [intros X; exact (J3 io A (eq_sym X)) | lia].
  - intros io Hio. rewrite Pother in Hio by exact Hho. exact (Sposino io Hio).
  - intros Hb d Hd. rewrite Pother; [exact (Spospar Hb d Hd)|]. intros ->. exact (Hhop Hd).
  - exact Phead.
  - intros x X1 X2 X3 X4 X5. rewrite (Pother x X5). exact (Sother x X1 X2 X3 X4).
  - intros Hb x X1 X2 X3. rewrite (Pother x X3). exact (Sother0 Hb x X1 X2).
  - intros x X1 X2. rewrite (Pother x X1). exact (Sexist x X2).
  - intros k K1 K2 K3. rewrite (Pfiles k K3). apply Sfiles; [exact K1|].
    intros io Hio. apply K2. rewrite Pother by exact Hho. exact Hio.
  - intros jn Hj. destruct (Pjournal jn Hj) as [A1 A2]. rewrite A1, A2, (Hjf1 jn Hj).
    split; reflexivity.
  - rewrite Pnext. exact Snext.
Qed.

Print Assumptions history_head_iteration.

(* ---------- the same for handle_timeout: the head is the only due entry ---------- *)

Theorem handle_timeout_one_history_head o rev h w p t rest i b off :
  benign o ->
  tr_ok (w_tr w) = true -> keys_nodup (w_fs w) ->
  QRel (h_q h) (w_fs w) ((p, 2%N, t) :: rest) ->
  (q_deb (h_q h) <= w_clock w - t)%Z ->
  occurs p rest = false ->
  not_due (w_clock w) (q_deb (h_q h)) rest ->
  hist_ok (h_cfg h) (h_cpl h) (h_journal h) (q_dir (h_q h)) (w_fs w) (w_clock w) p i b off ->
  exists w',
    handle_timeout rev h o w =
      (Some (TPause (pause_of (w_clock w) (q_deb (h_q h)) rest), set_q (popped p (h_q h)) h), w') /\
    hist_post (h_cfg h) (h_cpl h) (h_journal h) (head_name (h_q h))
              (w_fs w) (w_fs w') (w_clock w) p b off /\
    QRel (popped p (h_q h)) (w_fs w') rest /\ keys_nodup (w_fs w') /\
    tr_ok (w_tr w') = true /\ (t_post (w_tr w) = 0 -> w_tr w' = w_tr w) /\
    w_clock w' = w_clock w.
Proof.
  intros H Hok Hnd HR Hdue Hocc Hstop HP. unfold handle_timeout.
  destruct (history_head_iteration o w h rev (S (N.to_nat (q_size (h_q h)))) p t rest i b off
              H Hok Hnd HR Hdue Hocc HP) as (w1 & E1 & S1 & HR1 & Hnd1 & K1 & C1).
  set (h1 := set_q (popped p (h_q h)) h) in *.
  assert (Hstop1 : not_due (w_clock w1) (q_deb (h_q h1)) rest) by (rewrite C1; exact Hstop).
  destruct (pass_stops o w1 h1 rev (N.to_nat (q_size (h_q h))) rest H (tr_keep_ok _ _ K1) HR1 Hstop1)
    as (w' & E & F & C & K).
  rewrite <- E1 in E. rewrite (bind_some _ _ _ _ _ _ E).
  pose proof (tr_keep_trans _ _ _ K1 K) as [K2 K3].
  rewrite (bind_some _ _ _ _ _ _ (is_ok_eq o w')). rewrite K2. unfold ret_.
  exists w'. rewrite C1. split; [reflexivity|]. rewrite F.
  split; [exact S1|]. split; [exact HR1|]. split; [exact Hnd1|].
  split; [exact K2|]. split; [exact K3 | congruence].
Qed.
Print Assumptions handle_timeout_one_history_head.

(* ====================================================================== *)
(* 7. C08 through the pass: the versions concatenate to the file           *)
(* ====================================================================== *)

(* one pass: the handler, the world it starts from, the head entry's time, the
   rest of the queue, and the content of the history file at that moment *)
Record stage := mkSt {
  s_h : handler; s_w : world; s_rev : bool; s_t : Z; s_rest : list qent; s_b : str
}.

(* the world the pass leaves *)
Definition after (o : oracle) (st : stage) : world :=
  snd (handle_timeout (s_rev st) (s_h st) o (s_w st)).

(* the hypotheses of handle_timeout_one_history_head *)
Definition ready (p : str) (i : nat) (off : nat) (st : stage) : Prop :=
  let h := s_h st in let w := s_w st in
  tr_ok (w_tr w) = true /\ keys_nodup (w_fs w) /\
  QRel (h_q h) (w_fs w) ((p, 2%N, s_t st) :: s_rest st) /\
  (q_deb (h_q h) <= w_clock w - s_t st)%Z /\
  occurs p (s_rest st) = false /\
  not_due (w_clock w) (q_deb (h_q h)) (s_rest st) /\
  hist_ok (h_cfg h) (h_cpl h) (h_journal h) (q_dir (h_q h)) (w_fs w) (w_clock w) p i (s_b st) off.

(* a version in the store: its name, its inode, its content *)
Record version := mkV { v_name : str; v_ino : nat; v_bytes : str }.

Definition version_in (f : fs) (v : version) : Prop :=
  lookup f (v_name v) = Some (NFile (v_ino v)) /\
  f_bytes (get_file f (v_ino v)) = v_bytes v /\
  v_ino v < fs_next f.

(* the version a pass makes when the remembered position is off *)
Definition made (p : str) (off : nat) (st : stage) : version :=
  mkV (store_name (h_cfg (s_h st)) (h_cpl (s_h st)) (w_clock (s_w st)) p)
      (fs_next (w_fs (s_w st))) (skipn off (s_b st)).

Fixpoint versions (p : str) (off : nat) (sts : list stage) : list version :=
  match sts with
  | [] => []
  | st :: r => made p off st :: versions p (length (s_b st)) r
  end.

(* an earlier version is not a hard link of what the pass writes to: the
   journal and the position file *)
Definition apart (p : str) (st : stage) (v : version) : Prop :=
  (forall jn, h_journal (s_h st) = Some jn -> v_ino v <> j_ino jn) /\
  (forall io, lookup (w_fs (s_w st)) (offset_name (h_cfg (s_h st)) (h_cpl (s_h st)) p) = Some (NFile io) ->
              v_ino v <> io).

(* passes over the same history path: each starts with the position the
   previous one left (0 for the first); between two passes anything may happen
   that keeps the versions made so far.  [ffin]: the file system the last pass
   leaves *)
Inductive hist_chain (o : oracle) (p : str) (i : nat) : nat -> list version -> list stage -> fs -> Prop :=
| HC_last off vs st :
    ready p i off st -> Forall (apart p st) vs ->
    hist_chain o p i off vs [st] (w_fs (after o st))
| HC_cons off vs st st' sts ffin :
    ready p i off st -> Forall (apart p st) vs ->
    (forall v, In v (vs ++ [made p off st]) ->
               version_in (w_fs (after o st)) v -> version_in (w_fs (s_w st')) v) ->
    hist_chain o p i (length (s_b st)) (vs ++ [made p off st]) (st' :: sts) ffin ->
    hist_chain o p i off vs (st :: st' :: sts) ffin.

(* one pass keeps the earlier versions and adds its own *)
Lemma pass_versions o p i off vs st :
  benign o -> ready p i off st -> Forall (apart p st) vs ->
  Forall (version_in (w_fs (s_w st))) vs ->
  Forall (version_in (w_fs (after o st))) (vs ++ [made p off st]).
Proof.
  intros H (Hok & Hnd & HR & Hdue & Hocc & Hstop & HO) Hap Hin.
  destruct (handle_timeout_one_history_head o (s_rev st) (s_h st) (s_w st) p (s_t st) (s_rest st)
              i (s_b st) off H Hok Hnd HR Hdue Hocc Hstop HO) as (w' & E & HP & _).
  unfold after. rewrite E. cbn [snd].
  destruct HP as [Pdst Pbytes _ _ Pposino _ _ _ _ Pexist Pfiles _ Pnext].
  pose proof (QRel_head _ _ _ _ _ _ HR) as Hhead. fold (head_name (h_q (s_h st))) in Hhead.
  apply Forall_app. split.
  - rewrite Forall_forall in *. intros v Hv.
    destruct (Hin v Hv) as (V1 & V2 & V3). destruct (Hap v Hv) as (A1 & A2).
    split; [|split].
    + rewrite Pexist; [exact V1 | intros X; rewrite X in V1; congruence | congruence].
    + rewrite Pfiles; [exact V2 | lia | | exact A1].
      intros io Hio. destruct (Pposino io Hio) as [B|[_ B]]; [exact (A2 io B) | lia].
    + lia.
  - constructor; [|constructor]. unfold made, version_in. cbn [v_name v_ino v_bytes].
    split; [exact Pdst|]. split; [exact Pbytes | lia].
Qed.

Lemma chain_versions o p i : benign o -> forall off vs sts ffin,
  hist_chain o p i off vs sts ffin ->
  (forall st, hd_error sts = Some st -> Forall (version_in (w_fs (s_w st))) vs) ->
  Forall (version_in ffin) (vs ++ versions p off sts) /\
  map v_bytes (versions p off sts) = slices off (map s_b sts).
Proof.
  intros H off vs sts ffin HC. induction HC as [off vs st Hr Hap | off vs st st' sts ffin Hr Hap Henv HC IH];
    intros Hin.
  - cbn [versions map slices]. split.
    + exact (pass_versions o p i off vs st H Hr Hap (Hin st eq_refl)).
    + reflexivity.
  - pose proof (pass_versions o p i off vs st H Hr Hap (Hin st eq_refl)) as Hafter.
    destruct IH as [IH1 IH2].
    { intros st0 E0. cbn [hd_error] in E0. injection E0 as <-.
      rewrite Forall_forall in *. intros v Hv. exact (Henv v Hv (Hafter v Hv)). }
    change (versions p off (st :: st' :: sts))
      with (made p off st :: versions p (length (s_b st)) (st' :: sts)).
    split.
    + rewrite <- app_assoc in IH1. exact IH1.
    + change (map s_b (st :: st' :: sts)) with (s_b st :: map s_b (st' :: sts)).
      cbn [map slices]. rewrite IH2. unfold made at 1. cbn [v_bytes].
      destruct Hr as (_ & _ & _ & _ & _ & _ & HO).
      rewrite (Nat.max_r _ _ (HO_off_le _ _ _ _ _ _ _ _ _ _ HO)). reflexivity.
Qed.

(* the link between two passes: a pass leaves the position the next one needs
   (HO_pos of the next stage follows when the environment keeps the position file) *)
Lemma pass_leaves_position o p i off st :
  benign o -> ready p i off st ->
  pos_is (w_fs (after o st)) (offset_name (h_cfg (s_h st)) (h_cpl (s_h st)) p) (length (s_b st)).
Proof.
  intros H (Hok & Hnd & HR & Hdue & Hocc & Hstop & HO).
  destruct (handle_timeout_one_history_head o (s_rev st) (s_h st) (s_w st) p (s_t st) (s_rest st)
              i (s_b st) off H Hok Hnd HR Hdue Hocc Hstop HO) as (w' & E & HP & _).
  unfold after. rewrite E. cbn [snd]. exact (HP_pos _ _ _ _ _ _ _ _ _ _ HP).
Qed.

(* C08: "concatenating its versions in order reproduces the file", through the
   real pass.  The first pass starts without a remembered position; each later
   one finds the position the previous one wrote. *)
Theorem history_versions_concatenate o p i sts ffin :
  benign o ->
  hist_chain o p i 0 [] sts ffin ->
  let vs := versions p 0 sts in
  (* every pass made its version, and all of them are still there at the end *)
  length vs = length sts /\
  Forall (version_in ffin) vs /\
  (* the k-th version is the k-th slice *)
  map v_bytes vs = slices 0 (map s_b sts) /\
  (* so, when the file only grew, the versions in order make up the last content *)
  (grows [] (map s_b sts) -> concat (map v_bytes vs) = last (map s_b sts) []).
Proof.
  intros H HC. cbv zeta.
  destruct (chain_versions o p i H 0 [] sts ffin HC) as [A B].
  { intros st _. constructor. }
  cbn [app] in A.
  split.
  { clear. generalize 0. induction sts as [|st r IH]; intros n; [reflexivity|].
    cbn [versions length]. rewrite IH. reflexivity. }
  split; [exact A|]. split; [exact B|].
  intros Hg. rewrite B. apply slices_whole. exact Hg.
Qed.
Print Assumptions history_versions_concatenate.

(* ====================================================================== *)
(* 8. C04: the first k candidate names are taken                           *)
(* ====================================================================== *)

(* ----- sync_file on a name that exists ----- *)

Lemma last_or_snoc prev l p : last_or prev (l ++ [p]) = p.
Proof. revert prev. induction l as [|a l IH]; intros prev; [reflexivity|]. cbn [app last_or]. apply IH. Qed.

(* the clean-up after a refused copy stops at the parent of dst: it is not empty *)
Lemma clean_up_nonempty o w dst rest :
  benign o -> dst = ch_slash :: rest ->
  lookup (w_fs w) dst <> None ->
  (forall d, In d (parents_of dst) -> lookup (w_fs w) d = Some NDir) ->
  exists w', clean_up dst o w = (Some tt, w') /\
             w_fs w' = w_fs w /\ w_tr w' = w_tr w /\ w_clock w' = w_clock w.
Proof.
  intros H Habs Hex Hall.
  set (w3 := mkW (w_fs w) (w_n w) (w_log w) (w_clock w) (tr_try tr_empty)).
  assert (Erm : exists w4, rmdir_up (rev (parents_of dst)) o w3 = (Some tt, w4) /\
                           w_fs w4 = w_fs w /\ w_clock w4 = w_clock w).
  { destruct (rev (parents_of dst)) as [|p l] eqn:Erev.
    - exists w3. split; [reflexivity|]. split; reflexivity.
    - assert (Hpar : parents_of dst = rev l ++ [p]).
      { rewrite <- (rev_involutive (parents_of dst)), Erev. reflexivity. }
      assert (Hp : p = dirname dst).
      { destruct (parents_of_chain rest) as [_ Hlast]. rewrite <- Habs in Hlast.
        rewrite Hlast, Hpar. symmetry. apply last_or_snoc. }
      assert (Hpd : lookup (w_fs w) p = Some NDir).
      { apply Hall. rewrite Hpar. apply in_or_app. right. left. reflexivity. }
      assert (Hroot : dst <> root_path).
      { intros E. rewrite E in Hpar. destruct (rev l); discriminate. }
      destruct (children_intro (w_fs w) p dst Hroot (eq_sym Hp) Hex) as [v Hv].
      cbn [rmdir_up]. rewrite (bind_some _ _ _ _ _ _ (k_rmdir_benign o w3 p H)).
      change (w_fs w3) with (w_fs w). unfold fs_rmdir. rewrite Hpd.
      destruct (children (w_fs w) p) as [|c cs] eqn:Ec; [destruct Hv|].
      cbn [fst snd]. eexists. split; [reflexivity|]. split; reflexivity. }
  destruct Erm as (w4 & E4 & F4 & C4).
  exists (mkW (w_fs w4) (w_n w4) (w_log w4) (w_clock w4) (w_tr w)).
  split; [|cbn [w_fs w_tr w_clock]; auto].
  unfold clean_up.
  rewrite (bind_some get_tr _ o w (w_tr w) w eq_refl).
  rewrite (bind_some (set_tr (tr_try tr_empty)) _ o w tt w3 eq_refl).
  assert (Erp : remove_empty_parents dst o w3 = (Some tt, w4)).
  { unfold remove_empty_parents, when_ok.
    rewrite (bind_some _ _ _ _ _ _ (is_ok_eq o w3)). exact E4. }
  rewrite (bind_some _ _ _ _ _ _ Erp). reflexivity.
Qed.

(* a name that exists (as anything) below directories *)
Definition taken (f : fs) (dst : str) : Prop :=
  lookup f dst <> None /\ forall d, In d (parents_of dst) -> lookup f d = Some NDir.

Lemma sync_file_taken o w dst src off i rest :
  benign o -> tr_ok (w_tr w) = true ->
  dst = ch_slash :: rest -> taken (w_fs w) dst ->
  lookup (w_fs w) src = Some (NFile i) -> f_readable (get_file (w_fs w) i) = true ->
  exists w', sync_file dst src off o w = (Some 0, w') /\
             w_fs w' = w_fs w /\ w_clock w' = w_clock w /\
             w_tr w' = tr_push (FStatic M_dst_exists) (w_tr w).
Proof.
  intros H Hok Habs [Hex Hall] Hsrc Hrd.
  destruct (create_parents_exist o w dst H Hok Hall) as (w1 & E1 & F1 & T1).
  assert (C1 : w_clock w1 = w_clock w).
  { unfold create_parents in E1. rewrite when_ok_true in E1 by exact Hok.
    exact (mkdir_all_clock o H _ _ _ _ E1). }
  unfold sync_file. rewrite when_ok_true by exact Hok.
  rewrite (bind_some _ _ _ _ _ _ E1).
  rewrite (bind_some _ _ _ _ _ _ (is_ok_eq o w1)). rewrite T1, Hok. cbn [negb].
  destruct (k_open_read_file o w1 src i H) as (w2 & E2 & F2 & T2); [rewrite F1; exact Hsrc | rewrite F1; exact Hrd|].
  assert (C2 : w_clock w2 = w_clock w1).
  { unfold k_open_read, k_open_gen in E2. rewrite sys_benign in E2 by exact H.
    apply (f_equal snd) in E2. cbn [snd] in E2. rewrite <- E2. reflexivity. }
  rewrite (bind_some _ _ _ _ _ _ E2).
  unfold k_open_excl, k_open_gen. unfold bind at 1. rewrite sys_benign by exact H.
  unfold fs_create_excl. rewrite F2, F1.
  destruct (lookup (w_fs w) dst) as [nd|] eqn:El; [|congruence]. cbn [fst snd].
  match goal with |- context [bind (throw_static M_dst_exists) _ o ?x] => set (w3 := x) end.
  unfold throw_static. rewrite (bind_some (throw (FStatic M_dst_exists)) _ o w3 tt
                                  (upd_tr (tr_push (FStatic M_dst_exists)) w3) eq_refl).
  set (w4 := upd_tr (tr_push (FStatic M_dst_exists)) w3).
  destruct (k_close_benign o w4 H) as (w5 & E5 & F5 & T5).
  assert (C5 : w_clock w5 = w_clock w4).
  { unfold k_close in E5. rewrite sys_unit_benign in E5 by exact H.
    apply (f_equal snd) in E5. cbn [snd] in E5. rewrite <- E5. reflexivity. }
  rewrite (bind_some _ _ _ _ _ _ E5).
  assert (F4 : w_fs w4 = w_fs w) by (cbn [w4 w3 upd_tr w_fs]; congruence).
  destruct (clean_up_nonempty o w5 dst rest H Habs) as (w6 & E6 & F6 & T6 & C6).
  { rewrite F5, F4, El. discriminate. }
  { intros d Hd. rewrite F5, F4. exact (Hall d Hd). }
  rewrite (bind_some _ _ _ _ _ _ E6). unfold ret_.
  exists w6. split; [reflexivity|]. split; [congruence|].
  split; [rewrite C6, C5; cbn [w4 w3 upd_tr w_clock]; congruence|].
  rewrite T6, T5. cbn [w4 w3 upd_tr w_tr]. rewrite T2, T1. reflexivity.
Qed.

(* ----- the copy loop steps over a taken name ----- *)

Lemma catch_other m m' pre o w :
  w_tr w = mkTr [FStatic m'] pre 0 -> msg_eqb m m' = false ->
  catch_static m o w = (Some false, w).
Proof.
  intros E Hm. unfold catch_static, bind, get_tr, set_tr, ret_. rewrite E.
  unfold tr_catch_static. cbn [t_post t_frames Nat.eqb]. rewrite Hm. rewrite <- E. rewrite w_eta. reflexivity.
Qed.

Lemma catch_same m pre o w :
  w_tr w = mkTr [FStatic m] pre 0 ->
  catch_static m o w = (Some true, mkW (w_fs w) (w_n w) (w_log w) (w_clock w) (mkTr [] pre 0)).
Proof.
  intros E. unfold catch_static, bind, get_tr, set_tr, ret_. rewrite E.
  unfold tr_catch_static. cbn [t_post t_frames t_pre Nat.eqb].
  assert (Hm : msg_eqb m m = true) by (destruct m; reflexivity). rewrite Hm. reflexivity.
Qed.

(* one taken name: no finally() on this path -- the try of the iteration stays open *)
Lemma file_store_skip o w cfg n sp src offp off ish i pre rest :
  benign o -> w_tr w = mkTr [] pre 0 ->
  current_path sp = ch_slash :: rest -> taken (w_fs w) (current_path sp) ->
  lookup (w_fs w) src = Some (NFile i) -> f_readable (get_file (w_fs w) i) = true ->
  exists w',
    file_store_loop (S n) sp src offp off ish cfg o w =
      file_store_loop n (increment sp) src offp off ish cfg o w' /\
    w_fs w' = w_fs w /\ w_clock w' = w_clock w /\ w_tr w' = mkTr [] (S pre) 0.
Proof.
  intros H Tw Habs Htaken Hsrc Hrd.
  cbn [file_store_loop].
  rewrite (bind_some _ _ _ _ _ _ (try_eq o w)).
  set (w1 := upd_tr tr_try w).
  assert (T1 : w_tr w1 = mkTr [] (S pre) 0) by (cbn [w1 upd_tr w_tr]; rewrite Tw; reflexivity).
  assert (Hok1 : tr_ok (w_tr w1) = true) by (rewrite T1; reflexivity).
  destruct (sync_file_taken o w1 (current_path sp) src off i rest H Hok1 Habs Htaken Hsrc Hrd)
    as (w2 & E2 & F2 & C2 & T2).
  rewrite T1 in T2. change (tr_push (FStatic M_dst_exists) (mkTr [] (S pre) 0))
                      with (mkTr [FStatic M_dst_exists] (S pre) 0) in T2.
  rewrite (bind_some _ _ _ _ _ _ E2).
  rewrite (bind_some _ _ _ _ _ _ (catch_other M_src_missing M_dst_exists (S pre) o w2 T2 eq_refl)). cbv iota.
  rewrite (bind_some _ _ _ _ _ _ (catch_other M_not_regular M_dst_exists (S pre) o w2 T2 eq_refl)). cbv iota.
  rewrite (bind_some _ _ _ _ _ _ (catch_other M_src_denied M_dst_exists (S pre) o w2 T2 eq_refl)). cbv iota.
  rewrite (bind_some _ _ _ _ _ _ (catch_same M_dst_exists (S pre) o w2 T2)). cbv iota.
  eexists. split; [reflexivity|]. cbn [w_fs w_clock w_tr].
  split; [exact F2|]. split; [exact C2 | reflexivity].
Qed.

(* k taken names in a row *)
Lemma file_store_skips o cfg src offp off ish i sp0 : benign o -> forall k fuel n w pre,
  k <= fuel -> w_tr w = mkTr [] pre 0 ->
  lookup (w_fs w) src = Some (NFile i) -> f_readable (get_file (w_fs w) i) = true ->
  (forall j, j < k -> (exists rest, current_path (CrashCopy.sp_at sp0 (n + j)) = ch_slash :: rest) /\
                       taken (w_fs w) (current_path (CrashCopy.sp_at sp0 (n + j)))) ->
  exists w',
    file_store_loop fuel (CrashCopy.sp_at sp0 n) src offp off ish cfg o w =
      file_store_loop (fuel - k) (CrashCopy.sp_at sp0 (n + k)) src offp off ish cfg o w' /\
    w_fs w' = w_fs w /\ w_clock w' = w_clock w /\ w_tr w' = mkTr [] (k + pre) 0.
Proof.
  intros H. induction k as [|k IH]; intros fuel n w pre Hfuel Tw Hsrc Hrd Hall.
  - exists w. rewrite Nat.sub_0_r, Nat.add_0_r. auto.
  - destruct fuel as [|fuel]; [lia|].
    destruct (Hall 0 ltac:(lia)) as [[rest Habs] Htk]. rewrite Nat.add_0_r in Habs, Htk.
    destruct (file_store_skip o w cfg fuel (CrashCopy.sp_at sp0 n) src offp off ish i pre rest
                H Tw Habs Htk Hsrc Hrd) as (w1 & E1 & F1 & C1 & T1).
    rewrite CrashCopy.sp_at_S in E1.
    destruct (IH fuel (S n) w1 (S pre)) as (w2 & E2 & F2 & C2 & T2).
    { lia. }
    { exact T1. }
    { rewrite F1. exact Hsrc. }
    { rewrite F1. exact Hrd. }
    { intros j Hj. rewrite F1. replace (S n + j) with (n + S j) by lia. apply Hall. lia. }
    exists w2. rewrite E1, E2. replace (S n + k) with (n + S k) by lia.
    split; [reflexivity|]. split; [congruence|]. split; [congruence|].
    rewrite T2. f_equal. lia.
Qed.

(* ----- the candidates of a store path, the fuel ----- *)

(* the j-th candidate name: version, version-1, version-2, ... before the extension *)
Definition cand (cfg : config) (cpl : nat) (now : Z) (p : str) (j : nat) : str :=
  current_path (CrashCopy.sp_at (sp_of cfg cpl now p) j).

Lemma cand_0 cfg cpl now p : cand cfg cpl now p 0 = store_name cfg cpl now p.
Proof. unfold cand. rewrite CrashCopy.sp_at_0. apply current_sp_of. Qed.

Lemma cand_pos cfg cpl now p j : 0 < j ->
  cand cfg cpl now p j =
  c_store_root cfg ++ ch_slash :: rel_of cpl p ++ ch_slash :: version_of cfg now
                   ++ ch_dash :: dec (N.of_nat j) ++ get_file_extension (rel_of cpl p).
Proof.
  intros Hj. unfold cand, current_path, CrashCopy.sp_at, sp_of, create_store_path.
  cbn [sp_base sp_ext sp_dups]. rewrite N.add_0_l.
  destruct (N.eqb_spec (N.of_nat j) 0) as [E|_]; [lia|].
  rewrite <- !app_assoc. cbn [app]. rewrite <- !app_assoc. reflexivity.
Qed.

Lemma cand_abs cfg cpl now p j :
  (exists r, c_store_root cfg = ch_slash :: r) -> exists r, cand cfg cpl now p j = ch_slash :: r.
Proof.
  intros [r Hr]. destruct j as [|j].
  - rewrite cand_0. apply store_name_abs. eauto.
  - rewrite cand_pos by lia. rewrite Hr. eexists. reflexivity.
Qed.

Lemma no_slash_ns s : existsb is_slash s = false -> CrashCopy.ns s.
Proof.
  unfold CrashCopy.ns. induction s as [|c s IH]; [reflexivity|]. cbn [existsb forallb].
  intros E. apply orb_false_iff in E. destruct E as [E1 E2]. rewrite E1, (IH E2). reflexivity.
Qed.

Lemma sp_of_shape cfg cpl now p :
  sp_of cfg cpl now p =
  mkSP ((c_store_root cfg ++ ch_slash :: rel_of cpl p) ++ ch_slash :: version_of cfg now)
       (get_file_extension (rel_of cpl p)) 0.
Proof. unfold sp_of, create_store_path. rewrite <- app_assoc. reflexivity. Qed.

(* THE FUEL of the copy loop is S (S (entries of the version directory)).  The
   candidates are distinct entries of that directory, so k of them being there
   means k <= entries: the loop never runs out before it reaches a free name *)
Lemma taken_fuel cfg cpl now p f k :
  existsb is_slash (version_of cfg now) = false ->
  (forall j, j < k -> lookup f (cand cfg cpl now p j) <> None) ->
  k <= dir_entry_count f (dirname (current_path (sp_of cfg cpl now p))).
Proof.
  intros Hv Hall. unfold cand in Hall. rewrite sp_of_shape in *.
  set (X := c_store_root cfg ++ ch_slash :: rel_of cpl p) in *.
  assert (HX : X <> []) by (unfold X; destruct (c_store_root cfg); discriminate).
  pose proof (no_slash_ns _ Hv) as Hns.
  pose proof (CrashCopy.extension_ns (rel_of cpl p)) as Hext.
  pose proof (CrashCopy.name_dirname X _ _ HX Hns Hext 0) as Hd. rewrite CrashCopy.sp_at_0 in Hd.
  rewrite Hd. unfold dir_entry_count.
  destruct (le_lt_dec k (length (children f X))) as [Hle|Hlt]; [exact Hle|]. exfalso.
  apply (CrashCopy.no_room X _ _ f HX Hns Hext _ eq_refl). intros n Hn. apply Hall. lia.
Qed.

(* ----- the copy loop: k taken names, then a free one ----- *)

(* what PassProofs.file_store_plain establishes, for the name dst *)
Record plain_store (dst : str) (b : str) (f f1 : fs) : Prop := {
  PS_dst : lookup f1 dst = Some (NFile (fs_next f));
  PS_bytes : f_bytes (get_file f1 (fs_next f)) = b;
  PS_par : forall d, In d (parents_of dst) -> lookup f1 d = Some NDir;
  PS_other : forall x, x <> dst -> ~ In x (parents_of dst) -> lookup f1 x = lookup f x;
  PS_exist : forall x, lookup f x <> None -> lookup f1 x = lookup f x;
  PS_files : forall j, j <> fs_next f -> get_file f1 j = get_file f j;
  PS_next : fs_next f1 = S (fs_next f);
  PS_nodup : keys_nodup f1
}.

(* [p] the queued path, [i] the inode of the source, [b] its content, [k] the
   number of candidate names that are taken *)
Record taken_ok (cfg : config) (cpl : nat) (oj : option journal) (qdir : str)
       (f : fs) (now : Z) (p : str) (i : nat) (b : str) (k : nat) : Prop := {
  TO_abs : prefixb [ch_slash] p = true;
  TO_last : is_slash (last p ch_dot) = false;
  TO_cpl : cpl <= length p;
  TO_vlen : length (version_of cfg now) <= name_max;
  TO_vslash : existsb is_slash (version_of cfg now) = false;
  TO_src : lookup f p = Some (NFile i);
  TO_file : get_file f i = mkFile b true;
  TO_ino : i < fs_next f;
  TO_root_abs : exists r, c_store_root cfg = ch_slash :: r;
  (* the candidates 0 .. k-1 exist, as files, directories or links; they are
     below directories and outside the queue directory *)
  TO_taken : forall j, j < k -> taken f (cand cfg cpl now p j);
  TO_taken_q : forall j, j < k -> Str.under qdir (cand cfg cpl now p j) = false;
  (* candidate k is free; the rest as in PassProofs.plain_ok, for that name *)
  TO_dst_free : lookup f (cand cfg cpl now p k) = None;
  TO_dst_par : forall d, In d (parents_of (cand cfg cpl now p k)) ->
                         lookup f d = Some NDir \/ lookup f d = None;
  TO_dst_q : Str.under qdir (cand cfg cpl now p k) = false;
  TO_off_free : lookup f (offset_name cfg cpl p) = None;
  TO_off_par : missing_errno (offset_name cfg cpl p) f = ENOENT;
  TO_off_ne : offset_name cfg cpl p <> cand cfg cpl now p k;
  TO_off_nin : ~ In (offset_name cfg cpl p) (parents_of (cand cfg cpl now p k));
  TO_off_dir : ~ In (cand cfg cpl now p k)
                    (dchain (length (offset_name cfg cpl p)) (offset_name cfg cpl p));
  TO_jfits : journal_fits oj (c_ev_stored cfg) now;
  TO_jino : forall jn, oj = Some jn -> j_ino jn <> i /\ j_ino jn < fs_next f
}.

(* the file system after the iteration *)
Record taken_post (cfg : config) (cpl : nat) (oj : option journal) (hname : str)
       (f f' : fs) (now : Z) (p : str) (b : str) (k : nat) : Prop := {
  (* (1) the new version is the k-th candidate, with the content of the source *)
  TP_dst : lookup f' (cand cfg cpl now p k) = Some (NFile (fs_next f));
  TP_bytes : f_bytes (get_file f' (fs_next f)) = b;
  TP_par : forall d, In d (parents_of (cand cfg cpl now p k)) -> lookup f' d = Some NDir;
  (* (2) none of the k taken names is touched (their inodes: TP_files) *)
  TP_taken : forall j, j < k -> lookup f' (cand cfg cpl now p j) = lookup f (cand cfg cpl now p j);
  (* (3) the head link is gone; every other name and inode as in PassProofs.step_post *)
  TP_head : lookup f' hname = None;
  TP_other : forall x, x <> cand cfg cpl now p k -> ~ In x (parents_of (cand cfg cpl now p k)) ->
                       x <> hname -> lookup f' x = lookup f x;
  TP_exist : forall x, x <> hname -> lookup f x <> None -> lookup f' x = lookup f x;
  TP_files : forall j, j <> fs_next f -> (forall jn, oj = Some jn -> j <> j_ino jn) ->
                       get_file f' j = get_file f j;
  TP_journal : forall jn, oj = Some jn ->
      f_bytes (get_file f' (j_ino jn)) =
        f_bytes (get_file f (j_ino jn)) ++ jline oj (c_ev_stored cfg) (rel_of cpl p) now /\
      f_readable (get_file f' (j_ino jn)) = f_readable (get_file f (j_ino jn));
  TP_next : fs_next f' = S (fs_next f)
}.

(* with no taken name this is PassProofs.step_post *)
Lemma taken_post_0 cfg cpl oj hname f f' now p b :
  taken_post cfg cpl oj hname f f' now p b 0 -> step_post cfg cpl oj hname f f' now p b.
Proof.
  intros [A1 A2 A3 _ A5 A6 A7 A8 A9 A10]. rewrite cand_0 in *. constructor; assumption.
Qed.

Lemma under_neq_join qdir k x :
  qdir <> root_path -> Str.under qdir x = false -> x <> join qdir (dec k).
Proof. intros Hq Hu. exact (proj1 (under_join_dec qdir k x Hq Hu)). Qed.

Theorem taken_names_iteration o w h rev fuel p t rest i b k :
  benign o -> tr_ok (w_tr w) = true ->
  t_post (w_tr w) = 0 ->                              (* no failed try is pending *)
  keys_nodup (w_fs w) ->
  QRel (h_q h) (w_fs w) ((p, 0%N, t) :: rest) ->
  (q_deb (h_q h) <= w_clock w - t)%Z ->
  occurs p rest = false ->
  taken_ok (h_cfg h) (h_cpl h) (h_journal h) (q_dir (h_q h)) (w_fs w) (w_clock w) p i b k ->
  exists w',
    handle_timeout_loop (S fuel) rev h o w =
      handle_timeout_loop fuel rev (set_q (popped p (h_q h)) h) o w' /\
    taken_post (h_cfg h) (h_cpl h) (h_journal h) (head_name (h_q h))
               (w_fs w) (w_fs w') (w_clock w) p b k /\
    QRel (popped p (h_q h)) (w_fs w') rest /\
    keys_nodup (w_fs w') /\
    (* no error -- but k tries stay open: see taken_trace_not_restored_refuted *)
    w_tr w' = mkTr [] (k + t_pre (w_tr w)) 0 /\
    w_clock w' = w_clock w.
Proof.
  intros H Hok Hpost Hnd HR Hdue Hocc TO.
  destruct TO as [Pabs Plast Pcpl Pvlen Pvslash Psrc Pfile Pino Prabs Ptaken Ptakenq Pfree Ppar Pq
                  Pofree Popar Pone Ponin Podir Pjfits Pjino].
  set (q := h_q h) in *. set (cfg := h_cfg h) in *. set (cpl := h_cpl h) in *.
  set (dst := cand cfg cpl (w_clock w) p k) in *.
  set (offp := offset_name cfg cpl p) in *.
  assert (Etr : w_tr w = mkTr [] (t_pre (w_tr w)) 0).
  { destruct (w_tr w) as [fr pre po]. unfold tr_ok in Hok. cbn [t_frames t_post t_pre] in *.
    destruct fr; [|discriminate]. subst po. reflexivity. }
  change 0%N with (meta_of false) in HR.
  destruct (file_head_iteration o w h rev fuel p false t rest (c_ev_stored cfg) k
              (plain_store dst b (w_fs w)) H Hok Hnd HR Hdue Hocc Pabs Plast Pcpl Pvlen Pvslash Pjfits)
    as (w' & f1 & E & HS & HPP & HR' & Hnd' & K' & C').
  { (* the copy phase *)
    intros wc Fc Cc Kc. fold cfg cpl offp.
    assert (Tc : w_tr wc = mkTr [] (t_pre (w_tr w)) 0) by (rewrite (proj2 Kc Hpost); exact Etr).
    exists 0%N, wc. change (N.to_nat 0) with 0.
    set (sp0 := sp_of cfg cpl (w_clock w) p).
    set (cnt := dir_entry_count (w_fs w) (dirname (current_path sp0))).
    assert (Hk : k <= cnt).
    { apply taken_fuel; [exact Pvslash|]. intros j Hj. exact (proj1 (Ptaken j Hj)). }
    destruct (file_store_skips o cfg p offp 0 false i sp0 H k (S (S cnt)) 0 wc (t_pre (w_tr w)))
      as (w1 & E1 & F1 & C1 & T1).
    { lia. }
    { exact Tc. }
    { rewrite Fc. exact Psrc. }
    { rewrite Fc, Pfile. reflexivity. }
    { intros j Hj. cbn [Nat.add]. split.
      - apply (cand_abs cfg cpl (w_clock w) p j Prabs).
      - rewrite Fc. exact (Ptaken j Hj). }
    rewrite CrashCopy.sp_at_0 in E1. cbn [Nat.add] in E1.
    replace (S (S cnt) - k) with (S (S cnt - k)) in E1 by lia.
    assert (Hok1 : tr_ok (w_tr w1) = true) by (rewrite T1; reflexivity).
    destruct (file_store_plain o w1 cfg (S cnt - k) (CrashCopy.sp_at sp0 k) p offp i b H Hok1)
      as (wd & Ed & Kd & Cd & Ld & Bd & Id & Od & Pd & Gd & Nd & NDd);
      try (lazymatch goal with
           | |- context [file_store_loop] => idtac
           | _ => fold (cand cfg cpl (w_clock w) p k); fold dst; rewrite ?F1, ?Fc; assumption
           end).
    { fold (cand cfg cpl (w_clock w) p k). apply cand_abs. exact Prabs. }
    fold (cand cfg cpl (w_clock w) p k) in Ld, Id, Od, Pd. fold dst in Ld, Id, Od, Pd.
    rewrite F1, Fc in Ld, Bd, Od, Pd, Gd, Nd, NDd.
    exists true, (CrashCopy.sp_at sp0 k), wd.
    split; [reflexivity|]. split; [exact Fc|]. split; [rewrite Tc; reflexivity|].
    split; [rewrite E1; exact Ed|].
    split.
    { split; [exact (tr_keep_ok _ _ Kd)|]. intros _.
      rewrite (proj2 Kd) by (rewrite T1; reflexivity). rewrite T1, Etr. reflexivity. }
    split; [congruence|].
    constructor; try assumption.
    - intros x Hx. apply Pd; [|exact Hx]. intros ->. exact (Hx Pfree).
    - exact (NDd Hnd). }
  { (* the copy phase keeps the queue *)
    intros f1 HS. constructor.
    - exact (PS_exist _ _ _ _ HS).
    - intros j Hj.
      destruct (under_join_dec (q_dir q) j dst (QR_nroot _ _ _ HR) Pq) as [A1 A2].
      rewrite (PS_other _ _ _ _ HS); [exact Hj | exact (fun X => A1 (eq_sym X)) | exact A2].
    - exact (PS_nodup _ _ _ _ HS). }
  exists w'. split; [exact E|].
  split; [|split; [exact HR'|]; split; [exact Hnd'|]; split; [|exact C']].
  2:{ rewrite (proj2 K' Hpost). rewrite Etr at 1. reflexivity. }
  destruct HS as [Sdst Sbytes Spar Sother Sexist Sfiles Snext Snd].
  destruct HPP as [Phead Pother Pfiles Pjournal Pnext].
  fold q cfg cpl dst offp in Phead, Pother, Pfiles, Pjournal, Pnext |- *.
  destruct (under_join_dec (q_dir q) (q_head q) dst (QR_nroot _ _ _ HR) Pq) as [Hhd Hhp].
  fold (head_name q) in Hhd, Hhp.
  constructor; fold dst.
  - rewrite Pother by exact Hhd. exact Sdst.
  - rewrite Pfiles; [exact Sbytes|]. intros jn Hj. destruct (Pjino jn Hj) as (_ & J2). lia.
  - intros d Hd. rewrite Pother; [exact (Spar d Hd)|]. intros ->. exact (Hhp Hd).
  - intros j Hj. rewrite Pother.
    + apply Sexist. exact (proj1 (Ptaken j Hj)).
    + apply under_neq_join; [exact (QR_nroot _ _ _ HR) | exact (Ptakenq j Hj)].
  - exact Phead.
  - intros x X1 X2 X3. rewrite (Pother x X3). exact (Sother x X1 X2).
  - intros x X1 X2. rewrite (Pother x X1). exact (Sexist x X2).
  - intros j J1 J2. rewrite (Pfiles j J2). exact (Sfiles j J1).
  - intros jn Hj. destruct (Pjournal jn Hj) as [A1 A2]. rewrite A1, A2.
    rewrite Sfiles; [split; reflexivity|]. destruct (Pjino jn Hj) as (_ & J2). lia.
  - rewrite Pnext. exact Snext.
Qed.
Print Assumptions taken_names_iteration.

(* the trace clause of the plain theorem cannot be kept: with k > 0 taken names
   the trace after the iteration is not the trace before *)
Corollary taken_trace_not_kept k t t' :
  0 < k -> t_post t = 0 -> t' = mkTr [] (k + t_pre t) 0 -> ~ tr_keep t t'.
Proof.
  intros Hk Hp -> [_ K]. specialize (K Hp). destruct t as [fr pre po]. cbn [t_pre] in K.
  injection K as _ K. lia.
Qed.

(* ====================================================================== *)
(* 9. checkers: the hypotheses can be decided by evaluation                *)
(* ====================================================================== *)

Ltac nxt H C := apply andb_true_iff in H; destruct H as [C H].

Definition dir_or_none (f : fs) (d : str) : bool :=
  match lookup f d with Some NDir | None => true | _ => false end.
Definition is_dirb (f : fs) (d : str) : bool :=
  match lookup f d with Some NDir => true | _ => false end.
Definition absentb (f : fs) (x : str) : bool :=
  match lookup f x with None => true | _ => false end.

Lemma dir_or_none_sound f l : forallb (dir_or_none f) l = true ->
  forall d, In d l -> lookup f d = Some NDir \/ lookup f d = None.
Proof.
  intros Hb d Hd. rewrite forallb_forall in Hb. specialize (Hb d Hd). unfold dir_or_none in Hb.
  destruct (lookup f d) as [[| |]|]; try discriminate; auto.
Qed.
Lemma is_dirb_sound f l : forallb (is_dirb f) l = true -> forall d, In d l -> lookup f d = Some NDir.
Proof.
  intros Hb d Hd. rewrite forallb_forall in Hb. specialize (Hb d Hd). unfold is_dirb in Hb.
  destruct (lookup f d) as [[| |]|]; try discriminate; auto.
Qed.
Lemma absentb_sound f x : absentb f x = true -> lookup f x = None.
Proof. unfold absentb. destruct (lookup f x); [discriminate | reflexivity]. Qed.
Lemma absb_sound s : prefixb [ch_slash] s = true -> exists r, s = ch_slash :: r.
Proof. intros Hb. apply prefixb_spec in Hb. destruct Hb as [r ->]. exists r. reflexivity. Qed.
Lemma not_mem_sound x l : negb (mem x l) = true -> ~ In x l.
Proof.
  intros Hb Hin. apply negb_true_iff in Hb. unfold mem in Hb.
  assert (Hex : existsb (str_eqb x) l = true)
    by (apply existsb_exists; exists x; split; [exact Hin | apply str_eqb_refl]).
  congruence.
Qed.
Lemma srcb_sound f p i :
  match lookup f p with Some (NFile k) => Nat.eqb k i | _ => false end = true ->
  lookup f p = Some (NFile i).
Proof.
  destruct (lookup f p) as [[|k|]|]; try discriminate. intros E. apply Nat.eqb_eq in E. congruence.
Qed.
Lemma fileb_sound f i b :
  str_eqb (f_bytes (get_file f i)) b = true -> f_readable (get_file f i) = true ->
  get_file f i = mkFile b true.
Proof.
  destruct (get_file f i) as [bs r]. cbn [f_bytes f_readable]. intros E ->.
  apply str_eqb_eq in E. congruence.
Qed.

Definition pos_isb (f : fs) (offp : str) (off : nat) : bool :=
  match lookup f offp with
  | None => Nat.eqb off 0
  | Some (NFile io) =>
      Nat.ltb 0 off && str_eqb (f_bytes (get_file f io)) (dec (N.of_nat off)) &&
      f_readable (get_file f io) && Nat.ltb io (fs_next f)
  | Some _ => false
  end.

Lemma pos_isb_sound f offp off : pos_isb f offp off = true -> pos_is f offp off.
Proof.
  unfold pos_isb, pos_is. destruct (lookup f offp) as [[|io|]|]; try discriminate.
  - intros Hb. right. nxt Hb C1. nxt C1 C2. nxt C2 C3.
    split; [apply Nat.ltb_lt; exact C3|]. exists io. split; [reflexivity|].
    split; [apply fileb_sound; assumption | apply Nat.ltb_lt; exact Hb].
  - intros Hb. left. apply Nat.eqb_eq in Hb. auto.
Qed.

Definition journalb (cfg : config) (oj : option journal) (f : fs) (now : Z) (i : nat)
           (extra : nat -> bool) : bool :=
  match oj with
  | None => true
  | Some jn =>
      match c_ev_stored cfg with None => true | Some _ => Nat.leb (length (ts_of jn now)) 255 end &&
      negb (Nat.eqb (j_ino jn) i) && Nat.ltb (j_ino jn) (fs_next f) && extra (j_ino jn)
  end.

Lemma journalb_sound cfg oj f now i extra :
  journalb cfg oj f now i extra = true ->
  journal_fits oj (c_ev_stored cfg) now /\
  forall jn, oj = Some jn -> j_ino jn <> i /\ j_ino jn < fs_next f /\ extra (j_ino jn) = true.
Proof.
  unfold journalb. destruct oj as [jn|].
  - intros Hb. nxt Hb C1. nxt C1 C2. nxt C2 C3. split.
    + intros jn' e Ej Ee. injection Ej as <-. rewrite Ee in C3. apply Nat.leb_le. exact C3.
    + intros jn' Ej. injection Ej as <-. apply negb_true_iff, Nat.eqb_neq in C2.
      split; [exact C2|]. split; [apply Nat.ltb_lt; exact C1 | exact Hb].
  - intros _. split; [intros jn e Ej; discriminate | intros jn Ej; discriminate].
Qed.

Definition hist_okb (cfg : config) (cpl : nat) (oj : option journal) (qdir : str)
           (f : fs) (now : Z) (p : str) (i : nat) (b : str) (off : nat) : bool :=
  let dst := store_name cfg cpl now p in
  let offp := offset_name cfg cpl p in
  prefixb [ch_slash] p && (negb (is_slash (last p ch_dot)) && (Nat.leb cpl (length p) &&
  (Nat.leb (length (version_of cfg now)) name_max && (negb (existsb is_slash (version_of cfg now)) &&
  (match lookup f p with Some (NFile k) => Nat.eqb k i | _ => false end &&
  (str_eqb (f_bytes (get_file f i)) b && (f_readable (get_file f i) && (Nat.ltb i (fs_next f) &&
  (prefixb [ch_slash] (c_store_root cfg) && (absentb f dst &&
  (forallb (dir_or_none f) (parents_of dst) && (negb (Str.under qdir dst) &&
  (Nat.leb off (length b) && (pos_isb f offp off &&
  (match lookup f offp with Some (NFile io) => negb (Nat.eqb io i) | _ => true end &&
  (prefixb [ch_slash] (c_offset_root cfg) &&
  (forallb (dir_or_none f) (parents_of offp) && (negb (Str.under qdir offp) &&
  (negb (mem offp (dst :: parents_of dst)) && (negb (mem dst (parents_of offp)) &&
  journalb cfg oj f now i
    (fun j => match lookup f offp with Some (NFile io) => negb (Nat.eqb j io) | _ => true end)
  )))))))))))))))))))).

Lemma hist_okb_sound cfg cpl oj qdir f now p i b off :
  hist_okb cfg cpl oj qdir f now p i b off = true -> hist_ok cfg cpl oj qdir f now p i b off.
Proof.
  unfold hist_okb. intros Hb.
  nxt Hb C1. nxt Hb C2. nxt Hb C3. nxt Hb C4. nxt Hb C5. nxt Hb C6. nxt Hb C7. nxt Hb C8.
  nxt Hb C9. nxt Hb C10. nxt Hb C11. nxt Hb C12. nxt Hb C13. nxt Hb C14. nxt Hb C15. nxt Hb C16.
  nxt Hb C17. nxt Hb C18. nxt Hb C19. nxt Hb C20. nxt Hb C21.
  destruct (journalb_sound _ _ _ _ _ _ Hb) as [J1 J2].
  constructor.
  - exact C1.
  - apply negb_true_iff. exact C2.
  - apply Nat.leb_le. exact C3.
  - apply Nat.leb_le. exact C4.
  - apply negb_true_iff. exact C5.
  - apply srcb_sound. exact C6.
  - apply fileb_sound; assumption.
  - apply Nat.ltb_lt. exact C9.
  - apply absb_sound. exact C10.
  - apply absentb_sound. exact C11.
  - apply dir_or_none_sound. exact C12.
  - apply negb_true_iff. exact C13.
  - apply Nat.leb_le. exact C14.
  - apply pos_isb_sound. exact C15.
  - intros io E. rewrite E in C16. apply negb_true_iff, Nat.eqb_neq in C16. exact C16.
  - apply absb_sound. exact C17.
  - apply dir_or_none_sound. exact C18.
  - apply negb_true_iff. exact C19.
  - intros E. apply not_mem_sound in C20. apply C20. left. symmetry. exact E.
  - intros Hin. apply not_mem_sound in C20. apply C20. right. exact Hin.
  - apply not_mem_sound. exact C21.
  - exact J1.
  - intros jn Ej. destruct (J2 jn Ej) as (A1 & A2 & A3). split; [exact A1|]. split; [exact A2|].
    intros io E. rewrite E in A3. apply negb_true_iff, Nat.eqb_neq in A3. exact A3.
Qed.

Definition takenb (f : fs) (qdir : str) (x : str) : bool :=
  negb (absentb f x) && forallb (is_dirb f) (parents_of x) && negb (Str.under qdir x).

Definition taken_okb (cfg : config) (cpl : nat) (oj : option journal) (qdir : str)
           (f : fs) (now : Z) (p : str) (i : nat) (b : str) (k : nat) : bool :=
  let dst := cand cfg cpl now p k in
  let offp := offset_name cfg cpl p in
  prefixb [ch_slash] p && (negb (is_slash (last p ch_dot)) && (Nat.leb cpl (length p) &&
  (Nat.leb (length (version_of cfg now)) name_max && (negb (existsb is_slash (version_of cfg now)) &&
  (match lookup f p with Some (NFile k) => Nat.eqb k i | _ => false end &&
  (str_eqb (f_bytes (get_file f i)) b && (f_readable (get_file f i) && (Nat.ltb i (fs_next f) &&
  (prefixb [ch_slash] (c_store_root cfg) &&
  (forallb (fun j => takenb f qdir (cand cfg cpl now p j)) (seq 0 k) &&
  (absentb f dst && (forallb (dir_or_none f) (parents_of dst) && (negb (Str.under qdir dst) &&
  (absentb f offp &&
  (match missing_errno offp f with ENOENT => true | _ => false end &&
  (negb (mem offp (dst :: parents_of dst)) &&
  (negb (mem dst (dchain (length offp) offp)) &&
  journalb cfg oj f now i (fun _ => true)))))))))))))))))).

Lemma taken_okb_sound cfg cpl oj qdir f now p i b k :
  taken_okb cfg cpl oj qdir f now p i b k = true -> taken_ok cfg cpl oj qdir f now p i b k.
Proof.
  unfold taken_okb. intros Hb.
  nxt Hb C1. nxt Hb C2. nxt Hb C3. nxt Hb C4. nxt Hb C5. nxt Hb C6. nxt Hb C7. nxt Hb C8.
  nxt Hb C9. nxt Hb C10. nxt Hb C11. nxt Hb C12. nxt Hb C13. nxt Hb C14. nxt Hb C15. nxt Hb C16.
  nxt Hb C17. nxt Hb C18.
  destruct (journalb_sound _ _ _ _ _ _ Hb) as [J1 J2].
  assert (Htk : forall j, j < k -> takenb f qdir (cand cfg cpl now p j) = true).
  { intros j Hj. rewrite forallb_forall in C11. apply C11. apply in_seq. lia. }
  constructor.
  - exact C1.
  - apply negb_true_iff. exact C2.
  - apply Nat.leb_le. exact C3.
  - apply Nat.leb_le. exact C4.
  - apply negb_true_iff. exact C5.
  - apply srcb_sound. exact C6.
  - apply fileb_sound; assumption.
  - apply Nat.ltb_lt. exact C9.
  - apply absb_sound. exact C10.
  - intros j Hj. specialize (Htk j Hj). unfold takenb in Htk. nxt Htk T1. nxt T1 T2. split.
    + unfold absentb in T2. destruct (lookup f (cand cfg cpl now p j)); [discriminate | discriminate T2].
    + apply is_dirb_sound. exact T1.
  - intros j Hj. specialize (Htk j Hj). unfold takenb in Htk. nxt Htk T1.
    apply negb_true_iff. exact Htk.
  - apply absentb_sound. exact C12.
  - apply dir_or_none_sound. exact C13.
  - apply negb_true_iff. exact C14.
  - apply absentb_sound. exact C15.
  - destruct (missing_errno (offset_name cfg cpl p) f); try discriminate; reflexivity.
  - intros E. apply not_mem_sound in C17. apply C17. left. symmetry. exact E.
  - intros Hin. apply not_mem_sound in C17. apply C17. right. exact Hin.
  - apply not_mem_sound. exact C18.
  - exact J1.
  - intros jn Ej. destruct (J2 jn Ej) as (A1 & A2 & _). split; assumption.
Qed.

(* the numeric names of a directory are free when no name at all is below it *)
Lemma free_under f d :
  d <> root_path ->
  forallb (fun e => negb (Str.under d (fst e))) (fs_dents f) = true ->
  forall k, lookup f (join d (dec k)) = None.
Proof.
  intros Hd Hb k. rewrite lookup_nonroot by (apply join_dec_nonroot; exact Hd).
  destruct (alookup (join d (dec k)) (fs_dents f)) as [v|] eqn:E; [|reflexivity]. exfalso.
  apply alookup_in in E. rewrite forallb_forall in Hb. specialize (Hb _ E). cbn [fst] in Hb.
  rewrite (under_join d (dec k) Hd) in Hb. discriminate.
Qed.

(* ====================================================================== *)
(* 10. a concrete world                                                   *)
(* ====================================================================== *)

Module Pass2Example.
  Local Open Scope char_scope.

  Definition p_q : str := ["/"; "q"].
  Definition p_s : str := ["/"; "s"].
  Definition p_st : str := ["/"; "s"; "t"].
  Definition p_off : str := ["/"; "o"; "f"; "f"].
  Definition p_j : str := ["/"; "j"].
  Definition p_h : str := ["/"; "s"; "/"; "h"; "."; "l"; "o"; "g"].
  Definition p_c : str := ["/"; "s"; "/"; "c"; "."; "t"; "x"; "t"].
  Definition ab : str := ["a"; "b"].
  Definition cde : str := ["c"; "d"; "e"].
  Definition abcde : str := ["a"; "b"; "c"; "d"; "e"].
  Definition hello : str := ["h"; "e"; "l"; "l"; "o"].
  Definition old : str := ["o"; "l"; "d"; "010"].
  Definition stored : str := ["s"; "t"; "o"; "r"; "e"; "d"].

  (* store /st, positions /off, versions "v<seconds>", debounce 5 s, journal /j (inode 1) *)
  Definition cfg0 : config :=
    mkCfg [] (mkRules [] [] [] [] [] []) p_st ["/"; "p"] ["/"; "u"] p_q (Some p_j) p_off
          ["%"; "s"] ["v"; "%"; "s"] 5%Z 0 16 None None None None None None (Some stored).
  Definition jn0 : journal := mkJ 1 ["%"; "s"].

  (* /s/h.log (inode 2, "ab") is a history file, /s/c.txt (inode 3) a plain one *)
  Definition fs0 : fs :=
    mkFs [ (p_q, NDir); (p_s, NDir); (p_j, NFile 1); (p_h, NFile 2); (p_c, NFile 3) ]
         [ (1, mkFile old true); (2, mkFile ab true); (3, mkFile hello true) ] 4.

  Definition qE : qmem := mkQ p_q 0 0 5%Z 16 [].
  Definition o2 : oracle := PassExample.o2.          (* at most 2 bytes per transfer *)
  Definition o2_benign : benign o2 := PassExample.o2_benign.

  Ltac free_names := apply free_under; [discriminate | vm_compute; reflexivity].

  (* ---------- the history file, stored twice with an append in between ---------- *)

  (* the write of "ab" was seen at 10 s (metadata 2: history); it is now 100 s *)
  Definition q1 : qmem := pushed p_h qE.
  Definition f1 : fs := add_dent (next_name qE) (NLink (encode 2 p_h) 10%Z) fs0.
  Definition h1 : handler := mkH cfg0 None 3 q1 (Some jn0) [] [].
  Definition w1 : world := mkW f1 0 [] 100%Z tr_empty.
  Definition st1 : stage := mkSt h1 w1 false 10%Z [] ab.

  (* what the first pass leaves (2-byte transfers) ... *)
  Definition fA : fs := Eval vm_compute in w_fs (snd (handle_timeout false h1 o2 w1)).
  (* ... then "cde" is appended, the write is seen at 150 s; it is now 200 s *)
  Definition f2 : fs := add_dent (next_name qE) (NLink (encode 2 p_h) 150%Z) (fs_append 2 cde fA).
  Definition w2 : world := mkW f2 0 [] 200%Z tr_empty.
  Definition st2 : stage := mkSt h1 w2 false 150%Z [] abcde.

  Definition v1 : str := p_st ++ ["/"; "h"; "."; "l"; "o"; "g"; "/"; "v"; "1"; "0"; "0"; "."; "l"; "o"; "g"].
  Definition v2 : str := p_st ++ ["/"; "h"; "."; "l"; "o"; "g"; "/"; "v"; "2"; "0"; "0"; "."; "l"; "o"; "g"].
  Definition offh : str := p_off ++ ["/"; "h"; "."; "l"; "o"; "g"].

  Example names :
    store_name cfg0 3 100 p_h = v1 /\ store_name cfg0 3 200 p_h = v2 /\ offset_name cfg0 3 p_h = offh /\
    linq_meta true None = 2%N.
  Proof. repeat split; vm_compute; reflexivity. Qed.

  (* direct evaluation: the second version is the appended slice, the position
     file goes from "2" to "5", the first version is untouched *)
  Example run_history_o2 :
    match handle_timeout false h1 o2 w1 with
    | (Some (TPause z, h'), w') =>
        z = (-1)%Z /\ h_q h' = qE /\ w_fs w' = fA /\
        lookup fA v1 = Some (NFile 4) /\ get_file fA 4 = mkFile ab true /\
        lookup fA offh = Some (NFile 5) /\ get_file fA 5 = mkFile ["2"] true /\
        fs_next fA = 6 /\ lookup fA (join p_q (dec 0)) = None /\ w_tr w' = tr_empty
    | _ => False
    end /\
    match handle_timeout false h1 o2 w2 with
    | (Some (TPause z, h'), w') =>
        z = (-1)%Z /\ h_q h' = qE /\
        lookup (w_fs w') v2 = Some (NFile 6) /\ get_file (w_fs w') 6 = mkFile cde true /\
        lookup (w_fs w') v1 = Some (NFile 4) /\ get_file (w_fs w') 4 = mkFile ab true /\
        lookup (w_fs w') offh = Some (NFile 5) /\ get_file (w_fs w') 5 = mkFile ["5"] true /\
        get_file (w_fs w') 2 = mkFile abcde true /\
        fs_next (w_fs w') = 7 /\ w_tr w' = tr_empty /\
        f_bytes (get_file (w_fs w') 4) ++ f_bytes (get_file (w_fs w') 6) = f_bytes (get_file (w_fs w') 2)
    | _ => False
    end.
  Proof. vm_compute. repeat split; reflexivity. Qed.

  Lemma rel1 : QRel q1 f1 [(p_h, 2%N, 10%Z)].
  Proof.
    assert (R0 : QRel qE fs0 []) by (apply QRel_empty; [discriminate | reflexivity | free_names]).
    apply (QRel_push qE fs0 [] p_h 2%N 10%Z R0);
      [apply normalb_spec; reflexivity | apply PassExample.fits16; reflexivity].
  Qed.

  Lemma rel2 : QRel q1 f2 [(p_h, 2%N, 150%Z)].
  Proof.
    assert (R0 : QRel qE (fs_append 2 cde fA) [])
      by (apply QRel_empty; [discriminate | reflexivity | free_names]).
    apply (QRel_push qE _ [] p_h 2%N 150%Z R0);
      [apply normalb_spec; reflexivity | apply PassExample.fits16; reflexivity].
  Qed.

  Ltac nodup_dents :=
    unfold keys_nodup; vm_compute;
    repeat (constructor; [let Hin := fresh in intros Hin; cbn [In] in Hin;
                          repeat (destruct Hin as [Hin|Hin]; [discriminate Hin|]); exact Hin|]);
    constructor.

  (* the hypotheses of the theorems hold: first pass, nothing remembered; second
     pass, position 2 *)
  Example ready1 : ready p_h 2 0 st1.
  Proof.
    unfold ready. cbn [st1 s_h s_w s_t s_rest s_b]. cbv zeta.
    split; [reflexivity|]. split; [nodup_dents|]. split; [exact rel1|].
    split; [vm_compute; discriminate|]. split; [reflexivity|]. split; [exact I|].
    apply hist_okb_sound. vm_compute. reflexivity.
  Qed.

  Example ready2 : ready p_h 2 2 st2.
  Proof.
    unfold ready. cbn [st2 s_h s_w s_t s_rest s_b]. cbv zeta.
    split; [reflexivity|]. split; [nodup_dents|]. split; [exact rel2|].
    split; [vm_compute; discriminate|]. split; [reflexivity|]. split; [exact I|].
    apply hist_okb_sound. vm_compute. reflexivity.
  Qed.

  (* history_head_iteration / handle_timeout_one_history_head on the second pass,
     for every benign oracle: the version is the slice, the position becomes 5 *)
  Example second_pass_by_theorem o : benign o ->
    exists w',
      handle_timeout false h1 o w2 = (Some (TPause (-1), set_q qE h1), w') /\
      lookup (w_fs w') v2 = Some (NFile 6) /\ f_bytes (get_file (w_fs w') 6) = cde /\
      lookup (w_fs w') v1 = Some (NFile 4) /\ get_file (w_fs w') 4 = mkFile ab true /\
      pos_is (w_fs w') offh 5 /\ lookup (w_fs w') offh = Some (NFile 5) /\
      lookup (w_fs w') (join p_q (dec 0)) = None /\
      QRel qE (w_fs w') [] /\ w_tr w' = tr_empty.
  Proof.
    intros H. destruct ready2 as (A1 & A2 & A3 & A4 & A5 & A6 & A7).
    destruct (handle_timeout_one_history_head o false h1 w2 p_h 150%Z [] 2 abcde 2 H A1 A2 A3 A4 A5 A6 A7)
      as (w' & E & HP & HR & _ & _ & T & _).
    exists w'. split; [exact E|].
    destruct names as (N1 & N2 & N3 & _).
    destruct HP as [Pdst Pbytes _ Ppos Pposino _ Phead _ _ Pexist Pfiles _ _].
    change (h_cfg h1) with cfg0 in *. change (h_cpl h1) with 3 in *.
    change (w_clock w2) with 200%Z in *. change (w_fs w2) with f2 in *.
    rewrite N2 in Pdst. rewrite N3 in Ppos, Pposino, Pfiles.
    assert (Ef : fs_next f2 = 6) by reflexivity. rewrite Ef in *.
    assert (Lo : lookup f2 offh = Some (NFile 5)) by (vm_compute; reflexivity).
    assert (Lo' : lookup (w_fs w') offh = Some (NFile 5)).
    { rewrite Pexist; [exact Lo | | congruence]. intros X. rewrite X in Lo. vm_compute in Lo. discriminate. }
    split; [exact Pdst|]. split; [exact Pbytes|].
    split.
    { rewrite Pexist; [vm_compute; reflexivity | | vm_compute; discriminate].
      intros X. vm_compute in X. discriminate. }
    split.
    { rewrite Pfiles; [vm_compute; reflexivity | lia | |].
      - intros io Hio. rewrite Lo' in Hio. injection Hio as <-. lia.
      - intros jn Ej. injection Ej as <-. cbn [j_ino jn0]. lia. }
    split; [exact Ppos|]. split; [exact Lo'|]. split; [exact Phead|].
    split; [exact HR|]. apply T. reflexivity.
  Qed.

  (* history_head_iteration on the first pass, for every benign oracle: nothing
     was remembered, the version is the whole file, the position file appears
     (inode 5, right after the version) and holds "2" *)
  Example first_iteration_by_theorem o : benign o ->
    exists w',
      handle_timeout_loop 3 false h1 o w1 = handle_timeout_loop 2 false (set_q qE h1) o w' /\
      lookup (w_fs w') v1 = Some (NFile 4) /\ f_bytes (get_file (w_fs w') 4) = ab /\
      pos_is (w_fs w') offh 2 /\ fs_next (w_fs w') = 6 /\
      QRel qE (w_fs w') [] /\ w_tr w' = tr_empty.
  Proof.
    intros H. destruct ready1 as (A1 & A2 & A3 & A4 & A5 & _ & A7).
    destruct (history_head_iteration o w1 h1 false 2 p_h 10%Z [] 2 ab 0 H A1 A2 A3 A4 A5 A7)
      as (w' & E & HP & HR & _ & K & _).
    exists w'. split; [exact E|].
    destruct names as (N1 & N2 & N3 & _).
    destruct HP as [Pdst Pbytes _ Ppos _ _ _ _ _ _ _ _ Pnext].
    change (h_cfg h1) with cfg0 in *. change (h_cpl h1) with 3 in *.
    change (w_clock w1) with 100%Z in *. change (w_fs w1) with f1 in *.
    rewrite N1 in Pdst. rewrite N3 in Ppos, Pnext.
    split; [exact Pdst|]. split; [exact Pbytes|]. split; [exact Ppos|].
    split; [rewrite Pnext; vm_compute; reflexivity|].
    split; [exact HR|]. apply (proj2 K). reflexivity.
  Qed.

  (* an EMPTY history file: an empty version is made, no position file appears *)
  Definition fE : fs :=
    add_dent (next_name qE) (NLink (encode 2 p_h) 10%Z)
      (mkFs [ (p_q, NDir); (p_s, NDir); (p_j, NFile 1); (p_h, NFile 2) ]
            [ (1, mkFile old true); (2, mkFile [] true) ] 3).
  Definition wE : world := mkW fE 0 [] 100%Z tr_empty.

  Example empty_history :
    hist_ok cfg0 3 (Some jn0) p_q fE 100 p_h 2 [] 0 /\
    match handle_timeout false h1 o2 wE with
    | (Some (TPause z, _), w') =>
        lookup (w_fs w') v1 = Some (NFile 3) /\ get_file (w_fs w') 3 = mkFile [] true /\
        lookup (w_fs w') offh = None /\ lookup (w_fs w') p_off = None /\ fs_next (w_fs w') = 4 /\
        w_tr w' = tr_empty
    | _ => False
    end.
  Proof.
    split; [apply hist_okb_sound; vm_compute; reflexivity|].
    vm_compute. repeat split; reflexivity.
  Qed.

  (* the two passes form a chain, whatever the (benign) oracle *)
  Example chain_holds o : benign o -> hist_chain o p_h 2 0 [] [st1; st2] (w_fs (after o st2)).
  Proof.
    intros H. apply HC_cons.
    - exact ready1.
    - constructor.
    - (* between the passes: the version of the first pass is in f2 *)
      intros v [<-|[]] _. unfold version_in, made. cbn [v_name v_ino v_bytes].
      split; [vm_compute; reflexivity|]. split; [vm_compute; reflexivity|].
      change (fs_next (w_fs (s_w st1))) with 4. change (fs_next (w_fs (s_w st2))) with 6. lia.
    - apply HC_last.
      + exact ready2.
      + constructor; [|constructor]. unfold apart, made. cbn [v_ino].
        change (fs_next (w_fs (s_w st1))) with 4. split.
        * intros jn Ej. injection Ej as <-. cbn [j_ino jn0]. lia.
        * intros io Hio. vm_compute in Hio. injection Hio as <-. lia.
  Qed.

  (* C08 through the pass *)
  Example concat_by_theorem o : benign o ->
    let final := w_fs (after o st2) in
    version_in final (mkV v1 4 ab) /\ version_in final (mkV v2 6 cde) /\
    ab ++ cde = abcde.
  Proof.
    intros H. cbv zeta.
    destruct (history_versions_concatenate o p_h 2 [st1; st2] _ H (chain_holds o H))
      as (_ & V & B & C).
    assert (Ev : versions p_h 0 [st1; st2] = [mkV v1 4 ab; mkV v2 6 cde]) by (vm_compute; reflexivity).
    rewrite Ev in V, C. inversion V as [|? ? V1 V']; subst. inversion V' as [|? ? V2 _]; subst.
    split; [exact V1|]. split; [exact V2|].
    cbn [map v_bytes concat] in C. rewrite app_nil_r in C. rewrite C; [reflexivity|].
    cbn [map st1 st2 s_b].
    constructor; [exists ab; reflexivity|]. constructor; [exists cde; reflexivity|]. constructor.
  Qed.

  (* ---------- a plain file, two candidate names taken ---------- *)

  Definition d_c : str := p_st ++ ["/"; "c"; "."; "t"; "x"; "t"].
  Definition c0 : str := d_c ++ ["/"; "v"; "1"; "0"; "0"; "."; "t"; "x"; "t"].
  Definition c1 : str := d_c ++ ["/"; "v"; "1"; "0"; "0"; "-"; "1"; "."; "t"; "x"; "t"].
  Definition c2 : str := d_c ++ ["/"; "v"; "1"; "0"; "0"; "-"; "2"; "."; "t"; "x"; "t"].

  (* v100.txt is there as a file (inode 4), v100-1.txt as a directory *)
  Definition fT : fs :=
    mkFs [ (p_q, NDir); (p_s, NDir); (p_j, NFile 1); (p_h, NFile 2); (p_c, NFile 3);
           (p_st, NDir); (d_c, NDir); (c0, NFile 4); (c1, NDir) ]
         [ (1, mkFile old true); (2, mkFile ab true); (3, mkFile hello true); (4, mkFile ["x"] true) ] 5.
  Definition qT : qmem := pushed p_c qE.
  Definition fT1 : fs := add_dent (next_name qE) (NLink (encode 0 p_c) 10%Z) fT.
  Definition hT : handler := mkH cfg0 None 3 qT (Some jn0) [] [].
  Definition wT : world := mkW fT1 0 [] 100%Z tr_empty.

  Example cands :
    cand cfg0 3 100 p_c 0 = c0 /\ cand cfg0 3 100 p_c 1 = c1 /\ cand cfg0 3 100 p_c 2 = c2 /\
    Nat.iter 2 increment (sp_of cfg0 3 100 p_c) = CrashCopy.sp_at (sp_of cfg0 3 100 p_c) 2.
  Proof. repeat split; vm_compute; reflexivity. Qed.

  Example run_taken_o2 :
    match handle_timeout false hT o2 wT with
    | (Some (TPause z, h'), w') =>
        z = (-1)%Z /\ h_q h' = qE /\
        lookup (w_fs w') c2 = Some (NFile 5) /\ get_file (w_fs w') 5 = mkFile hello true /\
        lookup (w_fs w') c0 = Some (NFile 4) /\ get_file (w_fs w') 4 = mkFile ["x"] true /\
        lookup (w_fs w') c1 = Some NDir /\
        fs_next (w_fs w') = 6 /\ lookup (w_fs w') (join p_q (dec 0)) = None /\
        (* no error, but two tries are still open *)
        w_tr w' = mkTr [] 2 0
    | _ => False
    end.
  Proof. vm_compute. repeat split; reflexivity. Qed.

  Lemma relT : QRel qT fT1 [(p_c, 0%N, 10%Z)].
  Proof.
    assert (R0 : QRel qE fT []) by (apply QRel_empty; [discriminate | reflexivity | free_names]).
    apply (QRel_push qE fT [] p_c 0%N 10%Z R0);
      [apply normalb_spec; reflexivity | apply PassExample.fits16; reflexivity].
  Qed.

  Example taken_hyps :
    keys_nodup (w_fs wT) /\ QRel (h_q hT) (w_fs wT) [(p_c, 0%N, 10%Z)] /\
    taken_ok (h_cfg hT) (h_cpl hT) (h_journal hT) (q_dir (h_q hT)) (w_fs wT) (w_clock wT) p_c 3 hello 2.
  Proof.
    split; [nodup_dents|]. split; [exact relT|].
    apply taken_okb_sound. vm_compute. reflexivity.
  Qed.

  (* taken_names_iteration, for every benign oracle *)
  Example taken_by_theorem o : benign o ->
    exists w',
      handle_timeout_loop 3 false hT o wT = handle_timeout_loop 2 false (set_q qE hT) o w' /\
      lookup (w_fs w') c2 = Some (NFile 5) /\ f_bytes (get_file (w_fs w') 5) = hello /\
      lookup (w_fs w') c0 = Some (NFile 4) /\ get_file (w_fs w') 4 = mkFile ["x"] true /\
      lookup (w_fs w') c1 = Some NDir /\
      QRel qE (w_fs w') [] /\
      w_tr w' = mkTr [] 2 0.
  Proof.
    intros H. destruct taken_hyps as (A1 & A2 & A3).
    destruct (taken_names_iteration o wT hT false 2 p_c 10%Z [] 3 hello 2 H eq_refl eq_refl A1 A2)
      as (w' & E & TP & HR & _ & T & _).
    { vm_compute. discriminate. }
    { reflexivity. }
    { exact A3. }
    exists w'. split; [exact E|].
    destruct cands as (N0 & N1 & N2 & _).
    destruct TP as [Pdst Pbytes _ Ptaken _ _ _ Pfiles _ _].
    change (h_cfg hT) with cfg0 in *. change (h_cpl hT) with 3 in *.
    change (w_clock wT) with 100%Z in *. change (w_fs wT) with fT1 in *.
    rewrite N2 in Pdst. pose proof (Ptaken 0 ltac:(lia)) as T0. pose proof (Ptaken 1 ltac:(lia)) as T1.
    rewrite N0 in T0. rewrite N1 in T1.
    split; [exact Pdst|]. split; [exact Pbytes|].
    split; [rewrite T0; vm_compute; reflexivity|].
    split.
    { rewrite Pfiles; [vm_compute; reflexivity | vm_compute; lia |].
      intros jn Ej. injection Ej as <-. cbn [j_ino jn0]. lia. }
    split; [rewrite T1; vm_compute; reflexivity|].
    split; [exact HR | exact T].
  Qed.

  (* "tr_keep (w_tr w) (w_tr w')" -- the trace clause of PassProofs.plain_head_iteration
     and of handle_timeout_one_plain_head -- is FALSE as soon as one name is taken:
     the pass starts with the empty trace (depth 0) and ends, without error, at
     depth 2.  handler.c: the `continue` after catch_static(destination_already_exists)
     skips finally(). *)
  Example taken_trace_not_restored_refuted :
    tr_ok (w_tr wT) = true /\ t_post (w_tr wT) = 0 /\
    match handle_timeout false hT no_faults wT with
    | (Some (TPause _, _), w') =>
        tr_ok (w_tr w') = true /\ t_pre (w_tr w') = 2 /\ ~ tr_keep (w_tr wT) (w_tr w')
    | _ => False
    end.
  Proof.
    split; [reflexivity|]. split; [reflexivity|]. vm_compute.
    split; [reflexivity|]. split; [reflexivity|]. intros [_ K]. specialize (K eq_refl). discriminate K.
  Qed.
End Pass2Example.

Print Assumptions Pass2Example.run_history_o2.
Print Assumptions Pass2Example.ready1.
Print Assumptions Pass2Example.ready2.
Print Assumptions Pass2Example.second_pass_by_theorem.
Print Assumptions Pass2Example.first_iteration_by_theorem.
Print Assumptions Pass2Example.empty_history.
Print Assumptions Pass2Example.chain_holds.
Print Assumptions Pass2Example.concat_by_theorem.
Print Assumptions Pass2Example.run_taken_o2.
Print Assumptions Pass2Example.taken_hyps.
Print Assumptions Pass2Example.taken_by_theorem.
Print Assumptions Pass2Example.taken_trace_not_restored_refuted.
Print Assumptions pass_leaves_position.
Print Assumptions taken_trace_not_kept.
Print Assumptions taken_fuel.
Print Assumptions hist_okb_sound.
Print Assumptions taken_okb_sound.
