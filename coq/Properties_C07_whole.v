(* C07 for the WHOLE PROGRAM Klunok.klunok env cfg rev ns (start-up of
   Main.main, the REAL load_handler, then Daemon.daemon_loop): load_handler
   starts with no marks and no loaders; at every loop head a pid is marked
   exactly when the property's wording calls the process an editor, and the
   property's last sentence holds of the next write notification.
     loaded env cfg o w = Some (h, w1)   start-up succeeded and load_handler
                                         built h, leaving world w1 (KlunokProofs)
     startup_cfg_path env                the -c path start-up hands to load_handler
   Proofs in KlunokLifts.v (from DaemonProofs.daemon_tracks_attribution,
   daemon_non_editor_never_queued, daemon_editor_always_queued). *)
From K Require Import Str Dec Trace Fs World Progs Elf Sieve SieveSpec Handler Linq LinqSpec LinqProofs
     Hoare Confine Confine2 SyncProofs AbandonProofs JournalProofs QueueProofs StoreFs StoreLogic StoreProofs
     FdProofs PassProofs JournalHistoryProofs AcceptProofs ReloadProofs AttrProofs ReloadHistory MixedHistory
     Main MainProofs Daemon DaemonProofs Klunok KlunokProofs WholeResources KlunokLifts.
Local Open Scope N_scope.

(* the handler load_handler returns has no marks and no loaders (every oracle) *)
Theorem C07_whole_load_handler_fresh :
  forall (o : oracle) (w : world) (cfg : config) (cp : option str) (cpl : nat) (h : handler) (w' : world),
  load_handler cfg cp cpl o w = (Some (Some h), w') ->
  h_pids h = [] /\ h_interps h = [].
Proof. exact load_handler_fresh. Qed.
Print Assumptions C07_whole_load_handler_fresh.

(* an exit-free whole run has a [loaded] handler, and its loop ran from it *)
Theorem C07_whole_run_loaded :
  forall (env : Main.env) (cfg : config) (rev : bool) (ns : list notif)
         (o : oracle) (w : world) (outs : list out) (w' : world),
  klunok env cfg rev ns o w = (Some outs, w') -> no_exit outs ->
  exists h w1 outs2 h',
    loaded env cfg o w = Some (h, w1) /\
    daemon_loop (e_self env) rev ns 0%Z h o w1 = (Some (outs2, h'), w').
Proof. exact klunok_run_loaded. Qed.
Print Assumptions C07_whole_run_loaded.

(* marks and loaders at any loop head of the whole program (whatever happens
   after that loop head) *)
Theorem C07_whole_heads_track_attribution :
  forall (env : Main.env) (cfg : config) (rev : bool) (pre_ns : list notif)
         (o : oracle) (w : world) (h : handler) (w1 : world) (zp : Z) (hp : handler) (wp : world),
  benign o ->
  loaded env cfg o w = Some (h, w1) ->
  envs_ok pre_ns -> no_cfg_event (startup_cfg_path env) pre_ns ->
  daemon_state (e_self env) rev o pre_ns 0%Z h w1 = Some (zp, hp, wp) ->
  (forall pid : N, pid_mem pid (h_pids hp) =
                   is_editor_at (c_editors cfg) (events_along (e_self env) rev o pre_ns h w1) pid) /\
  h_interps hp = s_ld (spec_state (c_editors cfg) (events_along (e_self env) rev o pre_ns h w1)) /\
  same_setup h hp /\ okw wp = true.
Proof. exact klunok_heads_track_attribution. Qed.
Print Assumptions C07_whole_heads_track_attribution.

(* the same at every loop head of an exit-free whole run *)
Theorem C07_whole_tracks_attribution :
  forall (env : Main.env) (cfg : config) (rev : bool) (ns : list notif)
         (o : oracle) (w : world) (outs : list out) (w' : world),
  benign o -> envs_ok ns ->
  klunok env cfg rev ns o w = (Some outs, w') -> no_exit outs ->
  exists pre cfgp cpl u g h w1 outs2 h',
    startup env = (pre, Some (cfgp, cpl, u, g, 0%nat)) /\
    load_handler cfg cfgp cpl o w = (Some (Some h), w1) /\
    h_cfg h = cfg /\ h_cfg_path h = cfgp /\ h_cpl h = cpl /\ h_pids h = [] /\ h_interps h = [] /\
    daemon_loop (e_self env) rev ns 0%Z h o w1 = (Some (outs2, h'), w') /\
    outs = pre ++ OLoad cfgp cpl u g 0 :: outs2 /\
    forall pre_ns post zp hp wp,
      ns = pre_ns ++ post -> no_cfg_event cfgp pre_ns ->
      daemon_state (e_self env) rev o pre_ns 0%Z h w1 = Some (zp, hp, wp) ->
      (forall pid : N, pid_mem pid (h_pids hp) =
                       is_editor_at (c_editors cfg) (events_along (e_self env) rev o pre_ns h w1) pid) /\
      h_interps hp = s_ld (spec_state (c_editors cfg) (events_along (e_self env) rev o pre_ns h w1)) /\
      h_cfg hp = cfg /\ h_cfg_path hp = cfgp /\ h_cpl hp = cpl /\ okw wp = true.
Proof. exact klunok_tracks_attribution. Qed.
Print Assumptions C07_whole_tracks_attribution.

(* a write notification from a process that is not an editor, for a path that is not force-included, adds nothing to the queue *)
Theorem C07_whole_non_editor_never_queued :
  forall (env : Main.env) (cfg : config) (rev : bool) (pre_ns : list notif)
         (o : oracle) (w : world) (e : Main.event) (path : str) (nc : option config)
         (h : handler) (w1 : world) (zp : Z) (hp : handler) (wp : world) (ents : list qent),
  benign o ->
  loaded env cfg o w = Some (h, w1) ->
  envs_ok pre_ns -> no_cfg_event (startup_cfg_path env) pre_ns ->
  daemon_state (e_self env) rev o pre_ns 0%Z h w1 = Some (zp, hp, wp) ->
  foreign_write (e_self env) e -> startup_cfg_path env <> Some path ->
  is_editor_at (c_editors cfg) (events_along (e_self env) rev o pre_ns h w1) (ev_pid e) = false ->
  class_of cfg (h_cpl h) path <> Some (CRule KIncluded) ->
  class_of cfg (h_cpl h) path <> Some (CRule KHistory) ->
  QRel (h_q hp) (w_fs wp) ents ->
  journal_fits (h_journal hp) (c_ev_write_not_by_editor cfg) (w_clock wp) ->
  exists w2,
    dispatch_of (e_self env) (NEvent e path nc) hp o wp = (Some hp, w2) /\
    QRel (h_q hp) (w_fs w2) ents /\ fs_dents (w_fs w2) = fs_dents (w_fs wp) /\
    okw w2 = true /\ w_clock w2 = w_clock wp.
Proof. exact klunok_non_editor_never_queued. Qed.
Print Assumptions C07_whole_non_editor_never_queued.

(* a write notification from an editor for a visible, non-excluded path always adds its entry *)
Theorem C07_whole_editor_always_queued :
  forall (env : Main.env) (cfg : config) (rev : bool) (pre_ns : list notif)
         (o : oracle) (w : world) (e : Main.event) (path : str) (nc : option config)
         (h : handler) (w1 : world) (zp : Z) (hp : handler) (wp : world) (ents : list qent),
  benign o ->
  loaded env cfg o w = Some (h, w1) ->
  envs_ok pre_ns -> no_cfg_event (startup_cfg_path env) pre_ns ->
  daemon_state (e_self env) rev o pre_ns 0%Z h w1 = Some (zp, hp, wp) ->
  foreign_write (e_self env) e -> startup_cfg_path env <> Some path ->
  is_editor_at (c_editors cfg) (events_along (e_self env) rev o pre_ns h w1) (ev_pid e) = true ->
  class_of cfg (h_cpl h) path <> Some CHidden ->
  class_of cfg (h_cpl h) path <> Some (CRule KExcluded) ->
  QRel (h_q hp) (w_fs wp) ents ->
  journal_fits (h_journal hp) (c_ev_write_by_editor cfg) (w_clock wp) ->
  normal path ->
  (forall ih pr, push_decision (c_rules cfg) (h_cpl h) true path = (true, ih, pr) ->
                 fits (q_len_guess (h_q hp)) (path, linq_meta ih pr, w_clock wp)) ->
  exists ih pr w2,
    push_decision (c_rules cfg) (h_cpl h) true path = (true, ih, pr) /\
    dispatch_of (e_self env) (NEvent e path nc) hp o wp = (Some (set_q (acc_q path pr (h_q hp)) hp), w2) /\
    QRel (acc_q path pr (h_q hp)) (w_fs w2) (ents ++ acc_ents path ih pr (w_clock wp)) /\
    okw w2 = true /\ w_clock w2 = w_clock wp.
Proof. exact klunok_editor_always_queued. Qed.
Print Assumptions C07_whole_editor_always_queued.
