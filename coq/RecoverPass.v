(* C03, the RECOVERY theorem, part 2: a fault-free pass over plain entries
   whose first candidate names may be TAKEN (by what a crashed pass has left).

   pass_taken : every entry e of the queue comes with the number k_e of its
   candidate names that exist already; the pass stores e at candidate k_e,
   pops it, and ends with an empty queue and no error.  The iteration is
   PassProofs2.taken_names_iteration (C04_world_taken_names); this file adds
   the chaining over the queue (as PassProofs.pass_plain_prefix does for free
   first names) and a summary of what the whole pass did. *)
From K Require Import Str Dec Trace Fs World Progs Elf Linq LinqSpec LinqProofs Sieve Handler Hoare
     Confine Confine2 SyncProofs AbandonProofs StoreFs StoreLogic StoreProgs DecProofs
     QueueProofs CrashFrame CrashQueue CrashCopy CrashProofs PassProofs PassProofs2.
From Coq Require Import Lia.

Section Pass2.
Variables (cfg : config) (cpl : nat) (oj : option journal) (d : str) (now : Z).

Definition cd (e : entry) (j : nat) : str := cand cfg cpl now (e_path e) j.
Definition offn (e : entry) : str := offset_name cfg cpl (e_path e).

(* storing e' at its candidate k' does not get in the way of e at candidate k *)
Record pair_ok (e' : entry) (k' : nat) (e : entry) (k : nat) : Prop := {
  PK_ne : cd e k <> cd e' k';
  PK_nin : ~ In (cd e k) (parents_of (cd e' k'));
  PK_par : ~ In (cd e' k') (parents_of (cd e k));
  PK_off_ne : offn e <> cd e' k';
  PK_off_nin : ~ In (offn e) (parents_of (cd e' k'));
  PK_off_dir : ~ In (cd e' k') (dchain (length (offn e)) (offn e))
}.

Lemma taken_ok_step hname tg tm f f' e' k' e k :
  taken_post cfg cpl oj hname f f' now (e_path e') (e_bytes e') k' ->
  lookup f hname = Some (NLink tg tm) ->
  Str.under d hname = true ->
  pair_ok e' k' e k ->
  taken_ok cfg cpl oj d f now (e_path e) (e_ino e) (e_bytes e) k ->
  taken_ok cfg cpl oj d f' now (e_path e) (e_ino e) (e_bytes e) k.
Proof.
  intros [Sdst Sbytes Spar Stk Shead Sother Sexist Sfiles Sjournal Snext] Hh Hhu
         [I1 I2 I3 I4 I5 I6]
         [Pabs Plast Pcpl Pvlen Pvslash Psrc Pfile Pino Prabs Ptaken Ptakenq Pfree Ppar Pq
          Pofree Popar Pone Ponin Podir Pjfits Pjino].
  fold (cd e' k') in *. fold (cd e k) in *. fold (offn e) in *.
  assert (Hkeep : forall x n, lookup f x = Some n -> (forall a b, n <> NLink a b) -> lookup f' x = Some n).
  { intros x nd Hx Hn. rewrite Sexist; [exact Hx | | congruence].
    intros ->. rewrite Hh in Hx. inversion Hx. apply (Hn tg tm). congruence. }
  assert (Hfree : forall x, lookup f x = None -> x <> cd e' k' -> ~ In x (parents_of (cd e' k')) ->
                            lookup f' x = None).
  { intros x Hx X1 X2. destruct (str_eqb_spec x hname) as [->|X3]; [exact Shead|].
    rewrite (Sother x X1 X2 X3). exact Hx. }
  assert (Hdir : forall x, lookup f x = Some NDir \/ lookup f x = None -> x <> cd e' k' ->
                           lookup f' x = Some NDir \/ lookup f' x = None).
  { intros x Hx X1.
    destruct (str_in_dec x (parents_of (cd e' k'))) as [Hin|Hnin].
    - left. exact (Spar x Hin).
    - destruct Hx as [Hx|Hx].
      + left. apply Hkeep; [exact Hx | discriminate].
      + right. exact (Hfree x Hx X1 Hnin). }
  constructor; try assumption.
  - apply Hkeep; [exact Psrc | discriminate].
  - rewrite Sfiles; [exact Pfile | lia |]. intros jn Hj E. destruct (Pjino jn Hj) as [A _]. congruence.
  - lia.
  - intros j Hj. destruct (Ptaken j Hj) as [T1 T2]. split.
    + fold (cd e j) in *. rewrite Sexist; [exact T1 | | exact T1].
      intros E. pose proof (Ptakenq j Hj) as Hu. fold (cd e j) in Hu. rewrite E in Hu. congruence.
    + intros x Hx. apply Hkeep; [apply T2; exact Hx | discriminate].
  - exact (Hfree _ Pfree I1 I2).
  - intros x Hx. apply Hdir; [exact (Ppar x Hx)|]. intros ->. exact (I3 Hx).
  - exact (Hfree _ Pofree I4 I5).
  - apply missing_enoent. apply missing_enoent in Popar.
    apply (anc_not_dir_frame f f' (cd e' k')); [| |exact Popar|exact I6].
    + intros x Hx. apply Hkeep; [exact Hx | discriminate].
    + intros x Hx Hxd. destruct (Hdir x (or_intror Hx) Hxd) as [A|A]; auto.
  - intros jn Hj. destruct (Pjino jn Hj) as [A B]. split; [exact A | lia].
Qed.

(* ----- the queue: entries with their numbers of taken names ----- *)

Definition ek_ent (x : entry * nat) : qent := qent_of (fst x).

Fixpoint all_taken (f : fs) (l : list (entry * nat)) : Prop :=
  match l with
  | [] => True
  | (e, k) :: l' =>
      taken_ok cfg cpl oj d f now (e_path e) (e_ino e) (e_bytes e) k /\
      Forall (fun x => pair_ok e k (fst x) (snd x)) l' /\
      all_taken f l'
  end.

Lemma all_taken_step hname tg tm f f' e k l :
  taken_post cfg cpl oj hname f f' now (e_path e) (e_bytes e) k ->
  lookup f hname = Some (NLink tg tm) -> Str.under d hname = true ->
  all_taken f ((e, k) :: l) -> all_taken f' l.
Proof.
  intros HS Hh Hu [_ [Hind Hall]].
  induction l as [|[e1 k1] l IH]; [exact I|].
  inversion Hind as [|? ? Hi Hind']; subst. cbn [fst snd] in Hi.
  destruct Hall as [Hp [Hf Hall]].
  split; [exact (taken_ok_step _ _ _ _ _ _ _ _ _ HS Hh Hu Hi Hp)|].
  split; [exact Hf|]. exact (IH Hind' Hall).
Qed.

Definition nj2 (i : nat) : Prop := forall jn, oj = Some jn -> i <> j_ino jn.

(* what the pass has done *)
Record Kept (f f' : fs) (l : list (entry * nat)) : Prop := {
  K_exist : forall x, lookup f x <> None -> Str.under d x = false -> lookup f' x = lookup f x;
  K_files : forall i, i < fs_next f -> nj2 i -> get_file f' i = get_file f i;
  K_next : fs_next f <= fs_next f';
  K_stored : forall e k, In (e, k) l ->
               exists i, lookup f' (cd e k) = Some (NFile i) /\ fs_next f <= i /\
                         f_bytes (get_file f' i) = e_bytes e;
  K_new : forall x i, lookup f' x = Some (NFile i) -> lookup f x = None ->
                      exists e k, In (e, k) l /\ x = cd e k;
  K_nodup : keys_nodup f'
}.

Fixpoint no_repeat (l : list (entry * nat)) : Prop :=
  match l with
  | [] => True
  | x :: l' => occurs (e_path (fst x)) (map ek_ent l') = false /\ no_repeat l'
  end.

Theorem pass_taken o rev : benign o -> forall l fuel h w,
  h_cfg h = cfg -> h_cpl h = cpl -> h_journal h = oj -> q_dir (h_q h) = d ->
  w_clock w = now ->
  tr_ok (w_tr w) = true -> t_post (w_tr w) = 0 -> keys_nodup (w_fs w) ->
  QRel (h_q h) (w_fs w) (map ek_ent l) ->
  Forall (fun x => (q_deb (h_q h) <= now - e_time (fst x))%Z) l ->
  no_repeat l ->
  all_taken (w_fs w) l ->
  length l < fuel ->
  exists h' w',
    handle_timeout_loop fuel rev h o w = (Some (TPause (-1), h'), w') /\
    QRel (h_q h') (w_fs w') [] /\ q_dir (h_q h') = d /\
    tr_ok (w_tr w') = true /\ w_clock w' = now /\
    Kept (w_fs w) (w_fs w') l.
Proof.
  intros H. induction l as [|[e k] l IH]; intros fuel h w Hcfg Hcpl Hoj Hd Hclk Hok Hpost Hnd HR Hdue Hnr Hall Hfuel.
  - destruct fuel as [|fuel]; [cbn [length] in Hfuel; lia|].
    cbn [map] in HR.
    destruct (pass_idle o w h rev fuel Hok HR) as (w' & E & F & _ & _ & C & K).
    exists h, w'. split; [exact E|]. split; [rewrite F; exact HR|]. split; [exact Hd|].
    split; [exact (tr_keep_ok _ _ K)|]. split; [congruence|].
    rewrite F. constructor; auto.
    + intros e k [].
    + intros x i A B. congruence.
  - destruct fuel as [|fuel]; [cbn [length] in Hfuel; lia|].
    cbn [map] in HR. unfold ek_ent at 1, qent_of in HR. cbn [fst] in HR.
    inversion Hdue as [|? ? Hd1 Hdue']; subst. cbn [fst] in Hd1.
    destruct Hnr as [Hocc Hnr']. cbn [fst] in Hocc.
    pose proof Hall as [Hp [Hind Hall']].
    destruct (taken_names_iteration o w h rev fuel (e_path e) (e_time e) (map ek_ent l)
                (e_ino e) (e_bytes e) k H Hok Hpost Hnd HR)
      as (w1 & E1 & S1 & HR1 & Hnd1 & T1 & C1).
    { rewrite Hclk. exact Hd1. }
    { exact Hocc. }
    { rewrite Hcfg, Hcpl, Hoj, Hd, Hclk. exact Hp. }
    rewrite Hcfg, Hcpl, Hoj, Hclk in S1.
    set (h1 := set_q (popped (e_path e) (h_q h)) h) in *.
    pose proof (QRel_head _ _ _ _ _ _ HR) as Hhead. fold (head_name (h_q h)) in Hhead.
    assert (Hhu : Str.under d (head_name (h_q h)) = true).
    { unfold head_name. rewrite Hd. apply under_join. rewrite <- Hd. exact (QR_nroot _ _ _ HR). }
    assert (Hall1 : all_taken (w_fs w1) l) by (eapply all_taken_step; eauto).
    destruct (IH fuel h1 w1) as (h' & w' & E & HR' & Hd' & Hok' & C' & HK); try assumption.
    { congruence. }
    { rewrite T1. reflexivity. }
    { rewrite T1. reflexivity. }
    { cbn [length] in Hfuel. lia. }
    exists h', w'. split; [rewrite E1; exact E|]. split; [exact HR'|]. split; [exact Hd'|]. split; [exact Hok'|].
    split; [exact C'|].
    destruct S1 as [Sdst Sbytes Spar Stk Shead Sother Sexist Sfiles Sjournal Snext].
    destruct HK as [K1 K2 K3 K4 K5 K6].
    destruct Hp as [Pabs Plast Pcpl Pvlen Pvslash Psrc Pfile Pino Prabs Ptaken Ptakenq Pfree Ppar Pq
                    Pofree Popar Pone Ponin Podir Pjfits Pjino].
    fold (cd e k) in *.
    set (f := w_fs w) in *. set (f1 := w_fs w1) in *. set (f' := w_fs w') in *.
    assert (Hnh : forall x, Str.under d x = false -> x <> head_name (h_q h)) by (intros x Hx ->; congruence).
    assert (Hjn : nj2 (fs_next f)).
    { intros jn Hj Ej. destruct (Pjino jn Hj) as [_ Hlt]. lia. }
    constructor.
    + intros x Hx Hu. rewrite K1; [apply Sexist; [apply Hnh; exact Hu | exact Hx] | | exact Hu].
      rewrite Sexist; [exact Hx | apply Hnh; exact Hu | exact Hx].
    + intros i Hi Hn. rewrite K2; [apply Sfiles; [lia | exact Hn] | lia | exact Hn].
    + lia.
    + intros e1 k1 [E0|Hin].
      * inversion E0; subst e1 k1. exists (fs_next f).
        split; [rewrite K1; [exact Sdst | congruence | exact Pq]|]. split; [lia|].
        rewrite K2; [exact Sbytes | lia | exact Hjn].
      * destruct (K4 e1 k1 Hin) as [i [A [B C]]]. exists i. split; [exact A|]. split; [lia | exact C].
    + intros x i A B.
      destruct (lookup f1 x) as [nd|] eqn:E1x.
      * destruct (str_eqb_spec x (cd e k)) as [->|Hxd]; [exists e, k; split; [left; reflexivity | reflexivity]|].
        exfalso.
        destruct (str_in_dec x (parents_of (cd e k))) as [Hin|Hnin].
        -- pose proof (Spar x Hin) as E2.
           assert (Hux : Str.under d x = false).
           { destruct (Str.under d x) eqn:Eu; [|reflexivity].
             pose proof (under_ancestor _ _ _ Eu (parents_of_prefix _ _ Hin)) as Hdd. congruence. }
           rewrite K1 in A; [congruence | congruence | exact Hux].
        -- destruct (str_eqb_spec x (head_name (h_q h))) as [->|Hxh]; [congruence|].
           rewrite (Sother x Hxd Hnin Hxh) in E1x. congruence.
      * destruct (K5 x i A E1x) as (e0 & k0 & Hin & Hx). exists e0, k0. split; [right; exact Hin | exact Hx].
    + exact K6.
Qed.

End Pass2.

Print Assumptions pass_taken.
