(* C10 at the level of the WORLD, the two branches of the timeout pass that
   Properties_C10_world leaves open, for EVERY oracle (any failing call with
   any errno, short transfers, a crash at any call).  FaultProofs2.v.

   PROJECT head (flags 1).  project_step h1 path version rev k = the branch of
   handle_timeout_loop: the snapshot (sync_shallow_tree into a new directory,
   retried with the next name while the name is taken), the journal line, the
   pop, then the rest of the pass k; timeout_reaches_project_step shows that
   the iteration of handle_timeout_loop IS this term.  project_iter = the same
   without k, returning the queue after the pop.
   preported U (c, e) = call c answered by errno e must be reported, U the
   unstable tree of the project: mkdir other than EEXIST (an ancestor is there
   / the snapshot name is taken: next name), every failure of the open of the
   new directory, fts_open other than ENOENT ("deleted") / EACCES ("forbidden"),
   every failure of mkdirat / linkat, of unlink / rmdir of an entry under U
   (pruning), of the write of the journal line, of readlinkat / unlinkat of
   the pop.  NOT reported by the code (witnesses in Fault2Example): every
   failure of access() (any errno = "the entry has left the project"), of
   close, of the rmdir inside clean_up.
   istep h1 path f f' = no inode other than the journal's changed, every
   non-directory entry outside U is looked up as before (the queue link of the
   entry, every stored version, every entry of every older snapshot).
   unlinked (c, r) = c is an unlinkat that took effect.

   MEMBER link step (flags with a project offset): link_step P D = unlink P;
   create_parents P; link D P, where P = mb_path (the member's entry in the
   unstable tree) and D the version just stored.  lreported: unlink other than
   ENOENT, mkdir other than EEXIST, every failure of link.  link_rel P D w w' l
   oc: the log l and the disk after the step, per outcome oc; pstate = the
   entry P is ABSENT, or untouched in the one case where the oracle answered
   ENOENT to the unlink of an existing entry. *)
From K Require Import Str Dec Trace Fs World Progs Sieve Handler Hoare SyncProofs AbandonProofs FaultProofs FaultProofs2.
From K Require Confine CrashFrame QueueProofs.

(* (1) reported, never swallowed: a failing call of the reported class ends the
   iteration with the error on the trace and the pass with "stop" *)
Theorem C10_project_fault_is_reported :
  forall (h1 : handler) (path version : str) (rev : bool) (fuel : nat) (o : oracle) (w : world),
  pj_ok h1 path version ->
  t_frames (w_tr w) = [] ->
  t_post (w_tr w) = 0 ->
  ht (fun o' : oracle => o' = o) (fun w0 : world => w0 = w)
    (project_step h1 path version rev (handle_timeout_loop fuel rev))
    (fun (r : tresult * handler) (w' : world) =>
     exists (q2 : qmem) (we : world) (l : list (call * ret)),
       w_log we = l ++ w_log w /\
       icalls l /\
       handle_timeout_loop fuel rev (set_q q2 h1) o we = (Some r, w') /\
       (existsb (badby (preported (pj_unst h1 path))) l = true ->
        r = (TError, h1) /\ w' = we /\ tr_ok (w_tr w') = false)) (fun _ : world => True).
Proof. exact project_fault_stops. Qed.
Print Assumptions C10_project_fault_is_reported.

(* (2) never loses work: when the iteration ends with an error, the queue in
   memory is the old one, no unlinkat took effect, nothing outside the unstable
   tree was removed or modified *)
Theorem C10_project_failed_keeps_entry :
  forall (h1 : handler) (path version : str) (rev : bool) (k : handler -> M (tresult * handler))
         (o : oracle) (w : world),
  pj_ok h1 path version ->
  t_frames (w_tr w) = [] ->
  t_post (w_tr w) = 0 ->
  ht (fun o' : oracle => o' = o) (fun w0 : world => w0 = w) (project_step h1 path version rev k)
    (fun (r : tresult * handler) (w' : world) =>
     exists (q2 : qmem) (we : world) (l : list (call * ret)),
       w_log we = l ++ w_log w /\
       k (set_q q2 h1) o we = (Some r, w') /\
       (tr_ok (w_tr we) = false ->
        q2 = h_q h1 /\ existsb unlinked l = false /\ istep h1 path (w_fs w) (w_fs we)))
    (fun _ : world => True).
Proof. exact project_failed_keeps_entry. Qed.
Print Assumptions C10_project_failed_keeps_entry.

(* ... likewise when the process dies during the iteration *)
Theorem C10_project_crash_keeps_entry :
  forall (h1 : handler) (path version : str) (rev : bool) (o : oracle) (w : world),
  pj_ok h1 path version ->
  t_frames (w_tr w) = [] ->
  t_post (w_tr w) = 0 ->
  let (o0, w') := project_iter h1 path version rev o w in
  match o0 with
  | Some _ => True
  | None =>
      exists l : list (call * ret),
        w_log w' = l ++ w_log w /\
        icalls l /\ existsb unlinked l = false /\ istep h1 path (w_fs w) (w_fs w')
  end.
Proof. exact project_crash_keeps_entry. Qed.
Print Assumptions C10_project_crash_keeps_entry.

(* ... and the queue directory is untouched: the queue relation holds again for
   the ORIGINAL entries *)
Theorem C10_project_failed_keeps_queue :
  forall (h1 : handler) (path version : str) (rev : bool) (o : oracle) (w : world)
         (ents : list (str * N * Z)),
  pj_ok h1 path version ->
  t_frames (w_tr w) = [] ->
  t_post (w_tr w) = 0 ->
  QueueProofs.QRel (h_q h1) (w_fs w) ents ->
  (forall p : str,
   Confine.inside (c_project_store_root (h_cfg h1)) p -> CrashFrame.away (q_dir (h_q h1)) p) ->
  (forall r : list ascii, CrashFrame.away (q_dir (h_q h1)) (pj_unst h1 path ++ ch_slash :: r)) ->
  let res := project_iter h1 path version rev o w in
  match fst res with
  | Some _ => tr_ok (w_tr (snd res)) = false
  | None => True
  end ->
  (forall p : str, Confine.inside (q_dir (h_q h1)) p -> lookup (w_fs (snd res)) p = lookup (w_fs w) p) /\
  QueueProofs.QRel (h_q h1) (w_fs (snd res)) ents /\
  (forall q2 : qmem, fst res = Some q2 -> q2 = h_q h1).
Proof. exact project_failed_keeps_queue. Qed.
Print Assumptions C10_project_failed_keeps_queue.

(* the iteration of the handler loop is that term *)
Theorem C10_iteration_is_project_step :
  forall (fuel' : nat) (rev : bool) (h : handler) (o : oracle) (w : world) (q1 : qmem)
         (w2 : world) (path : str) (meta : N),
  tr_ok (w_tr w) = true ->
  q_get_head (S (N.to_nat (q_size (h_q h)))) (h_q h) o (upd_tr (tr_try (w_tr w)) w) =
  (Some (Some (QReady path meta), q1), w2) ->
  tr_ok (w_tr w2) = true ->
  let h1 := set_q q1 h in
  let w3 := upd_tr (tr_finally_rethrow_static M_linq_cannot_get_head (w_tr w2)) w2 in
  let version := expand_pattern (c_version_pattern (h_cfg h)) (dec (Z.to_N (w_clock w2))) in
  (name_max <? length version) = false ->
  existsb is_slash version = false ->
  project_head_valid h1 path meta = true ->
  handle_timeout_loop (S fuel') rev h o w =
  project_step h1 path version rev (handle_timeout_loop fuel' rev) o w3.
Proof. exact timeout_reaches_project_step. Qed.
Print Assumptions C10_iteration_is_project_step.

(* (3) the member link step, for every oracle: the log and the disk per outcome *)
Theorem C10_link_step :
  forall (P D : str) (o : oracle) (w : world),
  tr_ok (w_tr w) = true ->
  keys_nodup (w_fs w) ->
  post
    (fun (_ : unit) (w' : world) =>
     exists (l : list (call * ret)) (oc : link_outcome), link_rel P D w w' l oc)
    (link_crash P w) (link_step P D o w).
Proof. exact link_step_spec. Qed.
Print Assumptions C10_link_step.

(* a failure of the reported class <-> the step did not complete; then the
   error is on the trace *)
Theorem C10_link_reported :
  forall (P D : str) (w w' : world) (l : list (call * ret)) (oc : link_outcome),
  link_rel P D w w' l oc ->
  tr_ok (w_tr w) = true ->
  (existsb (badby lreported) l = true <-> oc <> LLinked) /\ (oc <> LLinked -> tr_ok (w_tr w') = false).
Proof. exact link_rel_reported. Qed.
Print Assumptions C10_link_reported.

(* whatever the outcome, the stored version keeps its name, inode and bytes *)
Theorem C10_link_keeps_version :
  forall (P D : str) (w w' : world) (l : list (call * ret)) (oc : link_outcome) (i : nat),
  link_rel P D w w' l oc ->
  D <> P ->
  lookup (w_fs w) D = Some (NFile i) ->
  lookup (w_fs w') D = Some (NFile i) /\ get_file (w_fs w') i = get_file (w_fs w) i.
Proof. exact link_rel_version. Qed.
Print Assumptions C10_link_keeps_version.

(* what follows the copy of a member whose version is stored: the pop failed
   (stop, nothing touched), or the queue link is gone and the link step ran;
   a reported failure of the link step ends the pass with "stop" *)
Theorem C10_member_link_fault_is_reported :
  forall (h1 : handler) (path : str) (meta : N) (fuel : nat) (rev : bool) (ev : option str)
         (sp' : store_path) (o : oracle) (wc : world),
  (0 <? mb_off meta) = true ->
  t_frames (w_tr wc) = [] ->
  t_post (w_tr wc) = 0 ->
  keys_nodup (w_fs wc) ->
  post
    (fun (r : tresult * handler) (w' : world) =>
     member_outcome h1 path meta (handle_timeout_loop fuel rev) ev sp' o wc r w' /\
     (forall (wp : world) (x : str) (lp : list (call * ret)) (wl : world) (l : list (call * ret))
        (oc : link_outcome),
      w_log wp = lp ++ w_log wc ->
      w_tr wp = w_tr wc ->
      link_rel (mb_path h1 path meta) (current_path sp') wp wl l oc ->
      (record_event ev 0 (st_rel h1 path) (set_q (QueueProofs.popped x (h_q h1)) h1);;
       handle_timeout_loop fuel rev (set_q (QueueProofs.popped x (h_q h1)) h1)) o wl = (Some r, w') ->
      existsb (badby lreported) l = true ->
      oc <> LLinked /\
      r = (TError, set_q (QueueProofs.popped x (h_q h1)) h1) /\ w' = wl /\ tr_ok (w_tr w') = false))
    (fun _ : world => True)
    (file_finish h1 path meta (handle_timeout_loop fuel rev) (ev, true, sp') o wc).
Proof. exact member_link_fault_is_reported. Qed.
Print Assumptions C10_member_link_fault_is_reported.

(* non-vacuity and witnesses: /w/proj with the member src/m.c, a 39-call pass *)
Example C10_project_every_call_failed_in_turn := Fault2Example.every_call_failed_in_turn.
Example C10_project_hyps_hold := Fault2Example.project_hyps_hold.
Example C10_member_hyps_hold := Fault2Example.member_hyps_hold.
Example C10_project_iteration_every_oracle := Fault2Example.project_iteration_every_oracle.
Example C10_project_entry_kept_every_oracle := Fault2Example.project_entry_kept_every_oracle.
Example C10_project_queue_kept_every_oracle := Fault2Example.project_queue_kept_every_oracle.
Example C10_member_iteration_every_oracle := Fault2Example.member_iteration_every_oracle.
Example C10_link_step_three_outcomes := Fault2Example.link_step_three_outcomes.
Example C10_project_expected_conditions := Fault2Example.expected_conditions_do_not_stop.
(* findings *)
Example C10_project_failed_snapshot_partial := Fault2Example.project_failed_snapshot_partial.
Example C10_access_failure_is_swallowed := Fault2Example.access_failure_is_swallowed.
Example C10_member_link_lost_after_failure := Fault2Example.member_link_lost_after_failure.
