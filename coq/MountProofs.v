(* C18 / C13: the mount-table reader of src/mountinfo.c against the way the kernel
   writes /proc/self/mounts.

     - what the decoding reader reads back from a rendered table is exactly the
       list of mount points (parse_render), also when the last line has no
       newline terminator;
     - the in-place decoding never grows, the strsep cursors stay inside the
       buffer (the length lemmas);
     - the raw reader (decode = false, no octal decoding) is wrong as soon as a
       mount point contains a space, tab, newline or backslash
       (parse_render_raw_refuted) and right otherwise (parse_render_raw_plain);
     - composed with Main.mark_roots: a root is bind-mounted exactly when it is
       not a mount point of the kernel's table (mount_iff_not_in_kernel_table);
       with the raw reader a mounted "/mnt/a b" is mounted a second time
       (raw_reader_mounts_twice).

   Only lemmas; the definitions are those of MountParse.v and Main.v. *)
(* String only for the literals of the examples; imported first so that List's
   names (length, ...) are the ones in force *)
From Coq Require Import String.
From K Require Import Str MountParse Main MainProofs ParamsProofs.

(* ------------------------------------------------------------------ *)
(* characters                                                         *)
(* ------------------------------------------------------------------ *)

Lemma escapes_cases (c : ascii) :
  kernel_escapes c = true -> c = ch_space \/ c = ch_tab \/ c = ch_nl \/ c = ch_bsl.
Proof.
  unfold kernel_escapes. rewrite !orb_true_iff, !Ascii.eqb_eq. tauto.
Qed.

Lemma escapes_false (c : ascii) :
  kernel_escapes c = false ->
  Ascii.eqb c ch_space = false /\ Ascii.eqb c ch_tab = false /\
  Ascii.eqb c ch_nl = false /\ Ascii.eqb c ch_bsl = false.
Proof.
  unfold kernel_escapes. rewrite !orb_false_iff. tauto.
Qed.

Lemma mangle_cons (c : ascii) (s : str) : mangle (c :: s) = mangle_char c ++ mangle s.
Proof. reflexivity. Qed.

Lemma mangle_char_plain (c : ascii) : kernel_escapes c = false -> mangle_char c = [c].
Proof. intros H. unfold mangle_char. rewrite H. reflexivity. Qed.

(* ------------------------------------------------------------------ *)
(* 1. decoding undoes the kernel's escaping                           *)
(* ------------------------------------------------------------------ *)

Lemma unescape_eq (b : ascii) (tl : str) :
  unescape (b :: tl) =
  match tl with
  | d1 :: d2 :: d3 :: r =>
      if Ascii.eqb b ch_bsl && is_oct 51 d1 && is_oct 55 d2 && is_oct 55 d3
      then ascii_of_N (oct_val d1 * 64 + oct_val d2 * 8 + oct_val d3) :: unescape r
      else b :: unescape tl
  | _ => b :: unescape tl
  end.
Proof. reflexivity. Qed.

Lemma unescape_cons_plain (b : ascii) (tl : str) :
  Ascii.eqb b ch_bsl = false -> unescape (b :: tl) = b :: unescape tl.
Proof.
  intros H. rewrite unescape_eq.
  destruct tl as [|d1 [|d2 [|d3 r]]]; try reflexivity.
  rewrite H. reflexivity.
Qed.

Lemma unescape_mangle_char_escaped (c : ascii) (r : str) :
  kernel_escapes c = true -> unescape (mangle_char c ++ r) = c :: unescape r.
Proof.
  intros H.
  destruct (escapes_cases c H) as [-> | [-> | [-> | ->]]]; vm_compute; reflexivity.
Qed.

Theorem unescape_mangle : forall s : str, unescape (mangle s) = s.
Proof.
  induction s as [|c s IH]; [reflexivity|].
  rewrite mangle_cons.
  destruct (kernel_escapes c) eqn:E.
  - rewrite (unescape_mangle_char_escaped c (mangle s) E), IH. reflexivity.
  - rewrite (mangle_char_plain c E). cbn [app].
    destruct (escapes_false c E) as (_ & _ & _ & Hb).
    rewrite (unescape_cons_plain c (mangle s) Hb), IH. reflexivity.
Qed.
Print Assumptions unescape_mangle.

(* ------------------------------------------------------------------ *)
(* 2. an escaped field contains no separator                          *)
(* ------------------------------------------------------------------ *)

Definition not_sep (c : ascii) : Prop :=
  Ascii.eqb c ch_space = false /\ Ascii.eqb c ch_nl = false.

Lemma mangle_char_no_sep (c : ascii) : Forall not_sep (mangle_char c).
Proof.
  destruct (kernel_escapes c) eqn:E.
  - destruct (escapes_cases c E) as [-> | [-> | [-> | ->]]];
      repeat (apply Forall_cons; [split; vm_compute; reflexivity|]); apply Forall_nil.
  - rewrite (mangle_char_plain c E).
    destruct (escapes_false c E) as (Hs & _ & Hn & _).
    apply Forall_cons; [split; assumption | apply Forall_nil].
Qed.

Theorem mangle_no_separator : forall s : str,
  Forall (fun c => Ascii.eqb c ch_space = false /\ Ascii.eqb c ch_nl = false) (mangle s).
Proof.
  induction s as [|c s IH]; [apply Forall_nil|].
  rewrite mangle_cons. apply Forall_app. split; [exact (mangle_char_no_sep c) | exact IH].
Qed.
Print Assumptions mangle_no_separator.

Corollary mangle_no_space (s : str) : Forall (fun c => Ascii.eqb c ch_space = false) (mangle s).
Proof.
  eapply Forall_impl; [|exact (mangle_no_separator s)]. intros c [H _]; exact H.
Qed.

Corollary mangle_no_nl (s : str) : Forall (fun c => Ascii.eqb c ch_nl = false) (mangle s).
Proof.
  eapply Forall_impl; [|exact (mangle_no_separator s)]. intros c [_ H]; exact H.
Qed.

(* the same with existsb *)
Corollary mangle_no_separator_b (s : str) :
  existsb (fun c => Ascii.eqb c ch_space || Ascii.eqb c ch_nl) (mangle s) = false.
Proof.
  assert (H := mangle_no_separator s). induction H as [|c l [Hs Hn] _ IH]; [reflexivity|].
  cbn [existsb]. rewrite Hs, Hn, IH. reflexivity.
Qed.

(* a name without special characters is written as it is *)
Lemma mangle_plain (s : str) :
  Forall (fun c => kernel_escapes c = false) s -> mangle s = s.
Proof.
  induction 1 as [|c s Hc _ IH]; [reflexivity|].
  rewrite mangle_cons, (mangle_char_plain c Hc), IH. reflexivity.
Qed.

(* ------------------------------------------------------------------ *)
(* 3. everything stays inside the buffer                              *)
(* ------------------------------------------------------------------ *)

Lemma unescape_length_aux (n : nat) :
  forall s : str, length s <= n -> length (unescape s) <= length s.
Proof.
  induction n as [|n IH]; intros s Hlen.
  - destruct s as [|b tl]; [cbn; lia | cbn [length] in Hlen; lia].
  - destruct s as [|b tl]; [cbn; lia|].
    cbn [length] in Hlen.
    assert (Htl : length (unescape tl) <= length tl) by (apply IH; lia).
    rewrite unescape_eq.
    destruct tl as [|d1 [|d2 [|d3 r]]]; try (cbn [length] in *; lia).
    assert (Hr : length (unescape r) <= length r) by (apply IH; cbn [length] in Hlen; lia).
    destruct (Ascii.eqb b ch_bsl && is_oct 51 d1 && is_oct 55 d2 && is_oct 55 d3);
      cbn [length] in *; lia.
Qed.

(* the decoding is done in place: the output never overtakes the input *)
Theorem unescape_length : forall s : str, length (unescape s) <= length s.
Proof. intros s. exact (unescape_length_aux (length s) s (le_n _)). Qed.
Print Assumptions unescape_length.

Theorem cut_nul_length : forall s : str, length (cut_nul s) <= length s.
Proof.
  induction s as [|c s IH]; [cbn; lia|].
  cbn [cut_nul]. destruct (is_nul c); cbn [length]; lia.
Qed.
Print Assumptions cut_nul_length.

Lemma cut_nul_id (s : str) : Forall (fun c => is_nul c = false) s -> cut_nul s = s.
Proof.
  induction 1 as [|c s Hc _ IH]; [reflexivity|].
  cbn [cut_nul]. rewrite Hc, IH. reflexivity.
Qed.

(* the decoded C string has no NUL: what add() sees is what the model says *)
Lemma cut_nul_no_nul (s : str) : Forall (fun c => is_nul c = false) (cut_nul s).
Proof.
  induction s as [|c s IH]; [apply Forall_nil|].
  cbn [cut_nul]. destruct (is_nul c) eqn:E; [apply Forall_nil | apply Forall_cons; assumption].
Qed.

(* strsep: the piece has no delimiter, and piece + delimiter + remainder is
   the string (no delimiter: the piece is the whole string) *)
Lemma strsep_spec (d : ascii) (s : str) :
  Forall (fun c => Ascii.eqb c d = false) (fst (strsep d s)) /\
  match snd (strsep d s) with
  | Some r => s = fst (strsep d s) ++ d :: r
  | None => s = fst (strsep d s)
  end.
Proof.
  induction s as [|c s [IH1 IH2]]; [split; [apply Forall_nil | reflexivity]|].
  cbn [strsep]. destruct (Ascii.eqb c d) eqn:E.
  - apply Ascii.eqb_eq in E. subst c. split; [apply Forall_nil | reflexivity].
  - destruct (strsep d s) as [a [r|]]; cbn [fst snd] in *.
    + split; [apply Forall_cons; assumption | rewrite IH2 at 1; reflexivity].
    + split; [apply Forall_cons; assumption | rewrite IH2 at 1; reflexivity].
Qed.

Theorem strsep_length (d : ascii) (s : str) :
  match snd (strsep d s) with
  | Some r => length (fst (strsep d s)) + 1 + length r = length s
  | None => length (fst (strsep d s)) = length s
  end.
Proof.
  destruct (strsep_spec d s) as [_ H].
  destruct (snd (strsep d s)) as [r|]; apply (f_equal (@length ascii)) in H.
  - rewrite app_length in H. cbn [length] in H. lia.
  - lia.
Qed.
Print Assumptions strsep_length.

Lemma strsep_app (d : ascii) (a b : str) :
  Forall (fun c => Ascii.eqb c d = false) a -> strsep d (a ++ d :: b) = (a, Some b).
Proof.
  induction 1 as [|c a Hc _ IH]; cbn [app strsep].
  - rewrite Ascii.eqb_refl. reflexivity.
  - rewrite Hc, IH. reflexivity.
Qed.

Lemma strsep_plain (d : ascii) (a : str) :
  Forall (fun c => Ascii.eqb c d = false) a -> strsep d a = (a, None).
Proof.
  induction 1 as [|c a Hc _ IH]; cbn [strsep]; [reflexivity|].
  rewrite Hc, IH. reflexivity.
Qed.

(* the field handed to add() lies strictly inside the record *)
Theorem second_field_length (record f : str) :
  second_field record = Some f -> length f < length record.
Proof.
  unfold second_field. intros H.
  assert (H1 := strsep_length ch_space record).
  destruct (snd (strsep ch_space record)) as [rest|]; [|discriminate H].
  injection H as <-.
  assert (H2 := strsep_length ch_space rest).
  destruct (snd (strsep ch_space rest)) as [r2|]; lia.
Qed.
Print Assumptions second_field_length.

(* the records *)
Definition count_ch (d : ascii) (s : str) : nat := length (filter (fun c => Ascii.eqb c d) s).
Fixpoint sum_len (l : list str) : nat :=
  match l with [] => 0 | p :: ps => length p + sum_len ps end.
Fixpoint join (d : ascii) (l : list str) : str :=
  match l with
  | [] => []
  | [p] => p
  | p :: ps => p ++ d :: join d ps
  end.

Lemma split_on_not_nil (d : ascii) (s : str) : split_on d s <> [].
Proof.
  destruct s as [|c r]; cbn [split_on]; [discriminate|].
  destruct (split_on d r) as [|p ps]; [discriminate|].
  destruct (Ascii.eqb c d); discriminate.
Qed.

Lemma split_on_cons (d c : ascii) (r : str) :
  exists p ps, split_on d r = p :: ps /\
               split_on d (c :: r) = if Ascii.eqb c d then [] :: p :: ps else (c :: p) :: ps.
Proof.
  destruct (split_on d r) as [|p ps] eqn:E; [exfalso; exact (split_on_not_nil d r E)|].
  exists p, ps. split; [reflexivity|]. cbn [split_on]. rewrite E. reflexivity.
Qed.

(* one record more than there are newlines *)
Theorem split_on_count (d : ascii) (s : str) : length (split_on d s) = S (count_ch d s).
Proof.
  induction s as [|c r IH]; [reflexivity|].
  destruct (split_on_cons d c r) as (p & ps & E1 & E2). rewrite E2. rewrite E1 in IH.
  unfold count_ch in *. cbn [filter].
  destruct (Ascii.eqb c d); cbn [length] in *; lia.
Qed.
Print Assumptions split_on_count.

(* the records and the newlines make up the content: the strsep cursor ends
   exactly at the terminating NUL *)
Theorem split_on_lengths (d : ascii) (s : str) :
  sum_len (split_on d s) + count_ch d s = length s.
Proof.
  induction s as [|c r IH]; [reflexivity|].
  destruct (split_on_cons d c r) as (p & ps & E1 & E2). rewrite E2. rewrite E1 in IH.
  unfold count_ch in *. cbn [filter].
  destruct (Ascii.eqb c d); cbn [length sum_len] in *; lia.
Qed.
Print Assumptions split_on_lengths.

(* ... and joining the records with the delimiter gives the content back *)
Theorem join_split_on (d : ascii) (s : str) : join d (split_on d s) = s.
Proof.
  induction s as [|c r IH]; [reflexivity|].
  destruct (split_on_cons d c r) as (p & ps & E1 & E2). rewrite E2. rewrite E1 in IH.
  destruct (Ascii.eqb c d) eqn:E.
  - apply Ascii.eqb_eq in E. subst c. cbn [join app]. cbn [join] in IH. rewrite IH. reflexivity.
  - destruct ps as [|q qs]; cbn [join app] in *; rewrite IH; reflexivity.
Qed.
Print Assumptions join_split_on.

Lemma split_on_no_delim (d : ascii) (s : str) :
  Forall (Forall (fun c => Ascii.eqb c d = false)) (split_on d s).
Proof.
  induction s as [|c r IH]; [repeat constructor|].
  destruct (split_on_cons d c r) as (p & ps & E1 & E2). rewrite E2. rewrite E1 in IH.
  inversion IH as [|? ? Hp Hps]; subst.
  destruct (Ascii.eqb c d) eqn:E.
  - apply Forall_cons; [apply Forall_nil | exact IH].
  - apply Forall_cons; [apply Forall_cons; assumption | exact Hps].
Qed.

Lemma sum_len_in (l : list str) (p : str) : In p l -> length p <= sum_len l.
Proof.
  induction l as [|q l IH]; intros H; [destruct H|].
  cbn [sum_len]. destruct H as [-> | H]; [lia | specialize (IH H); lia].
Qed.

Theorem split_on_piece_length (d : ascii) (s p : str) :
  In p (split_on d s) -> length p <= length s.
Proof.
  intros H. apply sum_len_in in H. assert (H2 := split_on_lengths d s). lia.
Qed.
Print Assumptions split_on_piece_length.

Lemma split_on_app (d : ascii) (a b : str) :
  Forall (fun c => Ascii.eqb c d = false) a -> split_on d (a ++ d :: b) = a :: split_on d b.
Proof.
  induction 1 as [|c a Hc _ IH]; cbn [app].
  - destruct (split_on_cons d d b) as (p & ps & E1 & E2).
    rewrite E2, Ascii.eqb_refl, E1. reflexivity.
  - destruct (split_on_cons d c (a ++ d :: b)) as (p & ps & E1 & E2).
    rewrite E2, Hc. rewrite IH in E1. injection E1 as <- <-. reflexivity.
Qed.

Lemma split_on_plain (d : ascii) (a : str) :
  Forall (fun c => Ascii.eqb c d = false) a -> split_on d a = [a].
Proof.
  induction 1 as [|c a Hc _ IH]; [reflexivity|].
  destruct (split_on_cons d c a) as (p & ps & E1 & E2).
  rewrite E2, Hc. rewrite IH in E1. injection E1 as <- <-. reflexivity.
Qed.

(* what is put into the set is no longer than the field, the record, the content *)
Definition field (decode : bool) (f : str) : str := if decode then cut_nul (unescape f) else f.

Lemma field_length (decode : bool) (f : str) : length (field decode f) <= length f.
Proof.
  destruct decode; cbn [field]; [|lia].
  assert (H1 := cut_nul_length (unescape f)). assert (H2 := unescape_length f). lia.
Qed.

Theorem record_mounts_length (decode : bool) (record : str) :
  Forall (fun f => length f < length record) (record_mounts decode record).
Proof.
  unfold record_mounts. destruct (second_field record) as [f|] eqn:E; [|apply Forall_nil].
  apply Forall_cons; [|apply Forall_nil].
  apply second_field_length in E. assert (H := field_length decode f). unfold field in H. lia.
Qed.
Print Assumptions record_mounts_length.

Theorem parse_mounts_length (decode : bool) (content : str) :
  Forall (fun f => length f < length content) (parse_mounts_gen decode content).
Proof.
  unfold parse_mounts_gen. apply Forall_flat_map. apply Forall_forall. intros record Hin.
  apply split_on_piece_length in Hin.
  eapply Forall_impl; [|exact (record_mounts_length decode record)].
  intros f Hf. cbn beta in Hf. lia.
Qed.
Print Assumptions parse_mounts_length.

(* ------------------------------------------------------------------ *)
(* 4. reading back a rendered table                                   *)
(* ------------------------------------------------------------------ *)

Definition no_nul (s : str) : Prop := Forall (fun c => is_nul c = false) s.
Definition no_nl (s : str) : Prop := Forall (fun c => Ascii.eqb c ch_nl = false) s.
Definition rest_ok (m : mount) : Prop := no_nl (m_rest m).
Definition mount_ok (m : mount) : Prop := no_nul (m_dir m) /\ no_nl (m_rest m).

Lemma mount_ok_rest (ms : list mount) : Forall mount_ok ms -> Forall rest_ok ms.
Proof. apply Forall_impl. intros m [_ H]. exact H. Qed.

(* a line without its terminator *)
Definition body (m : mount) : str :=
  mangle (m_dev m) ++ ch_space :: mangle (m_dir m) ++ ch_space :: m_rest m.

Lemma mount_line_body (m : mount) : mount_line m = body m ++ [ch_nl].
Proof.
  unfold mount_line, body. cbn [app]. rewrite <- !app_assoc. cbn [app].
  rewrite <- !app_assoc. reflexivity.
Qed.

Lemma space_not_nl : Ascii.eqb ch_space ch_nl = false.
Proof. reflexivity. Qed.

Lemma body_no_nl (m : mount) : rest_ok m -> no_nl (body m).
Proof.
  intros H. unfold body, no_nl.
  apply Forall_app; split; [apply mangle_no_nl|].
  apply Forall_cons; [exact space_not_nl|].
  apply Forall_app; split; [apply mangle_no_nl|].
  apply Forall_cons; [exact space_not_nl | exact H].
Qed.

Lemma record_body (decode : bool) (m : mount) :
  record_mounts decode (body m) = [field decode (mangle (m_dir m))].
Proof.
  unfold record_mounts, second_field, body.
  rewrite (strsep_app ch_space _ _ (mangle_no_space (m_dev m))). cbn [snd].
  rewrite (strsep_app ch_space _ _ (mangle_no_space (m_dir m))). cbn [fst].
  reflexivity.
Qed.

Lemma record_empty (decode : bool) : record_mounts decode [] = [].
Proof. reflexivity. Qed.

Lemma split_render (ms : list mount) (t : str) :
  Forall rest_ok ms ->
  split_on ch_nl (render_mounts ms ++ t) = map body ms ++ split_on ch_nl t.
Proof.
  induction 1 as [|m ms Hm _ IH]; [reflexivity|].
  unfold render_mounts in *. cbn [flat_map map app].
  rewrite mount_line_body, <- !app_assoc. cbn [app].
  rewrite (split_on_app ch_nl _ _ (body_no_nl m Hm)), IH. reflexivity.
Qed.

Lemma flat_map_bodies (decode : bool) (ms : list mount) :
  flat_map (record_mounts decode) (map body ms) =
  map (fun m => field decode (mangle (m_dir m))) ms.
Proof.
  induction ms as [|m ms IH]; [reflexivity|].
  cbn [map flat_map]. rewrite record_body, IH. reflexivity.
Qed.

(* both readers, a table optionally followed by an unterminated line *)
Lemma parse_gen_render (decode : bool) (ms : list mount) :
  Forall rest_ok ms ->
  parse_mounts_gen decode (render_mounts ms) =
  map (fun m => field decode (mangle (m_dir m))) ms.
Proof.
  intros H. unfold parse_mounts_gen.
  rewrite <- (app_nil_r (render_mounts ms)), (split_render ms [] H).
  rewrite flat_map_app, flat_map_bodies. cbn [split_on flat_map]. rewrite record_empty.
  cbn [app]. apply app_nil_r.
Qed.

Lemma parse_gen_render_unterminated (decode : bool) (ms : list mount) (m : mount) :
  Forall rest_ok ms -> rest_ok m ->
  parse_mounts_gen decode (render_mounts ms ++ body m) =
  map (fun m => field decode (mangle (m_dir m))) (ms ++ [m]).
Proof.
  intros H Hm. unfold parse_mounts_gen.
  rewrite (split_render ms (body m) H), (split_on_plain ch_nl _ (body_no_nl m Hm)).
  rewrite flat_map_app, flat_map_bodies. cbn [flat_map]. rewrite record_body.
  rewrite map_app. reflexivity.
Qed.

Lemma field_true_mangle (s : str) : no_nul s -> field true (mangle s) = s.
Proof. intros H. cbn [field]. rewrite unescape_mangle. exact (cut_nul_id s H). Qed.

Lemma map_field_true (ms : list mount) :
  Forall mount_ok ms -> map (fun m => field true (mangle (m_dir m))) ms = map m_dir ms.
Proof.
  induction 1 as [|m ms [Hm _] _ IH]; [reflexivity|].
  cbn [map]. rewrite (field_true_mangle _ Hm), IH. reflexivity.
Qed.

(* MAIN: what klunok reads back is what is mounted *)
Theorem parse_render : forall ms : list mount,
  Forall mount_ok ms -> parse_mounts (render_mounts ms) = map m_dir ms.
Proof.
  intros ms H. unfold parse_mounts.
  rewrite (parse_gen_render true ms (mount_ok_rest ms H)). exact (map_field_true ms H).
Qed.
Print Assumptions parse_render.

(* the same when the last line is not terminated by a newline *)
Theorem parse_render_unterminated : forall (ms : list mount) (m : mount),
  Forall mount_ok ms -> mount_ok m ->
  parse_mounts (render_mounts ms ++ body m) = map m_dir (ms ++ [m]).
Proof.
  intros ms m H Hm. unfold parse_mounts.
  rewrite (parse_gen_render_unterminated true ms m (mount_ok_rest ms H) (proj2 Hm)).
  apply map_field_true. apply Forall_app. split; [exact H | apply Forall_cons; [exact Hm | apply Forall_nil]].
Qed.
Print Assumptions parse_render_unterminated.

Theorem parse_mounts_nil : parse_mounts [] = [].
Proof. reflexivity. Qed.
Print Assumptions parse_mounts_nil.

(* ------------------------------------------------------------------ *)
(* 5. the raw reader                                                  *)
(* ------------------------------------------------------------------ *)

Definition s_ (x : String.string) : str := String.list_ascii_of_string x.
Arguments s_ x%string.

Definition dir_ab : str := s_ "/mnt/a b".
Definition tbl_ab : list mount := [mkMount (s_ "/dev/vdb1") dir_ab (s_ "ext4 rw,relatime 0 0")].

Lemma tbl_ab_ok : Forall mount_ok tbl_ab.
Proof. repeat constructor. Qed.

Theorem parse_render_raw_refuted :
  exists ms : list mount,
    Forall mount_ok ms /\ parse_mounts_gen false (render_mounts ms) <> map m_dir ms.
Proof.
  exists tbl_ab. split; [exact tbl_ab_ok|]. vm_compute. intros H. discriminate H.
Qed.
Print Assumptions parse_render_raw_refuted.

(* what it reads instead: the escaped spelling *)
Example raw_reads_escaped :
  parse_mounts_gen false (render_mounts tbl_ab) = [s_ "/mnt/a\040b"] /\
  parse_mounts (render_mounts tbl_ab) = [s_ "/mnt/a b"].
Proof. split; vm_compute; reflexivity. Qed.

Definition plain (s : str) : Prop := Forall (fun c => kernel_escapes c = false) s.

Theorem parse_render_raw_plain : forall ms : list mount,
  Forall rest_ok ms -> Forall (fun m => plain (m_dir m)) ms ->
  parse_mounts_gen false (render_mounts ms) = map m_dir ms.
Proof.
  intros ms H Hp. rewrite (parse_gen_render false ms H). clear H.
  induction Hp as [|m ms Hm _ IH]; [reflexivity|].
  cbn [map field] in *. rewrite (mangle_plain _ Hm), IH. reflexivity.
Qed.
Print Assumptions parse_render_raw_plain.

(* in particular for tables that satisfy mount_ok *)
Corollary parse_render_raw_plain_ok (ms : list mount) :
  Forall mount_ok ms -> Forall (fun m => plain (m_dir m)) ms ->
  parse_mounts_gen false (render_mounts ms) = map m_dir ms.
Proof. intros H. apply parse_render_raw_plain. exact (mount_ok_rest ms H). Qed.

(* ------------------------------------------------------------------ *)
(* 6. composition with the start-up of Main.v                         *)
(* ------------------------------------------------------------------ *)

Theorem mounted_iff_in_table : forall (ms : list mount) (r : str),
  Forall mount_ok ms ->
  memstr r (parse_mounts (render_mounts ms)) = memstr r (map m_dir ms).
Proof. intros ms r H. rewrite (parse_render ms H). reflexivity. Qed.
Print Assumptions mounted_iff_in_table.

Lemma not_in_dirs (ms : list mount) (m : str) :
  ~ In m (map m_dir ms) <-> (forall e, In e ms -> m_dir e <> m).
Proof.
  rewrite in_map_iff. split.
  - intros H e He Heq. apply H. exists e. split; assumption.
  - intros H (e & Heq & He). exact (H e He Heq).
Qed.

(* C18 over the kernel's table: a root r resolving to m is bind-mounted onto
   itself exactly when m is not the mount point of any entry of the table the
   kernel rendered (and at most once); every root is marked *)
Theorem mount_iff_not_in_kernel_table :
  forall (is_exec : bool) (env : env) (ms : list mount) (roots : list str) (n : nat)
         (prev : option str) (cpl : nat)
         (evs : list out) (mounted' : list str) (n' cpl' : nat),
  Forall mount_ok ms ->
  e_mounted env = parse_mounts (render_mounts ms) ->
  mark_roots is_exec env roots (e_mounted env) n prev cpl = (evs, true, mounted', n', cpl') ->
  forall r m, In r roots -> assoc r (e_realpath env) = Some m ->
    In (OMark is_exec m) evs /\
    (In (OMount m) evs <-> (forall e, In e ms -> m_dir e <> m)) /\
    mount_count m evs <= 1.
Proof.
  intros is_exec env ms roots n prev cpl evs mounted' n' cpl' Hok Henv Hrun r m Hr Hm.
  destruct (mount_iff_not_mounted is_exec env roots (e_mounted env) n prev cpl evs mounted' n' cpl'
              Hrun r m Hr Hm) as (H1 & H2 & H3).
  split; [exact H1|]. split; [|exact H3].
  rewrite H2, Henv, (mounted_iff_in_table ms m Hok), memstr_false.
  apply not_in_dirs.
Qed.
Print Assumptions mount_iff_not_in_kernel_table.

(* the raw reader: "/mnt/a b" is a mount point of the kernel's table, klunok is
   asked to watch it, and it is bind-mounted once more; with the decoding
   reader it is not *)
Definition tbl2 : list mount :=
  [mkMount (s_ "/dev/vda1") (s_ "/") (s_ "ext4 rw,relatime 0 0");
   mkMount (s_ "proc") (s_ "/proc") (s_ "proc rw,nosuid,nodev,noexec,relatime 0 0");
   mkMount (s_ "/dev/vdb1") dir_ab (s_ "ext4 rw,relatime 0 0")].

Definition env_of (mounted : list str) : env :=
  mkEnv [s_ "-w"; dir_ab] [(dir_ab, dir_ab); (s_ "/", s_ "/")] mounted
        true true true (fun _ => true)
        (Some (1000%N, 100%N)) 0%N 0%N 3 SwOk SwOk SwOk true 7%N [].

Lemma tbl2_ok : Forall mount_ok tbl2.
Proof. repeat constructor. Qed.

Theorem raw_reader_mounts_twice :
  Forall mount_ok tbl2 /\
  In dir_ab (map m_dir tbl2) /\
  assoc dir_ab (e_realpath (env_of [])) = Some dir_ab /\
  (* the start-up of main *)
  In (OMount dir_ab) (main (env_of (parse_mounts_gen false (render_mounts tbl2)))) /\
  ~ In (OMount dir_ab) (main (env_of (parse_mounts (render_mounts tbl2)))) /\
  (* the same at the level of mark_roots, as in mount_iff_not_in_kernel_table *)
  (exists evs mounted' n' cpl',
     mark_roots false (env_of (parse_mounts_gen false (render_mounts tbl2))) [dir_ab]
                (parse_mounts_gen false (render_mounts tbl2)) 0 None 0 = (evs, true, mounted', n', cpl') /\
     In (OMount dir_ab) evs).
Proof.
  split; [exact tbl2_ok|].
  split; [vm_compute; tauto|].
  split; [vm_compute; reflexivity|].
  split; [vm_compute; tauto|].
  split; [vm_compute; intuition discriminate|].
  eexists _, _, _, _. split; [vm_compute; reflexivity | vm_compute; tauto].
Qed.
Print Assumptions raw_reader_mounts_twice.

(* the hypotheses of mount_iff_not_in_kernel_table are satisfiable, on both
   sides of the equivalence: "/mnt/a b" (mounted) is only marked, "/srv" (not a
   mount point) is mounted and marked *)
Example mount_iff_not_in_kernel_table_example :
  let srv := s_ "/srv" in
  let env := mkEnv [] [(dir_ab, dir_ab); (srv, srv)] (parse_mounts (render_mounts tbl2))
                   true true true (fun _ => true)
                   (Some (1000%N, 100%N)) 0%N 0%N 3 SwOk SwOk SwOk true 7%N [] in
  Forall mount_ok tbl2 /\
  e_mounted env = parse_mounts (render_mounts tbl2) /\
  mark_roots false env [dir_ab; srv] (e_mounted env) 0 None 0 =
    ([OMark false dir_ab; OMount srv; OMark false srv], true,
     srv :: map m_dir tbl2, 2, 1).
Proof.
  split; [exact tbl2_ok|]. split; [reflexivity|]. vm_compute. reflexivity.
Qed.

(* ------------------------------------------------------------------ *)
(* 7. concrete tables                                                 *)
(* ------------------------------------------------------------------ *)

Module MountExample.
  Definition nl : str := [ch_nl].

  (* a directory literally named  a\040b : the kernel escapes the backslash *)
  Definition dir_lit : str := s_ "/mnt/a\040b".

  Definition ms : list mount :=
    [mkMount (s_ "/dev/vda1") (s_ "/home") (s_ "ext4 rw 0 0");
     mkMount (s_ "/dev/vdb1") (s_ "/mnt/a b") (s_ "ext4 rw 0 0");
     mkMount (s_ "/dev/vdc1") dir_lit (s_ "ext4 rw 0 0");
     mkMount (s_ "my disk") (s_ "/mnt/tab	and") (s_ "vfat rw 0 0")].

  Example ms_ok : Forall mount_ok ms.
  Proof. repeat constructor. Qed.

  Example rendered :
    render_mounts ms =
    s_ "/dev/vda1 /home ext4 rw 0 0" ++ nl ++
    s_ "/dev/vdb1 /mnt/a\040b ext4 rw 0 0" ++ nl ++
    s_ "/dev/vdc1 /mnt/a\134040b ext4 rw 0 0" ++ nl ++
    s_ "my\040disk /mnt/tab\011and vfat rw 0 0" ++ nl.
  Proof. vm_compute. reflexivity. Qed.

  Example read_back : parse_mounts (render_mounts ms) = map m_dir ms.
  Proof. vm_compute. reflexivity. Qed.

  Example read_back_by_theorem : parse_mounts (render_mounts ms) = map m_dir ms.
  Proof. exact (parse_render ms ms_ok). Qed.

  Example read_back_raw :
    parse_mounts_gen false (render_mounts ms) =
    [s_ "/home"; s_ "/mnt/a\040b"; s_ "/mnt/a\134040b"; s_ "/mnt/tab\011and"].
  Proof. vm_compute. reflexivity. Qed.

  (* the literal name and the name with a space are told apart by the decoding
     reader, and confused by nobody: the raw spelling of the one is the real
     name of the other *)
  Example raw_confuses :
    nth 1 (parse_mounts_gen false (render_mounts ms)) [] = dir_lit /\
    nth 1 (parse_mounts (render_mounts ms)) [] = s_ "/mnt/a b" /\
    nth 2 (parse_mounts (render_mounts ms)) [] = dir_lit.
  Proof. repeat split; vm_compute; reflexivity. Qed.

  (* an empty line, a line with a single field, a line with exactly two
     fields, an unterminated last line, an escape cut short, digits out of
     range, an escaped NUL *)
  Definition odd : str :=
    s_ "/dev/vda1 /home ext4 rw 0 0" ++ nl ++
    nl ++
    s_ "onefield" ++ nl ++
    s_ "two fields" ++ nl ++
    s_ "x /a\04 y" ++ nl ++
    s_ "x /a\048b y" ++ nl ++
    s_ "x /a\477b y" ++ nl ++
    s_ "x /a\000b y" ++ nl ++
    s_ "x /a\0401 y" ++ nl ++
    s_ "last /mnt/l\040ast".

  Example odd_read :
    parse_mounts odd =
    [s_ "/home"; s_ "fields"; s_ "/a\04"; s_ "/a\048b"; s_ "/a\477b"; s_ "/a"; s_ "/a 1"; s_ "/mnt/l ast"].
  Proof. vm_compute. reflexivity. Qed.

  Example odd_records : length (split_on ch_nl odd) = 10 /\ count_ch ch_nl odd = 9.
  Proof. split; vm_compute; reflexivity. Qed.

  Example odd_inside :
    Forall (fun f => length f < length odd) (parse_mounts odd).
  Proof. exact (parse_mounts_length true odd). Qed.

  Example empty_line : parse_mounts nl = [] /\ parse_mounts (nl ++ nl) = [].
  Proof. split; reflexivity. Qed.

  Example one_field : parse_mounts (s_ "rootfs" ++ nl) = [].
  Proof. vm_compute. reflexivity. Qed.

  (* a trailing space after the only field: the second field is empty *)
  Example one_field_space : parse_mounts (s_ "rootfs " ++ nl) = [[]].
  Proof. vm_compute. reflexivity. Qed.

  (* parse_render_raw_plain is not vacuous: a table without special characters *)
  Definition plain_ms : list mount :=
    [mkMount (s_ "/dev/vda1") (s_ "/") (s_ "ext4 rw 0 0");
     mkMount (s_ "proc") (s_ "/proc") (s_ "proc rw 0 0")].
  Example plain_ms_ok :
    Forall rest_ok plain_ms /\ Forall (fun m => plain (m_dir m)) plain_ms.
  Proof. split; repeat constructor. Qed.
  Example plain_read_raw :
    parse_mounts_gen false (render_mounts plain_ms) = [s_ "/"; s_ "/proc"].
  Proof. exact (parse_render_raw_plain plain_ms (proj1 plain_ms_ok) (proj2 plain_ms_ok)). Qed.

  (* parse_render_unterminated is not vacuous *)
  Definition last_m : mount := mkMount (s_ "tmpfs") (s_ "/run/my dir") (s_ "tmpfs rw 0 0").
  Example last_m_ok : mount_ok last_m.
  Proof. split; repeat constructor. Qed.
  Example unterminated_by_theorem :
    parse_mounts (render_mounts ms ++ body last_m) = map m_dir (ms ++ [last_m]).
  Proof. exact (parse_render_unterminated ms last_m ms_ok last_m_ok). Qed.

  (* mounted_iff_in_table on both sides *)
  Example member_yes : memstr (s_ "/mnt/a b") (parse_mounts (render_mounts ms)) = true.
  Proof. vm_compute. reflexivity. Qed.
  Example member_no : memstr (s_ "/mnt/a") (parse_mounts (render_mounts ms)) = false.
  Proof. rewrite (mounted_iff_in_table ms _ ms_ok). vm_compute. reflexivity. Qed.

  Example unterminated :
    parse_mounts (render_mounts ms ++ body (mkMount (s_ "tmpfs") (s_ "/run/my dir") (s_ "tmpfs rw 0 0")))
    = map m_dir ms ++ [s_ "/run/my dir"].
  Proof. vm_compute. reflexivity. Qed.
End MountExample.
