(* C19 The journal gets one well-formed line per labelled event, append-only. *)
From K Require Import Str Dec Trace Fs World Progs DecProofs JournalProofs.

(* timestamp, label, process id when there is one, path, separated by tabs; an
   empty timestamp or label is omitted together with its tab *)
Theorem C19_line : forall (ts ev : str) (pid : N) (path : str),
  journal_line ts ev pid path =
    (match ts with [] => [] | _ => ts ++ [ch_tab] end) ++
    (match ev with [] => [] | _ => ev ++ [ch_tab] end) ++
    (if (pid =? 0)%N then [] else dec pid ++ [ch_tab]) ++ path ++ [ch_nl].
Proof. exact journal_line_shape. Qed.
Print Assumptions C19_line.

(* exactly one line: the only newline is the last character *)
Theorem C19_one_line : forall (ts ev : str) (pid : N) (path : str),
  ~ In ch_nl ts -> ~ In ch_nl ev -> ~ In ch_nl path ->
  count_occ ascii_dec (journal_line ts ev pid path) ch_nl = 1 /\
  exists body, journal_line ts ev pid path = body ++ [ch_nl].
Proof.
  intros. split; [apply journal_line_count_nl; assumption | apply journal_line_ends_nl].
Qed.
Print Assumptions C19_one_line.

(* whatever pieces the operating system accepts a line in (any positive
   chunking at every write), exactly the line is appended, once *)
Theorem C19_short_writes : forall (o : oracle), benign o ->
  forall (fuel i : nat) (bytes : str) (w : world), S (length bytes) <= fuel ->
  exists w', write_all fuel i bytes o w = (Some tt, w') /\
             appended i bytes (w_fs w) (w_fs w') /\ w_tr w' = w_tr w /\ w_clock w' = w_clock w.
Proof. exact write_all_appends. Qed.
Print Assumptions C19_short_writes.

(* a labelled event appends exactly its line to the journal and changes nothing
   else (existing content is a prefix of the new content); the timestamp
   pattern may expand to nothing *)
Theorem C19_note : forall (o : oracle) (w : world) (ev : str) (pid : N) (path : str) (j : journal),
  benign o -> tr_ok (w_tr w) = true ->
  let ts := expand_pattern (j_pattern j) (dec (Z.to_N (w_clock w))) in
  length ts <= 255 ->
  exists w', note (Some ev) pid path (Some j) o w = (Some tt, w') /\
             appended (j_ino j) (journal_line ts ev pid path) (w_fs w) (w_fs w') /\
             w_tr w' = w_tr w /\ w_clock w' = w_clock w.
Proof. intros o w ev pid path j Hb Hok. apply note_appends_one_line; assumption. Qed.
Print Assumptions C19_note.

(* event kinds without a label, or no journal: nothing at all happens *)
Theorem C19_unlabelled : forall (o : oracle) (w : world) (pid : N) (path : str) (jo : option journal) (ev : option str),
  note None pid path jo o w = (Some tt, w) /\ note ev pid path None o w = (Some tt, w).
Proof. intros. split; [apply note_no_event | apply note_no_journal]. Qed.
Print Assumptions C19_unlabelled.

Local Open Scope char_scope.
Example C19_example :
  journal_line ["1";"7"] ["s";"t"] 42%N ["a";"/";"b"] = ["1";"7";"009";"s";"t";"009";"4";"2";"009";"a";"/";"b";"010"] /\
  journal_line [] [] 0%N ["x"] = ["x";"010"].
Proof. vm_compute. auto. Qed.
