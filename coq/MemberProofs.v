(* C11, the missing half: the UNSTABLE project tree holds hard links to the
   LATEST stored versions of the project's members.

   handle_timeout's file branch (Handler.v; src/handler.c after pop_head): when
   the metadata of the head carries a project offset k (the first k characters
   of the path are the project root) and the file was stored, the handler builds
   unstable_root/<project name>/<path inside the project>, unlinks that name
   (ENOENT tolerated), creates its parents and hard-links the new version there.

   For every benign oracle:

     member_path_eq          the name the handler computes with name_start is
                             unstable_root/<basename of the root>/<rest of the path>
     member_head_iteration   one iteration of handle_timeout_loop on a due member
                             head: the version is made (as PassProofs.step_post),
                             and the unstable path is THE SAME INODE (a hard link),
                             whether it was absent before or a link to an older
                             version; the older version is untouched
     member_then_project     the member iteration followed by the project-head
                             iteration of the same pass: the new snapshot holds, at
                             the path inside the project, the inode of the version
                             just stored
     Module MemberExample    /w/proj with src/m.c stored twice *)
From K Require Import Str Dec Trace Fs World Progs Sieve Handler Linq LinqSpec LinqProofs
     DecProofs SyncProofs AbandonProofs JournalProofs QueueProofs Confine HistoryProofs StoreFs
     PassProofs PassProofs2.
From K Require Properties_C11 SnapshotProofs.
From Coq Require Import Lia.
Arguments N.add : simpl never.
Arguments N.sub : simpl never.
Arguments N.mul : simpl never.
Arguments N.of_nat : simpl never.
Arguments N.eqb : simpl never.
Arguments N.leb : simpl never.
Arguments Nat.pow : simpl never.
Arguments Nat.mul : simpl never.

(* ====================================================================== *)
(* 1. the metadata of a project member                                     *)
(* ====================================================================== *)

(* what push_to_linq attaches to a member of a project whose root is the first
   k characters of the path: no history flag, offset k *)
Definition mmeta (k : nat) : N := linq_meta false (Some k).

Lemma mmeta_odd k : N.odd (mmeta k) = false.
Proof. exact (proj1 (Properties_C11.C11_meta_roundtrip false k)). Qed.
Lemma mmeta_bit k : N.testbit (mmeta k) 1 = false.
Proof. exact (proj1 (proj2 (Properties_C11.C11_meta_roundtrip false k))). Qed.
Lemma mmeta_sr2 k : shift_right2 (mmeta k) = k.
Proof. exact (proj2 (proj2 (Properties_C11.C11_meta_roundtrip false k))). Qed.
Lemma mmeta_shift k : N.shiftr (mmeta k) 2 = N.of_nat k.
Proof.
  pose proof (mmeta_sr2 k) as E. unfold shift_right2 in E.
  rewrite <- (N2Nat.id (N.shiftr (mmeta k) 2)). rewrite E. reflexivity.
Qed.

(* ====================================================================== *)
(* 2. the name of the hard link                                            *)
(* ====================================================================== *)

(* the path handle_timeout links the new version to *)
Definition member_path (cfg : config) (p : str) (k : nat) : str :=
  c_unstable_root cfg ++ ch_slash ::
    firstn (k - name_start p k k) (skipn (name_start p k k) p) ++ skipn k p.

Notation nosl := SnapshotProofs.nosl.

Lemma nosl_nth b : nosl b = true -> forall j c, nth_error b j = Some c -> is_slash c = false.
Proof.
  induction b as [|x b IH]; intros Hb j c Hj; [destruct j; discriminate|].
  cbn [SnapshotProofs.nosl forallb] in Hb. apply andb_true_iff in Hb. destruct Hb as [Hx Hb].
  destruct j as [|j]; cbn [nth_error] in Hj.
  - injection Hj as <-. apply negb_true_iff. exact Hx.
  - exact (IH Hb j c Hj).
Qed.

(* the scan back from the end of the root stops after the last '/' of the root *)
Lemma name_start_scan X name rest : nosl name = true ->
  forall j fuel, j <= length name -> j <= fuel ->
    name_start (X ++ ch_slash :: name ++ rest) (S (length X) + j) fuel = S (length X).
Proof.
  intros Hn. induction j as [|j IH]; intros fuel Hj Hf.
  - rewrite Nat.add_0_r. destruct fuel as [|fuel]; [reflexivity|].
    cbn [name_start]. rewrite nth_error_app2 by lia. rewrite Nat.sub_diag. cbn [nth_error].
    change (is_slash ch_slash) with true. reflexivity.
  - destruct fuel as [|fuel]; [lia|].
    replace (S (length X) + S j) with (S (S (length X) + j)) by lia.
    cbn [name_start].
    assert (Hlt : j < length name) by lia.
    destruct (nth_error name j) as [c|] eqn:Ec; [|apply nth_error_None in Ec; lia].
    assert (En : nth_error (X ++ ch_slash :: name ++ rest) (S (length X) + j) = Some c).
    { rewrite nth_error_app2 by lia. replace (S (length X) + j - length X) with (S j) by lia.
      cbn [nth_error]. rewrite nth_error_app1 by exact Hlt. exact Ec. }
    rewrite En. rewrite (nosl_nth name Hn j c Ec). apply IH; lia.
Qed.

Lemma name_start_root X name rest : nosl name = true ->
  name_start (X ++ ch_slash :: name ++ rest) (length X + 1 + length name) (length X + 1 + length name)
  = S (length X).
Proof.
  intros Hn. replace (length X + 1 + length name) with (S (length X) + length name) at 1 by lia.
  apply name_start_scan; [exact Hn | lia | lia].
Qed.

Lemma basename_app_nosl X b : nosl b = true -> basename (X ++ ch_slash :: b) = b.
Proof.
  intros Hb. unfold basename, rindex.
  rewrite rindex_from_app. cbn [rindex_from]. change (is_slash ch_slash) with true. cbv iota.
  rewrite rindex_from_none by exact Hb.
  cbn [Nat.add].
  replace (S (length X)) with (length (X ++ [ch_slash])) by (rewrite app_length; cbn; lia).
  replace (X ++ ch_slash :: b) with ((X ++ [ch_slash]) ++ b) by (rewrite <- app_assoc; reflexivity).
  rewrite skipn_app, skipn_all, Nat.sub_diag. reflexivity.
Qed.

(* "the project name is the last component of the root": the queued path is
   X/name/..., the root X/name is its first k characters *)
Record member_split (p : str) (k : nat) (X name rest : str) : Prop := {
  MS_path : p = X ++ ch_slash :: name ++ rest;
  MS_name : nosl name = true;
  MS_k : k = length X + 1 + length name
}.

Lemma member_split_root p k X name rest :
  member_split p k X name rest -> firstn k p = X ++ ch_slash :: name /\ skipn k p = rest.
Proof.
  intros [-> Hn ->].
  replace (X ++ ch_slash :: name ++ rest) with ((X ++ ch_slash :: name) ++ rest)
    by (rewrite <- app_assoc; reflexivity).
  assert (El : length X + 1 + length name = length (X ++ ch_slash :: name))
    by (rewrite app_length; cbn [length]; lia).
  rewrite El. split.
  - rewrite firstn_app, Nat.sub_diag, firstn_all. cbn [firstn]. apply app_nil_r.
  - rewrite skipn_app, skipn_all, Nat.sub_diag. reflexivity.
Qed.

Theorem member_path_eq cfg p k X name rest :
  member_split p k X name rest ->
  member_path cfg p k = c_unstable_root cfg ++ ch_slash :: name ++ rest /\
  basename (firstn k p) = name /\
  member_path cfg p k = (c_unstable_root cfg ++ ch_slash :: basename (firstn k p)) ++ skipn k p.
Proof.
  intros HS. destruct (member_split_root _ _ _ _ _ HS) as [Ef Es].
  destruct HS as [Hp Hn Hk].
  assert (E1 : member_path cfg p k = c_unstable_root cfg ++ ch_slash :: name ++ rest).
  { unfold member_path. rewrite Es. rewrite Hp, Hk. rewrite (name_start_root X name rest Hn).
    replace (length X + 1 + length name - S (length X)) with (length name) by lia.
    replace (X ++ ch_slash :: name ++ rest) with ((X ++ [ch_slash]) ++ name ++ rest)
      by (rewrite <- app_assoc; reflexivity).
    replace (S (length X)) with (length (X ++ [ch_slash])) by (rewrite app_length; cbn; lia).
    rewrite skipn_app, skipn_all, Nat.sub_diag. cbn [skipn app].
    rewrite firstn_app, Nat.sub_diag, firstn_all. cbn [firstn]. rewrite app_nil_r. reflexivity. }
  assert (E2 : basename (firstn k p) = name) by (rewrite Ef; apply basename_app_nosl; exact Hn).
  split; [exact E1|]. split; [exact E2|].
  rewrite E1, E2, Es. rewrite <- app_assoc. reflexivity.
Qed.
Print Assumptions member_path_eq.

(* ====================================================================== *)
(* 3. single calls: unlink that tolerates ENOENT, link                     *)
(* ====================================================================== *)

Lemma k_unlink_tolerant o w x :
  benign o -> keys_nodup (w_fs w) ->
  (lookup (w_fs w) x = None /\ missing_errno x (w_fs w) = ENOENT) \/
  (exists io, lookup (w_fs w) x = Some (NFile io)) ->
  exists r wu,
    k_unlink x o w = (Some r, wu) /\ (r = None \/ r = Some ENOENT) /\
    w_tr wu = w_tr w /\ w_clock wu = w_clock w /\
    lookup (w_fs wu) x = None /\
    (forall y, y <> x -> lookup (w_fs wu) y = lookup (w_fs w) y) /\
    fs_files (w_fs wu) = fs_files (w_fs w) /\ fs_next (w_fs wu) = fs_next (w_fs w) /\
    keys_nodup (w_fs wu).
Proof.
  intros H Hnd Hx. unfold k_unlink. rewrite sys_unit_benign by exact H. unfold fs_unlink.
  destruct Hx as [[Hl Em]|[io Hl]]; rewrite Hl.
  - rewrite Em. cbn [fst snd]. eexists _, _. split; [reflexivity|].
    split; [right; reflexivity|]. cbn [w_fs w_tr w_clock]. auto 10.
  - cbn [fst snd]. eexists _, _. split; [reflexivity|].
    split; [left; reflexivity|]. cbn [w_fs w_tr w_clock].
    split; [reflexivity|]. split; [reflexivity|].
    split.
    { apply lookup_del_dent_same; [exact Hnd|]. intros ->. rewrite lookup_root in Hl. discriminate. }
    split; [intros y Hy; apply lookup_del_dent_other; exact Hy|].
    split; [reflexivity|]. split; [reflexivity|]. apply keys_nodup_del. exact Hnd.
Qed.

Lemma k_link_new o w a b i :
  benign o -> lookup (w_fs w) a = Some (NFile i) ->
  lookup (w_fs w) b = None -> lookup (w_fs w) (dirname b) = Some NDir ->
  exists wl, k_link a b o w = (Some None, wl) /\
             w_fs wl = add_dent b (NFile i) (w_fs w) /\ w_tr wl = w_tr w /\ w_clock wl = w_clock w.
Proof.
  intros H Ha Hb Hd. unfold k_link. rewrite sys_unit_benign by exact H.
  unfold fs_link, parent_is_dir. rewrite Ha, Hb, Hd. cbn [fst snd].
  eexists. split; [reflexivity|]. cbn [w_fs w_tr w_clock]. auto.
Qed.

(* ====================================================================== *)
(* 4. one iteration of the loop on a due MEMBER head                       *)
(* ====================================================================== *)

(* in addition to PassProofs.plain_ok (the entry, the source, the first
   candidate name in the store, the offset path, the journal): the project
   offset and the place of the hard link *)
Record member_ok (cfg : config) (cpl : nat) (qdir : str) (f : fs) (now : Z)
       (p : str) (k : nat) : Prop := {
  (* the offset is one push_to_linq produces: positive, inside the path *)
  MO_k_pos : 0 < k;
  MO_k_le : k <= length p;
  (* the unstable path: absolute; either free or a link to an older version *)
  MO_uroot_abs : exists r, c_unstable_root cfg = ch_slash :: r;
  MO_up : lookup f (member_path cfg p k) = None \/
          exists io, lookup f (member_path cfg p k) = Some (NFile io);
  (* nothing but directories on the way to it *)
  MO_up_par : forall d, In d (parents_of (member_path cfg p k)) ->
                        lookup f d = Some NDir \/ lookup f d = None;
  (* it is not in the queue directory and does not nest with the new version *)
  MO_up_q : Str.under qdir (member_path cfg p k) = false;
  MO_up_ne : member_path cfg p k <> store_name cfg cpl now p;
  MO_up_nin : ~ In (member_path cfg p k) (parents_of (store_name cfg cpl now p));
  MO_dst_nin : ~ In (store_name cfg cpl now p) (parents_of (member_path cfg p k))
}.

(* the file system after the iteration, relative to the one before:
   PassProofs.step_post with the unstable path and its ancestors excepted,
   plus the hard link *)
Record member_post (cfg : config) (cpl : nat) (oj : option journal) (hname : str)
       (f f' : fs) (now : Z) (p : str) (k : nat) (b : str) : Prop := {
  (* (1) the new version, with the content of the source *)
  MP_dst : lookup f' (store_name cfg cpl now p) = Some (NFile (fs_next f));
  MP_bytes : f_bytes (get_file f' (fs_next f)) = b;
  MP_par : forall d, In d (parents_of (store_name cfg cpl now p)) -> lookup f' d = Some NDir;
  (* (2) the unstable path is the same inode: a hard link to the new version *)
  MP_link : lookup f' (member_path cfg p k) = Some (NFile (fs_next f));
  MP_link_par : forall d, In d (parents_of (member_path cfg p k)) -> lookup f' d = Some NDir;
  (* (3) the head link is gone *)
  MP_head : lookup f' hname = None;
  (* every other name is as before; an existing name other than the unstable
     path and the head is as before (in particular every older version) *)
  MP_other : forall x, x <> store_name cfg cpl now p ->
                       ~ In x (parents_of (store_name cfg cpl now p)) ->
                       x <> member_path cfg p k -> ~ In x (parents_of (member_path cfg p k)) ->
                       x <> hname -> lookup f' x = lookup f x;
  MP_exist : forall x, x <> hname -> x <> member_path cfg p k -> lookup f x <> None ->
                       lookup f' x = lookup f x;
  (* every other inode but the journal is as before; the journal is appended to *)
  MP_files : forall j, j <> fs_next f -> (forall jn, oj = Some jn -> j <> j_ino jn) ->
                       get_file f' j = get_file f j;
  MP_journal : forall jn, oj = Some jn ->
      f_bytes (get_file f' (j_ino jn)) =
        f_bytes (get_file f (j_ino jn)) ++ jline oj (c_ev_stored cfg) (rel_of cpl p) now /\
      f_readable (get_file f' (j_ino jn)) = f_readable (get_file f (j_ino jn));
  MP_next : fs_next f' = S (fs_next f)
}.

Lemma member_path_abs cfg p k :
  (exists r, c_unstable_root cfg = ch_slash :: r) -> exists r, member_path cfg p k = ch_slash :: r.
Proof. intros [r Hr]. unfold member_path. rewrite Hr. eexists. reflexivity. Qed.

(* the iteration from the point where q_get_head has delivered the member
   (possibly after skipping heads that are queued again behind): [q] and [f0]
   are the queue and the file system q_get_head leaves *)
Lemma member_iteration_from_head o w h rev fuel q wb f0 p k t rest i b :
  benign o -> tr_ok (w_tr w) = true ->
  q_get_head (S (N.to_nat (q_size (h_q h)))) (h_q h) o (upd_tr tr_try w) =
    (Some (Some (QReady p (mmeta k)), q), wb) ->
  w_fs wb = f0 -> w_clock wb = w_clock w -> tr_keep (tr_try (w_tr w)) (w_tr wb) ->
  keys_nodup f0 ->
  QRel q f0 ((p, mmeta k, t) :: rest) ->
  plain_ok (h_cfg h) (h_cpl h) (h_journal h) (q_dir q) f0 (w_clock w) p i b ->
  member_ok (h_cfg h) (h_cpl h) (q_dir q) f0 (w_clock w) p k ->
  exists w',
    handle_timeout_loop (S fuel) rev h o w =
      handle_timeout_loop fuel rev (set_q (popped p q) h) o w' /\
    member_post (h_cfg h) (h_cpl h) (h_journal h) (head_name q)
                f0 (w_fs w') (w_clock w) p k b /\
    QRel (popped p q) (w_fs w') rest /\
    keys_nodup (w_fs w') /\
    tr_keep (w_tr w) (w_tr w') /\ w_clock w' = w_clock w.
Proof.
  intros H Hok Eb Fb Cb Kb Hnd HR HP HM.
  destruct HP as [Pabs Plast Pcpl Pvlen Pvslash Psrc Pfile Pino Prabs Pfree Ppar Pq
                  Pofree Popar Pone Ponin Podir Pjfits Pjino].
  destruct HM as [Mpos Mle Muabs Mup Muppar Mupq Mupne Mupnin Mdstnin].
  set (cfg := h_cfg h) in *.
  set (dst := store_name cfg (h_cpl h) (w_clock w) p) in *.
  set (offp := offset_name cfg (h_cpl h) p) in *.
  set (UP := member_path cfg p k) in *.
  pose proof (member_path_abs cfg p k Muabs) as [uprest HUPabs]. fold UP in HUPabs.
  cbn [handle_timeout_loop].
  rewrite (bind_some _ _ _ _ _ _ (is_ok_eq o w)). rewrite Hok. cbn [negb].
  rewrite (bind_some _ _ _ _ _ _ (try_eq o w)).
  set (wa := upd_tr tr_try w).
  assert (Hoka : tr_ok (w_tr wa) = true) by (apply tr_try_ok; exact Hok).
  fold wa in Eb. rewrite (bind_some _ _ _ _ _ _ Eb).
  rewrite (bind_some _ _ _ _ _ _ (finally_rethrow_eq _ o wb)).
  set (wc := upd_tr (tr_finally_rethrow_static M_linq_cannot_get_head) wb).
  assert (Kc : tr_keep (w_tr w) (w_tr wc)) by (apply tr_keep_finally_rethrow; assumption).
  assert (Fc : w_fs wc = f0) by exact Fb.
  assert (Cc : w_clock wc = w_clock w) by exact Cb.
  pose proof (tr_keep_ok _ _ Kc) as Hokc.
  clearbody wc. clear Eb.
  cbv iota beta.
  rewrite (bind_some _ _ _ _ _ _ (is_ok_eq o wc)). rewrite Hokc. cbv iota.
  cbn [set_q h_cfg h_cpl h_q h_journal]. fold cfg.
  assert (Ets : get_timestamp (c_version_pattern cfg) o wc =
                (Some (Some (version_of cfg (w_clock w))), wc)).
  { unfold version_of. rewrite <- Cc. apply get_timestamp_ok; [exact Hokc|].
    rewrite Cc. exact Pvlen. }
  rewrite (bind_some _ _ _ _ _ _ Ets).
  rewrite (bind_some _ _ _ _ _ _ (is_ok_eq o wc)). rewrite Hokc. rewrite Pvslash.
  rewrite (bind_some _ _ _ _ _ _ (ret_eq tt o wc)).
  rewrite (bind_some _ _ _ _ _ _ (is_ok_eq o wc)). rewrite Hokc.
  rewrite mmeta_shift, mmeta_odd, mmeta_bit, mmeta_sr2.
  rewrite Pabs, Plast.
  assert (Hn0 : (N.of_nat (length p) <? N.of_nat k)%N = false) by (apply N.ltb_ge; lia).
  assert (Hcpl : Nat.ltb (length p) (h_cpl h) = false) by (apply Nat.ltb_ge; exact Pcpl).
  rewrite Hn0, Hcpl. cbn [negb orb andb].
  rewrite (bind_some _ _ _ _ _ _ (ret_eq 0%N o wc)).
  rewrite (bind_some _ _ _ _ _ _ (is_ok_eq o wc)). rewrite Hokc. cbn [negb].
  rewrite (bind_some _ _ _ _ _ _ (get_fs_eq o wc)).
  change (N.to_nat 0) with 0.
  fold (rel_of (h_cpl h) p). fold (offset_name cfg (h_cpl h) p). fold offp.
  fold (member_path cfg p k). fold UP.
  set (sp := create_store_path (c_store_root cfg) (rel_of (h_cpl h) p) (version_of cfg (w_clock w))).
  assert (Edst : current_path sp = dst) by apply current_path_create.
  assert (Habs : exists r, current_path sp = ch_slash :: r).
  { rewrite Edst. destruct Prabs as [r Hr]. unfold dst, store_name. rewrite Hr.
    eexists. reflexivity. }
  set (n := dir_entry_count (w_fs wc) (dirname (current_path sp))). clearbody n.
  destruct (file_store_plain o wc cfg (S n) sp p offp i b H Hokc Habs)
    as (wd & Ed & Kd & Cd & Ld & Bd & Id & Od & Pd & Gd & Nd & NDd);
    try (rewrite Fc); try (rewrite Edst); try assumption.
  rewrite Fc in Ld, Bd, Od, Pd, Gd, Nd, NDd. rewrite Edst in Ld, Id, Od, Pd.
  rewrite (bind_some _ _ _ _ _ _ Ed). clear Ed. cbv iota beta.
  pose proof (tr_keep_ok _ _ Kd) as Hokd.
  assert (HRd : QRel q (w_fs wd) ((p, mmeta k, t) :: rest)).
  { apply (QRel_frame q f0); [exact HR | |].
    - intros x Hx. apply Pd; [|exact Hx]. intros ->. exact (Hx Pfree).
    - intros k' Hk. destruct (under_join_dec (q_dir q) k' dst (QR_nroot _ _ _ HR) Pq) as [A B].
      rewrite Od; [exact Hk | congruence | exact B]. }
  destruct (pop_ok q p (mmeta k) t rest o wd H Hokd (NDd Hnd) HRd)
    as (we & Ee & HRe & Fe & NDe & Ke & Ce & Le & Oe & Ge).
  rewrite (bind_some _ _ _ _ _ _ Ee). clear Ee.
  pose proof (tr_keep_ok _ _ Ke) as Hoke.
  rewrite (bind_some _ _ _ _ _ _ (is_ok_eq o we)). rewrite Hoke. cbn [negb].
  assert (Hk0 : Nat.ltb 0 k = true) by (apply Nat.ltb_lt; exact Mpos).
  rewrite Hk0. cbn [andb]. rewrite Edst.
  (* names that differ *)
  destruct (under_join_dec (q_dir q) (q_head q) dst (QR_nroot _ _ _ HR) Pq) as [Hhd Hhp].
  destruct (under_join_dec (q_dir q) (q_head q) UP (QR_nroot _ _ _ HR) Mupq) as [Hhu Hhup].
  fold (head_name q) in Hhd, Hhp, Hhu, Hhup.
  (* the file system after the copy and the pop, at the names that matter *)
  assert (LeUP : lookup (w_fs we) UP = lookup f0 UP).
  { rewrite (Oe UP Hhu). apply Od; assumption. }
  assert (LePar : forall d, In d (parents_of UP) ->
                            lookup (w_fs we) d = Some NDir \/ lookup (w_fs we) d = None).
  { intros d Hd.
    assert (Hdh : d <> head_name q) by (intros ->; exact (Hhup Hd)).
    rewrite (Oe d Hdh).
    destruct (str_in_dec d (parents_of dst)) as [Hin|Hnin]; [left; exact (Id d Hin)|].
    rewrite Od; [exact (Muppar d Hd) | | exact Hnin]. intros ->. exact (Mdstnin Hd). }
  assert (LeDst : lookup (w_fs we) dst = Some (NFile (fs_next f0))).
  { rewrite Oe by exact Hhd. exact Ld. }
  (* unlink(unstable path), ENOENT tolerated *)
  destruct (k_unlink_tolerant o we UP H NDe) as (r & wu & Eu & Hr & Tu & Cu & Lu & Ou & Gu & Nu & NDu).
  { rewrite LeUP. destruct Mup as [Hn|[io Hio]]; [left | right; exists io; exact Hio].
    split; [exact Hn|]. apply missing_enoent_parents; [exists uprest; exact HUPabs | exact LePar]. }
  assert (Eur : (match r with
                 | None | Some ENOENT => ret_ tt
                 | Some e => throw_errno e
                 end) o wu = (Some tt, wu)) by (destruct Hr as [-> | ->]; reflexivity).
  assert (Hoku : tr_ok (w_tr wu) = true) by (rewrite Tu; exact Hoke).
  (* create_parents(unstable path) *)
  destruct (create_parents_spec o wu UP uprest H Hoku HUPabs) as
    (w1 & E1 & T1 & F1 & N1 & I1 & O1 & P1 & L1 & ND1).
  { intros d Hd. rewrite Ou; [exact (LePar d Hd)|]. intros ->. exact (parents_of_not_self _ Hd). }
  { exact NDu. }
  pose proof (SnapshotProofs.create_parents_clock o UP wu _ w1 H E1) as C1.
  (* link(new version, unstable path) *)
  assert (L1UP : lookup (w_fs w1) UP = None).
  { rewrite O1 by apply parents_of_not_self. exact Lu. }
  assert (L1dst : lookup (w_fs w1) dst = Some (NFile (fs_next f0))).
  { rewrite P1; rewrite Ou by (intros X; exact (Mupne (eq_sym X))); [exact LeDst | rewrite LeDst; discriminate]. }
  destruct (k_link_new o w1 dst UP (fs_next f0) H L1dst L1UP L1) as (w2 & E2 & F2 & T2 & C2).
  lazymatch goal with
  | |- exists w', (bind ?blk _) o we = _ /\ _ =>
      assert (Eblock : blk o we = (Some tt, w2))
  end.
  { rewrite (bind_some _ _ _ _ _ _ Eu). rewrite (bind_some _ _ _ _ _ _ Eur).
    rewrite (bind_some _ _ _ _ _ _ E1).
    rewrite (bind_some _ _ _ _ _ _ (is_ok_eq o w1)). rewrite T1, Hoku.
    rewrite (bind_some _ _ _ _ _ _ E2). reflexivity. }
  rewrite (bind_some _ _ _ _ _ _ Eblock). clear Eblock Eu Eur E1 E2.
  assert (Hok2 : tr_ok (w_tr w2) = true) by (rewrite T2, T1; exact Hoku).
  assert (Cw2 : w_clock w2 = w_clock w) by congruence.
  destruct (record_event_ok o w2 (c_ev_stored cfg) (rel_of (h_cpl h) p)
              (set_q (popped p q) (set_q q h)) H Hok2)
    as (wf & Ef & Kf & Cf & Jf).
  { cbn [set_q h_journal]. rewrite Cw2. exact Pjfits. }
  cbn [set_q h_journal] in Jf. rewrite Cw2 in Jf.
  rewrite (bind_some _ _ _ _ _ _ Ef). clear Ef.
  exists wf. split; [reflexivity|].
  (* lookups in the final file system *)
  assert (Lf : forall x, lookup (w_fs wf) x = lookup (w_fs w2) x)
    by (intros x; exact (journal_step_lookup _ _ _ _ x Jf)).
  assert (L2UP : lookup (w_fs w2) UP = Some (NFile (fs_next f0))).
  { rewrite F2. apply lookup_add_dent_same. exact L1UP. }
  assert (L2o : forall x, x <> UP -> lookup (w_fs w2) x = lookup (w_fs w1) x).
  { intros x Hx. rewrite F2. apply lookup_add_dent_other. exact Hx. }
  (* a name that exists after the pop and is not the unstable path is kept *)
  assert (Keep : forall x, x <> UP -> lookup (w_fs we) x <> None ->
                           lookup (w_fs w2) x = lookup (w_fs we) x).
  { intros x Hx Hex. rewrite (L2o x Hx). rewrite P1; rewrite (Ou x Hx); [reflexivity | exact Hex]. }
  (* a name off the unstable path and its ancestors is as after the pop *)
  assert (Off : forall x, x <> UP -> ~ In x (parents_of UP) -> lookup (w_fs w2) x = lookup (w_fs we) x).
  { intros x Hx Hnin. rewrite (L2o x Hx), (O1 x Hnin). exact (Ou x Hx). }
  assert (G2 : forall j, get_file (w_fs w2) j = get_file (w_fs wd) j).
  { intros j. unfold get_file. rewrite F2. cbn [add_dent fs_files]. rewrite F1, Gu, Ge. reflexivity. }
  assert (Hjn : forall jn, h_journal h = Some jn -> fs_next f0 <> j_ino jn).
  { intros jn Hj. destruct (Pjino jn Hj) as [_ Hlt]. lia. }
  assert (ND2 : keys_nodup (w_fs w2)).
  { rewrite F2. apply keys_nodup_add; [exact ND1 | exact L1UP]. }
  split; [|split; [|split; [|split]]].
  - constructor; fold dst UP.
    + rewrite Lf, Keep; [exact LeDst | exact (fun X => Mupne (eq_sym X)) | rewrite LeDst; discriminate].
    + rewrite (journal_step_file _ _ _ _ _ Jf Hjn), G2. exact Bd.
    + intros d Hd.
      assert (Hdh : d <> head_name q) by (intros ->; exact (Hhp Hd)).
      assert (Hde : lookup (w_fs we) d = Some NDir) by (rewrite (Oe d Hdh); exact (Id d Hd)).
      rewrite Lf, Keep; [exact Hde | intros ->; exact (Mupnin Hd) | rewrite Hde; discriminate].
    + rewrite Lf. exact L2UP.
    + intros d Hd. rewrite Lf, L2o by (intros ->; exact (parents_of_not_self _ Hd)). exact (I1 d Hd).
    + rewrite Lf, Off; [exact Le | exact (fun X => Hhu (eq_sym X)) | exact Hhup].
    + intros x X1 X2 X3 X4 X5. rewrite Lf, (Off x X3 X4), (Oe x X5). exact (Od x X1 X2).
    + intros x X1 X2 X3.
      assert (Hxd : lookup (w_fs wd) x = lookup f0 x).
      { apply Pd; [|exact X3]. intros ->. exact (X3 Pfree). }
      rewrite Lf, Keep; [rewrite (Oe x X1); exact Hxd | exact X2 | rewrite (Oe x X1), Hxd; exact X3].
    + intros j K1 K2. rewrite (journal_step_file _ _ _ _ _ Jf K2), G2. exact (Gd j K1).
    + intros jn Hj. unfold journal_step in Jf. rewrite Hj in Jf. rewrite Hj.
      destruct Jf as (A1 & A2 & _).
      assert (Ej : get_file (w_fs w2) (j_ino jn) = get_file f0 (j_ino jn)).
      { rewrite G2. apply Gd. intros E. exact (Hjn jn Hj (eq_sym E)). }
      rewrite A1, A2, Ej. split; reflexivity.
    + rewrite (journal_step_next _ _ _ _ Jf), F2. cbn [add_dent fs_next]. rewrite N1, Nu, Fe.
      cbn [del_dent fs_next]. exact Nd.
  - apply (QRel_same_dents _ (w_fs w2)); [exact (journal_step_dents _ _ _ _ Jf)|].
    apply (SnapshotProofs.QRel_frame (popped p q) (w_fs we)); [|exact HRe].
    intros x Hx. change (q_dir (popped p q)) with (q_dir q) in Hx.
    destruct Hx as [->|[k' ->]].
    + pose proof (QR_dir _ _ _ HRe) as Hd. change (q_dir (popped p q)) with (q_dir q) in Hd.
      apply Keep; [|rewrite Hd; discriminate].
      intros E. rewrite E, LeUP in Hd. destruct Mup as [Hn|[io Hio]]; congruence.
    + destruct (under_join_dec (q_dir q) k' UP (QR_nroot _ _ _ HR) Mupq) as [A B].
      apply Off; [exact (fun X => A (eq_sym X)) | exact B].
  - exact (journal_step_nodup _ _ _ _ Jf ND2).
  - apply (tr_keep_trans _ _ _ Kc). apply (tr_keep_trans _ _ _ Kd). apply (tr_keep_trans _ _ _ Ke).
    assert (Tw2 : w_tr w2 = w_tr we) by congruence.
    rewrite <- Tw2. exact Kf.
  - congruence.
Qed.

Theorem member_head_iteration o w h rev fuel p k t rest i b :
  benign o -> tr_ok (w_tr w) = true -> keys_nodup (w_fs w) ->
  QRel (h_q h) (w_fs w) ((p, mmeta k, t) :: rest) ->   (* a project member: offset k, no history flag *)
  (q_deb (h_q h) <= w_clock w - t)%Z ->                (* the head is due *)
  occurs p rest = false ->                              (* and is the last entry of its burst *)
  plain_ok (h_cfg h) (h_cpl h) (h_journal h) (q_dir (h_q h)) (w_fs w) (w_clock w) p i b ->
  member_ok (h_cfg h) (h_cpl h) (q_dir (h_q h)) (w_fs w) (w_clock w) p k ->
  exists w',
    handle_timeout_loop (S fuel) rev h o w =
      handle_timeout_loop fuel rev (set_q (popped p (h_q h)) h) o w' /\
    member_post (h_cfg h) (h_cpl h) (h_journal h) (head_name (h_q h))
                (w_fs w) (w_fs w') (w_clock w) p k b /\
    QRel (popped p (h_q h)) (w_fs w') rest /\
    keys_nodup (w_fs w') /\
    tr_keep (w_tr w) (w_tr w') /\ w_clock w' = w_clock w.
Proof.
  intros H Hok Hnd HR Hdue Hocc HP HM.
  assert (Hoka : tr_ok (w_tr (upd_tr tr_try w)) = true) by (apply tr_try_ok; exact Hok).
  destruct (get_head_ready o (h_q h) (upd_tr tr_try w) (S (N.to_nat (q_size (h_q h)))) p (mmeta k) t rest
              H Hoka HR) as (wb & Eb & Fb & Cb & Kb).
  { apply Z.ltb_ge. exact Hdue. }
  { exact Hocc. }
  exact (member_iteration_from_head o w h rev fuel (h_q h) wb (w_fs w) p k t rest i b
           H Hok Eb Fb Cb Kb Hnd HR HP HM).
Qed.
Print Assumptions member_iteration_from_head.
Print Assumptions member_head_iteration.

(* ====================================================================== *)
(* 5. the two cases of the unstable path; well-formedness                  *)
(* ====================================================================== *)

(* the link and the version are one inode.  Case 1: the unstable path was
   absent: it is created.  Case 2: it was a link to an older version [vold]
   (inode io): the unstable link has moved to the new inode, and the older
   version keeps its name, its inode and its bytes (C04) *)
Corollary member_link_cases cfg cpl oj hname f f' now p k b :
  member_post cfg cpl oj hname f f' now p k b ->
  lookup f' (member_path cfg p k) = lookup f' (store_name cfg cpl now p) /\
  (lookup f (member_path cfg p k) = None ->
   lookup f' (member_path cfg p k) = Some (NFile (fs_next f))) /\
  (forall io vold,
     lookup f (member_path cfg p k) = Some (NFile io) ->
     lookup f vold = Some (NFile io) -> vold <> member_path cfg p k -> vold <> hname ->
     io < fs_next f -> (forall jn, oj = Some jn -> io <> j_ino jn) ->
     lookup f' (member_path cfg p k) = Some (NFile (fs_next f)) /\ fs_next f <> io /\
     lookup f' vold = Some (NFile io) /\ get_file f' io = get_file f io).
Proof.
  intros HM. split; [rewrite (MP_link _ _ _ _ _ _ _ _ _ _ HM), (MP_dst _ _ _ _ _ _ _ _ _ _ HM); reflexivity|].
  split; [intros _; exact (MP_link _ _ _ _ _ _ _ _ _ _ HM)|].
  intros io vold _ Hv V1 V2 Hlt Hj.
  split; [exact (MP_link _ _ _ _ _ _ _ _ _ _ HM)|]. split; [lia|]. split.
  - rewrite (MP_exist _ _ _ _ _ _ _ _ _ _ HM vold V2 V1); [exact Hv | rewrite Hv; discriminate].
  - apply (MP_files _ _ _ _ _ _ _ _ _ _ HM); [lia | exact Hj].
Qed.

Print Assumptions member_link_cases.

(* the result is again a file system in which every entry lives in a directory *)
Lemma member_post_parents_exist cfg cpl oj hname f f' now p k b tg tm :
  member_post cfg cpl oj hname f f' now p k b -> parents_exist f ->
  (exists r, store_name cfg cpl now p = ch_slash :: r) ->
  (exists r, member_path cfg p k = ch_slash :: r) ->
  lookup f hname = Some (NLink tg tm) ->
  (lookup f (member_path cfg p k) = None \/ exists io, lookup f (member_path cfg p k) = Some (NFile io)) ->
  parents_exist f'.
Proof.
  intros HM Hpe [rd Hd] [ru Hu] Hh Hup.
  destruct HM as [Mdst _ Mpar Mlink Mlpar Mhead Mother Mexist _ _ _].
  set (dst := store_name cfg cpl now p) in *. set (UP := member_path cfg p k) in *.
  assert (Hin_chain : forall y ry, y = ch_slash :: ry ->
            (forall d, In d (parents_of y) -> lookup f' d = Some NDir) ->
            (lookup f' (dirname y) = Some NDir) /\
            (forall d, In d (parents_of y) -> lookup f' (dirname d) = Some NDir)).
  { intros y ry Hy Hall. destruct (parents_of_chain ry) as [Hch Hlast]. rewrite <- Hy in Hch, Hlast.
    split.
    - rewrite Hlast. destruct (SnapshotProofs.last_or_in root_path (parents_of y)) as [->|Hin];
        [apply lookup_root | apply Hall; exact Hin].
    - intros d Hin. destruct (SnapshotProofs.chain_dirname _ _ _ Hch Hin) as [->|Hi];
        [apply lookup_root | apply Hall; exact Hi]. }
  destruct (Hin_chain dst rd Hd Mpar) as [Dd Dp].
  destruct (Hin_chain UP ru Hu Mlpar) as [Ud Upp].
  intros x Hx.
  destruct (str_eqb_spec x dst) as [->|X1]; [exact Dd|].
  destruct (str_in_dec x (parents_of dst)) as [Hin|X2]; [exact (Dp x Hin)|].
  destruct (str_eqb_spec x UP) as [->|X3]; [exact Ud|].
  destruct (str_in_dec x (parents_of UP)) as [Hin|X4]; [exact (Upp x Hin)|].
  destruct (str_eqb_spec x hname) as [->|X5]; [congruence|].
  rewrite (Mother x X1 X2 X3 X4 X5) in Hx. pose proof (Hpe x Hx) as Hdx.
  rewrite Mexist; [exact Hdx | | | rewrite Hdx; discriminate].
  - intros E. rewrite E, Hh in Hdx. discriminate.
  - intros E. rewrite E in Hdx. destruct Hup as [Hn|[io Hio]]; congruence.
Qed.

Print Assumptions member_post_parents_exist.

(* ====================================================================== *)
(* 6. the member, then its project: the snapshot links the latest version  *)
(* ====================================================================== *)

Lemma last_nosl X name d : nosl name = true -> name <> [] ->
  is_slash (last (X ++ ch_slash :: name) d) = false.
Proof.
  intros Hn Hne. destruct (exists_last Hne) as (nm & c & ->).
  replace (X ++ ch_slash :: nm ++ [c]) with ((X ++ ch_slash :: nm) ++ [c])
    by (rewrite <- app_assoc; reflexivity).
  rewrite last_last. unfold SnapshotProofs.nosl in Hn. rewrite forallb_app in Hn.
  apply andb_true_iff in Hn. destruct Hn as [_ Hc]. cbn [forallb] in Hc.
  rewrite andb_true_r in Hc. apply negb_true_iff. exact Hc.
Qed.

Notation snap_dir := SnapshotProofs.snap_dir.
Notation unstable_of := SnapshotProofs.unstable_of.

(* The queue holds the member entry followed by the entry of its project, as
   push_to_linq enqueues them; both are due.  Names: the path is X/name/r, the
   project root P = X/name is its first k characters, so the project name is the
   last component of the root; U = unstable_root/name is the unstable tree of
   the project, D = project_store_root/name/<version> the snapshot directory
   (first candidate, free).  None of U, D, P, the queue directory nest; the new
   version is neither inside U nor nested with D. *)
Theorem member_then_project o w h rev fuel p k t t2 rest i b X name r :
  benign o -> tr_ok (w_tr w) = true -> keys_nodup (w_fs w) -> parents_exist (w_fs w) ->
  let P := firstn k p in
  let U := unstable_of h P in
  let D := snap_dir h P (w_clock w) 0 in
  let dst := store_name (h_cfg h) (h_cpl h) (w_clock w) p in
  let inew := fs_next (w_fs w) in
  QRel (h_q h) (w_fs w) ((p, mmeta k, t) :: (P, 1%N, t2) :: rest) ->
  (q_deb (h_q h) <= w_clock w - t)%Z -> (q_deb (h_q h) <= w_clock w - t2)%Z ->
  occurs p ((P, 1%N, t2) :: rest) = false -> occurs P rest = false ->
  plain_ok (h_cfg h) (h_cpl h) (h_journal h) (q_dir (h_q h)) (w_fs w) (w_clock w) p i b ->
  member_ok (h_cfg h) (h_cpl h) (q_dir (h_q h)) (w_fs w) (w_clock w) p k ->
  member_split p k X name (ch_slash :: r) -> name <> [] ->
  SnapshotProofs.journal_ts_ok (h_journal h) (w_clock w) ->
  (exists restD, D = ch_slash :: restD) -> U <> root_path ->
  nn U D -> nn U P -> nn D P -> nn (q_dir (h_q h)) D -> nn (q_dir (h_q h)) U ->
  nn D dst -> ~ under U dst ->
  lookup (w_fs w) D = None ->
  (forall d, In d (parents_of D) -> lookup (w_fs w) d = Some NDir \/ lookup (w_fs w) d = None) ->
  exists w2,
    handle_timeout_loop (S (S fuel)) rev h o w =
      handle_timeout_loop fuel rev (set_q (popped P (popped p (h_q h))) h) o w2 /\
    (* the version just stored, with the content of the source ... *)
    lookup (w_fs w2) dst = Some (NFile inew) /\
    f_bytes (get_file (w_fs w2) inew) = b /\
    (* ... is what the unstable tree links at the path inside the project ... *)
    lookup (w_fs w2) (U ++ ch_slash :: r) = Some (NFile inew) /\
    (* ... and what the new snapshot links at the same path: THE SAME INODE *)
    lookup (w_fs w2) D = Some NDir /\
    lookup (w_fs w2) (D ++ ch_slash :: r) = Some (NFile inew) /\
    (* frame: every name that existed outside the queue directory and the
       unstable tree is as before (older versions, older snapshots, the project);
       so is every older inode but the journal *)
    (forall x, lookup (w_fs w) x <> None -> ~ under (q_dir (h_q h)) x -> ~ under U x ->
               lookup (w_fs w2) x = lookup (w_fs w) x) /\
    (forall j, j < inew -> (forall jn, h_journal h = Some jn -> j <> j_ino jn) ->
               get_file (w_fs w2) j = get_file (w_fs w) j) /\
    QRel (popped P (popped p (h_q h))) (w_fs w2) rest /\
    keys_nodup (w_fs w2) /\ parents_exist (w_fs w2) /\
    tr_keep (w_tr w) (w_tr w2) /\ w_clock w2 = w_clock w.
Proof.
  intros H Hok Hnd Hpe P U D dst inew HR Hdue Hdue2 Hocc Hocc2 HP HM HS Hname Hjts
         HDabs HUr NUD NUP NDP NQD NQU NDdst NUdst HDn HDpar.
  set (q := h_q h) in *. set (cfg := h_cfg h) in *.
  destruct (member_path_eq cfg p k X name (ch_slash :: r) HS) as (_ & Ebase & EUP).
  destruct (member_split_root _ _ _ _ _ HS) as [EP Erest]. fold P in EP, Ebase, EUP.
  rewrite Erest in EUP.
  assert (EUPr : member_path cfg p k = U ++ ch_slash :: r) by exact EUP.
  assert (Epr : p = P ++ ch_slash :: r).
  { rewrite <- (firstn_skipn k p) at 1. fold P. rewrite Erest. reflexivity. }
  (* the member iteration *)
  destruct (member_head_iteration o w h rev (S fuel) p k t ((P, 1%N, t2) :: rest) i b
              H Hok Hnd HR Hdue Hocc HP HM) as (w1 & E1 & HMP & HR1 & Hnd1 & K1 & C1).
  fold q cfg in HMP, HR1, E1. fold dst in HMP.
  pose proof (QRel_head _ _ _ _ _ _ HR) as Hhead. fold (head_name q) in Hhead.
  set (hname := head_name q) in *. set (UP := member_path cfg p k) in *.
  pose proof (tr_keep_ok _ _ K1) as Hok1.
  pose proof HP as [Pabs Plast Pcpl Pvlen Pvslash Psrc Pfile Pino Prabs Pfree Ppar Pq
                    Pofree Popar Pone Ponin Podir Pjfits Pjino].
  pose proof HM as [Mpos Mle Muabs Mup Muppar Mupq Mupne Mupnin Mdstnin].
  fold cfg q in Pq, Mupq, Prabs, Muabs. fold dst in Pq. fold UP in Mupq, Mup.
  assert (Hpe1 : parents_exist (w_fs w1)).
  { apply (member_post_parents_exist _ _ _ _ _ _ _ _ _ _ (encode (mmeta k) p) t HMP Hpe).
    - apply store_name_abs. exact Prabs.
    - apply member_path_abs. exact Muabs.
    - exact Hhead.
    - exact Mup. }
  (* names *)
  pose proof (QR_nroot _ _ _ HR) as Hqr.
  assert (UPunderU : under U UP) by (exists r; exact EUPr).
  assert (HnameQ : forall kk, under (q_dir q) (join (q_dir q) (dec kk))).
  { intros kk. exists (dec kk). apply join_nonroot. exact Hqr. }
  assert (Hhq : under (q_dir q) hname) by apply HnameQ.
  destruct NUD as [NUD1 [NUD2 NUD3]]. destruct NDdst as [ND1 [ND2 ND3]].
  assert (D_ne_UP : D <> UP) by (intros E; apply NUD2; rewrite E; exact UPunderU).
  assert (D_nin_UP : ~ In D (parents_of UP)).
  { intros Hin. apply parents_of_prefix in Hin.
    destruct (under_both _ _ _ Hin UPunderU) as [E|[E|E]]; [exact (NUD1 (eq_sym E)) | exact (NUD3 E) | exact (NUD2 E)]. }
  assert (Q_not_D : forall x, under (q_dir q) x -> x <> D /\ ~ under D x /\ ~ In x (parents_of D)).
  { intros x Hx. destruct NQD as [Q1 [Q2 Q3]]. split; [intros ->; exact (Q2 Hx)|]. split.
    - intros Hd. destruct (under_both _ _ _ Hx Hd) as [E|[E|E]]; auto.
    - intros Hin. apply parents_of_prefix in Hin. apply Q2. exact (under_trans _ _ _ Hx Hin). }
  assert (Q_not_U : forall x, under (q_dir q) x -> ~ under U x).
  { intros x Hx Hu. destruct NQU as [Q1 [Q2 Q3]].
    destruct (under_both _ _ _ Hx Hu) as [E|[E|E]]; auto. }
  destruct (Q_not_D hname Hhq) as (D_ne_h & _ & h_nin_D).
  (* the snapshot directory is still free, its ancestors are directories or absent *)
  assert (HDn1 : lookup (w_fs w1) D = None).
  { rewrite (MP_other _ _ _ _ _ _ _ _ _ _ HMP); [exact HDn | exact ND1 | | exact D_ne_UP | exact D_nin_UP
                                               | exact (fun E => D_ne_h (eq_sym E))].
    intros Hin. apply parents_of_prefix in Hin. exact (ND2 Hin). }
  assert (HDpar1 : forall d, In d (parents_of D) ->
                     lookup (w_fs w1) d = Some NDir \/ lookup (w_fs w1) d = None).
  { intros d Hd. pose proof (parents_of_prefix _ _ Hd) as HdD.
    destruct (str_in_dec d (parents_of dst)) as [Hin|X2]; [left; exact (MP_par _ _ _ _ _ _ _ _ _ _ HMP d Hin)|].
    destruct (str_in_dec d (parents_of UP)) as [Hin|X4]; [left; exact (MP_link_par _ _ _ _ _ _ _ _ _ _ HMP d Hin)|].
    destruct (str_eqb_spec d hname) as [->|X5]; [right; exact (MP_head _ _ _ _ _ _ _ _ _ _ HMP)|].
    rewrite (MP_other _ _ _ _ _ _ _ _ _ _ HMP d); [exact (HDpar d Hd) | | exact X2 | | exact X4 | exact X5].
    - intros ->. exact (ND3 HdD).
    - intros ->. apply NUD2. exact (under_trans _ _ _ UPunderU HdD). }
  (* the project iteration *)
  set (h1 := set_q (popped p q) h).
  destruct (SnapshotProofs.project_head_snapshot o w1 rev h1 P 1%N t2 rest 0 fuel)
    as (w2 & f1 & f2 & E2 & HSn & HJ & HF & HR2 & Hnd2 & Hpe2 & K2 & C2).
  { constructor.
    - exact H.
    - exact Hok1.
    - exact Hnd1.
    - exact Hpe1.
    - exact HR1.
    - change (q_deb (h_q h1)) with (q_deb q). rewrite C1. apply Z.ltb_ge. exact Hdue2.
    - exact Hocc2.
    - reflexivity.
    - change (N.shiftr 1 2) with 0%N. apply N.ltb_ge. lia.
    - rewrite EP. apply last_nosl; [exact (MS_name _ _ _ _ _ HS) | exact Hname].
    - rewrite C1. exact Pvlen.
    - rewrite C1. exact Pvslash.
    - rewrite C1. exact Hjts.
    - rewrite C1. exact HDabs.
    - exact HUr.
    - rewrite C1. split; [exact NUD1 | split; [exact NUD2 | exact NUD3]].
    - exact NUP.
    - rewrite C1. exact NDP.
    - rewrite C1. exact NQD.
    - exact NQU.
    - rewrite C1. exact HDn1.
    - rewrite C1. exact HDpar1.
    - intros j Hj. lia.
    - lia.
    - intros Hj. lia. }
  rewrite C1 in HSn, HJ. change (snap_dir h1 P (w_clock w) 0) with D in HSn.
  change (unstable_of h1 P) with U in HSn. change (h_q h1) with (popped p q) in *.
  exists w2. split; [rewrite E1; exact E2|].
  (* from the snapshot back to the world *)
  set (hname2 := head_name (popped p q)) in *.
  assert (Hh2q : under (q_dir q) hname2) by apply (HnameQ (q_head (popped p q))).
  destruct (SnapshotProofs.journal_after_dents _ _ _ _ _ _ _ HJ) as [DE2 _].
  pose proof (SnapshotProofs.dents_lookup _ _ DE2) as LK2.
  assert (Lw2 : forall x, x <> hname2 -> lookup (w_fs w2) x = lookup f1 x).
  { intros x Hx. rewrite HF, lookup_del_dent_other by exact Hx. apply LK2. }
  assert (Hexp : fs_exists (P ++ ch_slash :: r) (w_fs w1) = true).
  { rewrite <- Epr. unfold fs_exists.
    rewrite (MP_exist _ _ _ _ _ _ _ _ _ _ HMP p); [rewrite Psrc; reflexivity | | | rewrite Psrc; discriminate].
    - intros E. rewrite E, Hhead in Psrc. discriminate.
    - intros E. destruct NUP as [N1 [N2 N3]].
      assert (HpP : under P p) by (exists r; exact Epr).
      rewrite E in HpP. destruct (under_both _ _ _ UPunderU HpP) as [E'|[E'|E']]; auto. }
  assert (HlU : lookup (w_fs w1) (U ++ ch_slash :: r) = Some (NFile inew)).
  { rewrite <- EUPr. exact (MP_link _ _ _ _ _ _ _ _ _ _ HMP). }
  assert (HUne : U <> []) by (unfold U, SnapshotProofs.unstable_of; destruct (c_unstable_root (h_cfg h)); discriminate).
  assert (HPne : P <> []) by (rewrite EP; destruct X; discriminate).
  destruct (SnapshotProofs.snapshot_hard_link _ _ _ _ _ HSn r inew HlU Hexp) as (SD & SU & SG).
  pose proof HSn as (FF & FN & _ & LD & _ & _ & _ & FR).
  split.
  { (* the version *)
    destruct (under_join_dec (q_dir q) (q_head (popped p q)) dst Hqr Pq) as [A _].
    rewrite Lw2 by exact A.
    rewrite FR; [exact (MP_dst _ _ _ _ _ _ _ _ _ _ HMP) | exact (fun E => ND1 (eq_sym E)) | | exact NUdst | exact ND2].
    intros Hin. apply parents_of_prefix in Hin. exact (ND3 Hin). }
  split.
  { (* its bytes *)
    assert (Hj : forall jn, h_journal h = Some jn -> inew <> j_ino jn).
    { intros jn Ej. destruct (Pjino jn Ej) as [_ Hlt]. unfold inew. lia. }
    rewrite HF. change (get_file (del_dent hname2 f2) inew) with (get_file f2 inew).
    assert (G2 : get_file f2 inew = get_file f1 inew).
    { unfold SnapshotProofs.journal_after in HJ. change (h_journal h1) with (h_journal h) in HJ.
      destruct (h_journal h) as [jn|] eqn:Ej; [|rewrite HJ; reflexivity].
      destruct (c_ev_stored (h_cfg h1)); [|rewrite HJ; reflexivity].
      destruct HJ as (_ & _ & G & _). apply G. exact (Hj jn eq_refl). }
    rewrite G2. unfold get_file at 1. rewrite FF. fold (get_file (w_fs w1) inew).
    exact (MP_bytes _ _ _ _ _ _ _ _ _ _ HMP). }
  split.
  { rewrite Lw2; [exact SU|]. intros E. apply (Q_not_U hname2 Hh2q). rewrite <- E. exists r. reflexivity. }
  split.
  { rewrite Lw2; [exact LD|]. intros E. destruct (Q_not_D hname2 Hh2q) as [A _]. exact (A (eq_sym E)). }
  split.
  { rewrite Lw2; [exact SD|]. intros E. destruct (Q_not_D hname2 Hh2q) as (_ & A & _).
    apply A. rewrite <- E. exists r. reflexivity. }
  split.
  { (* frame: names *)
    intros x Hex HxQ HxU.
    assert (Xh : x <> hname) by (intros ->; exact (HxQ Hhq)).
    assert (XU : x <> UP) by (intros ->; exact (HxU UPunderU)).
    pose proof (MP_exist _ _ _ _ _ _ _ _ _ _ HMP x Xh XU Hex) as X1.
    assert (Xh2 : x <> hname2) by (intros ->; exact (HxQ Hh2q)).
    rewrite (Lw2 x Xh2).
    destruct (str_in_dec x (parents_of D)) as [Hin|Hnin].
    - (* an ancestor of D: a directory before and after *)
      destruct HSn as (_ & _ & _ & _ & LP & _). rewrite (LP x Hin).
      destruct (HDpar x Hin) as [A|A]; [symmetry; exact A | contradiction].
    - rewrite FR; [exact X1 | | exact Hnin | exact HxU |].
      + intros ->. exact (Hex HDn).
      + intros [s Es]. apply Hex. rewrite Es.
        apply (SnapshotProofs.below_nondir (w_fs w) D Hpe); [|rewrite HDn; discriminate].
        destruct HDabs as [restD ->]. discriminate. }
  split.
  { (* frame: inodes *)
    intros j Hj Hjj.
    rewrite HF. change (get_file (del_dent hname2 f2) j) with (get_file f2 j).
    assert (G2 : get_file f2 j = get_file f1 j).
    { unfold SnapshotProofs.journal_after in HJ. change (h_journal h1) with (h_journal h) in HJ.
      destruct (h_journal h) as [jn|] eqn:Ej; [|rewrite HJ; reflexivity].
      destruct (c_ev_stored (h_cfg h1)); [|rewrite HJ; reflexivity].
      destruct HJ as (_ & _ & G & _). apply G. exact (Hjj jn eq_refl). }
    rewrite G2. unfold get_file at 1. rewrite FF. fold (get_file (w_fs w1) j).
    apply (MP_files _ _ _ _ _ _ _ _ _ _ HMP); [unfold inew in Hj; lia | exact Hjj]. }
  split; [exact HR2|]. split; [exact Hnd2|]. split; [exact Hpe2|].
  split; [exact (tr_keep_trans _ _ _ K1 K2) | congruence].
Qed.
Print Assumptions member_then_project.

(* ---------- the same for handle_timeout: nothing else is due ---------- *)

(* the hypotheses of member_then_project, collected *)
Record member_project_due (w : world) (h : handler) (p : str) (k : nat) (t t2 : Z)
       (rest : list qent) (i : nat) (b X name r : str) : Prop := {
  mpd_ok : tr_ok (w_tr w) = true;
  mpd_nodup : keys_nodup (w_fs w);
  mpd_parents : parents_exist (w_fs w);
  (* the queue: the member (offset k), then its project (flags 1), both due,
     neither queued again behind *)
  mpd_queue : QRel (h_q h) (w_fs w) ((p, mmeta k, t) :: (firstn k p, 1%N, t2) :: rest);
  mpd_due : (q_deb (h_q h) <= w_clock w - t)%Z;
  mpd_due2 : (q_deb (h_q h) <= w_clock w - t2)%Z;
  mpd_once : occurs p ((firstn k p, 1%N, t2) :: rest) = false;
  mpd_once2 : occurs (firstn k p) rest = false;
  (* the member: PassProofs.plain_ok and member_ok *)
  mpd_plain : plain_ok (h_cfg h) (h_cpl h) (h_journal h) (q_dir (h_q h)) (w_fs w) (w_clock w) p i b;
  mpd_member : member_ok (h_cfg h) (h_cpl h) (q_dir (h_q h)) (w_fs w) (w_clock w) p k;
  (* the path is X/name/r and the root X/name its first k characters *)
  mpd_split : member_split p k X name (ch_slash :: r);
  mpd_name : name <> [];
  mpd_jts : SnapshotProofs.journal_ts_ok (h_journal h) (w_clock w);
  (* the unstable tree U, the snapshot directory D, the project P, the queue
     directory and the new version do not nest; D is free *)
  mpd_abs : exists restD, snap_dir h (firstn k p) (w_clock w) 0 = ch_slash :: restD;
  mpd_unroot : unstable_of h (firstn k p) <> root_path;
  mpd_UD : nn (unstable_of h (firstn k p)) (snap_dir h (firstn k p) (w_clock w) 0);
  mpd_UP : nn (unstable_of h (firstn k p)) (firstn k p);
  mpd_DP : nn (snap_dir h (firstn k p) (w_clock w) 0) (firstn k p);
  mpd_QD : nn (q_dir (h_q h)) (snap_dir h (firstn k p) (w_clock w) 0);
  mpd_QU : nn (q_dir (h_q h)) (unstable_of h (firstn k p));
  mpd_Dv : nn (snap_dir h (firstn k p) (w_clock w) 0) (store_name (h_cfg h) (h_cpl h) (w_clock w) p);
  mpd_Uv : ~ under (unstable_of h (firstn k p)) (store_name (h_cfg h) (h_cpl h) (w_clock w) p);
  mpd_fresh : lookup (w_fs w) (snap_dir h (firstn k p) (w_clock w) 0) = None;
  mpd_chain : forall d, In d (parents_of (snap_dir h (firstn k p) (w_clock w) 0)) ->
      lookup (w_fs w) d = Some NDir \/ lookup (w_fs w) d = None
}.

(* One pass over a queue whose due part is a member followed by its project:
   one new version, the unstable link on it, one new snapshot that links it. *)
Theorem handle_timeout_member_project o rev w h p k t t2 rest i b X name r :
  benign o ->
  member_project_due w h p k t t2 rest i b X name r ->
  not_due (w_clock w) (q_deb (h_q h)) rest ->
  let P := firstn k p in
  let U := unstable_of h P in
  let D := snap_dir h P (w_clock w) 0 in
  let dst := store_name (h_cfg h) (h_cpl h) (w_clock w) p in
  let inew := fs_next (w_fs w) in
  exists w2,
    handle_timeout rev h o w =
      (Some (TPause (pause_of (w_clock w) (q_deb (h_q h)) rest),
             set_q (popped P (popped p (h_q h))) h), w2) /\
    lookup (w_fs w2) dst = Some (NFile inew) /\
    f_bytes (get_file (w_fs w2) inew) = b /\
    lookup (w_fs w2) (U ++ ch_slash :: r) = Some (NFile inew) /\
    lookup (w_fs w2) D = Some NDir /\
    lookup (w_fs w2) (D ++ ch_slash :: r) = Some (NFile inew) /\
    (* frame: every name that existed outside the queue directory and the
       unstable tree is as before (older versions, older snapshots, the project);
       so is every older inode but the journal *)
    (forall x, lookup (w_fs w) x <> None -> ~ under (q_dir (h_q h)) x -> ~ under U x ->
               lookup (w_fs w2) x = lookup (w_fs w) x) /\
    (forall j, j < inew -> (forall jn, h_journal h = Some jn -> j <> j_ino jn) ->
               get_file (w_fs w2) j = get_file (w_fs w) j) /\
    QRel (popped P (popped p (h_q h))) (w_fs w2) rest /\
    keys_nodup (w_fs w2) /\ parents_exist (w_fs w2) /\
    tr_ok (w_tr w2) = true /\ (t_post (w_tr w) = 0 -> w_tr w2 = w_tr w) /\
    w_clock w2 = w_clock w.
Proof.
  intros H [H1 H2 H3 H4 H5 H6 H7 H8 H9 H10 H11 H12 H13 H14 H15 H16 H17 H18 H19 H20 H21 H22 H23 H24]
         Hstop P U D dst inew.
  pose proof (QR_size _ _ _ H4) as Hs. cbn [length] in Hs.
  assert (Hfuel : N.to_nat (q_size (h_q h)) = S (S (length rest))) by (rewrite Hs; lia).
  unfold handle_timeout. rewrite Hfuel.
  destruct (member_then_project o w h rev (S (S (length rest))) p k t t2 rest i b X name r
              H H1 H2 H3 H4 H5 H6 H7 H8 H9 H10 H11 H12 H13 H14 H15 H16 H17 H18 H19 H20 H21 H22 H23 H24)
    as (w1 & E1 & A1 & A2 & A3 & A4 & A5 & A6 & A7 & HR1 & Hnd1 & Hpe1 & K1 & C1).
  fold P U D dst inew in E1, A1, A2, A3, A4, A5, A6, A7, HR1.
  set (h1 := set_q (popped P (popped p (h_q h))) h) in *.
  assert (Hstop1 : not_due (w_clock w1) (q_deb (h_q h1)) rest) by (rewrite C1; exact Hstop).
  destruct (pass_stops o w1 h1 rev (S (length rest)) rest H (tr_keep_ok _ _ K1) HR1 Hstop1)
    as (w2 & E2 & F2 & C2 & K2).
  rewrite <- E1 in E2. rewrite (bind_some _ _ _ _ _ _ E2).
  pose proof (tr_keep_trans _ _ _ K1 K2) as [K3 K4].
  rewrite (bind_some _ _ _ _ _ _ (is_ok_eq o w2)). rewrite K3. unfold ret_.
  exists w2. rewrite C1. split; [reflexivity|]. rewrite F2.
  split; [exact A1|]. split; [exact A2|]. split; [exact A3|]. split; [exact A4|].
  split; [exact A5|]. split; [exact A6|]. split; [exact A7|].
  split; [exact HR1|]. split; [exact Hnd1|]. split; [exact Hpe1|].
  split; [exact K3|]. split; [exact K4 | congruence].
Qed.
Print Assumptions handle_timeout_member_project.

(* ====================================================================== *)
(* 7. the hypotheses are satisfiable: boolean checkers, a concrete project *)
(* ====================================================================== *)

(* everything in plain_ok that can be decided by evaluation *)
Definition plain_okb (cfg : config) (cpl : nat) (jn : journal) (qdir : str) (f : fs) (now : Z)
           (p : str) (i : nat) (b : str) : bool :=
  (Nat.leb (length (version_of cfg now)) name_max &&
   negb (existsb is_slash (version_of cfg now)) &&
   Nat.leb (length (ts_of jn now)) 255 &&
   prefixb [ch_slash] p && negb (is_slash (last p ch_dot)) && Nat.leb cpl (length p) &&
   match lookup f p with Some (NFile j) => Nat.eqb j i | _ => false end &&
   str_eqb (f_bytes (get_file f i)) b && f_readable (get_file f i) && Nat.ltb i (fs_next f) &&
   negb (Nat.eqb (j_ino jn) i) && Nat.ltb (j_ino jn) (fs_next f) &&
   prefixb [ch_slash] (c_store_root cfg) &&
   match lookup f (store_name cfg cpl now p) with None => true | _ => false end &&
   forallb (fun d => match lookup f d with Some NDir | None => true | _ => false end)
           (parents_of (store_name cfg cpl now p)) &&
   negb (Str.under qdir (store_name cfg cpl now p)) &&
   match lookup f (offset_name cfg cpl p) with None => true | _ => false end &&
   match missing_errno (offset_name cfg cpl p) f with ENOENT => true | _ => false end &&
   negb (mem (offset_name cfg cpl p) (store_name cfg cpl now p :: parents_of (store_name cfg cpl now p))) &&
   negb (mem (store_name cfg cpl now p)
             (dchain (length (offset_name cfg cpl p)) (offset_name cfg cpl p))))%bool.

Lemma prefix_slash_abs s : prefixb [ch_slash] s = true -> exists r, s = ch_slash :: r.
Proof. intros Hp. apply prefixb_spec in Hp. destruct Hp as [t ->]. exists t. reflexivity. Qed.

Lemma not_mem_not_in x l : mem x l = false -> ~ In x l.
Proof.
  intros Hm Hin. assert (Hex : existsb (str_eqb x) l = true).
  { apply existsb_exists. exists x. split; [exact Hin | apply str_eqb_refl]. }
  unfold mem in Hm. congruence.
Qed.

Lemma plain_okb_sound cfg cpl jn qdir f now p i b :
  plain_okb cfg cpl jn qdir f now p i b = true ->
  plain_ok cfg cpl (Some jn) qdir f now p i b.
Proof.
  unfold plain_okb. intros Hc.
  repeat (apply andb_true_iff in Hc; let H1 := fresh "C" in destruct Hc as [Hc H1]).
  apply negb_true_iff in C, C0.
  pose proof (not_mem_not_in _ _ C0) as Hn0. pose proof (not_mem_not_in _ _ C) as Hn.
  constructor.
  - assumption.
  - apply negb_true_iff. assumption.
  - apply Nat.leb_le. assumption.
  - apply Nat.leb_le. exact Hc.
  - apply negb_true_iff. assumption.
  - destruct (lookup f p) as [[|j|]|]; try discriminate. f_equal. f_equal.
    apply Nat.eqb_eq. assumption.
  - destruct (get_file f i) as [bs r]. cbn [f_bytes f_readable] in *.
    f_equal; [apply str_eqb_eq; assumption | assumption].
  - apply Nat.ltb_lt. assumption.
  - apply prefix_slash_abs. assumption.
  - destruct (lookup f (store_name cfg cpl now p)); [discriminate | reflexivity].
  - intros d Hd. rewrite forallb_forall in C4. specialize (C4 d Hd).
    destruct (lookup f d) as [[| |]|]; try discriminate; auto.
  - apply negb_true_iff. assumption.
  - destruct (lookup f (offset_name cfg cpl p)); [discriminate | reflexivity].
  - destruct (missing_errno (offset_name cfg cpl p) f); try discriminate; reflexivity.
  - intros E. apply Hn0. left. symmetry. exact E.
  - intros Hin. apply Hn0. right. exact Hin.
  - exact Hn.
  - intros j e Ej _. injection Ej as <-. apply Nat.leb_le. assumption.
  - intros j Ej. injection Ej as <-.
    split; [apply Nat.eqb_neq, negb_true_iff; assumption | apply Nat.ltb_lt; assumption].
Qed.

(* the same for member_ok *)
Definition member_okb (cfg : config) (cpl : nat) (qdir : str) (f : fs) (now : Z)
           (p : str) (k : nat) : bool :=
  (Nat.ltb 0 k && Nat.leb k (length p) && prefixb [ch_slash] (c_unstable_root cfg) &&
   match lookup f (member_path cfg p k) with None | Some (NFile _) => true | _ => false end &&
   forallb (fun d => match lookup f d with Some NDir | None => true | _ => false end)
           (parents_of (member_path cfg p k)) &&
   negb (Str.under qdir (member_path cfg p k)) &&
   negb (mem (member_path cfg p k) (store_name cfg cpl now p :: parents_of (store_name cfg cpl now p))) &&
   negb (mem (store_name cfg cpl now p) (parents_of (member_path cfg p k))))%bool.

Lemma member_okb_sound cfg cpl qdir f now p k :
  member_okb cfg cpl qdir f now p k = true -> member_ok cfg cpl qdir f now p k.
Proof.
  unfold member_okb. intros Hc.
  repeat (apply andb_true_iff in Hc; let H1 := fresh "C" in destruct Hc as [Hc H1]).
  apply negb_true_iff in C, C0.
  pose proof (not_mem_not_in _ _ C0) as Hn0. pose proof (not_mem_not_in _ _ C) as Hn.
  constructor.
  - apply Nat.ltb_lt. exact Hc.
  - apply Nat.leb_le. assumption.
  - apply prefix_slash_abs. assumption.
  - destruct (lookup f (member_path cfg p k)) as [[|j|]|]; try discriminate; [right; eexists; reflexivity | left; reflexivity].
  - intros d Hd. rewrite forallb_forall in C2. specialize (C2 d Hd).
    destruct (lookup f d) as [[| |]|]; try discriminate; auto.
  - apply negb_true_iff. assumption.
  - intros E. apply Hn0. left. symmetry. exact E.
  - intros Hin. apply Hn0. right. exact Hin.
  - exact Hn.
Qed.

From Coq Require Import String.

Module MemberExample.

  Definition lit (x : string) : str := list_ascii_of_string x.

  (* store /s, snapshots /ps, unstable trees /u, queue /q, journal /j (inode 1),
     offsets /o; versions and time stamps are "<seconds>"; debounce 5 s; the
     common parent of the watched tree is "/w/" *)
  Definition cfg0 : config :=
    mkCfg [] (mkRules [] [] [] [] [] []) (lit "/s") (lit "/ps") (lit "/u") (lit "/q")
          (Some (lit "/j")) (lit "/o") (lit "%s") (lit "%s") 5%Z 0 32
          None None None None None None (Some (lit "stored")).
  Definition jn0 : journal := mkJ 1 (lit "%s").

  Definition Pn : str := lit "/w/proj".                 (* the project root: 7 characters *)
  Definition p_m : str := lit "/w/proj/src/m.c".        (* its member *)
  Definition Un : str := lit "/u/proj".
  Definition up_m : str := lit "/u/proj/src/m.c".

  Example split_m : member_split p_m 7 (lit "/w") (lit "proj") (ch_slash :: lit "src/m.c").
  Proof. constructor; reflexivity. Qed.

  Example names :
    firstn 7 p_m = Pn /\ member_path cfg0 p_m 7 = up_m /\
    mmeta 7 = 28%N /\ rel_of 3 p_m = lit "proj/src/m.c".
  Proof. vm_compute. repeat split. Qed.

  (* ----- the first pass: nothing stored yet ----- *)

  (* the project with src/m.c (inode 2, "one"); the store, the unstable tree and
     the snapshot directory do not exist yet *)
  Definition fsA : fs :=
    mkFs [ (lit "/w", NDir); (lit "/w/proj", NDir); (lit "/w/proj/src", NDir);
           (lit "/w/proj/src/m.c", NFile 2);
           (lit "/j", NFile 1); (lit "/q", NDir) ]
         [ (1, mkFile [] true); (2, mkFile (lit "one") true) ]
         3.

  Definition q0 : qmem := mkQ (lit "/q") 0 0 5%Z 32 [].
  (* the write at 10 s: push_to_linq queues the member (offset 7) and the project (flags 1) *)
  Definition qA1 := pushed p_m q0.
  Definition fA1 := add_dent (next_name q0) (NLink (encode (mmeta 7) p_m) 10%Z) fsA.
  Definition qA2 := pushed Pn qA1.
  Definition fA2 := add_dent (next_name qA1) (NLink (encode 1 Pn) 10%Z) fA1.

  Definition hA : handler := mkH cfg0 None 3 qA2 (Some jn0) [] [].
  Definition wA : world := mkW fA2 0 [] 100%Z tr_empty.

  Lemma no_faults_benign : benign no_faults.
  Proof. intros i. left. reflexivity. Qed.
  (* the kernel moves at most 2 bytes per transfer *)
  Definition o2 : oracle := fun _ => FShort 2.
  Lemma o2_benign : benign o2.
  Proof. intros i. right. exists 2. split; [lia | left; reflexivity]. Qed.

  Lemma fits32 p m t : Nat.leb (List.length (encode m p)) 32 = true -> fits 32 (p, m, t).
  Proof.
    intros Hl. unfold fits, qpath. cbn [fst snd]. apply QueueExample.fits_small.
    apply Nat.leb_le. exact Hl.
  Qed.

  Lemma queue_two f q p m t P t2 :
    QRel q f [] -> q = mkQ (lit "/q") 0 0 5%Z 32 [] ->
    normalb p = true -> normalb P = true ->
    Nat.leb (List.length (encode m p)) 32 = true -> Nat.leb (List.length (encode 1 P)) 32 = true ->
    QRel (pushed P (pushed p q))
         (add_dent (next_name (pushed p q)) (NLink (encode 1 P) t2)
            (add_dent (next_name q) (NLink (encode m p) t) f))
         [(p, m, t); (P, 1%N, t2)].
  Proof.
    intros R0 -> Np NP Fp FP.
    assert (R1 : QRel (pushed p (mkQ (lit "/q") 0 0 5%Z 32 []))
                      (add_dent (next_name (mkQ (lit "/q") 0 0 5%Z 32 [])) (NLink (encode m p) t) f)
                      ([] ++ [(p, m, t)])).
    { apply QRel_push; [exact R0 | apply normalb_spec; exact Np | apply fits32; exact Fp]. }
    exact (QRel_push _ _ _ P 1%N t2 R1 (proj1 (normalb_spec P) NP) (fits32 P 1%N t2 FP)).
  Qed.

  Lemma queueA : QRel (h_q hA) (w_fs wA) [(p_m, mmeta 7, 10%Z); (firstn 7 p_m, 1%N, 10%Z)].
  Proof.
    apply (queue_two fsA q0 p_m (mmeta 7) 10%Z Pn 10%Z); try reflexivity.
    apply QRel_empty; [discriminate | reflexivity|].
    intros k. apply SnapshotProofs.nothing_under; [discriminate | discriminate | vm_compute; reflexivity].
  Qed.

  Ltac nnb := apply SnapshotProofs.nnb_sound; vm_compute; reflexivity.
  Ltac dir_or_absent :=
    let d := fresh "d" in let Hin := fresh "Hin" in
    intros d Hin; vm_compute in Hin;
    repeat (destruct Hin as [<-|Hin]; [vm_compute; auto|]); destruct Hin.

  Example dueA : member_project_due wA hA p_m 7 10 10 [] 2 (lit "one") (lit "/w") (lit "proj") (lit "src/m.c").
  Proof.
    constructor.
    - reflexivity.
    - apply SnapshotProofs.keys_nodup_check. vm_compute. reflexivity.
    - apply parents_exist_b_sound. vm_compute. reflexivity.
    - exact queueA.
    - vm_compute. discriminate.
    - vm_compute. discriminate.
    - vm_compute. reflexivity.
    - reflexivity.
    - apply plain_okb_sound. vm_compute. reflexivity.
    - apply member_okb_sound. vm_compute. reflexivity.
    - exact split_m.
    - discriminate.
    - vm_compute. repeat constructor.
    - eexists. vm_compute. reflexivity.
    - vm_compute. discriminate.
    - nnb.
    - nnb.
    - nnb.
    - nnb.
    - nnb.
    - nnb.
    - intros Hu. apply underb_spec in Hu. vm_compute in Hu. discriminate.
    - vm_compute. reflexivity.
    - dir_or_absent.
  Qed.

  Definition v1 : str := lit "/s/proj/src/m.c/100.c".   (* the first version *)
  Definition D1 : str := lit "/ps/proj/100".            (* the first snapshot *)

  Example namesA :
    store_name (h_cfg hA) (h_cpl hA) (w_clock wA) p_m = v1 /\
    snap_dir hA (firstn 7 p_m) (w_clock wA) 0 = D1 /\
    unstable_of hA (firstn 7 p_m) = Un /\ fs_next (w_fs wA) = 3.
  Proof. vm_compute. repeat split. Qed.

  (* direct evaluation, transfers cut into 2-byte pieces: the version (inode 3),
     the unstable link and the snapshot entry are one inode *)
  Example run_pass1 :
    match handle_timeout false hA o2 wA with
    | (Some (TPause z, h'), w') =>
        z = (-1)%Z /\ q_size (h_q h') = 0%N /\ w_tr w' = tr_empty /\
        lookup (w_fs w') v1 = Some (NFile 3) /\ get_file (w_fs w') 3 = mkFile (lit "one") true /\
        lookup (w_fs w') up_m = Some (NFile 3) /\
        lookup (w_fs w') (D1 ++ lit "/src/m.c")%list = Some (NFile 3) /\
        lookup (w_fs w') (lit "/q/0") = None /\ lookup (w_fs w') (lit "/q/1") = None /\
        fs_next (w_fs w') = 4
    | _ => False
    end.
  Proof. vm_compute. repeat split. Qed.

  (* the same from the theorem, for every benign oracle and both orders of the walk *)
  Example pass1_by_theorem o rv : benign o ->
    exists w',
      handle_timeout rv hA o wA =
        (Some (TPause (-1), set_q (popped Pn (popped p_m (h_q hA))) hA), w') /\
      lookup (w_fs w') v1 = Some (NFile 3) /\ f_bytes (get_file (w_fs w') 3) = lit "one" /\
      lookup (w_fs w') up_m = Some (NFile 3) /\
      lookup (w_fs w') D1 = Some NDir /\
      lookup (w_fs w') (D1 ++ lit "/src/m.c")%list = Some (NFile 3) /\
      w_tr w' = tr_empty.
  Proof.
    intros H.
    destruct (handle_timeout_member_project o rv wA hA p_m 7 10 10 [] 2 (lit "one") (lit "/w") (lit "proj")
                (lit "src/m.c") H dueA I)
      as (w' & E & A1 & A2 & A3 & A4 & A5 & _ & _ & _ & _ & _ & _ & T & _).
    destruct namesA as (N1 & N2 & N3 & N4). rewrite N1, N2, N3, N4 in *.
    exists w'. split; [exact E|]. split; [exact A1|]. split; [exact A2|]. split; [exact A3|].
    split; [exact A4|]. split; [exact A5|]. apply T. reflexivity.
  Qed.

  (* ----- the second pass: the file was written again ----- *)

  (* the file system the first pass leaves (fault-free run), as a literal *)
  Definition fsB0 : fs := Eval vm_compute in w_fs (snd (handle_timeout false hA no_faults wA)).
  (* the editor appends; at 150 s the member and the project are queued again *)
  Definition fsB : fs := set_file 2 (mkFile (lit "one two") true) fsB0.
  Definition qB1 := pushed p_m q0.
  Definition fB1 := add_dent (next_name q0) (NLink (encode (mmeta 7) p_m) 150%Z) fsB.
  Definition qB2 := pushed Pn qB1.
  Definition fB2 := add_dent (next_name qB1) (NLink (encode 1 Pn) 150%Z) fB1.

  Definition hB : handler := mkH cfg0 None 3 qB2 (Some jn0) [] [].
  Definition wB : world := mkW fB2 0 [] 200%Z tr_empty.

  (* the handler of the first pass ends with the empty queue q0 *)
  Example pass1_queue :
    match handle_timeout false hA no_faults wA with
    | (Some (_, h'), _) => h_q h' = q0
    | _ => False
    end.
  Proof. vm_compute. reflexivity. Qed.

  (* before the second pass the unstable path links the FIRST version *)
  Example before_pass2 :
    lookup (w_fs wB) up_m = Some (NFile 3) /\ lookup (w_fs wB) v1 = Some (NFile 3) /\
    lookup (w_fs wB) (D1 ++ lit "/src/m.c")%list = Some (NFile 3) /\
    get_file (w_fs wB) 3 = mkFile (lit "one") true /\ fs_next (w_fs wB) = 4.
  Proof. vm_compute. repeat split. Qed.

  Lemma queueB : QRel (h_q hB) (w_fs wB) [(p_m, mmeta 7, 150%Z); (firstn 7 p_m, 1%N, 150%Z)].
  Proof.
    apply (queue_two fsB q0 p_m (mmeta 7) 150%Z Pn 150%Z); try reflexivity.
    apply QRel_empty; [discriminate | reflexivity|].
    intros k. apply SnapshotProofs.nothing_under; [discriminate | discriminate | vm_compute; reflexivity].
  Qed.

  Example dueB : member_project_due wB hB p_m 7 150 150 [] 2 (lit "one two") (lit "/w") (lit "proj") (lit "src/m.c").
  Proof.
    constructor.
    - reflexivity.
    - apply SnapshotProofs.keys_nodup_check. vm_compute. reflexivity.
    - apply parents_exist_b_sound. vm_compute. reflexivity.
    - exact queueB.
    - vm_compute. discriminate.
    - vm_compute. discriminate.
    - vm_compute. reflexivity.
    - reflexivity.
    - apply plain_okb_sound. vm_compute. reflexivity.
    - apply member_okb_sound. vm_compute. reflexivity.
    - exact split_m.
    - discriminate.
    - vm_compute. repeat constructor.
    - eexists. vm_compute. reflexivity.
    - vm_compute. discriminate.
    - nnb.
    - nnb.
    - nnb.
    - nnb.
    - nnb.
    - nnb.
    - intros Hu. apply underb_spec in Hu. vm_compute in Hu. discriminate.
    - vm_compute. reflexivity.
    - dir_or_absent.
  Qed.

  Definition v2 : str := lit "/s/proj/src/m.c/200.c".   (* the second version *)
  Definition D2 : str := lit "/ps/proj/200".            (* the second snapshot *)

  Example namesB :
    store_name (h_cfg hB) (h_cpl hB) (w_clock wB) p_m = v2 /\
    snap_dir hB (firstn 7 p_m) (w_clock wB) 0 = D2 /\
    unstable_of hB (firstn 7 p_m) = Un /\ fs_next (w_fs wB) = 4.
  Proof. vm_compute. repeat split. Qed.

  (* direct evaluation: the unstable link has MOVED to the second version's
     inode, the snapshot of this pass links the second version; the first
     version and the first snapshot still are inode 3 with the old bytes *)
  Example run_pass2 :
    match handle_timeout false hB o2 wB with
    | (Some (TPause z, h'), w') =>
        z = (-1)%Z /\ q_size (h_q h') = 0%N /\ w_tr w' = tr_empty /\
        lookup (w_fs w') v2 = Some (NFile 4) /\ get_file (w_fs w') 4 = mkFile (lit "one two") true /\
        lookup (w_fs w') up_m = Some (NFile 4) /\
        lookup (w_fs w') (D2 ++ lit "/src/m.c")%list = Some (NFile 4) /\
        lookup (w_fs w') v1 = Some (NFile 3) /\ get_file (w_fs w') 3 = mkFile (lit "one") true /\
        lookup (w_fs w') (D1 ++ lit "/src/m.c")%list = Some (NFile 3) /\
        fs_next (w_fs w') = 5
    | _ => False
    end.
  Proof. vm_compute. repeat split. Qed.

  (* the same from the theorems, for every benign oracle and both orders *)
  Example pass2_by_theorem o rv : benign o ->
    exists w',
      handle_timeout rv hB o wB =
        (Some (TPause (-1), set_q (popped Pn (popped p_m (h_q hB))) hB), w') /\
      (* the second version ... *)
      lookup (w_fs w') v2 = Some (NFile 4) /\ f_bytes (get_file (w_fs w') 4) = lit "one two" /\
      (* ... is what the unstable path now links (it linked inode 3 before) ... *)
      lookup (w_fs wB) up_m = Some (NFile 3) /\ lookup (w_fs w') up_m = Some (NFile 4) /\
      (* ... and what the snapshot taken in this pass links *)
      lookup (w_fs w') (D2 ++ lit "/src/m.c")%list = Some (NFile 4) /\
      (* the first version and the first snapshot are untouched *)
      lookup (w_fs w') v1 = Some (NFile 3) /\ get_file (w_fs w') 3 = mkFile (lit "one") true /\
      lookup (w_fs w') (D1 ++ lit "/src/m.c")%list = Some (NFile 3) /\
      w_tr w' = tr_empty.
  Proof.
    intros H.
    destruct (handle_timeout_member_project o rv wB hB p_m 7 150 150 [] 2 (lit "one two") (lit "/w") (lit "proj")
                (lit "src/m.c") H dueB I)
      as (w' & E & A1 & A2 & A3 & A4 & A5 & FRn & FRi & _ & _ & _ & _ & T & _).
    destruct namesB as (N1 & N2 & N3 & N4). rewrite N1, N2, N3, N4 in *.
    destruct before_pass2 as (B1 & B2 & B3 & B4 & _).
    exists w'. split; [exact E|]. split; [exact A1|]. split; [exact A2|]. split; [exact B1|].
    split; [exact A3|]. split; [exact A5|].
    assert (Hq : forall x, Str.under (lit "/q") x = false -> ~ under (q_dir (h_q hB)) x).
    { intros x Hx Hu. apply underb_spec in Hu. change (q_dir (h_q hB)) with (lit "/q") in Hu. congruence. }
    assert (Hu : forall x, Str.under Un x = false -> ~ under Un x).
    { intros x Hx Hu. apply underb_spec in Hu. congruence. }
    split.
    { rewrite FRn; [exact B2 | rewrite B2; discriminate | apply Hq; reflexivity | apply Hu; reflexivity]. }
    split.
    { rewrite FRi; [exact B4 | lia |]. intros jn Ej. injection Ej as <-. discriminate. }
    split.
    { rewrite FRn; [exact B3 | rewrite B3; discriminate | apply Hq; reflexivity | apply Hu; reflexivity]. }
    apply T. reflexivity.
  Qed.

  (* the member iteration alone on the second world, by member_head_iteration:
     both cases of the unstable path are exercised (absent in wA, a link in wB) *)
  Example iteration_moves_link o : benign o ->
    exists w',
      handle_timeout_loop 4 false hB o wB =
        handle_timeout_loop 3 false (set_q (popped p_m (h_q hB)) hB) o w' /\
      lookup (w_fs w') up_m = Some (NFile 4) /\ lookup (w_fs w') v2 = Some (NFile 4) /\
      lookup (w_fs w') v1 = Some (NFile 3) /\ get_file (w_fs w') 3 = get_file (w_fs wB) 3.
  Proof.
    intros H. destruct dueB as [B1 B2 _ B4 B5 _ B7 _ B9 B10 _ _ _ _ _ _ _ _ _ _ _ _ _ _].
    destruct (member_head_iteration o wB hB false 3 p_m 7 150 [(firstn 7 p_m, 1%N, 150%Z)] 2 (lit "one two")
                H B1 B2 B4 B5 B7 B9 B10) as (w' & E & HMP & _).
    destruct (member_link_cases _ _ _ _ _ _ _ _ _ _ HMP) as (_ & _ & Hold).
    pose proof (MP_dst _ _ _ _ _ _ _ _ _ _ HMP) as Ldst.
    destruct namesB as (N1 & _ & _ & N4). destruct names as (_ & NU & _).
    rewrite N1, N4 in Ldst.
    change (member_path (h_cfg hB) p_m 7) with (member_path cfg0 p_m 7) in Hold.
    rewrite NU, N4 in Hold.
    destruct before_pass2 as (C1 & C2 & _).
    destruct (Hold 3 v1 C1 C2) as (L1 & _ & L2 & L3).
    { vm_compute. discriminate. }
    { vm_compute. discriminate. }
    { lia. }
    { intros jn Ej. injection Ej as <-. discriminate. }
    exists w'. split; [exact E|]. split; [exact L1|].
    split; [exact Ldst|]. split; [exact L2 | exact L3].
  Qed.

  (* ----- OBSERVATION, outside the benign oracles (no theorem above claims it) -----
     handle_timeout pops the head BEFORE it refreshes the hard link, and the
     refresh is unlink-then-link.  If the process dies between the two calls, the
     version is stored, the queue entry is gone, and the unstable path is ABSENT:
     after the restart the project entry (still queued) is snapshotted WITHOUT the
     member, although the project has the file and the store has two versions of
     it.  Nothing repairs the link until the member is written again. *)
  Fixpoint link_call_index (l : list (call * ret)) : option nat :=
    match l with
    | [] => None
    | (CLink _ _, _) :: l' => Some (List.length l')
    | _ :: l' => link_call_index l'
    end.

  (* the index of the link() call in the fault-free second pass *)
  Definition link_index : nat :=
    Eval vm_compute in
      match link_call_index (w_log (snd (handle_timeout false hB no_faults wB))) with
      | Some n => n | None => 0
      end.

  Definition o_crash : oracle := fun i => if Nat.eqb i link_index then FCrash else FNone.

  Example crash_before_link_drops_member :
    match handle_timeout false hB o_crash wB with
    | (None, wx) =>
        (* the process died: the version is there, the head is popped, the project
           entry is still queued, and the unstable path is gone *)
        lookup (w_fs wx) v2 = Some (NFile 4) /\
        lookup (w_fs wx) (lit "/q/0") = None /\
        lookup (w_fs wx) (lit "/q/1") = Some (NLink (encode 1 Pn) 150%Z) /\
        lookup (w_fs wx) up_m = None /\
        (* restart: load the handler again, run the pass *)
        match load_handler cfg0 None 3 no_faults (mkW (w_fs wx) 0 [] 200%Z tr_empty) with
        | (Some (Some h'), w') =>
            match handle_timeout false h' no_faults w' with
            | (Some (TPause z, _), w'') =>
                w_tr w'' = tr_empty /\
                lookup (w_fs w'') D2 = Some NDir /\                     (* the snapshot is taken ... *)
                lookup (w_fs w'') (D2 ++ lit "/src/m.c")%list = None /\ (* ... without the member *)
                lookup (w_fs w'') up_m = None /\
                lookup (w_fs w'') p_m = Some (NFile 2) /\               (* which the project still has *)
                lookup (w_fs w'') v1 = Some (NFile 3) /\ lookup (w_fs w'') v2 = Some (NFile 4) /\
                lookup (w_fs w'') (lit "/q/1") = None
            | _ => False
            end
        | _ => False
        end
    | _ => False
    end.
  Proof. vm_compute. repeat split. Qed.

End MemberExample.

Print Assumptions MemberExample.dueA.
Print Assumptions MemberExample.dueB.
Print Assumptions MemberExample.run_pass1.
Print Assumptions MemberExample.run_pass2.
Print Assumptions MemberExample.pass1_by_theorem.
Print Assumptions MemberExample.pass2_by_theorem.
Print Assumptions MemberExample.iteration_moves_link.
Print Assumptions MemberExample.crash_before_link_drops_member.
