(* C07 (+ the decision rule of C06) over MIXED histories.

   AttrProofs.v: handle_open_exec refines the attribution machine over any
   sequence of exec events.  AcceptProofs.v: ONE handle_close_write queues iff
   [outcome ed c] for the deciding class c, where ed = pid_mem pid (h_pids h).
   This file composes the two over histories in which exec events, write events
   and steps of the environment are interleaved in any way.

   The specification is a function of the event list alone:

     is_editor_at editors hist pid   "pid counts as an editor after hist": from
                                     the moment it executes a file whose name is
                                     in the editor list until it executes a file
                                     that is neither an editor nor a loader
                                     recorded from an editor binary seen before
     class_of cfg cpl path           the deciding class of a path (a FUNCTION;
                                     sound and complete for SieveSpec.decides)
     should_queue cfg cpl hist pid path
                                     = outcome (is_editor_at hist pid) (class)
     expected cfg cpl now hist       the queue the history should leave

   Main results (every benign oracle, every pid : N)
     decides_deciding / deciding_sound   class_of is SieveSpec.decides as a function
     is_editor_at_spec_run / _bitmap  the specification is BitmapProofs.spec_run (the
                                     wording of Properties_C07) on the exec events,
                                     i.e. what the bit table of bitmap.c answers
     close_write_keeps_attribution   EVERY oracle, every path (the configuration
                                     file included, any outcome of reloading it):
                                     handle_close_write leaves the pid table and
                                     the loader set alone
     mixed_history_from              the refinement from any state
     mixed_history_refines           from empty tables and an empty queue:
                                     (a) pid table = is_editor_at, (b) the queue
                                     refines [expected], (c) no error
     mixed_history_prefixes          the same at every prefix of the history
     write_in_history, write_not_queued, write_queued
                                     one write event anywhere in a history
     non_editor_never_queued / editor_always_queued (and the _decides forms)
                                     the two sentences of the property
     pids_of_any_magnitude           no bound on pid; the size guess of the C bit
                                     table (max_pid_guess) is irrelevant: the
                                     handler model keeps a set, and the pure bit
                                     table answers the same for every guess g
     shist_ok_hist_ok / fresh_run_static
                                     the side conditions along the run (hist_ok,
                                     which follows the run under ONE oracle, as
                                     BurstProofs.hist_ok) follow for EVERY benign
                                     oracle from oracle-free conditions (shist_ok)
     Module MixedExample             vim (a script), an ELF editor "ed" with loader
                                     /ld.so, cat; pids 7, 9, 4194303 and 2^64+5;
                                     direct runs, the theorems at the oracle that
                                     cuts transfers into 2-byte pieces, and
                                     every_benign_oracle *)
From K Require Import Str Dec Trace Fs World Progs Sieve SieveSpec SieveProofs Elf Handler
     Bitmap BitmapProofs Linq LinqSpec LinqProofs DecProofs SyncProofs AbandonProofs JournalProofs
     QueueProofs Confine PassProofs JournalHistoryProofs FdProofs Properties_C07 AttrProofs
     AcceptProofs.
From Coq Require Import Lia.
Arguments N.add : simpl never.
Arguments N.sub : simpl never.
Arguments N.mul : simpl never.
Arguments N.of_nat : simpl never.
Arguments N.to_nat : simpl never.
Arguments N.eqb : simpl never.
Arguments N.leb : simpl never.
Arguments N.ltb : simpl never.
Arguments Nat.pow : simpl never.
Arguments Nat.mul : simpl never.

Notation benign := SyncProofs.benign.

(* ====================================================================== *)
(* 1. The deciding class of a path, as a function                         *)
(* ====================================================================== *)

(* the loop of SieveSpec.run_cands, remembering WHICH candidate is the farthest
   so far instead of its verdict *)
Definition cls_step (st : option nat * option cand) (ce : cand * option nat)
  : option nat * option cand :=
  if ptr_gt (snd ce) (fst st) then (snd ce, Some (fst ce)) else st.

Definition deciding (cs : list (cand * option nat)) : option cand :=
  snd (fold_left cls_step cs (None, None)).

(* what a class means for a writer: no candidate at all = "editors only" *)
Definition verdict (editor : bool) (oc : option cand) : bool :=
  match oc with Some c => outcome editor c | None => editor end.

Lemma cls_simulates editor cs : forall st st',
  fst st' = fst st -> snd st' = verdict editor (snd st) ->
  fst (run_cands editor cs st') = fst (fold_left cls_step cs st) /\
  snd (run_cands editor cs st') = verdict editor (snd (fold_left cls_step cs st)).
Proof.
  induction cs as [|[c e] cs IH]; intros st st' H1 H2; [split; assumption|].
  unfold run_cands. cbn [fold_left]. apply IH.
  - unfold run_step, cls_step. cbn [fst snd]. rewrite H1.
    destruct (ptr_gt e (fst st)); [reflexivity | exact H1].
  - unfold run_step, cls_step. cbn [fst snd]. rewrite H1.
    destruct (ptr_gt e (fst st)); [reflexivity | exact H2].
Qed.

Lemma run_cands_verdict editor cs :
  snd (run_cands editor cs (None, editor)) = verdict editor (deciding cs).
Proof. apply (cls_simulates editor cs (None, None) (None, editor)); reflexivity. Qed.

(* the decision of push_to_linq is the verdict of the deciding class *)
Lemma push_decision_verdict r cpl editor path :
  fst (fst (push_decision r cpl editor path)) = verdict editor (deciding (rule_ends r cpl path)).
Proof. rewrite push_decision_run. apply run_cands_verdict. Qed.

(* ----- complete: whatever SieveSpec.decides names is what the function returns ----- *)

Lemma cls_before k l1 : forall st,
  (forall c' e', In (c', e') l1 -> ptr_gt (Some k) e' = true) ->
  ptr_gt (Some k) (fst st) = true ->
  ptr_gt (Some k) (fst (fold_left cls_step l1 st)) = true.
Proof.
  induction l1 as [|[c e] l1 IH]; intros st Hall Hst; cbn [fold_left]; [exact Hst|].
  apply IH.
  - intros c' e' Hin. apply (Hall c' e'). right. exact Hin.
  - unfold cls_step. cbn [fst snd]. destruct (ptr_gt e (fst st)); cbn [fst]; [|exact Hst].
    apply (Hall c e). left. reflexivity.
Qed.

Lemma cls_after k x l2 :
  (forall c' e', In (c', e') l2 -> ptr_gt e' (Some k) = false) ->
  fold_left cls_step l2 (Some k, x) = (Some k, x).
Proof.
  induction l2 as [|[c e] l2 IH]; intros Hall; [reflexivity|]. cbn [fold_left].
  assert (E : cls_step (Some k, x) (c, e) = (Some k, x)).
  { unfold cls_step. cbn [fst snd]. rewrite (Hall c e (or_introl eq_refl)). reflexivity. }
  rewrite E. apply IH. intros c' e' Hin. apply (Hall c' e'). right. exact Hin.
Qed.

Theorem decides_deciding c k cs : decides c k cs -> deciding cs = Some c.
Proof.
  intros (l1 & l2 & -> & H1 & H2). unfold deciding. rewrite fold_left_app. cbn [fold_left].
  pose proof (cls_before k l1 (None, None) H1 eq_refl) as Hb.
  assert (E : cls_step (fold_left cls_step l1 (None, None)) (c, Some k) = (Some k, Some c)).
  { unfold cls_step at 1. cbn [fst snd]. rewrite Hb. reflexivity. }
  rewrite E, (cls_after k (Some c) l2 H2). reflexivity.
Qed.

(* ----- sound: the function only names a candidate that decides ----- *)

Definition cls_inv (l : list (cand * option nat)) (st : option nat * option cand) : Prop :=
  match snd st with
  | None => fst st = None /\ forall c e, In (c, e) l -> e = None
  | Some c => exists k l1 l2, fst st = Some k /\ l = l1 ++ (c, Some k) :: l2 /\
      (forall c' e', In (c', e') l1 -> ptr_gt (Some k) e' = true) /\
      (forall c' e', In (c', e') l2 -> ptr_gt e' (Some k) = false)
  end.

Lemma ptr_gt_some_none k : ptr_gt (Some k) None = true.
Proof. reflexivity. Qed.

Lemma ptr_gt_trans a b c : ptr_gt a b = true -> ptr_gt b c = true -> ptr_gt a c = true.
Proof.
  destruct a as [x|], b as [y|], c as [z|]; cbn [ptr_gt]; try discriminate; try reflexivity.
  intros H1 H2. apply Nat.ltb_lt in H1, H2. apply Nat.ltb_lt. lia.
Qed.

Lemma ptr_gt_le_trans k' k e :
  ptr_gt (Some k') (Some k) = true -> ptr_gt e (Some k) = false -> ptr_gt (Some k') e = true.
Proof.
  destruct e as [z|]; cbn [ptr_gt]; [|reflexivity].
  intros H1 H2. apply Nat.ltb_lt in H1. apply Nat.ltb_ge in H2. apply Nat.ltb_lt. lia.
Qed.

Lemma cls_inv_step l st c e : cls_inv l st -> cls_inv (l ++ [(c, e)]) (cls_step st (c, e)).
Proof.
  intros Hinv. unfold cls_step. cbn [fst snd].
  destruct (ptr_gt e (fst st)) eqn:Eg.
  - destruct e as [k'|]; [|discriminate Eg].
    unfold cls_inv. cbn [fst snd]. exists k', l, []. split; [reflexivity|]. split; [reflexivity|].
    split; [|intros c' e' []].
    intros c' e' Hin. unfold cls_inv in Hinv. destruct (snd st) as [c0|].
    + destruct Hinv as (k & l1 & l2 & Ef & -> & A1 & A2). rewrite Ef in Eg.
      apply in_app_or in Hin. destruct Hin as [Hin|[Hin|Hin]].
      * exact (ptr_gt_trans _ _ _ Eg (A1 c' e' Hin)).
      * injection Hin as _ <-. exact Eg.
      * exact (ptr_gt_le_trans _ _ _ Eg (A2 c' e' Hin)).
    + destruct Hinv as (_ & A). rewrite (A c' e' Hin). reflexivity.
  - unfold cls_inv in *. destruct (snd st) as [c0|].
    + destruct Hinv as (k & l1 & l2 & Ef & -> & A1 & A2). rewrite Ef in Eg.
      exists k, l1, (l2 ++ [(c, e)]). split; [exact Ef|].
      split; [rewrite <- app_assoc; reflexivity|]. split; [exact A1|].
      intros c' e' Hin. apply in_app_or in Hin. destruct Hin as [Hin|[Hin|[]]].
      * exact (A2 c' e' Hin).
      * injection Hin as _ <-. exact Eg.
    + destruct Hinv as (Ef & A). split; [exact Ef|].
      intros c' e' Hin. apply in_app_or in Hin. destruct Hin as [Hin|[Hin|[]]].
      * exact (A c' e' Hin).
      * injection Hin as _ <-. rewrite Ef in Eg. destruct e as [x|]; [discriminate Eg | reflexivity].
Qed.

Lemma cls_inv_fold cs : forall l st, cls_inv l st -> cls_inv (l ++ cs) (fold_left cls_step cs st).
Proof.
  induction cs as [|[c e] cs IH]; intros l st Hinv; cbn [fold_left].
  - rewrite app_nil_r. exact Hinv.
  - replace (l ++ (c, e) :: cs) with ((l ++ [(c, e)]) ++ cs) by (rewrite <- app_assoc; reflexivity).
    apply IH. apply cls_inv_step. exact Hinv.
Qed.

Theorem deciding_sound cs :
  match deciding cs with
  | Some c => exists k, decides c k cs
  | None => forall c e, In (c, e) cs -> e = None
  end.
Proof.
  assert (H0 : cls_inv [] (None, None)) by (split; [reflexivity | intros c e []]).
  pose proof (cls_inv_fold cs [] (None, None) H0) as Hinv. cbn [app] in Hinv.
  unfold deciding. unfold cls_inv in Hinv. destruct (snd (fold_left cls_step cs (None, None))) as [c|].
  - destruct Hinv as (k & l1 & l2 & _ & E & A1 & A2). exists k, l1, l2. auto.
  - exact (proj2 Hinv).
Qed.

(* ====================================================================== *)
(* 2. Histories and the specification on the event list alone             *)
(* ====================================================================== *)

(* An event of a history:
   - process [pid] executes the file [image]; [interp] is the loader named by
     the image (PT_INTERP, resolved) at that moment -- it matters only when the
     image is an editor binary (hist_ok below ties it to the file system);
   - process [pid] closes [path] after writing;
   - the environment (editors, other processes, time) replaces the world. *)
Inductive event :=
| EExec (pid : N) (image : str) (interp : option str)
| EWrite (pid : N) (path : str)
| EEnv (w2 : world).

(* the attribution state in the property's words: who counts as an editor, and
   the loaders recorded from the editor binaries seen so far *)
Record sstate := mkS { s_ed : N -> bool; s_ld : list str }.

Definition s_init : sstate := mkS (fun _ => false) [].

Definition spec_step (editors : list str) (st : sstate) (e : event) : sstate :=
  match e with
  | EExec pid image interp =>
      if mem (basename image) editors then
        (* an editor: the process counts from now on, its loader is recorded *)
        mkS (fun p => if N.eqb pid p then true else s_ed st p)
            (match interp with Some i => i :: s_ld st | None => s_ld st end)
      else if mem image (s_ld st) then st          (* a recorded loader: no change *)
      else mkS (fun p => if N.eqb pid p then false else s_ed st p) (s_ld st)
  | _ => st
  end.

Definition spec_state (editors : list str) (hist : list event) : sstate :=
  fold_left (spec_step editors) hist s_init.

Definition is_editor_at (editors : list str) (hist : list event) (pid : N) : bool :=
  s_ed (spec_state editors hist) pid.

Lemma spec_state_snoc editors hist e :
  spec_state editors (hist ++ [e]) = spec_step editors (spec_state editors hist) e.
Proof. unfold spec_state. rewrite fold_left_app. reflexivity. Qed.

(* writes and the environment do not change who is an editor *)
Lemma is_editor_at_write editors hist pid path p :
  is_editor_at editors (hist ++ [EWrite pid path]) p = is_editor_at editors hist p.
Proof. unfold is_editor_at. rewrite spec_state_snoc. reflexivity. Qed.

Lemma is_editor_at_env editors hist w2 p :
  is_editor_at editors (hist ++ [EEnv w2]) p = is_editor_at editors hist p.
Proof. unfold is_editor_at. rewrite spec_state_snoc. reflexivity. Qed.

(* the three clauses of the property, read off the definition *)
Lemma is_editor_at_exec_editor editors hist pid image interp :
  mem (basename image) editors = true ->
  is_editor_at editors (hist ++ [EExec pid image interp]) pid = true.
Proof.
  intros He. unfold is_editor_at. rewrite spec_state_snoc. cbn [spec_step]. rewrite He.
  cbn [s_ed]. rewrite N.eqb_refl. reflexivity.
Qed.

Lemma is_editor_at_exec_loader editors hist pid image interp :
  mem (basename image) editors = false ->
  mem image (s_ld (spec_state editors hist)) = true ->
  is_editor_at editors (hist ++ [EExec pid image interp]) pid = is_editor_at editors hist pid.
Proof.
  intros He Hl. unfold is_editor_at. rewrite spec_state_snoc. cbn [spec_step]. rewrite He, Hl.
  reflexivity.
Qed.

Lemma is_editor_at_exec_other editors hist pid image interp :
  mem (basename image) editors = false ->
  mem image (s_ld (spec_state editors hist)) = false ->
  is_editor_at editors (hist ++ [EExec pid image interp]) pid = false.
Proof.
  intros He Hl. unfold is_editor_at. rewrite spec_state_snoc. cbn [spec_step]. rewrite He, Hl.
  cbn [s_ed]. rewrite N.eqb_refl. reflexivity.
Qed.

Lemma is_editor_at_exec_another editors hist pid image interp p :
  p <> pid ->
  is_editor_at editors (hist ++ [EExec pid image interp]) p = is_editor_at editors hist p.
Proof.
  intros Hp. unfold is_editor_at. rewrite spec_state_snoc. cbn [spec_step].
  assert (E : N.eqb pid p = false) by (apply N.eqb_neq; congruence).
  destruct (mem (basename image) editors); cbn [s_ed]; [rewrite E; reflexivity|].
  destruct (mem image (s_ld (spec_state editors hist))); cbn [s_ed]; [reflexivity|].
  rewrite E. reflexivity.
Qed.

(* ----- the same specification through Bitmap / BitmapProofs ----- *)

(* the exec events of a history, as the pure attribution machine of Bitmap.v
   takes them (process ids as unary numbers) *)
Fixpoint execs_of (hist : list event) : list exec_ev :=
  match hist with
  | [] => []
  | EExec pid image interp :: r => mkEx (N.to_nat pid) image interp :: execs_of r
  | _ :: r => execs_of r
  end.

Lemma eqb_to_nat2 a b : Nat.eqb (N.to_nat a) (N.to_nat b) = N.eqb a b.
Proof. rewrite eqb_to_nat, N2Nat.id, N.eqb_sym. reflexivity. Qed.

Lemma spec_run_agrees editors hist : forall st is_ed,
  (forall p, s_ed st p = is_ed (N.to_nat p)) ->
  let st' := fold_left (spec_step editors) hist st in
  let r := spec_run editors (execs_of hist) is_ed (s_ld st) in
  (forall p, s_ed st' p = fst r (N.to_nat p)) /\ s_ld st' = snd r.
Proof.
  induction hist as [|e hist IH]; intros st is_ed Hag; cbn [fold_left execs_of spec_run].
  - split; [exact Hag | reflexivity].
  - destruct e as [pid image interp|pid path|w2]; cbn [spec_step execs_of];
      [|exact (IH st is_ed Hag) | exact (IH st is_ed Hag)].
    cbn [spec_run ex_path ex_pid ex_interp]. change (exe_name image) with (basename image).
    destruct (mem (basename image) editors).
    + apply (IH (mkS (fun p => if N.eqb pid p then true else s_ed st p)
                     (match interp with Some i => i :: s_ld st | None => s_ld st end))
                (fun p => if Nat.eqb (N.to_nat pid) p then true else is_ed p)).
      intros p. cbn [s_ed]. rewrite eqb_to_nat2, Hag. reflexivity.
    + destruct (mem image (s_ld st)); [exact (IH st is_ed Hag)|].
      apply (IH (mkS (fun p => if N.eqb pid p then false else s_ed st p) (s_ld st))
                (fun p => if Nat.eqb (N.to_nat pid) p then false else is_ed p)).
      intros p. cbn [s_ed]. rewrite eqb_to_nat2, Hag. reflexivity.
Qed.

(* is_editor_at is BitmapProofs.spec_run (the wording Properties_C07 uses) on
   the exec events of the history ... *)
Theorem is_editor_at_spec_run editors hist (pid : N) :
  is_editor_at editors hist pid =
  fst (spec_run editors (execs_of hist) (fun _ => false) []) (N.to_nat pid).
Proof.
  destruct (spec_run_agrees editors hist s_init (fun _ => false)) as [H _]; [reflexivity|].
  apply H.
Qed.

(* ... hence what the bit table of bitmap.c answers, whatever its initial size
   guess [g] (max_pid_guess): the table grows on demand *)
Theorem is_editor_at_bitmap editors hist (pid : N) (g : nat) :
  is_editor_at editors hist pid =
  bm_get (N.to_nat pid) (a_pids (attr_run editors g (execs_of hist))).
Proof.
  rewrite is_editor_at_spec_run.
  destruct (C07_attribution editors g (execs_of hist)) as [H _]. cbv zeta in H.
  rewrite H. reflexivity.
Qed.

(* ====================================================================== *)
(* 3. What should be queued                                               *)
(* ====================================================================== *)

(* the deciding class of a path under a configuration ([cpl]: the length of
   the common parent of the configured paths, h_cpl) *)
Definition class_of (cfg : config) (cpl : nat) (path : str) : option cand :=
  deciding (rule_ends (c_rules cfg) cpl path).

Definition should_queue (cfg : config) (cpl : nat) (hist : list event) (pid : N) (path : str) : bool :=
  verdict (is_editor_at (c_editors cfg) hist pid) (class_of cfg cpl path).

(* the entries of a write by a process of which [ed] says whether it is an
   editor: nothing, or the file entry (flags: linq_meta of the decision) followed
   by the project root entry when the file lies in a project *)
Definition dec_ents (cfg : config) (cpl : nat) (ed : bool) (path : str) (now : Z) : list qent :=
  let pd := push_decision (c_rules cfg) cpl ed path in
  acc_ents path (snd (fst pd)) (snd pd) now.

Definition ents_of (cfg : config) (cpl : nat) (ed : bool) (path : str) (now : Z) : list qent :=
  if verdict ed (class_of cfg cpl path) then dec_ents cfg cpl ed path now else [].

(* the queue a history should leave, by prefixes: [pre] is what happened
   before, [now] the clock *)
Fixpoint expected_from (cfg : config) (cpl : nat) (pre : list event) (now : Z) (s : list event)
  : list qent :=
  match s with
  | [] => []
  | EWrite pid path :: s' =>
      (if should_queue cfg cpl pre pid path
       then dec_ents cfg cpl (is_editor_at (c_editors cfg) pre pid) path now else [])
      ++ expected_from cfg cpl (pre ++ [EWrite pid path]) now s'
  | EExec pid image interp :: s' => expected_from cfg cpl (pre ++ [EExec pid image interp]) now s'
  | EEnv w2 :: s' => expected_from cfg cpl (pre ++ [EEnv w2]) (w_clock w2) s'
  end.

Definition expected (cfg : config) (cpl : nat) (now : Z) (hist : list event) : list qent :=
  expected_from cfg cpl [] now hist.

(* the same from an attribution state (the form the induction uses) *)
Fixpoint queued_st (cfg : config) (cpl : nat) (st : sstate) (now : Z) (s : list event) : list qent :=
  match s with
  | [] => []
  | e :: s' =>
      (match e with EWrite pid path => ents_of cfg cpl (s_ed st pid) path now | _ => [] end)
      ++ queued_st cfg cpl (spec_step (c_editors cfg) st e)
                   (match e with EEnv w2 => w_clock w2 | _ => now end) s'
  end.

Lemma ents_of_should cfg cpl ed path now :
  (if verdict ed (class_of cfg cpl path) then ents_of cfg cpl ed path now else [])
  = ents_of cfg cpl ed path now.
Proof. unfold ents_of. destruct (verdict ed (class_of cfg cpl path)); reflexivity. Qed.

Lemma expected_from_st cfg cpl s : forall pre now,
  expected_from cfg cpl pre now s = queued_st cfg cpl (spec_state (c_editors cfg) pre) now s.
Proof.
  induction s as [|e s IH]; intros pre now; [reflexivity|].
  destruct e as [pid image interp|pid path|w2]; cbn [expected_from queued_st].
  - rewrite IH, spec_state_snoc. reflexivity.
  - rewrite IH, spec_state_snoc. reflexivity.
  - rewrite IH, spec_state_snoc. reflexivity.
Qed.

Fixpoint clock_after (now : Z) (s : list event) : Z :=
  match s with
  | [] => now
  | EEnv w2 :: s' => clock_after (w_clock w2) s'
  | _ :: s' => clock_after now s'
  end.

Lemma queued_st_app cfg cpl s1 : forall s2 st now,
  queued_st cfg cpl st now (s1 ++ s2) =
  queued_st cfg cpl st now s1 ++
  queued_st cfg cpl (fold_left (spec_step (c_editors cfg)) s1 st) (clock_after now s1) s2.
Proof.
  induction s1 as [|e s1 IH]; intros s2 st now; [reflexivity|].
  cbn [app queued_st fold_left]. rewrite IH, <- app_assoc.
  destruct e; reflexivity.
Qed.

Lemma clock_after_app s1 : forall s2 now,
  clock_after now (s1 ++ s2) = clock_after (clock_after now s1) s2.
Proof.
  induction s1 as [|e s1 IH]; intros s2 now; [reflexivity|].
  destruct e; cbn [app clock_after]; apply IH.
Qed.

(* ====================================================================== *)
(* 4. handle_close_write never touches the attribution, EVERY oracle      *)
(* ====================================================================== *)

(* every value a program can return satisfies P *)
Definition keeps {A} (P : A -> Prop) (m : M A) : Prop :=
  forall o w a w', m o w = (Some a, w') -> P a.

Lemma keeps_ret {A} (P : A -> Prop) a : P a -> keeps P (ret_ a).
Proof. intros H o w a' w' E. injection E as <- _. exact H. Qed.

Lemma keeps_bind {A B} (P : B -> Prop) (m : M A) (k : A -> M B) :
  (forall a, keeps P (k a)) -> keeps P (bind m k).
Proof.
  intros Hk o w b w' E. unfold bind in E. destruct (m o w) as [[a|] w1]; [|discriminate E].
  exact (Hk a o w1 b w' E).
Qed.

Lemma keeps_when_ok {A} (P : A -> Prop) d m : P d -> keeps P m -> keeps P (when_ok d m).
Proof.
  intros Hd Hm. unfold when_ok. apply keeps_bind. intros [|]; [exact Hm | apply keeps_ret; exact Hd].
Qed.

(* the two attribution fields are those of h *)
Definition same_attr (h h' : handler) : Prop :=
  h_pids h' = h_pids h /\ h_interps h' = h_interps h.

Lemma same_attr_refl h : same_attr h h.
Proof. split; reflexivity. Qed.

Lemma same_attr_trans a b c : same_attr a b -> same_attr b c -> same_attr a c.
Proof. intros [A1 A2] [B1 B2]. split; congruence. Qed.

Lemma push_to_linq_keeps pid path h : keeps (fun r => same_attr h (snd r)) (push_to_linq pid path h).
Proof.
  unfold push_to_linq. apply keeps_when_ok; [apply same_attr_refl|].
  destruct (push_decision _ _ _ _) as [[pu ih] pre].
  destruct (negb pu); [apply keeps_ret, same_attr_refl|].
  apply keeps_bind. intros _. apply keeps_bind. intros q1. apply keeps_bind. intros _.
  apply keeps_bind. intros _.
  destruct pre as [k|]; [|apply keeps_ret; split; reflexivity].
  apply keeps_bind. intros _. apply keeps_bind. intros q2. apply keeps_bind. intros _.
  apply keeps_bind. intros _. apply keeps_ret. split; reflexivity.
Qed.

Lemma reload_keeps nc h : keeps (same_attr h) (reload nc h).
Proof.
  unfold reload. destruct (h_cfg_path h) as [cp|]; [|apply keeps_ret, same_attr_refl].
  apply keeps_bind. intros _. apply keeps_bind. intros _. apply keeps_bind. intros _.
  apply keeps_bind. intros _.
  destruct nc as [nc|]; [|apply keeps_ret, same_attr_refl].
  apply keeps_bind. intros b. apply keeps_bind. intros nq. apply keeps_bind. intros b2.
  apply keeps_bind. intros nj. apply keeps_bind. intros b3.
  destruct b3; [|apply keeps_ret, same_attr_refl].
  apply keeps_bind. intros _. apply keeps_bind. intros _. apply keeps_ret. split; reflexivity.
Qed.

Lemma close_write_tail_keeps (pu : bool) pid path nc h1 :
  keeps (same_attr h1)
    (record_event (if pu then c_ev_write_by_editor (h_cfg h1) else c_ev_write_not_by_editor (h_cfg h1))
                  pid path h1;;
     do b <- is_ok;
     match b, h_cfg_path h1 with
     | true, Some cp => if str_eqb path cp then reload nc h1 else ret_ h1
     | _, _ => ret_ h1
     end).
Proof.
  apply keeps_bind. intros _. apply keeps_bind. intros b.
  destruct b; [|apply keeps_ret, same_attr_refl].
  destruct (h_cfg_path h1) as [cp|]; [|apply keeps_ret, same_attr_refl].
  destruct (str_eqb path cp); [apply reload_keeps | apply keeps_ret, same_attr_refl].
Qed.

(* Whatever the oracle, whatever the path (the configuration file included,
   with any outcome [nc] of loading it): a close-after-write event that comes
   back leaves the pid table and the loader set exactly as they were. *)
Theorem close_write_keeps_attribution o w pid path nc h h' w' :
  handle_close_write pid path nc h o w = (Some h', w') ->
  h_pids h' = h_pids h /\ h_interps h' = h_interps h.
Proof.
  revert o w h' w'. change (keeps (same_attr h) (handle_close_write pid path nc h)).
  unfold handle_close_write. apply keeps_when_ok; [apply same_attr_refl|].
  intros o w h' w' E. apply bind_inv in E. destruct E as ([pu h1] & w1 & E1 & E2).
  pose proof (push_to_linq_keeps pid path h o w _ _ E1) as S1. cbn [snd] in S1.
  apply (same_attr_trans h h1 h' S1).
  exact (close_write_tail_keeps pu pid path nc h1 o w1 h' w' E2).
Qed.
Print Assumptions close_write_keeps_attribution.

(* ====================================================================== *)
(* 5. Running a history; the side conditions                              *)
(* ====================================================================== *)

(* klunok handles the events one after the other (handle_open_exec for exec
   events, handle_close_write with nc = None for write events); an environment
   step replaces the world *)
Fixpoint run (o : oracle) (s : list event) (h : handler) (w : world) : option handler * world :=
  match s with
  | [] => (Some h, w)
  | EExec pid image _ :: s' =>
      match handle_open_exec pid image h o w with
      | (Some h1, w1) => run o s' h1 w1
      | (None, w1) => (None, w1)
      end
  | EWrite pid path :: s' =>
      match handle_close_write pid path None h o w with
      | (Some h1, w1) => run o s' h1 w1
      | (None, w1) => (None, w1)
      end
  | EEnv w2 :: s' => run o s' h w2
  end.

(* without environment steps this is the event loop of FdProofs *)
Fixpoint fd_events (s : list event) : list FdProofs.event :=
  match s with
  | [] => []
  | EExec pid image _ :: s' => EvExec pid image :: fd_events s'
  | EWrite pid path :: s' => EvWrite pid path None :: fd_events s'
  | EEnv _ :: s' => fd_events s'
  end.

Lemma run_handle_events o s : forall h w,
  (forall w2, ~ In (EEnv w2) s) -> run o s h w = handle_events (fd_events s) h o w.
Proof.
  induction s as [|e s IH]; intros h w Hne; [reflexivity|].
  assert (Hne' : forall w2, ~ In (EEnv w2) s) by (intros w2 Hin; apply (Hne w2); right; exact Hin).
  destruct e as [pid image interp|pid path|w2]; cbn [run fd_events handle_events handle_event].
  - unfold bind. destruct (handle_open_exec pid image h o w) as [[h1|] w1]; [apply IH; exact Hne' | reflexivity].
  - unfold bind. destruct (handle_close_write pid path None h o w) as [[h1|] w1]; [apply IH; exact Hne' | reflexivity].
  - exfalso. apply (Hne w2). left. reflexivity.
Qed.

(* the decision push_to_linq takes for a write, in the state h *)
Definition wdec (h : handler) (pid : N) (path : str) : bool * bool * option nat :=
  push_decision (c_rules (h_cfg h)) (h_cpl h) (pid_mem pid (h_pids h)) path.

(* side conditions of an exec event, on the file system [f] at time [now]:
   the time stamp of the journal line is a file name; when the image is an
   editor binary, [interp] is what its PT_INTERP resolves to, and a loader it
   names exists (otherwise realpath fails and the event is an error:
   AttrProofs.handle_open_exec_refines, last clause) *)
Record exec_cond (h : handler) (f : fs) (now : Z) (image : str) (interp : option str) : Prop := {
  XC_jfits : journal_fits (h_journal h) (exec_event_name h image) now;
  XC_interp : is_editor h image = true -> interp_of f image = interp;
  XC_loader : exec_dangling h f image = false
}.

(* side conditions of a write event (those of AcceptProofs.accept_write_post):
   not the configuration file; the time stamp of the journal line is a file
   name; IF the write is accepted, the path is one the kernel produces and its
   link target fits the read buffer *)
Record write_cond (h : handler) (now : Z) (pid : N) (path : str) : Prop := {
  WC_cfg : h_cfg_path h <> Some path;
  WC_jfits : journal_fits (h_journal h) (write_ev (h_cfg h) (fst (fst (wdec h pid path)))) now;
  WC_ent : fst (fst (wdec h pid path)) = true ->
           normal path /\
           fits (q_len_guess (h_q h))
                (path, linq_meta (snd (fst (wdec h pid path))) (snd (wdec h pid path)), now)
}.

(* side conditions of an environment step: the queue directory is left alone
   and no error is pending *)
Record env_cond (q : qmem) (w w2 : world) : Prop := {
  EC_queue : queue_untouched q (w_fs w) (w_fs w2);
  EC_tr : tr_ok (w_tr w2) = true
}.

(* the side conditions hold at every step along the run (as BurstProofs.hist_ok) *)
Fixpoint hist_ok (o : oracle) (s : list event) (h : handler) (w : world) : Prop :=
  match s with
  | [] => True
  | EExec pid image interp :: s' =>
      exec_cond h (w_fs w) (w_clock w) image interp /\
      forall h1 w1, handle_open_exec pid image h o w = (Some h1, w1) -> hist_ok o s' h1 w1
  | EWrite pid path :: s' =>
      write_cond h (w_clock w) pid path /\
      forall h1 w1, handle_close_write pid path None h o w = (Some h1, w1) -> hist_ok o s' h1 w1
  | EEnv w2 :: s' => env_cond (h_q h) w w2 /\ hist_ok o s' h w2
  end.

(* ====================================================================== *)
(* 6. The refinement                                                      *)
(* ====================================================================== *)

(* the handler's tables answer as the attribution state does *)
Definition tracks (h : handler) (st : sstate) : Prop :=
  (forall p : N, pid_mem p (h_pids h) = s_ed st p) /\ h_interps h = s_ld st.

(* the configuration of the handler and the parameters of its queue stay *)
Definition same_conf (h h' : handler) : Prop :=
  h_cfg h' = h_cfg h /\ h_cfg_path h' = h_cfg_path h /\ h_cpl h' = h_cpl h /\
  h_journal h' = h_journal h /\ q_dir (h_q h') = q_dir (h_q h) /\
  q_deb (h_q h') = q_deb (h_q h) /\ q_len_guess (h_q h') = q_len_guess (h_q h).

Lemma same_conf_refl h : same_conf h h.
Proof. repeat split. Qed.

Lemma same_conf_trans a b c : same_conf a b -> same_conf b c -> same_conf a c.
Proof.
  intros (A1 & A2 & A3 & A4 & A5 & A6 & A7) (B1 & B2 & B3 & B4 & B5 & B6 & B7).
  repeat split; congruence.
Qed.

Lemma pid_mem_cons p a l : pid_mem p (a :: l) = (N.eqb p a || pid_mem p l)%bool.
Proof. reflexivity. Qed.

(* one exec event: the pure update of the handler is the step of the spec *)
Lemma tracks_exec h st pid image oi interp :
  tracks h st -> (is_editor h image = true -> oi = interp) ->
  tracks (h_step h pid image oi) (spec_step (c_editors (h_cfg h)) st (EExec pid image interp)).
Proof.
  intros [T1 T2] Hoi. unfold h_step, spec_step. unfold is_editor in Hoi.
  destruct (mem (basename image) (c_editors (h_cfg h))) eqn:Ed.
  - rewrite (Hoi eq_refl). split; cbn [h_pids h_interps s_ed s_ld].
    + intros p. destruct (pid_mem pid (h_pids h)) eqn:Em.
      * destruct (N.eqb_spec pid p) as [<-|_]; [exact Em | apply T1].
      * rewrite pid_mem_cons, T1, N.eqb_sym. destruct (N.eqb pid p); reflexivity.
    + rewrite T2. reflexivity.
  - rewrite <- T2. destruct (mem image (h_interps h)) eqn:El; cbn [negb].
    + destruct (pid_mem pid (h_pids h)); split; assumption.
    + destruct (pid_mem pid (h_pids h)) eqn:Em; split; cbn [h_pids h_interps s_ed s_ld]; try reflexivity.
      * intros p. rewrite pid_mem_remove, T1. reflexivity.
      * intros p. destruct (N.eqb_spec pid p) as [<-|_]; [exact Em | apply T1].
Qed.

Lemma acc_q_conf path pre q :
  q_dir (acc_q path pre q) = q_dir q /\ q_deb (acc_q path pre q) = q_deb q /\
  q_len_guess (acc_q path pre q) = q_len_guess q.
Proof. destruct pre; repeat split. Qed.

(* the handler, the new entries and the new names of a write, as functions *)
Definition wnext (h : handler) (pid : N) (path : str) : handler :=
  if fst (fst (wdec h pid path)) then set_q (acc_q path (snd (wdec h pid path)) (h_q h)) h else h.

Definition wents (h : handler) (pid : N) (path : str) (now : Z) : list qent :=
  if fst (fst (wdec h pid path))
  then acc_ents path (snd (fst (wdec h pid path))) (snd (wdec h pid path)) now else [].

Definition wnames (h : handler) (pid : N) (path : str) : list str :=
  if fst (fst (wdec h pid path)) then acc_names path (snd (wdec h pid path)) (h_q h) else [].

(* an inode that is not the open journal *)
Definition not_journal (oj : option journal) (i : nat) : Prop := forall jn, oj = Some jn -> i <> j_ino jn.

(* one write event, every benign oracle: the handler is the one of the
   decision; the queue grows by the entries of the decision; no error *)
Lemma write_step o w h pid path ents st :
  benign o -> tr_ok (w_tr w) = true -> QRel (h_q h) (w_fs w) ents -> tracks h st ->
  write_cond h (w_clock w) pid path ->
  exists h1 w1,
    handle_close_write pid path None h o w = (Some h1, w1) /\
    tracks h1 st /\ same_conf h h1 /\
    QRel (h_q h1) (w_fs w1) (ents ++ ents_of (h_cfg h) (h_cpl h) (s_ed st pid) path (w_clock w)) /\
    tr_ok (w_tr w1) = true /\ w_clock w1 = w_clock w /\
    (fst (fst (wdec h pid path)) = false -> h1 = h /\ fs_dents (w_fs w1) = fs_dents (w_fs w)) /\
    h1 = wnext h pid path /\
    ents_of (h_cfg h) (h_cpl h) (s_ed st pid) path (w_clock w) = wents h pid path (w_clock w) /\
    (forall x, ~ In x (wnames h pid path) -> lookup (w_fs w1) x = lookup (w_fs w) x) /\
    (forall i, not_journal (h_journal h) i -> get_file (w_fs w1) i = get_file (w_fs w) i).
Proof.
  intros H Hok HR [T1 T2] [Wc Wj We]. unfold wnext, wents, wnames.
  assert (Ev : fst (fst (wdec h pid path)) = verdict (s_ed st pid) (class_of (h_cfg h) (h_cpl h) path)).
  { unfold wdec. rewrite push_decision_verdict, T1. reflexivity. }
  assert (Ee : ents_of (h_cfg h) (h_cpl h) (s_ed st pid) path (w_clock w) =
               if fst (fst (wdec h pid path))
               then acc_ents path (snd (fst (wdec h pid path))) (snd (wdec h pid path)) (w_clock w)
               else []).
  { unfold ents_of. rewrite <- Ev. unfold wdec. rewrite T1. reflexivity. }
  rewrite Ee. clear Ev.
  destruct (wdec h pid path) as [[pu ih] pre] eqn:Hd. cbn [fst snd] in *.
  destruct (accept_write o w h pid path None ents pu ih pre H Hok HR Hd Wc Wj)
    as (w1 & E & J & HR1 & _ & Tok & _ & C1 & _).
  { intros ->. destruct (We eq_refl) as [Hn Hf]. exact (acc_ents_ok _ _ _ _ _ _ _ _ _ Hd Hn Hf). }
  cbv zeta in *.
  pose proof (acc_fs_frame _ _ _ _ _ _ _ _ _ _ J) as (F1 & F2 & _).
  exists (if pu then set_q (acc_q path pre (h_q h)) h else h), w1.
  destruct pu.
  - split; [exact E|]. split; [split; assumption|].
    split.
    { destruct (acc_q_conf path pre (h_q h)) as (A1 & A2 & A3).
      unfold same_conf. cbn [set_q h_cfg h_cfg_path h_cpl h_journal h_q]. auto 10. }
    split; [exact HR1|]. split; [exact Tok|]. split; [exact C1|]. split; [discriminate|].
    split; [reflexivity|]. split; [reflexivity|]. split; [exact F1 | exact F2].
  - split; [exact E|]. split; [split; assumption|]. split; [apply same_conf_refl|].
    rewrite app_nil_r. split; [exact HR1|]. split; [exact Tok|]. split; [exact C1|].
    split; [intros _; split; [reflexivity | exact (journal_step_dents _ _ _ _ J)]|].
    split; [reflexivity|]. split; [reflexivity|]. split; [exact F1 | exact F2].
Qed.

(* one exec event, every benign oracle *)
Lemma exec_step o w h pid image interp ents st :
  benign o -> tr_ok (w_tr w) = true -> QRel (h_q h) (w_fs w) ents -> tracks h st ->
  exec_cond h (w_fs w) (w_clock w) image interp ->
  exists h1 w1,
    handle_open_exec pid image h o w = (Some h1, w1) /\
    tracks h1 (spec_step (c_editors (h_cfg h)) st (EExec pid image interp)) /\
    same_conf h h1 /\ h_q h1 = h_q h /\
    QRel (h_q h1) (w_fs w1) ents /\ tr_ok (w_tr w1) = true /\ w_clock w1 = w_clock w /\
    fs_dents (w_fs w1) = fs_dents (w_fs w) /\
    h1 = h_step h pid image (interp_of (w_fs w) image) /\
    (forall x, lookup (w_fs w1) x = lookup (w_fs w) x) /\
    (forall i, not_journal (h_journal h) i -> get_file (w_fs w1) i = get_file (w_fs w) i).
Proof.
  intros H Hok HR HT [Xj Xi Xl].
  destruct (handle_open_exec_refines o w pid image h H Hok)
    as (h1 & w1 & E1 & Eh & _ & (S1 & S2 & S3 & S4 & S5) & C1 & Good & _).
  destruct (Good Xl Xj) as (K1 & J1).
  pose proof (journal_step_dents _ _ _ _ J1) as D1.
  exists h1, w1. split; [exact E1|].
  split; [rewrite Eh; apply tracks_exec; assumption|].
  split; [unfold same_conf; rewrite S1, S2, S3, S4, S5; auto 10|].
  split; [exact S4|].
  split; [rewrite S4; exact (QRel_same_dents _ _ _ _ D1 HR)|].
  split; [exact (tr_keep_ok _ _ K1)|]. split; [exact C1|]. split; [exact D1|].
  split; [exact Eh|].
  split; [intros x; exact (journal_step_lookup _ _ _ _ x J1)|].
  intros i Hi. exact (journal_step_file _ _ _ _ i J1 Hi).
Qed.

(* THE REFINEMENT, from any state: the handler's tables track the attribution
   state [st], the queue refines [ents0].  After the history (every benign
   oracle): the tables track the state the specification reaches, the queue
   refines ents0 followed by what the specification queues, no error. *)
Theorem mixed_history_from o : benign o -> forall s h w ents0 st,
  tr_ok (w_tr w) = true -> QRel (h_q h) (w_fs w) ents0 -> tracks h st -> hist_ok o s h w ->
  exists h' w',
    run o s h w = (Some h', w') /\
    tracks h' (fold_left (spec_step (c_editors (h_cfg h))) s st) /\
    same_conf h h' /\
    QRel (h_q h') (w_fs w') (ents0 ++ queued_st (h_cfg h) (h_cpl h) st (w_clock w) s) /\
    tr_ok (w_tr w') = true /\ w_clock w' = clock_after (w_clock w) s.
Proof.
  intros H. induction s as [|e s IH]; intros h w ents0 st Hok HR HT Hs.
  - exists h, w. cbn [run fold_left queued_st clock_after]. rewrite app_nil_r.
    split; [reflexivity|]. split; [exact HT|]. split; [apply same_conf_refl|]. auto.
  - destruct e as [pid image interp|pid path|w2]; cbn [hist_ok] in Hs; destruct Hs as [Hc Hs].
    + destruct (exec_step o w h pid image interp ents0 st H Hok HR HT Hc)
        as (h1 & w1 & E1 & T1 & S1 & _ & HR1 & Tok1 & C1 & _).
      specialize (Hs _ _ E1).
      destruct (IH h1 w1 ents0 _ Tok1 HR1 T1 Hs) as (h' & w' & E & T' & S' & HR' & Tok' & C').
      exists h', w'. cbn [run fold_left queued_st clock_after app]. rewrite E1.
      pose proof S1 as (A1 & _ & A3 & _). rewrite A1, A3, C1 in *.
      split; [exact E|]. split; [exact T'|].
      split; [exact (same_conf_trans _ _ _ S1 S')|]. auto.
    + destruct (write_step o w h pid path ents0 st H Hok HR HT Hc)
        as (h1 & w1 & E1 & T1 & S1 & HR1 & Tok1 & C1 & _).
      specialize (Hs _ _ E1).
      destruct (IH h1 w1 _ st Tok1 HR1 T1 Hs) as (h' & w' & E & T' & S' & HR' & Tok' & C').
      exists h', w'. cbn [run fold_left queued_st clock_after spec_step]. rewrite E1.
      pose proof S1 as (A1 & _ & A3 & _). rewrite A1, A3, C1, <- app_assoc in *.
      split; [exact E|]. split; [exact T'|].
      split; [exact (same_conf_trans _ _ _ S1 S')|]. auto.
    + destruct Hc as [Eq Et].
      destruct (IH h w2 ents0 st Et (QRel_env _ _ _ _ HR Eq) HT Hs)
        as (h' & w' & E & T' & S' & HR' & Tok' & C').
      exists h', w'. cbn [run fold_left queued_st clock_after spec_step app]. auto 10.
Qed.
Print Assumptions mixed_history_from.

(* ----- prefixes ----- *)

Lemma run_app o s1 : forall s2 h w,
  run o (s1 ++ s2) h w =
  match run o s1 h w with
  | (Some h1, w1) => run o s2 h1 w1
  | (None, w1) => (None, w1)
  end.
Proof.
  induction s1 as [|e s1 IH]; intros s2 h w; [reflexivity|].
  destruct e as [pid image interp|pid path|w2]; cbn [app run].
  - destruct (handle_open_exec pid image h o w) as [[h1|] w1]; [apply IH | reflexivity].
  - destruct (handle_close_write pid path None h o w) as [[h1|] w1]; [apply IH | reflexivity].
  - apply IH.
Qed.

Lemma hist_ok_app o s1 : forall s2 h w,
  hist_ok o (s1 ++ s2) h w ->
  hist_ok o s1 h w /\ forall h1 w1, run o s1 h w = (Some h1, w1) -> hist_ok o s2 h1 w1.
Proof.
  induction s1 as [|e s1 IH]; intros s2 h w Hs.
  - split; [exact I|]. intros h1 w1 E. injection E as <- <-. exact Hs.
  - destruct e as [pid image interp|pid path|w2]; cbn [app hist_ok run] in *; destruct Hs as [Hc Hs].
    + split.
      * split; [exact Hc|]. intros h1 w1 E1. exact (proj1 (IH s2 h1 w1 (Hs h1 w1 E1))).
      * intros h2 w2 E. destruct (handle_open_exec pid image h o w) as [[h1|] w1]; [|discriminate E].
        exact (proj2 (IH s2 h1 w1 (Hs h1 w1 eq_refl)) h2 w2 E).
    + split.
      * split; [exact Hc|]. intros h1 w1 E1. exact (proj1 (IH s2 h1 w1 (Hs h1 w1 E1))).
      * intros h2 w3 E. destruct (handle_close_write pid path None h o w) as [[h1|] w1]; [|discriminate E].
        exact (proj2 (IH s2 h1 w1 (Hs h1 w1 eq_refl)) h2 w3 E).
    + destruct (IH s2 h w2 Hs) as [I1 I2]. split; [split; assumption | exact I2].
Qed.

(* ====================================================================== *)
(* 7. From a freshly loaded handler: the statement of the property        *)
(* ====================================================================== *)

Lemma tracks_init h : h_pids h = [] -> h_interps h = [] -> tracks h s_init.
Proof. intros Hp Hi. split; [intros p; rewrite Hp; reflexivity | rewrite Hi; reflexivity]. Qed.

(* load_handler returns empty tables and load_linq of an empty directory an
   empty queue.  Running the handler over the WHOLE history then
   (a) leaves a pid table that answers, for every process id, as is_editor_at
       does on the event list (and the loader set of the specification),
   (b) leaves a queue that refines exactly [expected]: the entries of those
       writes w_i for which should_queue (prefix before w_i) pid_i path_i holds,
       in order, each stamped with the clock of its write and carrying the
       flags linq_meta of its decision,
   (c) raises no error. *)
Theorem mixed_history_refines o hist h w :
  benign o -> tr_ok (w_tr w) = true ->
  h_pids h = [] -> h_interps h = [] -> QRel (h_q h) (w_fs w) [] ->
  hist_ok o hist h w ->
  exists h' w',
    run o hist h w = (Some h', w') /\
    (forall pid : N, pid_mem pid (h_pids h') = is_editor_at (c_editors (h_cfg h)) hist pid) /\
    h_interps h' = s_ld (spec_state (c_editors (h_cfg h)) hist) /\
    QRel (h_q h') (w_fs w') (expected (h_cfg h) (h_cpl h) (w_clock w) hist) /\
    tr_ok (w_tr w') = true /\
    same_conf h h' /\ w_clock w' = clock_after (w_clock w) hist.
Proof.
  intros H Hok Hp Hi HR Hs.
  destruct (mixed_history_from o H hist h w [] s_init Hok HR (tracks_init h Hp Hi) Hs)
    as (h' & w' & E & [T1 T2] & S' & HR' & Tok' & C').
  exists h', w'. split; [exact E|]. split; [exact T1|]. split; [exact T2|].
  unfold expected. rewrite expected_from_st. cbn [app] in HR'. auto.
Qed.
Print Assumptions mixed_history_refines.

(* The same at EVERY prefix: if hist = pre ++ post, the run passes through a
   state (hp, wp) in which (a), (b), (c) hold of [pre], and goes on from there. *)
Theorem mixed_history_prefixes o pre post h w :
  benign o -> tr_ok (w_tr w) = true ->
  h_pids h = [] -> h_interps h = [] -> QRel (h_q h) (w_fs w) [] ->
  hist_ok o (pre ++ post) h w ->
  exists hp wp,
    run o pre h w = (Some hp, wp) /\
    run o (pre ++ post) h w = run o post hp wp /\
    hist_ok o post hp wp /\
    (forall pid : N, pid_mem pid (h_pids hp) = is_editor_at (c_editors (h_cfg h)) pre pid) /\
    h_interps hp = s_ld (spec_state (c_editors (h_cfg h)) pre) /\
    QRel (h_q hp) (w_fs wp) (expected (h_cfg h) (h_cpl h) (w_clock w) pre) /\
    tr_ok (w_tr wp) = true /\
    same_conf h hp /\ w_clock wp = clock_after (w_clock w) pre.
Proof.
  intros H Hok Hp Hi HR Hs. destruct (hist_ok_app o pre post h w Hs) as [Hs1 Hs2].
  destruct (mixed_history_refines o pre h w H Hok Hp Hi HR Hs1)
    as (hp & wp & E & A & B & C & D & S' & C').
  exists hp, wp. split; [exact E|]. split; [rewrite run_app, E; reflexivity|].
  split; [exact (Hs2 hp wp E)|]. auto 10.
Qed.
Print Assumptions mixed_history_prefixes.

(* ====================================================================== *)
(* 8. The two sentences of the property                                   *)
(* ====================================================================== *)

Lemma expected_snoc_write cfg cpl now pre pid path :
  expected cfg cpl now (pre ++ [EWrite pid path]) =
  expected cfg cpl now pre ++
  ents_of cfg cpl (is_editor_at (c_editors cfg) pre pid) path (clock_after now pre).
Proof.
  unfold expected. rewrite !expected_from_st. cbn [app]. rewrite queued_st_app.
  cbn [queued_st]. rewrite app_nil_r. reflexivity.
Qed.

Lemma expected_snoc_other cfg cpl now pre e :
  (forall pid path, e <> EWrite pid path) ->
  expected cfg cpl now (pre ++ [e]) = expected cfg cpl now pre.
Proof.
  intros Hne. unfold expected. rewrite !expected_from_st. rewrite queued_st_app.
  cbn [queued_st]. destruct e as [pid image interp|pid path|w2]; cbn [app]; rewrite ?app_nil_r;
    [reflexivity | exfalso; exact (Hne pid path eq_refl) | reflexivity].
Qed.

(* a write event anywhere in a history: what the handler does with it *)
Theorem write_in_history o pre pid path post h w :
  benign o -> tr_ok (w_tr w) = true ->
  h_pids h = [] -> h_interps h = [] -> QRel (h_q h) (w_fs w) [] ->
  hist_ok o (pre ++ EWrite pid path :: post) h w ->
  let cfg := h_cfg h in
  let cpl := h_cpl h in
  let ed := is_editor_at (c_editors cfg) pre pid in
  let before := expected cfg cpl (w_clock w) pre in
  exists hp wp h1 w1,
    run o pre h w = (Some hp, wp) /\
    handle_close_write pid path None hp o wp = (Some h1, w1) /\
    same_conf h hp /\ w_clock wp = clock_after (w_clock w) pre /\
    QRel (h_q hp) (w_fs wp) before /\
    QRel (h_q h1) (w_fs w1) (before ++ ents_of cfg cpl ed path (w_clock wp)) /\
    expected cfg cpl (w_clock w) (pre ++ [EWrite pid path]) =
      before ++ ents_of cfg cpl ed path (w_clock wp) /\
    tr_ok (w_tr w1) = true /\ w_clock w1 = w_clock wp /\
    h_pids h1 = h_pids hp /\ h_interps h1 = h_interps hp /\
    (should_queue cfg cpl pre pid path = false ->
     h1 = hp /\ fs_dents (w_fs w1) = fs_dents (w_fs wp)).
Proof.
  intros H Hok Hp Hi HR Hs. cbv zeta.
  destruct (mixed_history_prefixes o pre (EWrite pid path :: post) h w H Hok Hp Hi HR Hs)
    as (hp & wp & E & _ & Hs2 & A & B & C & D & S' & C').
  cbn [hist_ok] in Hs2. destruct Hs2 as [Hc _].
  pose proof S' as (A1 & _ & A3 & _).
  assert (HT : tracks hp (spec_state (c_editors (h_cfg h)) pre)).
  { split; [exact A | exact B]. }
  destruct (write_step o wp hp pid path _ _ H D C HT Hc)
    as (h1 & w1 & E1 & [T1 T2] & S1 & HR1 & Tok1 & C1 & Hrej & _).
  rewrite A1, A3 in HR1. fold (is_editor_at (c_editors (h_cfg h)) pre pid) in HR1.
  exists hp, wp, h1, w1. split; [exact E|]. split; [exact E1|]. split; [exact S'|].
  split; [exact C'|]. split; [exact C|]. split; [exact HR1|].
  split; [rewrite expected_snoc_write, C'; reflexivity|].
  split; [exact Tok1|]. split; [exact C1|].
  destruct (close_write_keeps_attribution _ _ _ _ _ _ _ _ E1) as [K1 K2].
  split; [exact K1|]. split; [exact K2|].
  intros Hsq. apply Hrej. unfold wdec. rewrite push_decision_verdict, A, A1, A3. exact Hsq.
Qed.
Print Assumptions write_in_history.

Lemma verdict_non_editor oc :
  oc <> Some (CRule KIncluded) -> oc <> Some (CRule KHistory) -> verdict false oc = false.
Proof. destruct oc as [[|[| | | | |]]|]; cbn [verdict outcome]; congruence. Qed.

Lemma verdict_editor oc :
  oc <> Some CHidden -> oc <> Some (CRule KExcluded) -> verdict true oc = true.
Proof. destruct oc as [[|[| | | | |]]|]; cbn [verdict outcome]; congruence. Qed.

(* the hypotheses shared by the statements below: a freshly loaded handler, an
   empty queue, no error pending, and the side conditions along the history *)
Definition fresh_run (o : oracle) (hist : list event) (h : handler) (w : world) : Prop :=
  tr_ok (w_tr w) = true /\ h_pids h = [] /\ h_interps h = [] /\ QRel (h_q h) (w_fs w) [] /\
  hist_ok o hist h w.

(* a write the specification does not queue: the handler comes back unchanged,
   no name of the file system changes, the queue is the queue of before *)
Theorem write_not_queued o pre pid path post h w :
  benign o -> fresh_run o (pre ++ EWrite pid path :: post) h w ->
  should_queue (h_cfg h) (h_cpl h) pre pid path = false ->
  let before := expected (h_cfg h) (h_cpl h) (w_clock w) pre in
  expected (h_cfg h) (h_cpl h) (w_clock w) (pre ++ [EWrite pid path]) = before /\
  exists hp wp w1,
    run o pre h w = (Some hp, wp) /\
    handle_close_write pid path None hp o wp = (Some hp, w1) /\
    QRel (h_q hp) (w_fs wp) before /\ QRel (h_q hp) (w_fs w1) before /\
    fs_dents (w_fs w1) = fs_dents (w_fs wp) /\ tr_ok (w_tr w1) = true.
Proof.
  intros H (Hok & Hp & Hi & HR & Hs) Hsq. cbv zeta.
  destruct (write_in_history o pre pid path post h w H Hok Hp Hi HR Hs)
    as (hp & wp & h1 & w1 & E & E1 & _ & _ & Q0 & Q1 & Ex & Tok & _ & _ & _ & Hrej).
  cbv zeta in *. destruct (Hrej Hsq) as [-> D].
  assert (En : ents_of (h_cfg h) (h_cpl h) (is_editor_at (c_editors (h_cfg h)) pre pid) path (w_clock wp) = []).
  { unfold ents_of. unfold should_queue in Hsq. rewrite Hsq. reflexivity. }
  rewrite En, app_nil_r in Q1, Ex.
  split; [exact Ex|]. exists hp, wp, w1. auto 10.
Qed.

(* a write the specification queues: the queue grows by the file entry, stamped
   with the clock of the write and flagged with linq_meta of the decision
   (followed by the project root entry when the file lies in a project) *)
Theorem write_queued o pre pid path post h w :
  benign o -> fresh_run o (pre ++ EWrite pid path :: post) h w ->
  should_queue (h_cfg h) (h_cpl h) pre pid path = true ->
  let before := expected (h_cfg h) (h_cpl h) (w_clock w) pre in
  exists hp wp h1 w1 ih pr,
    run o pre h w = (Some hp, wp) /\
    handle_close_write pid path None hp o wp = (Some h1, w1) /\
    push_decision (c_rules (h_cfg h)) (h_cpl h) (is_editor_at (c_editors (h_cfg h)) pre pid) path
      = (true, ih, pr) /\
    w_clock wp = clock_after (w_clock w) pre /\
    QRel (h_q hp) (w_fs wp) before /\
    QRel (h_q h1) (w_fs w1) (before ++ acc_ents path ih pr (w_clock wp)) /\
    expected (h_cfg h) (h_cpl h) (w_clock w) (pre ++ [EWrite pid path]) =
      before ++ acc_ents path ih pr (w_clock wp) /\
    tr_ok (w_tr w1) = true.
Proof.
  intros H (Hok & Hp & Hi & HR & Hs) Hsq. cbv zeta.
  destruct (write_in_history o pre pid path post h w H Hok Hp Hi HR Hs)
    as (hp & wp & h1 & w1 & E & E1 & _ & C' & Q0 & Q1 & Ex & Tok & _).
  cbv zeta in *.
  set (ed := is_editor_at (c_editors (h_cfg h)) pre pid) in *.
  pose proof (push_decision_verdict (c_rules (h_cfg h)) (h_cpl h) ed path) as Ev.
  fold (class_of (h_cfg h) (h_cpl h) path) in Ev. unfold should_queue in Hsq. fold ed in Hsq.
  rewrite Hsq in Ev.
  assert (En : ents_of (h_cfg h) (h_cpl h) ed path (w_clock wp) =
               acc_ents path (snd (fst (push_decision (c_rules (h_cfg h)) (h_cpl h) ed path)))
                        (snd (push_decision (c_rules (h_cfg h)) (h_cpl h) ed path)) (w_clock wp)).
  { unfold ents_of. rewrite Hsq. reflexivity. }
  rewrite En in Q1, Ex.
  destruct (push_decision (c_rules (h_cfg h)) (h_cpl h) ed path) as [[pu ih] pr]. cbn [fst snd] in *.
  subst pu. exists hp, wp, h1, w1, ih, pr. auto 10.
Qed.
Print Assumptions write_not_queued.
Print Assumptions write_queued.

(* "Writes by non-editor processes to paths that are not force-included are
   never queued": the writer does not count as an editor after the events that
   precede the write, and the deciding class of the path is neither "included"
   nor "history" (no candidate at all is allowed).  Then the queue after the
   write is the queue before it, and no name of the file system has changed. *)
Theorem non_editor_never_queued o pre pid path post h w :
  benign o -> fresh_run o (pre ++ EWrite pid path :: post) h w ->
  is_editor_at (c_editors (h_cfg h)) pre pid = false ->
  class_of (h_cfg h) (h_cpl h) path <> Some (CRule KIncluded) ->
  class_of (h_cfg h) (h_cpl h) path <> Some (CRule KHistory) ->
  let before := expected (h_cfg h) (h_cpl h) (w_clock w) pre in
  expected (h_cfg h) (h_cpl h) (w_clock w) (pre ++ [EWrite pid path]) = before /\
  exists hp wp w1,
    run o pre h w = (Some hp, wp) /\
    handle_close_write pid path None hp o wp = (Some hp, w1) /\
    QRel (h_q hp) (w_fs wp) before /\ QRel (h_q hp) (w_fs w1) before /\
    fs_dents (w_fs w1) = fs_dents (w_fs wp) /\ tr_ok (w_tr w1) = true.
Proof.
  intros H Hf Hed H1 H2. apply (write_not_queued o pre pid path post h w H Hf).
  unfold should_queue. rewrite Hed. apply verdict_non_editor; assumption.
Qed.

(* the same, said with SieveSpec.decides: candidate c is the deepest one and
   does not force inclusion *)
Corollary non_editor_never_queued_decides o pre pid path post h w c k :
  benign o -> fresh_run o (pre ++ EWrite pid path :: post) h w ->
  is_editor_at (c_editors (h_cfg h)) pre pid = false ->
  decides c k (rule_ends (c_rules (h_cfg h)) (h_cpl h) path) -> outcome false c = false ->
  let before := expected (h_cfg h) (h_cpl h) (w_clock w) pre in
  expected (h_cfg h) (h_cpl h) (w_clock w) (pre ++ [EWrite pid path]) = before /\
  exists hp wp w1,
    run o pre h w = (Some hp, wp) /\
    handle_close_write pid path None hp o wp = (Some hp, w1) /\
    QRel (h_q hp) (w_fs wp) before /\ QRel (h_q hp) (w_fs w1) before /\
    fs_dents (w_fs w1) = fs_dents (w_fs wp) /\ tr_ok (w_tr w1) = true.
Proof.
  intros H Hf Hed Hd Ho. apply (write_not_queued o pre pid path post h w H Hf).
  unfold should_queue, class_of. rewrite Hed, (decides_deciding _ _ _ Hd). exact Ho.
Qed.

(* "Writes by editor processes to visible, non-excluded paths always are": the
   writer counts as an editor after the events that precede the write, and the
   deciding class is neither a hidden component nor "excluded".  Then the entry
   of the file -- stamped with the clock of the write -- is appended. *)
Theorem editor_always_queued o pre pid path post h w :
  benign o -> fresh_run o (pre ++ EWrite pid path :: post) h w ->
  is_editor_at (c_editors (h_cfg h)) pre pid = true ->
  class_of (h_cfg h) (h_cpl h) path <> Some CHidden ->
  class_of (h_cfg h) (h_cpl h) path <> Some (CRule KExcluded) ->
  let before := expected (h_cfg h) (h_cpl h) (w_clock w) pre in
  exists hp wp h1 w1 ih pr,
    run o pre h w = (Some hp, wp) /\
    handle_close_write pid path None hp o wp = (Some h1, w1) /\
    push_decision (c_rules (h_cfg h)) (h_cpl h) true path = (true, ih, pr) /\
    w_clock wp = clock_after (w_clock w) pre /\
    QRel (h_q hp) (w_fs wp) before /\
    QRel (h_q h1) (w_fs w1) (before ++ acc_ents path ih pr (w_clock wp)) /\
    expected (h_cfg h) (h_cpl h) (w_clock w) (pre ++ [EWrite pid path]) =
      before ++ acc_ents path ih pr (w_clock wp) /\
    tr_ok (w_tr w1) = true.
Proof.
  intros H Hf Hed H1 H2. cbv zeta.
  destruct (write_queued o pre pid path post h w H Hf) as (hp & wp & h1 & w1 & ih & pr & R).
  { unfold should_queue. rewrite Hed. apply verdict_editor; assumption. }
  cbv zeta in R. rewrite Hed in R. exists hp, wp, h1, w1, ih, pr. exact R.
Qed.

Corollary editor_always_queued_decides o pre pid path post h w c k :
  benign o -> fresh_run o (pre ++ EWrite pid path :: post) h w ->
  is_editor_at (c_editors (h_cfg h)) pre pid = true ->
  decides c k (rule_ends (c_rules (h_cfg h)) (h_cpl h) path) -> outcome true c = true ->
  let before := expected (h_cfg h) (h_cpl h) (w_clock w) pre in
  exists hp wp h1 w1 ih pr,
    run o pre h w = (Some hp, wp) /\
    handle_close_write pid path None hp o wp = (Some h1, w1) /\
    push_decision (c_rules (h_cfg h)) (h_cpl h) true path = (true, ih, pr) /\
    w_clock wp = clock_after (w_clock w) pre /\
    QRel (h_q hp) (w_fs wp) before /\
    QRel (h_q h1) (w_fs w1) (before ++ acc_ents path ih pr (w_clock wp)) /\
    expected (h_cfg h) (h_cpl h) (w_clock w) (pre ++ [EWrite pid path]) =
      before ++ acc_ents path ih pr (w_clock wp) /\
    tr_ok (w_tr w1) = true.
Proof.
  intros H Hf Hed Hd Ho. cbv zeta.
  destruct (write_queued o pre pid path post h w H Hf) as (hp & wp & h1 & w1 & ih & pr & R).
  { unfold should_queue, class_of. rewrite Hed, (decides_deciding _ _ _ Hd). exact Ho. }
  cbv zeta in R. rewrite Hed in R. exists hp, wp, h1, w1, ih, pr. exact R.
Qed.
Print Assumptions non_editor_never_queued.
Print Assumptions non_editor_never_queued_decides.
Print Assumptions editor_always_queued.
Print Assumptions editor_always_queued_decides.

(* the first appended entry IS the written file, with the clock of the write *)
Lemma acc_ents_head path ih pr now :
  exists rest, acc_ents path ih pr now = (path, linq_meta ih pr, now) :: rest.
Proof. eexists. reflexivity. Qed.

(* ====================================================================== *)
(* 9. Process ids of any magnitude                                        *)
(* ====================================================================== *)

(* Nothing above bounds a process id: [pid] ranges over all of N.  After any
   history the handler's table answers, for EVERY pid, as the specification --
   and as the bit table of bitmap.c does in the pure model (Bitmap.attr_run)
   whatever the size [g] it was created with: max_pid_guess is only a hint, the
   table grows on demand, so the guess never shows in the behaviour. *)
Theorem pids_of_any_magnitude o hist h w :
  benign o -> fresh_run o hist h w ->
  exists h' w',
    run o hist h w = (Some h', w') /\
    forall (pid : N) (g : nat),
      pid_mem pid (h_pids h') = is_editor_at (c_editors (h_cfg h)) hist pid /\
      pid_mem pid (h_pids h') =
        bm_get (N.to_nat pid) (a_pids (attr_run (c_editors (h_cfg h)) g (execs_of hist))).
Proof.
  intros H (Hok & Hp & Hi & HR & Hs).
  destruct (mixed_history_refines o hist h w H Hok Hp Hi HR Hs) as (h' & w' & E & A & _).
  exists h', w'. split; [exact E|]. intros pid g.
  split; [apply A | rewrite A; apply is_editor_at_bitmap].
Qed.
Print Assumptions pids_of_any_magnitude.

(* ====================================================================== *)
(* 10. Side conditions that do not mention the oracle                     *)
(* ====================================================================== *)

(* [hist_ok] follows the run, so it mentions the oracle.  Here the same side
   conditions are stated once and for all on a "ghost" file system [f] -- the
   file system as the environment last left it -- and the handler and the list
   of queued entries are advanced by PURE functions (h_step, wnext, wents).
   What klunok itself changes between two environment steps (journal lines,
   links in the queue directory) does not disturb them, provided the editor
   binaries and their loaders are neither the journal nor names <queue>/<number>.
   [shist_ok_hist_ok] then gives hist_ok for EVERY benign oracle. *)

(* not a name <d>/<number> *)
Definition outside (d x : str) : Prop := forall k : N, x <> join d (dec k).

(* g is f up to the names of the queue directory and the content of the journal *)
Definition fsim (oj : option journal) (d : str) (f g : fs) : Prop :=
  (forall x, outside d x -> lookup g x = lookup f x) /\
  (forall i, not_journal oj i -> get_file g i = get_file f i).

Lemma fsim_refl oj d f : fsim oj d f f.
Proof. split; reflexivity. Qed.

Lemma fsim_step oj d f g g' :
  fsim oj d f g ->
  (forall x, outside d x -> lookup g' x = lookup g x) ->
  (forall i, not_journal oj i -> get_file g' i = get_file g i) ->
  fsim oj d f g'.
Proof.
  intros [L G] L' G'. split.
  - intros x Hx. rewrite (L' x Hx). exact (L x Hx).
  - intros i Hi. rewrite (G' i Hi). exact (G i Hi).
Qed.

(* what an editor binary must satisfy so that klunok's own writes do not change
   what is read from it *)
Record exec_frame (h : handler) (f : fs) (image : str) : Prop := {
  XF_journal : forall i, lookup f image = Some (NFile i) -> not_journal (h_journal h) i;
  XF_image : outside (q_dir (h_q h)) image;
  XF_loader : forall p, raw_interp_of f image = Some p -> outside (q_dir (h_q h)) p
}.

Lemma raw_interp_fsim oj d f g image :
  fsim oj d f g -> outside d image ->
  (forall i, lookup f image = Some (NFile i) -> not_journal oj i) ->
  raw_interp_of g image = raw_interp_of f image.
Proof.
  intros [L G] Ho Hj. unfold raw_interp_of. rewrite (L image Ho).
  destruct (lookup f image) as [[|i|t m]|] eqn:El; try reflexivity.
  rewrite (G i (Hj i eq_refl)). reflexivity.
Qed.

Lemma exec_cond_fsim h f g now image interp :
  fsim (h_journal h) (q_dir (h_q h)) f g ->
  exec_cond h f now image interp ->
  (is_editor h image = true -> exec_frame h f image) ->
  exec_cond h g now image interp.
Proof.
  intros Hsim [Xj Xi Xl] Hfr. destruct (is_editor h image) eqn:Ed.
  - destruct (Hfr eq_refl) as [F1 F2 F3].
    pose proof (raw_interp_fsim _ _ _ _ _ Hsim F2 F1) as Er.
    assert (Ex : forall p, raw_interp_of f image = Some p -> fs_exists p g = fs_exists p f).
    { intros p Hp. unfold fs_exists. rewrite (proj1 Hsim p (F3 p Hp)). reflexivity. }
    constructor.
    + exact Xj.
    + intros _. rewrite <- (Xi eq_refl). unfold interp_of. rewrite Er. unfold resolve.
      destruct (raw_interp_of f image) as [p|] eqn:Ep; [rewrite (Ex p eq_refl)|]; reflexivity.
    + unfold exec_dangling in *. rewrite Ed in *. cbn [andb] in *. rewrite Er.
      unfold dangling in *. destruct (raw_interp_of f image) as [p|] eqn:Ep; [|exact Xl].
      rewrite (Ex p eq_refl). exact Xl.
  - constructor; [exact Xj | intros E; rewrite Ed in E; discriminate E|].
    unfold exec_dangling. rewrite Ed. reflexivity.
Qed.

Lemma h_step_not_editor h pid image oi oi' :
  is_editor h image = false -> h_step h pid image oi = h_step h pid image oi'.
Proof. unfold is_editor, h_step. intros ->. reflexivity. Qed.

(* two file systems in which the same queue refines the same entries have the
   same queue directory *)
Lemma QRel_untouched q f f2 ents : QRel q f ents -> QRel q f2 ents -> queue_untouched q f f2.
Proof.
  intros A B. split; [rewrite (QR_dir _ _ _ A), (QR_dir _ _ _ B); reflexivity|].
  intros k.
  destruct (N.ltb_spec k (q_head q)) as [Hlt|Hge].
  { rewrite (QR_free _ _ _ A k), (QR_free _ _ _ B k) by (left; exact Hlt). reflexivity. }
  destruct (N.leb_spec (q_head q + N.of_nat (length ents)) k) as [Hle|Hin].
  { rewrite (QR_free _ _ _ A k), (QR_free _ _ _ B k) by (right; exact Hle). reflexivity. }
  set (i := N.to_nat (k - q_head q)).
  assert (Ek : k = (q_head q + N.of_nat i)%N) by (unfold i; rewrite N2Nat.id; lia).
  assert (Hi : i < length ents) by (unfold i; lia).
  destruct (nth_error ents i) as [[[p m] t]|] eqn:En.
  - rewrite Ek, (QR_ent _ _ _ A i p m t En), (QR_ent _ _ _ B i p m t En). reflexivity.
  - apply nth_error_None in En. lia.
Qed.

(* the side conditions, oracle-free: [h] and [ents] are advanced by the pure
   functions, [f] is the file system of the last environment step *)
Fixpoint shist_ok (s : list event) (h : handler) (f : fs) (now : Z) (ents : list qent) : Prop :=
  match s with
  | [] => True
  | EExec pid image interp :: s' =>
      exec_cond h f now image interp /\
      (is_editor h image = true -> exec_frame h f image) /\
      shist_ok s' (h_step h pid image interp) f now ents
  | EWrite pid path :: s' =>
      write_cond h now pid path /\
      shist_ok s' (wnext h pid path) f now (ents ++ wents h pid path now)
  | EEnv w2 :: s' =>
      (* the environment hands back the queue directory as klunok left it *)
      QRel (h_q h) (w_fs w2) ents /\ tr_ok (w_tr w2) = true /\
      shist_ok s' h (w_fs w2) (w_clock w2) ents
  end.

Definition own (h : handler) : sstate := mkS (fun p => pid_mem p (h_pids h)) (h_interps h).

Lemma tracks_own h : tracks h (own h).
Proof. split; reflexivity. Qed.

Lemma some_pair_inv {A B} (a a' : A) (b b' : B) : (Some a, b) = (Some a', b') -> a = a' /\ b = b'.
Proof. intros E. injection E as -> ->. split; reflexivity. Qed.

Theorem shist_ok_hist_ok o : benign o -> forall s h w f ents,
  tr_ok (w_tr w) = true -> QRel (h_q h) (w_fs w) ents ->
  fsim (h_journal h) (q_dir (h_q h)) f (w_fs w) ->
  shist_ok s h f (w_clock w) ents -> hist_ok o s h w.
Proof.
  intros H. induction s as [|e s IH]; intros h w f ents Hok HR Hsim Hs; [exact I|].
  destruct e as [pid image interp|pid path|w2]; cbn [shist_ok hist_ok] in *.
  - destruct Hs as (Xc & Xf & Hs').
    pose proof (exec_cond_fsim _ _ _ _ _ _ Hsim Xc Xf) as Xc'.
    split; [exact Xc'|]. intros h1 w1 X.
    destruct (exec_step o w h pid image interp ents (own h) H Hok HR (tracks_own h) Xc')
      as (h1' & w1' & E' & _ & S1 & _ & HR1 & Tok1 & C1 & _ & Eh & L & G).
    rewrite E' in X. apply some_pair_inv in X. destruct X as [<- <-].
    assert (Eh' : h1' = h_step h pid image interp).
    { rewrite Eh. destruct (is_editor h image) eqn:Ed.
      - rewrite (XC_interp _ _ _ _ _ Xc' Ed). reflexivity.
      - apply h_step_not_editor. exact Ed. }
    pose proof S1 as (_ & _ & _ & A4 & A5 & _).
    apply (IH h1' w1' f ents Tok1 HR1).
    + rewrite A4, A5. apply (fsim_step _ _ _ _ _ Hsim); [intros x _; apply L | exact G].
    + rewrite C1, Eh'. exact Hs'.
  - destruct Hs as (Wc & Hs'). split; [exact Wc|]. intros h1 w1 X.
    destruct (write_step o w h pid path ents (own h) H Hok HR (tracks_own h) Wc)
      as (h1' & w1' & E' & _ & S1 & HR1 & Tok1 & C1 & _ & Eh & Ee & F1 & F2).
    rewrite E' in X. apply some_pair_inv in X. destruct X as [<- <-].
    pose proof S1 as (_ & _ & _ & A4 & A5 & _).
    rewrite Ee in HR1.
    apply (IH h1' w1' f _ Tok1 HR1).
    + rewrite A4, A5. apply (fsim_step _ _ _ _ _ Hsim); [|exact F2].
      intros x Hx. apply F1. unfold wnames. destruct (fst (fst (wdec h pid path))); [|intros []].
      unfold acc_names, next_name. intros Hin.
      destruct (snd (wdec h pid path)) as [k|]; cbn [In] in Hin.
      * destruct Hin as [Hin|[Hin|[]]]; symmetry in Hin; [exact (Hx _ Hin)|].
        cbn [pushed q_dir] in Hin. exact (Hx _ Hin).
      * destruct Hin as [Hin|[]]. symmetry in Hin. exact (Hx _ Hin).
    + rewrite C1, Eh. exact Hs'.
  - destruct Hs as (HQ & Ht & Hs').
    split; [constructor; [exact (QRel_untouched _ _ _ _ HR HQ) | exact Ht]|].
    apply (IH h w2 (w_fs w2) ents Ht HQ); [apply fsim_refl | exact Hs'].
Qed.
Print Assumptions shist_ok_hist_ok.

(* the hypotheses of every theorem of sections 7-9, for EVERY benign oracle *)
Corollary fresh_run_static o hist h w :
  benign o -> tr_ok (w_tr w) = true -> h_pids h = [] -> h_interps h = [] ->
  QRel (h_q h) (w_fs w) [] ->
  shist_ok hist h (w_fs w) (w_clock w) [] ->
  fresh_run o hist h w.
Proof.
  intros H Hok Hp Hi HR Hs. split; [exact Hok|]. split; [exact Hp|]. split; [exact Hi|].
  split; [exact HR|]. exact (shist_ok_hist_ok o H hist h w (w_fs w) [] Hok HR (fsim_refl _ _ _) Hs).
Qed.
Print Assumptions fresh_run_static.

(* shist_ok one event at a time, the pure successors named by equations (so
   that they can be computed) *)
Lemma sx_step (h h' : handler) f now ents pid image interp s' :
  exec_cond h f now image interp -> (is_editor h image = true -> exec_frame h f image) ->
  h_step h pid image interp = h' -> shist_ok s' h' f now ents ->
  shist_ok (EExec pid image interp :: s') h f now ents.
Proof. intros A B <- C. cbn [shist_ok]. auto. Qed.

Lemma sw_step (h h' : handler) f now ents ents' pid path s' :
  write_cond h now pid path -> wnext h pid path = h' -> ents ++ wents h pid path now = ents' ->
  shist_ok s' h' f now ents' -> shist_ok (EWrite pid path :: s') h f now ents.
Proof. intros A <- <- C. cbn [shist_ok]. auto. Qed.

Lemma se_step (h : handler) f now ents w2 s' :
  QRel (h_q h) (w_fs w2) ents -> tr_ok (w_tr w2) = true ->
  shist_ok s' h (w_fs w2) (w_clock w2) ents -> shist_ok (EEnv w2 :: s') h f now ents.
Proof. intros A B C. cbn [shist_ok]. auto. Qed.

(* ====================================================================== *)
(* 11. A concrete history                                                 *)
(* ====================================================================== *)

(* Editors "vim" and "ed".  /b/vim is a script (no PT_INTERP), /b/ed an ELF
   image whose loader is /ld.so, /b/cat an ELF image with the same loader that
   is NOT an editor.  The selection rules are those of AcceptExample: common
   parent /h/ (cpl = 3), /h/x excluded, /h/x/i included, nothing said of /h/a.
   Debounce 5 s, the clock starts at 100 s.

      100 s  pid 7 executes /b/vim                    7 counts as an editor
      100 s  pid 7 writes /h/a                        QUEUED   (/h/a, 0, 100)
      103 s  the environment rewrites /h/a, the clock advances
      103 s  pid 7 executes /b/cat                    7 no longer counts
      103 s  pid 7 writes /h/a                        not queued
      103 s  pid 4194303 executes /b/ed               counts; /ld.so recorded
      103 s  pid 4194303 executes /ld.so              still counts
      103 s  pid 4194303 writes /h/a                  QUEUED   (/h/a, 0, 103)
      103 s  pid 9 (never an editor) writes /h/x/i    QUEUED   (/h/x/i, 0, 103)  included
      103 s  pid 9 writes /h/x/o                      not queued                 excluded
      103 s  pid 4194303 writes /h/x/o                not queued                 excluded *)
Module MixedExample.
  Local Open Scope char_scope.

  Definition p_q : str := ["/"; "q"].
  Definition p_st : str := ["/"; "s"; "t"].
  Definition p_j : str := ["/"; "j"].
  Definition p_h : str := ["/"; "h"].
  Definition p_c : str := ["/"; "h"; "/"; "c"].
  Definition p_x : str := ["/"; "h"; "/"; "x"].
  Definition p_i : str := ["/"; "h"; "/"; "x"; "/"; "i"].
  Definition p_o : str := ["/"; "h"; "/"; "x"; "/"; "o"].
  Definition p_a : str := ["/"; "h"; "/"; "a"].
  Definition p_b : str := ["/"; "b"].
  Definition p_vim : str := ["/"; "b"; "/"; "v"; "i"; "m"].
  Definition p_ed : str := ["/"; "b"; "/"; "e"; "d"].
  Definition p_cat : str := ["/"; "b"; "/"; "c"; "a"; "t"].
  Definition p_ld : str := ["/"; "l"; "d"; "."; "s"; "o"].
  Definition old : str := ["o"; "l"; "d"; "010"].
  Definition two : str := ["t"; "w"; "o"; "!"; "!"].

  Definition rulesM : rules := mkRules [] [p_i] [p_x] [] [] [].

  (* journal /j with time stamp "<seconds>"; labels: "x" exec by a non-editor,
     "e" exec of an editor, "w" write not queued, "W" write queued *)
  Definition cfgM : config :=
    mkCfg [["v"; "i"; "m"]; ["e"; "d"]] rulesM p_st ["/"; "p"; "s"] ["/"; "u"] p_q (Some p_j)
          ["/"; "o"; "f"; "f"] ["%"; "s"] ["v"; "%"; "s"] 5%Z 0 16
          (Some ["x"]) (Some ["e"]) (Some ["w"]) (Some ["W"]) None None None.

  Definition fsM : fs :=
    mkFs [ (p_q, NDir); (p_h, NDir); (p_x, NDir); (p_b, NDir); (p_j, NFile 1);
           (p_i, NFile 2); (p_o, NFile 3); (p_a, NFile 4);
           (p_vim, NFile 5); (p_ed, NFile 6); (p_ld, NFile 7); (p_cat, NFile 8) ]
         [ (1, mkFile old true); (2, mkFile ["i"] true); (3, mkFile ["o"] true);
           (4, mkFile ["a"] true); (5, mkFile ["#"; "!"; "/"; "b"] true);
           (6, mkFile (AttrExample.elf_image p_ld) true);
           (7, mkFile (elf_magic ++ AttrExample.zeros 60) true);
           (8, mkFile (AttrExample.elf_image p_ld) true) ]
         9.

  Definition q0 : qmem := mkQ p_q 0 0 5%Z 16 [].
  Definition jM : journal := mkJ 1 ["%"; "s"].

  (* a freshly loaded handler: no process marked, no loader recorded *)
  Definition hM : handler := mkH cfgM (Some p_c) 3 q0 (Some jM) [] [].
  Definition wM : world := mkW fsM 0 [] 100%Z tr_empty.

  Definition big : N := 4194303.                       (* PID_MAX_LIMIT - 1 *)

  (* transfers are cut into pieces of at most 2 bytes *)
  Definition o2 : oracle := fun _ => FShort 2.
  Lemma o2_benign : benign o2.
  Proof. intros i. right. exists 2. split; [lia | left; reflexivity]. Qed.

  (* what the images say *)
  Example images :
    interp_of fsM p_vim = None /\ interp_of fsM p_ed = Some p_ld /\
    interp_of fsM p_cat = Some p_ld /\ interp_of fsM p_ld = None.
  Proof. vm_compute. auto. Qed.

  (* the deciding classes: nothing for /h/a, "included" for /h/x/i, "excluded" for /h/x/o *)
  Example classes :
    class_of cfgM 3 p_a = None /\ class_of cfgM 3 p_i = Some (CRule KIncluded) /\
    class_of cfgM 3 p_o = Some (CRule KExcluded).
  Proof. vm_compute. auto. Qed.

  (* ----- the history, with the states the run goes through under o2 ----- *)
  Definition getH (r : option handler * world) : handler :=
    match fst r with Some h => h | None => hM end.

  Definition R1 := handle_open_exec 7 p_vim hM o2 wM.
  Definition H1 := getH R1.  Definition W1 := snd R1.
  Definition R2 := handle_close_write 7 p_a None H1 o2 W1.
  Definition H2 := getH R2.  Definition W2 := snd R2.
  (* the environment: /h/a is rewritten and the clock advances to 103 s *)
  Definition E1 : world :=
    mkW (set_file 4 (mkFile two true) (w_fs W2)) (w_n W2) (w_log W2) 103%Z (w_tr W2).
  Definition R3 := handle_open_exec 7 p_cat H2 o2 E1.
  Definition H3 := getH R3.  Definition W3 := snd R3.
  Definition R4 := handle_close_write 7 p_a None H3 o2 W3.
  Definition H4 := getH R4.  Definition W4 := snd R4.
  Definition R5 := handle_open_exec big p_ed H4 o2 W4.
  Definition H5 := getH R5.  Definition W5 := snd R5.
  Definition R6 := handle_open_exec big p_ld H5 o2 W5.
  Definition H6 := getH R6.  Definition W6 := snd R6.
  Definition R7 := handle_close_write big p_a None H6 o2 W6.
  Definition H7 := getH R7.  Definition W7 := snd R7.
  Definition R8 := handle_close_write 9 p_i None H7 o2 W7.
  Definition H8 := getH R8.  Definition W8 := snd R8.
  Definition R9 := handle_close_write 9 p_o None H8 o2 W8.
  Definition H9 := getH R9.  Definition W9 := snd R9.
  Definition R10 := handle_close_write big p_o None H9 o2 W9.
  Definition H10 := getH R10.  Definition W10 := snd R10.

  Definition hist : list event :=
    [ EExec 7 p_vim None; EWrite 7 p_a; EEnv E1; EExec 7 p_cat (Some p_ld); EWrite 7 p_a;
      EExec big p_ed (Some p_ld); EExec big p_ld None; EWrite big p_a;
      EWrite 9 p_i; EWrite 9 p_o; EWrite big p_o ].

  (* ----- the specification, computed on the event list alone ----- *)

  (* who counts as an editor after each prefix: pids 7, 4194303, 9 *)
  Example spec_marks :
    map (fun n => map (is_editor_at (c_editors cfgM) (firstn n hist)) [7%N; big; 9%N])
        [0; 1; 2; 3; 4; 5; 6; 7; 8; 11]%nat =
    [ [false; false; false]; [true; false; false]; [true; false; false]; [true; false; false];
      [false; false; false]; [false; false; false]; [false; true; false]; [false; true; false];
      [false; true; false]; [false; true; false] ].
  Proof. vm_compute. reflexivity. Qed.

  Example spec_should_queue :
    should_queue cfgM 3 (firstn 1 hist) 7 p_a = true /\
    should_queue cfgM 3 (firstn 4 hist) 7 p_a = false /\
    should_queue cfgM 3 (firstn 7 hist) big p_a = true /\
    should_queue cfgM 3 (firstn 8 hist) 9 p_i = true /\
    should_queue cfgM 3 (firstn 9 hist) 9 p_o = false /\
    should_queue cfgM 3 (firstn 10 hist) big p_o = false.
  Proof. vm_compute. auto 10. Qed.

  Example spec_expected :
    expected cfgM 3 100 hist = [(p_a, 0%N, 100%Z); (p_a, 0%N, 103%Z); (p_i, 0%N, 103%Z)].
  Proof. vm_compute. reflexivity. Qed.

  (* ----- the real programs, run ----- *)
  Definition n0 : str := ["/"; "q"; "/"; "0"].
  Definition n1 : str := ["/"; "q"; "/"; "1"].
  Definition n2 : str := ["/"; "q"; "/"; "2"].
  Definition n3 : str := ["/"; "q"; "/"; "3"].

  Example run_hist :
    match run o2 hist hM wM with
    | (Some h', w') =>
        h' = H10 /\
        map (fun p => pid_mem p (h_pids h')) [7%N; big; 9%N] = [false; true; false] /\
        h_interps h' = [p_ld] /\
        q_size (h_q h') = 3%N /\
        lookup (w_fs w') n0 = Some (NLink p_a 100%Z) /\
        lookup (w_fs w') n1 = Some (NLink p_a 103%Z) /\
        lookup (w_fs w') n2 = Some (NLink p_i 103%Z) /\
        lookup (w_fs w') n3 = None /\
        f_bytes (get_file (w_fs w') 1) =
          old ++ journal_line ["1"; "0"; "0"] ["e"] 7 p_vim
              ++ journal_line ["1"; "0"; "0"] ["W"] 7 p_a
              ++ journal_line ["1"; "0"; "3"] ["x"] 7 p_cat
              ++ journal_line ["1"; "0"; "3"] ["w"] 7 p_a
              ++ journal_line ["1"; "0"; "3"] ["e"] big p_ed
              ++ journal_line ["1"; "0"; "3"] ["x"] big p_ld
              ++ journal_line ["1"; "0"; "3"] ["W"] big p_a
              ++ journal_line ["1"; "0"; "3"] ["W"] 9 p_i
              ++ journal_line ["1"; "0"; "3"] ["w"] 9 p_o
              ++ journal_line ["1"; "0"; "3"] ["w"] big p_o /\
        w_tr w' = tr_empty /\ w_clock w' = 103%Z
    | _ => False
    end.
  Proof. vm_compute. repeat split; reflexivity. Qed.

  (* ----- the hypotheses of the theorems hold ----- *)

  Lemma freeM k : lookup fsM (join p_q (dec k)) = None.
  Proof.
    unfold lookup.
    destruct (str_eqb_spec (join p_q (dec k)) root_path) as [E|_].
    { exfalso. revert E. apply join_dec_nonroot. discriminate. }
    rewrite (join_nonroot p_q (dec k)) by discriminate.
    unfold fsM, p_q, p_h, p_x, p_b, p_j, p_i, p_o, p_a, p_vim, p_ed, p_ld, p_cat.
    cbn [fs_dents alookup app].
    repeat (destruct (str_eqb_spec _ _) as [E|_]; [discriminate E|]). reflexivity.
  Qed.

  Lemma qM_rel : QRel (h_q hM) (w_fs wM) [].
  Proof. apply QRel_empty; [discriminate | reflexivity | exact freeM]. Qed.

  Lemma jfits_at (h : handler) ev now :
    h_journal h = Some jM -> Nat.leb (length (ts_of jM now)) 255 = true ->
    journal_fits (h_journal h) ev now.
  Proof. intros -> Hl jn e Ej _. injection Ej as <-. apply Nat.leb_le. exact Hl. Qed.

  Lemma fits_by_check (h : handler) p m t :
    q_len_guess (h_q h) = 16 -> Nat.leb (length (encode m p)) 16 = true ->
    fits (q_len_guess (h_q h)) (p, m, t).
  Proof. intros ->. apply AcceptExample.fits16. Qed.

  Definition option_eqb (a b : option str) : bool :=
    match a, b with
    | Some x, Some y => str_eqb x y
    | None, None => true
    | _, _ => false
    end.

  Lemma exec_cond_by_check (h : handler) f now image interp :
    h_journal h = Some jM -> Nat.leb (length (ts_of jM now)) 255 = true ->
    (if is_editor h image then option_eqb (interp_of f image) interp else true) = true ->
    exec_dangling h f image = false ->
    exec_cond h f now image interp.
  Proof.
    intros Ej Hts Hi Hd. constructor.
    - apply jfits_at; assumption.
    - intros Ed. rewrite Ed in Hi. unfold option_eqb in Hi.
      destruct (interp_of f image) as [a|]; destruct interp as [b|];
        try discriminate Hi; [|reflexivity].
      destruct (str_eqb_spec a b) as [E|E]; [rewrite E; reflexivity | discriminate Hi].
    - exact Hd.
  Qed.

  Lemma write_cond_by_check (h : handler) now pid p :
    h_cfg_path h = Some p_c -> str_eqb p p_c = false ->
    h_journal h = Some jM -> Nat.leb (length (ts_of jM now)) 255 = true ->
    normalb p = true -> q_len_guess (h_q h) = 16 ->
    Nat.leb (length (encode (linq_meta (snd (fst (wdec h pid p))) (snd (wdec h pid p))) p)) 16 = true ->
    write_cond h now pid p.
  Proof.
    intros Ecp Hne Ej Hts Hn Eg Hf. constructor.
    - rewrite Ecp. intros X. injection X as X. subst p. rewrite str_eqb_refl in Hne. discriminate Hne.
    - apply jfits_at; assumption.
    - intros _. split; [apply normalb_spec; exact Hn | apply fits_by_check; assumption].
  Qed.

  Ltac by_vm := vm_compute; reflexivity.
  Ltac xok := apply exec_cond_by_check; [by_vm | by_vm | by_vm | by_vm].
  Ltac wok := apply write_cond_by_check; [by_vm | by_vm | by_vm | by_vm | by_vm | by_vm | by_vm].

  (* (injection would evaluate the worlds) *)
  Lemma pair_some_inv (a b : handler) (u v : world) : (Some a, u) = (Some b, v) -> b = a /\ v = u.
  Proof.
    intros E. split; [|exact (eq_sym (f_equal snd E))].
    exact (eq_sym (f_equal (fun x => match fst x with Some y => y | None => a end) E)).
  Qed.

  Ltac next Y X := rewrite Y in X; apply pair_some_inv in X; destruct X as [-> ->].

  Lemma hist_is_ok : hist_ok o2 hist hM wM.
  Proof.
    unfold hist. cbn [hist_ok].
    split; [xok|]. intros h1 w1 X.
    assert (Y : handle_open_exec 7 p_vim hM o2 wM = (Some H1, W1)) by by_vm. next Y X. clear Y.
    split; [wok|]. intros h1 w1 X.
    assert (Y : handle_close_write 7 p_a None H1 o2 W1 = (Some H2, W2)) by by_vm. next Y X. clear Y.
    split.
    { constructor; [split; reflexivity | by_vm]. }
    split; [xok|]. intros h1 w1 X.
    assert (Y : handle_open_exec 7 p_cat H2 o2 E1 = (Some H3, W3)) by by_vm. next Y X. clear Y.
    split; [wok|]. intros h1 w1 X.
    assert (Y : handle_close_write 7 p_a None H3 o2 W3 = (Some H4, W4)) by by_vm. next Y X. clear Y.
    split; [xok|]. intros h1 w1 X.
    assert (Y : handle_open_exec big p_ed H4 o2 W4 = (Some H5, W5)) by by_vm. next Y X. clear Y.
    split; [xok|]. intros h1 w1 X.
    assert (Y : handle_open_exec big p_ld H5 o2 W5 = (Some H6, W6)) by by_vm. next Y X. clear Y.
    split; [wok|]. intros h1 w1 X.
    assert (Y : handle_close_write big p_a None H6 o2 W6 = (Some H7, W7)) by by_vm. next Y X. clear Y.
    split; [wok|]. intros h1 w1 X.
    assert (Y : handle_close_write 9 p_i None H7 o2 W7 = (Some H8, W8)) by by_vm. next Y X. clear Y.
    split; [wok|]. intros h1 w1 X.
    assert (Y : handle_close_write 9 p_o None H8 o2 W8 = (Some H9, W9)) by by_vm. next Y X. clear Y.
    split; [wok|]. intros h1 w1 X. exact I.
  Qed.

  (* every hypothesis of the theorems holds of this history *)
  Example hyps_hold : benign o2 /\ fresh_run o2 hist hM wM.
  Proof.
    split; [exact o2_benign|]. split; [reflexivity|]. split; [reflexivity|]. split; [reflexivity|].
    split; [exact qM_rel | exact hist_is_ok].
  Qed.

  (* ----- the theorems, instantiated ----- *)

  (* mixed_history_refines: the tables, the queue, no error *)
  Example by_theorem :
    exists h' w',
      run o2 hist hM wM = (Some h', w') /\
      pid_mem 7 (h_pids h') = false /\ pid_mem big (h_pids h') = true /\ pid_mem 9 (h_pids h') = false /\
      h_interps h' = [p_ld] /\
      QRel (h_q h') (w_fs w') [(p_a, 0%N, 100%Z); (p_a, 0%N, 103%Z); (p_i, 0%N, 103%Z)] /\
      tr_ok (w_tr w') = true /\ w_clock w' = 103%Z.
  Proof.
    destruct hyps_hold as (Hb & Hok & Hp & Hi & HR & Hs).
    destruct (mixed_history_refines o2 hist hM wM Hb Hok Hp Hi HR Hs)
      as (h' & w' & E & A & B & C & D & _ & F).
    exists h', w'. split; [exact E|].
    split; [rewrite A; by_vm|]. split; [rewrite A; by_vm|]. split; [rewrite A; by_vm|].
    split; [rewrite B; by_vm|].
    split; [change (expected (h_cfg hM) (h_cpl hM) (w_clock wM) hist) with (expected cfgM 3 100 hist) in C;
            rewrite spec_expected in C; exact C|].
    split; [exact D|]. rewrite F. by_vm.
  Qed.

  (* non_editor_never_queued: pid 7 after it executed cat *)
  Example cat_write_by_theorem :
    exists hp wp w1,
      run o2 (firstn 4 hist) hM wM = (Some hp, wp) /\
      handle_close_write 7 p_a None hp o2 wp = (Some hp, w1) /\
      QRel (h_q hp) (w_fs wp) [(p_a, 0%N, 100%Z)] /\ QRel (h_q hp) (w_fs w1) [(p_a, 0%N, 100%Z)] /\
      fs_dents (w_fs w1) = fs_dents (w_fs wp) /\ tr_ok (w_tr w1) = true.
  Proof.
    destruct hyps_hold as (Hb & Hf).
    destruct (non_editor_never_queued o2 (firstn 4 hist) 7 p_a (skipn 5 hist) hM wM Hb Hf)
      as (_ & hp & wp & w1 & R).
    { by_vm. }
    { intros E. vm_compute in E. discriminate E. }
    { intros E. vm_compute in E. discriminate E. }
    cbv zeta in R.
    assert (Ex : expected (h_cfg hM) (h_cpl hM) (w_clock wM) (firstn 4 hist) = [(p_a, 0%N, 100%Z)]) by by_vm.
    rewrite Ex in R. exists hp, wp, w1. exact R.
  Qed.

  (* editor_always_queued: pid 4194303 after it executed ed and then its loader *)
  Example big_write_by_theorem :
    exists hp wp h1 w1,
      run o2 (firstn 7 hist) hM wM = (Some hp, wp) /\
      handle_close_write big p_a None hp o2 wp = (Some h1, w1) /\
      QRel (h_q hp) (w_fs wp) [(p_a, 0%N, 100%Z)] /\
      QRel (h_q h1) (w_fs w1) [(p_a, 0%N, 100%Z); (p_a, 0%N, 103%Z)] /\
      tr_ok (w_tr w1) = true.
  Proof.
    destruct hyps_hold as (Hb & Hf).
    destruct (editor_always_queued o2 (firstn 7 hist) big p_a (skipn 8 hist) hM wM Hb Hf)
      as (hp & wp & h1 & w1 & ih & pr & E & E1 & Hd & C & Q0 & Q1 & _ & T).
    { by_vm. }
    { intros E. vm_compute in E. discriminate E. }
    { intros E. vm_compute in E. discriminate E. }
    assert (Ex : expected (h_cfg hM) (h_cpl hM) (w_clock wM) (firstn 7 hist) = [(p_a, 0%N, 100%Z)]) by by_vm.
    assert (Ed : push_decision (c_rules (h_cfg hM)) (h_cpl hM) true p_a = (true, false, None)) by by_vm.
    rewrite Ed in Hd. injection Hd as <- <-.
    assert (Ec : clock_after (w_clock wM) (firstn 7 hist) = 103%Z) by by_vm.
    rewrite Ex in Q0, Q1. rewrite C, Ec in Q1.
    exists hp, wp, h1, w1. auto.
  Qed.

  (* write_queued: pid 9, never an editor, writes the force-included /h/x/i *)
  Example included_write_by_theorem :
    exists hp wp h1 w1,
      run o2 (firstn 8 hist) hM wM = (Some hp, wp) /\
      handle_close_write 9 p_i None hp o2 wp = (Some h1, w1) /\
      QRel (h_q h1) (w_fs w1) [(p_a, 0%N, 100%Z); (p_a, 0%N, 103%Z); (p_i, 0%N, 103%Z)].
  Proof.
    destruct hyps_hold as (Hb & Hf).
    destruct (write_queued o2 (firstn 8 hist) 9 p_i (skipn 9 hist) hM wM Hb Hf)
      as (hp & wp & h1 & w1 & ih & pr & E & E1 & Hd & C & _ & Q1 & _).
    { by_vm. }
    assert (Ex : expected (h_cfg hM) (h_cpl hM) (w_clock wM) (firstn 8 hist)
                 = [(p_a, 0%N, 100%Z); (p_a, 0%N, 103%Z)]) by by_vm.
    assert (Ed : push_decision (c_rules (h_cfg hM)) (h_cpl hM)
                   (is_editor_at (c_editors (h_cfg hM)) (firstn 8 hist) 9) p_i = (true, false, None)) by by_vm.
    rewrite Ed in Hd. injection Hd as <- <-.
    assert (Ec : clock_after (w_clock wM) (firstn 8 hist) = 103%Z) by by_vm.
    rewrite Ex in Q1. rewrite C, Ec in Q1.
    exists hp, wp, h1, w1. auto.
  Qed.

  (* ----- the same for EVERY benign oracle, through the oracle-free side conditions ----- *)

  Lemma outside_by_check x : str_eqb (firstn 3 x) ["/"; "q"; "/"] = false -> outside p_q x.
  Proof.
    intros Hc k E. subst x. rewrite (join_nonroot p_q (dec k)) in Hc by discriminate.
    vm_compute in Hc. discriminate Hc.
  Qed.

  Lemma exec_frame_by_check (h : handler) f image :
    h_journal h = Some jM -> q_dir (h_q h) = p_q ->
    match lookup f image with Some (NFile i) => negb (Nat.eqb i 1) | _ => true end = true ->
    str_eqb (firstn 3 image) ["/"; "q"; "/"] = false ->
    match raw_interp_of f image with
    | Some p => negb (str_eqb (firstn 3 p) ["/"; "q"; "/"])
    | None => true
    end = true ->
    exec_frame h f image.
  Proof.
    intros Ej Eq H1 H2 H3. constructor.
    - intros i El jn Ejn. rewrite Ej in Ejn. injection Ejn as <-. rewrite El in H1.
      cbn [j_ino jM]. intros ->. discriminate H1.
    - rewrite Eq. apply outside_by_check. exact H2.
    - intros p Hp. rewrite Hp in H3. rewrite Eq. apply outside_by_check.
      destruct (str_eqb (firstn 3 p) ["/"; "q"; "/"]); [discriminate H3 | reflexivity].
  Qed.

  Ltac fok := first [ (let E := fresh in intros E; vm_compute in E; discriminate E)
                    | (intros _; apply exec_frame_by_check; by_vm) ].
  Ltac sx := eapply sx_step; [xok | fok | by_vm | ].
  Ltac sw := eapply sw_step; [wok | by_vm | by_vm | ].

  (* the environment step hands back the queue as klunok left it: from the run
     under o2 (the theorem itself) *)
  Lemma E1_queue : QRel (pushed p_a q0) (w_fs E1) [(p_a, 0%N, 100%Z)].
  Proof.
    destruct hyps_hold as (Hb & Hok & Hp & Hi & HR & Hs).
    destruct (mixed_history_prefixes o2 (firstn 2 hist) (skipn 2 hist) hM wM Hb Hok Hp Hi HR Hs)
      as (hp & wp & E & _ & _ & _ & _ & C & _).
    assert (Y : run o2 (firstn 2 hist) hM wM = (Some H2, W2)) by by_vm.
    rewrite Y in E. apply pair_some_inv in E. destruct E as [-> ->].
    assert (Eq : h_q H2 = pushed p_a q0) by by_vm. rewrite Eq in C.
    assert (Ex : expected (h_cfg hM) (h_cpl hM) (w_clock wM) (firstn 2 hist) = [(p_a, 0%N, 100%Z)]) by by_vm.
    rewrite Ex in C. apply (QRel_env _ _ _ _ C). split; reflexivity.
  Qed.

  Lemma hist_static : shist_ok hist hM fsM 100 [].
  Proof.
    unfold hist. sx. sw.
    apply se_step; [exact E1_queue | by_vm |].
    sx. sw. sx. sx. sw. sw. sw. sw. exact I.
  Qed.

  Example every_benign_oracle o : benign o ->
    exists h' w',
      run o hist hM wM = (Some h', w') /\
      pid_mem 7 (h_pids h') = false /\ pid_mem big (h_pids h') = true /\ pid_mem 9 (h_pids h') = false /\
      h_interps h' = [p_ld] /\
      QRel (h_q h') (w_fs w') [(p_a, 0%N, 100%Z); (p_a, 0%N, 103%Z); (p_i, 0%N, 103%Z)] /\
      tr_ok (w_tr w') = true /\ w_clock w' = 103%Z.
  Proof.
    intros Hb.
    destruct (fresh_run_static o hist hM wM Hb eq_refl eq_refl eq_refl qM_rel hist_static)
      as (Hok & Hp & Hi & HR & Hs).
    destruct (mixed_history_refines o hist hM wM Hb Hok Hp Hi HR Hs)
      as (h' & w' & E & A & B & C & D & _ & F).
    exists h', w'. split; [exact E|].
    split; [rewrite A; by_vm|]. split; [rewrite A; by_vm|]. split; [rewrite A; by_vm|].
    split; [rewrite B; by_vm|].
    split; [change (expected (h_cfg hM) (h_cpl hM) (w_clock wM) hist) with (expected cfgM 3 100 hist) in C;
            rewrite spec_expected in C; exact C|].
    split; [exact D|]. rewrite F. by_vm.
  Qed.

  (* ----- a process id beyond 64 bits ----- *)
  Definition huge : N := 18446744073709551621.          (* 2^64 + 5 *)

  Definition histH : list event := [EExec huge p_vim None; EWrite huge p_a; EWrite (huge + 1) p_a].

  Definition RH1 := handle_open_exec huge p_vim hM o2 wM.
  Definition HH1 := getH RH1.  Definition WH1 := snd RH1.
  Definition RH2 := handle_close_write huge p_a None HH1 o2 WH1.
  Definition HH2 := getH RH2.  Definition WH2 := snd RH2.

  Lemma histH_is_ok : hist_ok o2 histH hM wM.
  Proof.
    unfold histH. cbn [hist_ok].
    split; [xok|]. intros h1 w1 X.
    assert (Y : handle_open_exec huge p_vim hM o2 wM = (Some HH1, WH1)) by by_vm. next Y X. clear Y.
    split; [wok|]. intros h1 w1 X.
    assert (Y : handle_close_write huge p_a None HH1 o2 WH1 = (Some HH2, WH2)) by by_vm. next Y X. clear Y.
    split; [wok|]. intros h1 w1 X. exact I.
  Qed.

  Example huge_pid_by_theorem :
    exists h' w',
      run o2 histH hM wM = (Some h', w') /\
      pid_mem huge (h_pids h') = true /\ pid_mem (huge + 1) (h_pids h') = false /\
      (forall g : nat,
         bm_get (N.to_nat huge) (a_pids (attr_run (c_editors cfgM) g (execs_of histH))) = true) /\
      QRel (h_q h') (w_fs w') [(p_a, 0%N, 100%Z)].
  Proof.
    assert (Hf : fresh_run o2 histH hM wM).
    { split; [reflexivity|]. split; [reflexivity|]. split; [reflexivity|].
      split; [exact qM_rel | exact histH_is_ok]. }
    destruct (pids_of_any_magnitude o2 histH hM wM o2_benign Hf) as (h' & w' & E & A).
    destruct Hf as (Hok & Hp & Hi & HR & Hs).
    destruct (mixed_history_refines o2 histH hM wM o2_benign Hok Hp Hi HR Hs)
      as (h2 & w2 & E2 & _ & _ & C & _).
    rewrite E in E2. apply pair_some_inv in E2. destruct E2 as [-> ->].
    exists h', w'. split; [exact E|].
    split; [rewrite (proj1 (A huge 0)); by_vm|].
    split; [rewrite (proj1 (A (huge + 1)%N 0)); by_vm|].
    split.
    { intros g. pose proof (proj2 (A huge g)) as B.
      change (c_editors (h_cfg hM)) with (c_editors cfgM) in B.
      rewrite <- B, (proj1 (A huge 0)). by_vm. }
    assert (Ex : expected (h_cfg hM) (h_cpl hM) (w_clock wM) histH = [(p_a, 0%N, 100%Z)]) by by_vm.
    rewrite Ex in C. exact C.
  Qed.

  Example huge_pid_run :
    match run o2 histH hM wM with
    | (Some h', w') =>
        h_pids h' = [huge] /\ q_size (h_q h') = 1%N /\
        lookup (w_fs w') n0 = Some (NLink p_a 100%Z) /\ lookup (w_fs w') n1 = None /\
        w_tr w' = tr_empty
    | _ => False
    end.
  Proof. vm_compute. repeat split; reflexivity. Qed.
End MixedExample.

Print Assumptions MixedExample.hyps_hold.
Print Assumptions MixedExample.by_theorem.
Print Assumptions MixedExample.cat_write_by_theorem.
Print Assumptions MixedExample.big_write_by_theorem.
Print Assumptions MixedExample.included_write_by_theorem.
Print Assumptions MixedExample.every_benign_oracle.
Print Assumptions MixedExample.huge_pid_by_theorem.
Print Assumptions decides_deciding.
Print Assumptions deciding_sound.
Print Assumptions push_decision_verdict.
Print Assumptions is_editor_at_spec_run.
Print Assumptions is_editor_at_bitmap.
Print Assumptions write_step.
Print Assumptions exec_step.
