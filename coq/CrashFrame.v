(* C03, world level, part 1: the frame pass.

   Every program of the timeout pass other than the queue operations changes
   directory entries only at paths that are not inside the queue directory.
   Hence every predicate on the file system that (a) survives adding /
   removing an entry outside the queue directory and (b) does not depend on
   file contents and inode numbers is kept by these programs, under every
   oracle, as pre-, post- and crash condition (the one-predicate triples [tok]
   of StoreLogic.v).  The instance used later is

      keys_nodup f /\ QRel q f ents

   (QueueProofs.v): the in-memory queue and the queue directory stay related. *)
From K Require Import Str Dec Trace Fs World Progs Elf Linq LinqSpec LinqProofs Sieve Handler Hoare
     Confine Confine2 SyncProofs AbandonProofs StoreFs StoreLogic StoreProgs DecProofs QueueProofs.
From Coq Require Import Lia.

(* ---------- paths outside a directory ---------- *)

Definition away (d p : str) : Prop := ~ inside d p.

Lemma away_neq d p x : away d p -> inside d x -> x <> p.
Proof. intros Ha Hx E. subst x. exact (Ha Hx). Qed.

(* an ancestor of a path outside d is outside d *)
Lemma away_ancestor d p a : away d p -> ancestor a p -> away d a.
Proof.
  intros Ha [r Hr] Hin. apply Ha. subst p. destruct Hin as [->|[r' ->]].
  - right. exists r. reflexivity.
  - right. exists (r' ++ ch_slash :: r). rewrite <- app_assoc. reflexivity.
Qed.

Lemma away_parents d p a : away d p -> In a (parents_of p) -> away d a.
Proof. intros Ha Hin. eapply away_ancestor; [exact Ha | apply parents_of_prefix; exact Hin]. Qed.

(* everything inside a location that does not nest with d is outside d *)
Lemma nn_away d r p : nn d r -> inside r p -> away d p.
Proof.
  intros [H1 [H2 H3]] Hr Hd. destruct Hr as [->|[x ->]]; destruct Hd as [E|[y E]].
  - congruence.
  - apply H2. exists y. exact E.
  - apply H3. exists x. symmetry. exact E.
  - destruct (app_slash_split _ _ _ _ E) as [[E'|[z E']]|[z E']].
    + congruence.
    + apply H2. exists z. exact E'.
    + apply H3. exists z. exact E'.
Qed.

Lemma nn_away_under d r p : nn d r -> StoreFs.under r p -> away d p.
Proof. intros Hn [x ->]. eapply nn_away; [exact Hn | right; exists x; reflexivity]. Qed.

(* ---------- the frame pass ---------- *)

Section Frame.
Variable d : str.
Variable X : fs -> Prop.
Hypothesis X_add : forall f p n, away d p -> lookup f p = None -> X f -> X (add_dent p n f).
Hypothesis X_del : forall f p, away d p -> X f -> X (del_dent p f).
Hypothesis X_files : forall f fl nx, X f -> X (mkFs (fs_dents f) fl nx).

Lemma X_mkdir p f : away d p -> X f -> X (snd (fs_mkdir p f)).
Proof.
  intros Ha H. unfold fs_mkdir. destruct (lookup f p) eqn:E; [exact H|].
  destruct (parent_is_dir f p); [exact H|]. cbn [snd]. apply X_add; assumption.
Qed.

Lemma X_rmdir p f : away d p -> X f -> X (snd (fs_rmdir p f)).
Proof.
  intros Ha H. unfold fs_rmdir. destruct (lookup f p) as [[| |]|]; try exact H.
  destruct (children f p); [|exact H]. cbn [snd]. apply X_del; assumption.
Qed.

Lemma X_unlink p f : away d p -> X f -> X (snd (fs_unlink p f)).
Proof.
  intros Ha H. unfold fs_unlink. destruct (lookup f p) as [[| |]|]; try exact H;
    cbn [snd]; apply X_del; assumption.
Qed.

Lemma X_link a b f : away d b -> X f -> X (snd (fs_link a b f)).
Proof.
  intros Ha H. unfold fs_link. destruct (lookup f a) as [[| |]|]; try exact H;
    (destruct (lookup f b) eqn:E; [exact H|]; destruct (parent_is_dir f b); [exact H|];
     cbn [snd]; apply X_add; assumption).
Qed.

Lemma X_create_excl p f : away d p -> X f -> X (snd (fs_create_excl p f)).
Proof.
  intros Ha H. unfold fs_create_excl. destruct (lookup f p) eqn:E; [exact H|].
  destruct (parent_is_dir f p); [exact H|]. cbn [snd].
  change (X (mkFs (fs_dents (add_dent p (NFile (fs_next f)) f))
                  ((fs_next f, mkFile [] true) :: fs_files f) (S (fs_next f)))).
  apply X_files. apply X_add; assumption.
Qed.

Lemma X_open_create p f : away d p -> X f -> X (snd (fs_open_create p f)).
Proof.
  intros Ha H. unfold fs_open_create. destruct (lookup f p) as [[| |]|]; try exact H.
  apply X_create_excl; assumption.
Qed.

Lemma X_set_file j x f : X f -> X (set_file j x f).
Proof. intros H. unfold set_file. apply X_files. exact H. Qed.

Lemma fk_mkdir p : away d p -> tok X (k_mkdir p).
Proof. intros Ha. apply tok_sys_unit. intros f. apply X_mkdir. exact Ha. Qed.
Lemma fk_mkdirat dir r : away d (join dir r) -> tok X (k_mkdirat dir r).
Proof. intros Ha. apply tok_sys_unit. intros f. apply X_mkdir. exact Ha. Qed.
Lemma fk_rmdir p : away d p -> tok X (k_rmdir p).
Proof. intros Ha. apply tok_sys_unit. intros f. apply X_rmdir. exact Ha. Qed.
Lemma fk_unlink p : away d p -> tok X (k_unlink p).
Proof. intros Ha. apply tok_sys_unit. intros f. apply X_unlink. exact Ha. Qed.
Lemma fk_link a b : away d b -> tok X (k_link a b).
Proof. intros Ha. apply tok_sys_unit. intros f. apply X_link. exact Ha. Qed.
Lemma fk_linkat a dir r : away d (join dir r) -> tok X (k_linkat a dir r).
Proof. intros Ha. apply tok_sys_unit. intros f. apply X_link. exact Ha. Qed.
Lemma fk_open_excl p : away d p -> tok X (k_open_excl p).
Proof.
  intros Ha. apply tok_of_tri with (R := fun _ => True). apply tri_open_gen; [auto|].
  intros f Hf. split; [apply X_create_excl; assumption | exact I].
Qed.
Lemma fk_open_w p : away d p -> tok X (k_open_w p).
Proof.
  intros Ha. apply tok_of_tri with (R := fun _ => True). apply tri_open_gen; [auto|].
  intros f Hf. split; [apply X_open_create; assumption | exact I].
Qed.
Lemma fk_write i b : tok X (k_write i b).
Proof.
  unfold k_write. apply tok_bind; [apply tok_transfer_limit|intros lim].
  apply tri_sys; [auto|]. intros f Hf. cbn [snd fst]. split; [|exact I].
  unfold fs_append. apply X_set_file. exact Hf.
Qed.
Lemma fk_sendfile out inp off n : tok X (k_sendfile out inp off n).
Proof.
  unfold k_sendfile. apply tok_bind; [apply tok_transfer_limit|intros lim].
  apply tri_sys; [auto|]. intros f Hf. cbn [snd fst]. split; [|exact I].
  unfold fs_append. apply X_set_file. exact Hf.
Qed.
Lemma fk_ftruncate i : tok X (k_ftruncate i).
Proof. apply tok_sys_unit. intros f Hf. cbn [snd]. unfold fs_truncate. apply X_set_file. exact Hf. Qed.

Ltac leafF :=
  first [ leaf1
        | apply fk_write | apply fk_sendfile | apply fk_ftruncate
        | apply fk_mkdir; assumption | apply fk_mkdirat; assumption
        | apply fk_rmdir; assumption | apply fk_unlink; assumption
        | apply fk_link; assumption | apply fk_linkat; assumption
        | apply fk_open_excl; assumption | apply fk_open_w; assumption ].
Ltac tk := tk_with leafF.

Lemma fk_mkdir_all ds : (forall a, In a ds -> away d a) -> tok X (mkdir_all ds).
Proof.
  induction ds as [|a ds IH]; intros Hall; cbn [mkdir_all]; [apply tok_ret|].
  assert (Ha : away d a) by (apply Hall; left; reflexivity).
  assert (IH' : tok X (mkdir_all ds)) by (apply IH; intros a' Hin; apply Hall; right; exact Hin).
  apply tok_bind; [apply fk_mkdir; exact Ha|]. intros r.
  destruct r as [e|]; [destruct e|]; try exact IH'; tk.
Qed.

Lemma fk_create_parents p : away d p -> tok X (create_parents p).
Proof.
  intros Ha. unfold create_parents. tk. apply fk_mkdir_all.
  intros a Hin. eapply away_parents; eauto.
Qed.

Lemma fk_rmdir_up ds : (forall a, In a ds -> away d a) -> tok X (rmdir_up ds).
Proof.
  induction ds as [|a ds IH]; intros Hall; cbn [rmdir_up]; [apply tok_ret|].
  assert (Ha : away d a) by (apply Hall; left; reflexivity).
  assert (IH' : tok X (rmdir_up ds)) by (apply IH; intros a' Hin; apply Hall; right; exact Hin).
  apply tok_bind; [apply fk_rmdir; exact Ha|]. intros r.
  destruct r as [e|]; [destruct e|]; try exact IH'; tk.
Qed.

Lemma fk_remove_empty_parents p : away d p -> tok X (remove_empty_parents p).
Proof.
  intros Ha. unfold remove_empty_parents. tk. apply fk_rmdir_up.
  intros a Hin. apply in_rev in Hin. eapply away_parents; eauto.
Qed.

Lemma fk_clean_up p : away d p -> tok X (clean_up p).
Proof. intros Ha. unfold clean_up. tk. apply fk_remove_empty_parents. exact Ha. Qed.

Lemma fk_write_digits i ds : tok X (write_digits i ds).
Proof. induction ds as [|ch ds IH]; cbn [write_digits]; [apply tok_ret|]. tk. exact IH. Qed.

Lemma fk_write_counter p n : away d p -> tok X (write_counter p n).
Proof.
  intros Ha. unfold write_counter, when_ok.
  apply tok_bind; [tk|intros b0]. destruct b0; [|apply tok_ret].
  destruct (n =? 0)%N.
  - tk. apply fk_remove_empty_parents. exact Ha.
  - apply tok_bind; [apply fk_create_parents; exact Ha|intros ?].
    tk. apply fk_write_digits.
Qed.

Lemma fk_sendfile_loop fuel : forall out inp off size, tok X (sendfile_loop fuel out inp off size).
Proof.
  induction fuel as [|fuel IH]; intros out inp off size; cbn [sendfile_loop]; [apply tok_ret|].
  destruct size; [apply tok_ret|].
  apply tok_bind; [apply fk_sendfile|]. intros r.
  destruct r as [[|w]|e]; tk. apply IH.
Qed.

Lemma fk_sync_file dst src off : away d dst -> tok X (sync_file dst src off).
Proof.
  intros Ha. unfold sync_file, when_ok.
  apply tok_bind; [tk|intros b0]. destruct b0; [|apply tok_ret].
  apply tok_bind; [apply fk_create_parents; exact Ha|intros ?].
  apply tok_bind; [tk|intros b]. destruct (negb b); [tk; apply fk_clean_up; exact Ha|].
  apply tok_bind; [apply tok_open_read|intros rin].
  destruct rin as [ind|e]; [|destruct e; tk; apply fk_clean_up; exact Ha].
  apply tok_bind; [apply fk_open_excl; exact Ha|intros rout].
  destruct rout as [[out|dd]|e]; [|apply tok_ret|destruct e; tk; apply fk_clean_up; exact Ha].
  apply tok_bind; [apply tok_fstat|intros st].
  destruct st as [[[|] size]|e];
    [| tk; apply fk_clean_up; exact Ha | tk; apply fk_clean_up; exact Ha].
  apply tok_bind; [apply fk_sendfile_loop|intros r].
  destruct r as [off'|]; tk; apply fk_clean_up; exact Ha.
Qed.

Lemma fk_write_all fuel : forall i b, tok X (write_all fuel i b).
Proof.
  induction fuel as [|fuel IH]; intros i b; cbn [write_all]; [apply tok_ret|].
  destruct b; [apply tok_ret|].
  apply tok_bind; [apply fk_write|]. intros r. destruct r; tk. apply IH.
Qed.

Lemma fk_note ev pid path j : tok X (note ev pid path j).
Proof.
  unfold note. destruct j as [jn|]; [|apply tok_ret]. destruct ev; [|apply tok_ret].
  tk. apply fk_write_all.
Qed.

Lemma fk_record_event ev pid path h : tok X (record_event ev pid path h).
Proof. unfold record_event. tk. apply fk_note. Qed.

Lemma fk_tree_loop ents : forall src_len dst filt,
  (forall rel, away d (join dst rel)) ->
  (forall p k, In (p, k) ents -> away d p) ->
  tok X (tree_loop ents src_len dst filt).
Proof.
  induction ents as [|[p k] ents IH]; intros src_len dst filt Hd Hall; cbn [tree_loop]; [apply tok_ret|].
  assert (Hp : away d p) by (apply (Hall p k); left; reflexivity).
  assert (Hj : away d (join dst (skipn (S src_len) p))) by apply Hd.
  assert (IH' : tok X (tree_loop ents src_len dst filt))
    by (apply IH; [assumption | intros p' k' Hin; apply (Hall p' k'); right; assumption]).
  tk; exact IH'.
Qed.

Lemma fk_sync_shallow_tree rev dst src filt :
  dst <> root_path -> away d dst -> (forall rel, away d (dst ++ ch_slash :: rel)) ->
  (forall r, away d (src ++ ch_slash :: r)) -> src <> root_path -> src <> [] ->
  tok X (sync_shallow_tree rev dst src filt).
Proof.
  intros Hd1 Hd2 Hd3 Hs Hsr Hse. unfold sync_shallow_tree.
  assert (Hd : forall rel, away d (join dst rel)).
  { intros rel. rewrite (join_ne _ _ Hd1). apply Hd3. }
  apply tok_bind; [apply fk_create_parents; exact Hd2|intros ?].
  apply tok_bind; [tk|intros b].
  apply tok_bind; [tk|intros ?].
  apply tok_bind; [tk|intros b1].
  apply tok_bind; [tk|intros opened].
  apply tok_bind; [tk|intros b2].
  destruct (negb b2).
  - tk; apply fk_clean_up; exact Hd2.
  - eapply tok_bindv with
      (R1 := fun r => forall ents, r = inl ents -> forall p k, In (p, k) ents -> away d p).
    + unfold k_fts. apply tri_sys; [intros e ents E; discriminate|].
      intros f Hf. cbn [snd fst]. split; [exact Hf|].
      intros ents E p k Hin. inversion E; subst.
      destruct (fs_walk_inside _ _ _ _ _ Hsr Hse Hin) as [r ->]. apply Hs.
    + intros r Hr. apply tok_bind.
      * destruct r as [ents|e].
        -- apply fk_tree_loop; [exact Hd | apply (Hr ents eq_refl)].
        -- destruct e; tk.
      * intros ?. tk. apply fk_clean_up. exact Hd2.
Qed.

Lemma fk_project_store_loop fuel : forall rev sp unstable head cfg ev root,
  spI root sp -> (forall p, inside root p -> away d p) ->
  (forall r, away d (unstable ++ ch_slash :: r)) -> unstable <> root_path -> unstable <> [] ->
  tok X (project_store_loop fuel rev sp unstable head cfg ev).
Proof.
  induction fuel as [|fuel IH]; intros rev sp unstable head cfg ev root Hs Hr Hu Hu1 Hu2;
    cbn [project_store_loop]; [apply tok_ret|].
  apply tok_bind; [tk|intros b]. destruct (negb b); [apply tok_ret|].
  apply tok_bind; [tk|intros ?].
  destruct (current_path_inside root sp Hs) as [x Hx].
  apply tok_bind.
  { apply fk_sync_shallow_tree; try assumption.
    - eapply current_path_ne_root; eauto.
    - apply Hr. rewrite Hx. right. exists x. reflexivity.
    - intros rel. apply Hr. rewrite Hx. right. exists (x ++ ch_slash :: rel).
      rewrite <- app_assoc. reflexivity. }
  intros ?.
  apply tok_bind; [tk|intros c1]. destruct c1.
  - apply tok_bind; [tk|intros ?]. eapply IH; eauto using spI_increment.
  - tk.
Qed.

Lemma fk_file_store_loop fuel : forall sp head offp off ish cfg root,
  spI root sp -> (forall p, inside root p -> away d p) -> away d offp ->
  tri X (fun r => spI root (snd r)) (file_store_loop fuel sp head offp off ish cfg).
Proof.
  induction fuel as [|fuel IH]; intros sp head offp off ish cfg root Hs Hr Ho; cbn [file_store_loop];
    [apply tri_ret; exact Hs|].
  assert (Hcur : away d (current_path sp)).
  { destruct (current_path_inside root sp Hs) as [x Hx]. apply Hr. rewrite Hx. right. exists x. reflexivity. }
  eapply tri_bind; [apply tri_of_tok; tk|intros ? _].
  eapply tri_bind; [apply tri_of_tok; apply fk_sync_file; exact Hcur|intros no _].
  eapply tri_bind; [apply tri_of_tok; tk|intros c1 _].
  eapply tri_bind; [apply tri_of_tok; destruct c1; tk|intros c2 _].
  destruct c2.
  { eapply tri_bind; [apply tri_of_tok; tk|intros ? _]. apply tri_ret. exact Hs. }
  eapply tri_bind; [apply tri_of_tok; tk|intros c3 _]. destruct c3.
  { eapply tri_bind; [apply tri_of_tok; tk|intros ? _]. apply tri_ret. exact Hs. }
  eapply tri_bind; [apply tri_of_tok; tk|intros c4 _]. destruct c4.
  - eapply IH; eauto using spI_increment.
  - eapply tri_bind; [apply tri_of_tok; apply fk_write_counter; exact Ho|intros ? _].
    eapply tri_bind; [apply tri_of_tok; tk|intros ? _].
    eapply tri_bind; [apply tri_of_tok; tk|intros ? _].
    apply tri_ret. exact Hs.
Qed.

End Frame.

(* ---------- the instance: the queue relation ---------- *)

Lemma QRel_ext q f f' ents :
  (forall p, inside (q_dir q) p -> lookup f' p = lookup f p) -> QRel q f ents -> QRel q f' ents.
Proof.
  intros Hsame HR. pose proof (QR_nroot _ _ _ HR) as Hnr.
  assert (Hj : forall n, inside (q_dir q) (join (q_dir q) n)).
  { intros n. rewrite (join_ne _ _ Hnr). right. exists n. reflexivity. }
  destruct HR as [Hs Hh0 Hd _ He Hf Hb Hw].
  constructor; try assumption.
  - rewrite Hsame; [exact Hd | left; reflexivity].
  - intros i p m t Hi. rewrite Hsame; [eapply He; exact Hi | apply Hj].
  - intros k Hk. rewrite Hsame; [apply Hf; exact Hk | apply Hj].
Qed.

Lemma lookup_del_dent_some f a p : lookup (del_dent a f) p <> None -> lookup f p <> None.
Proof.
  unfold lookup. destruct (str_eqb p root_path); [auto|]. cbn [del_dent fs_dents].
  intros H. destruct (alookup p (aremove a (fs_dents f))) as [v|] eqn:E; [|congruence].
  apply alookup_in in E. apply In_aremove in E. apply (in_alookup p v). exact E.
Qed.

(* the queue directory holds nothing but entries with numeric names *)
Definition qclean (d : str) (f : fs) : Prop :=
  d <> [] /\
  forall p, dirname p = d -> p <> root_path -> lookup f p <> None -> exists k, p = join d (dec k).

Definition FRq (q : qmem) (ents : list qent) (f : fs) : Prop :=
  (keys_nodup f /\ qclean (q_dir q) f) /\ QRel q f ents.

Lemma FRq_add q ents f p n :
  away (q_dir q) p -> lookup f p = None -> FRq q ents f -> FRq q ents (add_dent p n f).
Proof.
  intros Ha Hl [[Hnd [Hne Hc]] HR]. split; [split; [apply keys_nodup_add; assumption|]|].
  - split; [exact Hne|]. intros x Hd Hr Hx. apply (Hc x Hd Hr).
    rewrite lookup_add_dent_other in Hx; [exact Hx|].
    apply (away_neq (q_dir q)); [exact Ha|].
    destruct (dirname_inside x (q_dir q) Hd (QR_nroot _ _ _ HR) Hne) as [r ->]. right. exists r. reflexivity.
  - eapply QRel_ext; [|exact HR]. intros x Hx. apply lookup_add_dent_other. eapply away_neq; eauto.
Qed.

Lemma FRq_del q ents f p : away (q_dir q) p -> FRq q ents f -> FRq q ents (del_dent p f).
Proof.
  intros Ha [[Hnd [Hne Hc]] HR]. split; [split; [apply keys_nodup_del; assumption|]|].
  - split; [exact Hne|]. intros x Hd Hr Hx. apply (Hc x Hd Hr). eapply lookup_del_dent_some. exact Hx.
  - eapply QRel_ext; [|exact HR]. intros x Hx. apply lookup_del_dent_other. eapply away_neq; eauto.
Qed.

Lemma FRq_files q ents f fl nx : FRq q ents f -> FRq q ents (mkFs (fs_dents f) fl nx).
Proof.
  intros [[Hnd Hc] HR]. split; [split; [exact Hnd | exact Hc]|].
  eapply QRel_ext; [|exact HR]. intros x _. reflexivity.
Qed.
