(* Model of src/bitmap.c (the editor pid table) and the pure attribution step of
   handle_open_exec.  No proofs here. *)
From K Require Export Str Sieve.

(* ---------- bitmap.c ---------- *)
Definition bitmap := list bool.          (* array; size = length *)

Definition bm_create (size_guess : nat) : bitmap := repeat false size_guess.

Fixpoint bm_write (i : nat) (v : bool) (b : bitmap) : bitmap :=
  match b, i with
  | [], _ => []
  | _ :: r, O => v :: r
  | x :: r, S i' => x :: bm_write i' v r
  end.

(* set_bit: grow to (bit + 1) * 2 when bit >= size (copying the old array) *)
Definition bm_set (bit : nat) (b : bitmap) : bitmap :=
  let b' := if Nat.ltb bit (length b) then b
            else b ++ repeat false ((bit + 1) * 2 - length b) in
  bm_write bit true b'.

Definition bm_unset (bit : nat) (b : bitmap) : bitmap :=
  if Nat.ltb bit (length b) then bm_write bit false b else b.

Definition bm_get (bit : nat) (b : bitmap) : bool := nth bit b false.

Inductive bm_op := BSet (b : nat) | BUnset (b : nat).
Definition bm_step (b : bitmap) (o : bm_op) : bitmap :=
  match o with BSet i => bm_set i b | BUnset i => bm_unset i b end.
Definition bm_run (g : nat) (ops : list bm_op) : bitmap := fold_left bm_step ops (bm_create g).

(* ---------- attribution (handle_open_exec without the effects) ---------- *)

(* an execution event: process, path of the executed file, and what
   get_elf_interpreter yields for it (None: not an ELF file with an interpreter) *)
Record exec_ev := mkEx { ex_pid : nat; ex_path : str; ex_interp : option str }.

Record attr := mkAttr { a_pids : bitmap; a_interps : list str }.

Definition exe_name (path : str) : str :=
  match rindex is_slash path with Some i => skipn (S i) path | None => path end.

Definition attr_step (editors : list str) (a : attr) (e : exec_ev) : attr :=
  if mem (exe_name (ex_path e)) editors then
    mkAttr (bm_set (ex_pid e) (a_pids a))
           (match ex_interp e with Some i => i :: a_interps a | None => a_interps a end)
  else if bm_get (ex_pid e) (a_pids a) then
    if mem (ex_path e) (a_interps a) then a
    else mkAttr (bm_unset (ex_pid e) (a_pids a)) (a_interps a)
  else a.

Definition attr_run (editors : list str) (g : nat) (evs : list exec_ev) : attr :=
  fold_left (attr_step editors) evs (mkAttr (bm_create g) []).
