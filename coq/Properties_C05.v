(* C05 A version is a faithful copy (first half; the abandoned-copy half is in AbandonProofs when available). *)
From K Require Import Str Dec Trace Fs World Progs SyncProofs.

(* For every content b, every starting offset, and EVERY way the kernel splits the
   transfer into positive pieces (benign oracle: FShort/FChunk with any n >= 1 at
   every call), sync_file creates the destination as a new inode holding exactly
   the source bytes from the offset on, returns the new position, touches no
   other path and no other inode, and leaves the error trace untouched. *)
Theorem C05_copy_exact : forall (o : oracle) (w : world) (dst src : str) (off i : nat) (b : str),
  benign o ->
  tr_ok (w_tr w) = true ->
  lookup (w_fs w) src = Some (NFile i) ->
  get_file (w_fs w) i = mkFile b true ->
  i < fs_next (w_fs w) ->
  lookup (w_fs w) dst = None ->
  lookup (w_fs w) (dirname dst) = Some NDir ->
  (forall d, In d (parents_of dst) -> lookup (w_fs w) d = Some NDir) ->
  exists w' j,
    sync_file dst src off o w = (Some (Nat.max off (length b)), w') /\
    tr_ok (w_tr w') = true /\
    w_tr w' = w_tr w /\
    j = fs_next (w_fs w) /\
    lookup (w_fs w') dst = Some (NFile j) /\
    f_bytes (get_file (w_fs w') j) = skipn off b /\
    (forall p, p <> dst -> lookup (w_fs w') p = lookup (w_fs w) p) /\
    get_file (w_fs w') i = get_file (w_fs w) i /\
    (forall k, k <> j -> get_file (w_fs w') k = get_file (w_fs w) k).
Proof. exact sync_file_correct. Qed.
Print Assumptions C05_copy_exact.

(* the same when ancestors of the destination are missing: they are created *)
Theorem C05_copy_exact_mkparents : forall (o : oracle) (w : world) (dst src : str) (off i : nat) (b : str),
  benign o ->
  tr_ok (w_tr w) = true ->
  lookup (w_fs w) src = Some (NFile i) ->
  get_file (w_fs w) i = mkFile b true ->
  i < fs_next (w_fs w) ->
  lookup (w_fs w) dst = None ->
  (exists rest, dst = ch_slash :: rest) ->
  (forall d, In d (parents_of dst) -> lookup (w_fs w) d = Some NDir \/ lookup (w_fs w) d = None) ->
  exists w' j,
    sync_file dst src off o w = (Some (Nat.max off (length b)), w') /\
    tr_ok (w_tr w') = true /\
    lookup (w_fs w') dst = Some (NFile j) /\
    f_bytes (get_file (w_fs w') j) = skipn off b /\
    (forall d, In d (parents_of dst) -> lookup (w_fs w') d = Some NDir) /\
    (forall p, p <> dst -> ~ In p (parents_of dst) -> lookup (w_fs w') p = lookup (w_fs w) p) /\
    get_file (w_fs w') i = get_file (w_fs w) i.
Proof.
  intros o w dst src off i b Hb Hok Hs Hf Hi Hd Habs Hp.
  destruct (sync_file_correct_mkparents o w dst src off i b Hb Hok Habs Hs Hf Hi Hd Hp) as [w' [j H]].
  exists w', j. intuition.
Qed.
Print Assumptions C05_copy_exact_mkparents.

(* non-vacuity: the example world of SyncProofs (5-byte source, every transfer cut to 2 bytes) *)
Example C05_example : forall off, exists w' j,
  sync_file SyncExample.p_deep SyncExample.p_src off SyncExample.o2 SyncExample.w0 =
    (Some (Nat.max off 5), w') /\
  f_bytes (get_file (w_fs w') j) = skipn off SyncExample.hello.
Proof.
  intros off. destruct (SyncExample.deep_by_theorem off) as [w' [j H]]. exists w', j. intuition.
Qed.

(* ---------- second half: an abandoned copy leaves nothing behind ---------- *)
From K Require Import AbandonProofs.

(* [abandoned dst f f']: nothing is added (every path absent before is absent
   after), every file and link is kept, a directory disappears only if it is an
   ancestor of dst all of whose entries lay on the dst chain (the freshly created
   chain, and pre-existing ancestors that are empty without it); when every
   existing ancestor has another entry the file systems are lookup-equal. *)
Theorem C05_abandon_missing : forall (o : oracle) (w : world) (dst src : str) (off : nat),
  benign o -> tr_ok (w_tr w) = true ->
  (exists rest, dst = ch_slash :: rest) ->
  (forall d, In d (parents_of dst) -> lookup (w_fs w) d = Some NDir \/ lookup (w_fs w) d = None) ->
  keys_nodup (w_fs w) -> parents_exist (w_fs w) ->
  lookup (w_fs w) src = None -> ~ In src (parents_of dst) ->
  exists w', sync_file dst src off o w = (Some 0, w') /\
    w_tr w' = tr_push (FStatic M_src_missing) (w_tr w) /\
    (forall k, get_file (w_fs w') k = get_file (w_fs w) k) /\
    abandoned dst (w_fs w) (w_fs w').
Proof.
  intros o w dst src off Hb Hok Habs Hp Hk Hpe Hs Hn.
  destruct (sync_file_src_missing o w dst src off Hb Hok Habs Hp Hk Hpe Hs Hn) as [w' H].
  exists w'. intuition.
Qed.
Print Assumptions C05_abandon_missing.

Theorem C05_abandon_unreadable : forall (o : oracle) (w : world) (dst src : str) (off i : nat),
  benign o -> tr_ok (w_tr w) = true ->
  (exists rest, dst = ch_slash :: rest) ->
  (forall d, In d (parents_of dst) -> lookup (w_fs w) d = Some NDir \/ lookup (w_fs w) d = None) ->
  keys_nodup (w_fs w) -> parents_exist (w_fs w) ->
  lookup (w_fs w) src = Some (NFile i) -> f_readable (get_file (w_fs w) i) = false ->
  exists w', sync_file dst src off o w = (Some 0, w') /\
    w_tr w' = tr_push (FStatic M_src_denied) (w_tr w) /\
    (forall k, get_file (w_fs w') k = get_file (w_fs w) k) /\
    abandoned dst (w_fs w) (w_fs w').
Proof.
  intros o w dst src off i Hb Hok Habs Hp Hk Hpe Hs Hr.
  destruct (sync_file_src_denied o w dst src off i Hb Hok Habs Hp Hk Hpe Hs Hr) as [w' H].
  exists w'. intuition.
Qed.
Print Assumptions C05_abandon_unreadable.

Theorem C05_abandon_not_regular : forall (o : oracle) (w : world) (dst src : str) (off : nat),
  benign o -> tr_ok (w_tr w) = true ->
  (exists rest, dst = ch_slash :: rest) ->
  (forall d, In d (parents_of dst) -> lookup (w_fs w) d = Some NDir \/ lookup (w_fs w) d = None) ->
  keys_nodup (w_fs w) -> parents_exist (w_fs w) ->
  lookup (w_fs w) dst = None -> lookup (w_fs w) src = Some NDir ->
  exists w', sync_file dst src off o w = (Some 0, w') /\
    w_tr w' = tr_push (FStatic M_not_regular) (w_tr w) /\
    (forall k, k <> fs_next (w_fs w) -> get_file (w_fs w') k = get_file (w_fs w) k) /\
    abandoned dst (w_fs w) (w_fs w').
Proof.
  intros o w dst src off Hb Hok Habs Hp Hk Hpe Hd Hs.
  destruct (sync_file_src_directory o w dst src off Hb Hok Habs Hd Hp Hk Hpe Hs) as [w' H].
  exists w'. intuition.
Qed.
Print Assumptions C05_abandon_not_regular.
