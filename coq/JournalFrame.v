(* C19 / C16, preparation for JournalReload.v: the traversal of the handler
   programs of JournalHistoryProofs.v (Section Trav) once more, but for an
   ABSTRACT predicate on the file system.  JournalHistoryProofs ties the
   tracked inode to the journal handle of the handler (the predicate is
   JI c (j_ino jn) G and the handler holds Some jn); across a reload one needs
   to follow files that are NOT the journal in force (the journal left behind
   by a reload keeps its content for good, other journal files are untouched
   until they come in force) and facts that are not about one inode at all
   (every directory entry names an allocated inode).

   Part 1  Section GNote: programs that write only through [note]
           (handle_open_exec, handle_close_write with ANY new configuration);
   Part 2  Section GTrav: the timeout pass, for a predicate closed under the
           primitive operations of a pass relative to a set [tr] of inodes
           that must not be written;
   Part 3  instances: JI c i G for an inode that is not the journal in force
           (step_keeps_other_file, close_write_keeps_sep), and wf_lt: every directory
           entry names an allocated inode (step_keeps_wf). *)
From K Require Import Str Dec Trace Fs World Progs Elf Linq Sieve Handler Hoare Confine Confine2 SyncProofs
     StoreFs StoreLogic DecProofs JournalProofs JournalHistoryProofs.
From Coq Require Import Lia.

(* ====================================================================== *)
(* Part 1: programs that write only through [note]                        *)
(* ====================================================================== *)

Section GNote.
Variables (K : oclass) (t : Z) (oj : option journal) (P : fs -> Prop).
Hypothesis P_add : cl_add P.
Hypothesis Hnote : forall ev pid path, jok K t P (note ev pid path oj).

Notation jok := (jok K t P).
Notation jt := (jt K t P).

Lemma gjok_record_event ev pid path h : h_journal h = oj -> jok (record_event ev pid path h).
Proof. intros E. unfold record_event. rewrite E. jk_with jleaf1. apply Hnote. Qed.

(* what stays fixed about the handler: the journal handle *)
Lemma gjt_exec_prelude pid path h f :
  jt (fun r => h_journal (fst r) = h_journal h) (exec_prelude pid path h f).
Proof.
  unfold exec_prelude.
  destruct (mem (basename path) (c_editors (h_cfg h))).
  - eapply jt_bind; [apply jt_of_jok|intros ? _].
    + destruct (lookup f path) as [[| |]|]; try apply jok_ret. apply jok_get_elf_interpreter.
    + eapply jt_bind; [apply jt_of_jok; jk_with jleaf1|intros ? _]. apply jt_ret. reflexivity.
  - destruct (pid_mem pid (h_pids h)).
    + eapply jt_bind; [apply jt_of_jok; jk_with jleaf1|intros b _].
      destruct (b && negb (mem path (h_interps h))); apply jt_ret; reflexivity.
    + apply jt_ret. reflexivity.
Qed.

Lemma gjok_handle_open_exec pid path h : h_journal h = oj -> jok (handle_open_exec pid path h).
Proof.
  intros Ej. rewrite handle_open_exec_prelude. unfold when_ok.
  apply jok_bind; [jk_with jleaf1|intros b]. destruct b; [|apply jok_ret].
  apply jok_bind; [jk_with jleaf1|intros f].
  eapply jok_bindv; [apply gjt_exec_prelude|intros r Hr].
  apply jok_bind; [apply gjok_record_event; congruence|intros ?]. apply jok_ret.
Qed.

(* handle_close_write with ANY new configuration: push, journal line, reload *)
Hypothesis P_open : forall p f, P f -> P (snd (fs_open_create p f)).

Lemma gjok_handle_close_write pid path nc h : h_journal h = oj -> jok (handle_close_write pid path nc h).
Proof.
  intros Ej.
  apply (jt_ext K t _ _ _ _ (handle_close_write_parts pid path nc h)).
  unfold close_write_parts, when_ok.
  apply jok_bind; [jk_with jleaf1|intros b]. destruct b; [|apply jok_ret].
  eapply jok_bindv; [apply jt_push_to_linq; exact P_add|intros r Hr].
  assert (Ej1 : h_journal (snd r) = oj) by (destruct Hr as [[_ [_ [E _]]] _]; congruence).
  apply jok_bind; [apply gjok_record_event; exact Ej1|intros ?].
  unfold write_tail. apply jok_bind; [jk_with jleaf1|intros b].
  destruct b; [|apply jok_ret]. destruct (h_cfg_path (snd r)); [|apply jok_ret].
  destruct (str_eqb path s); [|apply jok_ret].
  eapply jok_of_jt. apply jt_reload; [exact P_add | exact P_open].
Qed.

End GNote.

(* ====================================================================== *)
(* Part 2: the timeout pass                                               *)
(* ====================================================================== *)

Section GTrav.
Variables (K : oclass) (t : Z) (c : config) (oj : option journal) (P : fs -> Prop) (tr : nat -> Prop).
Hypothesis HC : joff_ok c.
Hypothesis P_add : cl_add P.
Hypothesis P_rmdir : forall p f, P f -> P (snd (fs_rmdir p f)).
Hypothesis P_unlink : forall p f, P f -> P (snd (fs_unlink p f)).
Hypothesis P_excl : forall p f, P f ->
  P (snd (fs_create_excl p f)) /\ (forall i, fst (fs_create_excl p f) = inl (FdFile i) -> ~ tr i).
Hypothesis P_open_off : forall p f, under (c_offset_root c) p -> P f ->
  P (snd (fs_open_create p f)) /\ (forall i, fst (fs_open_create p f) = inl (FdFile i) -> ~ tr i).
Hypothesis P_append : forall i b f, ~ tr i -> P f -> P (fs_append i b f).
Hypothesis P_truncate : forall i f, ~ tr i -> P f -> P (fs_truncate i f).
Hypothesis P_link : forall a b f, ~ under (c_offset_root c) b -> P f -> P (snd (fs_link a b f)).
Hypothesis Hnote : forall ev pid path, jok K t P (note ev pid path oj).

Notation jok := (jok K t P).
Notation jt := (jt K t P).

Lemma gnot_off_pstore x : under (c_project_store_root c) x -> ~ under (c_offset_root c) x.
Proof. intros H1 H2. destruct HC as [A _]. exact (nn_under _ _ _ A H1 H2). Qed.

Lemma gnot_off_unst x : under (c_unstable_root c) x -> ~ under (c_offset_root c) x.
Proof. intros H1 H2. destruct HC as [_ A]. exact (nn_under _ _ _ A H1 H2). Qed.

(* ---------- primitive calls ---------- *)

Lemma gjok_rmdir p : jok (k_rmdir p).
Proof. apply jok_sys_unit. intros f. apply P_rmdir. Qed.

Lemma gjok_unlink p : jok (k_unlink p).
Proof. apply jok_sys_unit. intros f. apply P_unlink. Qed.

Lemma gjok_unlinkat d n : jok (k_unlinkat d n).
Proof. apply jok_sys_unit. intros f. apply P_unlink. Qed.

Lemma gjt_open_excl p : jt (fun r => forall i, r = inl (FdFile i) -> ~ tr i) (k_open_excl p).
Proof.
  apply jt_open_gen; [intros e i E; discriminate|].
  intros f Hf. apply P_excl. exact Hf.
Qed.

Lemma gjt_open_w p :
  under (c_offset_root c) p -> jt (fun r => forall i, r = inl (FdFile i) -> ~ tr i) (k_open_w p).
Proof.
  intros Hu. apply jt_open_gen; [intros e i E; discriminate|].
  intros f Hf. apply P_open_off; assumption.
Qed.

Lemma gjok_write i b : ~ tr i -> jok (k_write i b).
Proof.
  intros H. unfold k_write. apply jok_bind; [apply jok_transfer_limit|intros lim].
  apply jt_sys; [auto|]. intros f Hf. simpl. split; [apply P_append; assumption | exact I].
Qed.

Lemma gjok_sendfile out inp off n : ~ tr out -> jok (k_sendfile out inp off n).
Proof.
  intros H. unfold k_sendfile. apply jok_bind; [apply jok_transfer_limit|intros lim].
  apply jt_sys; [auto|]. intros f Hf. simpl. split; [apply P_append; assumption | exact I].
Qed.

Lemma gjok_ftruncate i : ~ tr i -> jok (k_ftruncate i).
Proof. intros H. apply jok_sys_unit. intros f Hf. simpl. apply P_truncate; assumption. Qed.

Lemma gjok_link a b : ~ under (c_offset_root c) b -> jok (k_link a b).
Proof. intros Hb. apply jok_sys_unit. intros f Hf. apply P_link; assumption. Qed.

Lemma gjok_linkat a d r : ~ under (c_offset_root c) (join d r) -> jok (k_linkat a d r).
Proof. intros Hb. apply jok_sys_unit. intros f Hf. apply P_link; assumption. Qed.

Ltac gleaf2 :=
  first [ jleaf1 | apply gjok_rmdir | apply gjok_unlink | apply gjok_unlinkat
        | apply jok_mkdir; exact P_add | apply jok_mkdirat; exact P_add
        | apply jok_symlinkat; exact P_add
        | apply jok_create_parents; exact P_add
        | apply gjok_write; assumption | apply gjok_sendfile; assumption
        | apply gjok_ftruncate; assumption
        | apply gjok_link; assumption | apply gjok_linkat; assumption ].
Ltac gk := jk_with gleaf2.
Ltac gvok := solve [apply jt_of_jok; gk].

(* ---------- parents.c, clean_up ---------- *)

Lemma gjok_rmdir_up ds : jok (rmdir_up ds).
Proof.
  induction ds as [|d ds IH]; simpl; [apply jok_ret|].
  apply jok_bind; [apply gjok_rmdir|]. intros r.
  destruct r as [e|]; [destruct e|]; try exact IH; gk.
Qed.

Lemma gjok_remove_empty_parents p : jok (remove_empty_parents p).
Proof. unfold remove_empty_parents. gk. apply gjok_rmdir_up. Qed.

Lemma gjok_clean_up p : jok (clean_up p).
Proof. unfold clean_up. gk. apply gjok_remove_empty_parents. Qed.

(* ---------- counter.c ---------- *)

Lemma gjok_write_digits i ds : ~ tr i -> jok (write_digits i ds).
Proof.
  intros Hi. induction ds as [|ch ds IH]; simpl; [apply jok_ret|].
  gk. exact IH.
Qed.

Lemma gjok_write_counter p n : under (c_offset_root c) p -> jok (write_counter p n).
Proof.
  intros Hu. unfold write_counter, when_ok.
  apply jok_bind; [gk|intros b0]. destruct b0; [|apply jok_ret].
  destruct (n =? 0)%N.
  - gk. apply gjok_remove_empty_parents.
  - apply jok_bind; [apply jok_create_parents; exact P_add|intros ?].
    apply jok_bind; [gk|intros b]. destruct b; [|apply jok_ret].
    eapply jok_bindv; [apply gjt_open_w; exact Hu|intros r Hr].
    destruct r as [[i|d]|e]; [|gk|gk].
    pose proof (Hr i eq_refl) as Hi. gk. apply gjok_write_digits. assumption.
Qed.

(* ---------- sync.c ---------- *)

Lemma gjok_sendfile_loop fuel : forall out inp off size,
  ~ tr out -> jok (sendfile_loop fuel out inp off size).
Proof.
  induction fuel as [|fuel IH]; intros out inp off size Ho; simpl; [apply jok_ret|].
  destruct size; [apply jok_ret|].
  apply jok_bind; [apply gjok_sendfile; assumption|]. intros r.
  destruct r as [[|w]|e]; gk. apply IH. assumption.
Qed.

Lemma gjok_sync_file dst src off : jok (sync_file dst src off).
Proof.
  unfold sync_file, when_ok.
  apply jok_bind; [gk|intros b0]. destruct b0; [|apply jok_ret].
  apply jok_bind; [apply jok_create_parents; exact P_add|intros ?].
  apply jok_bind; [gk|intros b]. destruct (negb b); [gk; apply gjok_clean_up|].
  apply jok_bind; [apply jok_open_read|intros rin].
  destruct rin as [ind|e]; [|destruct e; gk; apply gjok_clean_up].
  eapply jok_bindv; [apply gjt_open_excl|intros rout Hr].
  destruct rout as [[out|d]|e]; [|apply jok_ret|destruct e; gk; apply gjok_clean_up].
  pose proof (Hr out eq_refl) as Hino.
  apply jok_bind; [apply jok_fstat|intros st].
  destruct st as [[[|] size]|e]; [| gk; apply gjok_clean_up | gk; apply gjok_clean_up].
  apply jok_bind; [apply gjok_sendfile_loop; assumption|intros r].
  destruct r as [off'|]; gk; apply gjok_clean_up.
Qed.

(* ---------- journal.c ---------- *)

Lemma gtjok_record_event ev pid path h : h_journal h = oj -> jok (record_event ev pid path h).
Proof. apply gjok_record_event. exact Hnote. Qed.

(* ---------- the queue ---------- *)

Lemma gjt_q_pop_head q : jt (fun q' => q_dir q' = q_dir q) (q_pop_head q).
Proof. unfold q_pop_head. jv; try reflexivity; try gvok. Qed.

Lemma gjt_q_get_head fuel : forall q, jt (fun r => q_dir (snd r) = q_dir q) (q_get_head fuel q).
Proof.
  induction fuel as [|fuel IH]; intros q; simpl.
  - jv; try reflexivity; try gvok.
  - jv; try reflexivity; try gvok.
    + apply gjt_q_pop_head.
    + match goal with H : (fun q' : qmem => _) _ |- _ => simpl in H; rename H into Hq end.
      eapply jt_weaken; [apply IH|].
      intros r Hr. simpl in Hr. congruence.
Qed.

(* ---------- sync_shallow_tree ---------- *)

Lemma gjok_tree_loop ents : forall src_len dst filt,
  (forall rel, ~ under (c_offset_root c) (join dst rel)) ->
  jok (tree_loop ents src_len dst filt).
Proof.
  induction ents as [|[p k] ents IH]; intros src_len dst filt Hd; simpl; [apply jok_ret|].
  assert (Hj : ~ under (c_offset_root c) (join dst (skipn (S src_len) p))) by apply Hd.
  assert (IH' : jok (tree_loop ents src_len dst filt)) by (apply IH; assumption).
  gk; exact IH'.
Qed.

Lemma gjok_sync_shallow_tree rev dst src filt :
  dst <> root_path -> under (c_project_store_root c) dst ->
  jok (sync_shallow_tree rev dst src filt).
Proof.
  intros Hd1 Hd2. unfold sync_shallow_tree.
  assert (Hd : forall rel, ~ under (c_offset_root c) (join dst rel)).
  { intros rel. rewrite (join_ne _ _ Hd1). apply gnot_off_pstore.
    eapply under_trans; [exact Hd2 | exists rel; reflexivity]. }
  apply jok_bind; [apply jok_create_parents; exact P_add|intros ?].
  apply jok_bind; [gk|intros b].
  apply jok_bind; [gk|intros ?].
  apply jok_bind; [gk|intros b1].
  apply jok_bind; [gk|intros opened].
  apply jok_bind; [gk|intros b2].
  destruct (negb b2).
  - gk; apply gjok_clean_up.
  - apply jok_bind; [apply jok_fts|intros r].
    apply jok_bind.
    + destruct r as [ents|e]; [apply gjok_tree_loop; exact Hd | destruct e; gk].
    + intros ?. gk. apply gjok_clean_up.
Qed.

(* ---------- handle_timeout ---------- *)

Lemma gjok_project_store_loop fuel : forall rev sp unstable head ev,
  spI (c_project_store_root c) sp ->
  jok (project_store_loop fuel rev sp unstable head c ev).
Proof.
  induction fuel as [|fuel IH]; intros rev sp unstable head ev Hs; simpl; [apply jok_ret|].
  apply jok_bind; [gk|intros b]. destruct (negb b); [apply jok_ret|].
  apply jok_bind; [gk|intros ?].
  apply jok_bind.
  { apply gjok_sync_shallow_tree.
    - eapply current_path_ne_root; eauto.
    - apply JournalHistoryProofs.current_path_under. assumption. }
  intros ?.
  apply jok_bind; [gk|intros c1]. destruct c1.
  - apply jok_bind; [gk|intros ?]. apply IH; auto using spI_increment.
  - apply jok_bind; [gk|intros c2].
    apply jok_bind.
    + destruct c2; [apply jok_ret|].
      apply jok_bind; [gk|intros c3].
      destruct c3; apply jok_ret.
    + intros ev'. apply jok_bind; [gk|intros ?]. apply jok_ret.
Qed.

Lemma gjok_file_store_loop fuel : forall sp head offp off ish root,
  spI root sp -> under (c_offset_root c) offp ->
  jok (file_store_loop fuel sp head offp off ish c).
Proof.
  induction fuel as [|fuel IH]; intros sp head offp off ish root Hs Ho; simpl; [apply jok_ret|].
  apply jok_bind; [gk|intros ?].
  apply jok_bind; [apply gjok_sync_file|intros no].
  apply jok_bind; [gk|intros c1].
  apply jok_bind; [destruct c1; gk|intros c2].
  destruct c2.
  { apply jok_bind; [gk|intros ?]. apply jok_ret. }
  apply jok_bind; [gk|intros c3]. destruct c3.
  { apply jok_bind; [gk|intros ?]. apply jok_ret. }
  apply jok_bind; [gk|intros c4]. destruct c4.
  - apply (IH _ _ _ _ _ root); auto using spI_increment.
  - apply jok_bind; [apply gjok_write_counter; assumption|intros ?].
    apply jok_bind; [gk|intros ?].
    apply jok_bind; [gk|intros ?].
    apply jok_ret.
Qed.

(* what stays fixed about the handler over a pass *)
Definition GJ (h : handler) : Prop := h_cfg h = c /\ h_journal h = oj.

Lemma GJ_set_q q h : GJ h -> GJ (set_q q h).
Proof. intros H. exact H. Qed.

Lemma gjt_handle_timeout_loop fuel : forall rev h,
  GJ h -> jt (fun r => GJ (snd r)) (handle_timeout_loop fuel rev h).
Proof.
  induction fuel as [|fuel IH]; intros rev h Hh; cbn [handle_timeout_loop]; [apply jt_ret; assumption|].
  eapply jt_bind; [gvok|intros b _]. destruct (negb b); [apply jt_ret; assumption|].
  eapply jt_bind; [gvok|intros ? _].
  eapply jt_bind; [apply gjt_q_get_head|intros r Hr].
  eapply jt_bind; [gvok|intros ? _].
  destruct r as [hd q1]. simpl in Hr.
  assert (Hh1 : GJ (set_q q1 h)) by (apply GJ_set_q; assumption).
  set (h1 := set_q q1 h) in *.
  eapply jt_bind; [gvok|intros b1 _].
  destruct b1; [|apply jt_ret; assumption].
  destruct hd as [[z|path meta]|]; [apply jt_ret; assumption| |apply jt_ret; assumption].
  pose proof Hh1 as [Ecfg Ej].
  rewrite Ecfg.
  eapply jt_bind; [gvok|intros v _].
  eapply jt_bind; [gvok|intros bv _].
  eapply jt_bind; [apply jt_of_jok; destruct v; [destruct bv; [destruct (existsb is_slash s)|]|]; gk|intros ? _].
  eapply jt_bind; [gvok|intros b2 _].
  destruct v as [version|]; [|apply jt_ret; assumption].
  destruct b2; [|apply jt_ret; assumption].
  match goal with |- JournalHistoryProofs.jt _ _ _ _ (if ?x then _ else _) => destruct x end.
  { eapply jt_bind; [gvok|intros ? _]. eapply jt_bind; [gvok|intros ? _]. apply jt_ret. assumption. }
  destruct (N.odd meta).
  - (* project head *)
    eapply jt_bind; [gvok|intros f _].
    eapply jt_bind.
    + apply jt_of_jok. apply gjok_project_store_loop. apply spI_create.
    + intros ev _.
      eapply jt_bind; [apply jt_of_jok; apply gtjok_record_event; exact Ej|intros ? _].
      eapply jt_bind; [apply gjt_q_pop_head|intros q2 Hq2].
      apply IH. apply GJ_set_q; assumption.
  - (* file head *)
    eapply jt_bind; [apply jt_of_jok; destruct (N.testbit meta 1); [apply jok_read_counter | apply jok_ret]|intros off _].
    eapply jt_bind; [gvok|intros b3 _].
    destruct (negb b3); [apply jt_ret; assumption|].
    eapply jt_bind; [gvok|intros f _].
    eapply jt_bind.
    + apply jt_of_jok. eapply (gjok_file_store_loop _ _ path _ _ _ (c_store_root c)).
      * apply spI_create.
      * eexists. reflexivity.
    + intros r2 _. destruct r2 as [[ev is_stored] sp'].
      eapply jt_bind; [apply gjt_q_pop_head|intros q2 Hq2].
      assert (Hh2 : GJ (set_q q2 h1)) by (apply GJ_set_q; assumption).
      eapply jt_bind; [gvok|intros b4 _].
      destruct (negb b4).
      { eapply jt_bind; [gvok|intros ? _]. eapply jt_bind; [gvok|intros ? _]. apply jt_ret. assumption. }
      eapply jt_bind.
      * apply jt_of_jok.
        match goal with |- JournalHistoryProofs.jok _ _ _ (if ?x then _ else _) => destruct x end; [|apply jok_ret].
        match goal with |- context [k_unlink ?pp] => set (project_path := pp) end.
        assert (Hpu : under (c_unstable_root c) project_path) by (eexists; reflexivity).
        assert (Hpn : ~ under (c_offset_root c) project_path) by (apply gnot_off_unst; exact Hpu).
        gk.
      * intros ? _.
        eapply jt_bind; [apply jt_of_jok; apply gtjok_record_event;
                         destruct Hh2 as [_ E]; exact E|intros ? _].
        apply IH. assumption.
Qed.

Lemma gjok_handle_timeout rev h : GJ h -> jok (handle_timeout rev h).
Proof.
  intros Hh. unfold handle_timeout.
  eapply jok_bindv; [apply gjt_handle_timeout_loop; assumption|intros r Hr].
  apply jok_bind; [gk|intros b]. apply jok_ret.
Qed.

End GTrav.

(* ====================================================================== *)
(* Part 3: instances                                                      *)
(* ====================================================================== *)

(* a returned or crashed run of a program that keeps a predicate *)
Lemma jok_run {A} K t (P : fs -> Prop) (m : M A) o w :
  jok K t P m -> oc_in K o -> P (w_fs w) -> w_clock w = t -> P (w_fs (snd (m o w))).
Proof.
  intros H Ho Hp Hc. specialize (H o w Ho (conj Hp Hc)).
  destruct (m o w) as [[a|] w']; cbn [snd].
  - destruct H as [[H _] _]. exact H.
  - destruct H as [_ [H _]]. exact H.
Qed.

(* ---------- [note] for a predicate kept by appending to the inodes in A ---------- *)

Section NoteP.
Variables (K : oclass) (t : Z) (P : fs -> Prop) (A : nat -> Prop).
Hypothesis P_app : forall k b f, A k -> P f -> P (fs_append k b f).

Lemma gjok_write_A k b : A k -> jok K t P (k_write k b).
Proof.
  intros Hk. unfold k_write. apply jok_bind; [apply jok_transfer_limit|intros lim].
  apply jt_sys; [auto|]. intros f Hf. simpl. split; [apply P_app; assumption | exact I].
Qed.

Lemma gjok_write_all_A fuel : forall k b, A k -> jok K t P (write_all fuel k b).
Proof.
  induction fuel as [|fuel IH]; intros k b Hk; simpl; [apply jok_ret|].
  destruct b; [apply jok_ret|].
  apply jok_bind; [apply gjok_write_A; exact Hk|]. intros r. destruct r; [apply IH; exact Hk|].
  jk_with jleaf1.
Qed.

Lemma gjok_note ev pid path oj :
  (forall jn, oj = Some jn -> A (j_ino jn)) -> jok K t P (note ev pid path oj).
Proof.
  intros HA. unfold note. destruct oj as [jn|]; [|apply jok_ret].
  destruct ev; [|apply jok_ret].
  unfold when_ok. apply jok_bind; [jk_with jleaf1|intros b]. destruct b; [|apply jok_ret].
  apply jok_bind; [apply jok_get_timestamp|intros ts].
  destruct ts; [apply gjok_write_all_A; apply HA; reflexivity | apply jok_ret].
Qed.

End NoteP.

(* ---------- JI c i G ---------- *)

Lemma JI_append_any c i (G : str -> Prop) k b f :
  (forall x y, G x -> G (x ++ y)) -> JI c i G f -> JI c i G (fs_append k b f).
Proof.
  intros HG H. destruct (Nat.eq_dec k i) as [->|Hne].
  - apply JI_append_journal; [intros x; apply HG | exact H].
  - apply JI_append_other; assumption.
Qed.

(* the handler's journal is not the inode i *)
Definition journal_off (oj : option journal) (i : nat) : Prop :=
  forall jn, oj = Some jn -> j_ino jn <> i.

Lemma jok_note_other K t c i (G : str -> Prop) ev pid path oj :
  journal_off oj i -> jok K t (JI c i G) (note ev pid path oj).
Proof.
  intros Hoff. apply (gjok_note K t (JI c i G) (fun k => k <> i)); [|exact Hoff].
  intros k b f Hk Hf. apply JI_append_other; assumption.
Qed.

Lemma jok_note_anyG K t c i (G : str -> Prop) ev pid path oj :
  (forall x y, G x -> G (x ++ y)) -> jok K t (JI c i G) (note ev pid path oj).
Proof.
  intros HG. apply (gjok_note K t (JI c i G) (fun _ => True)); [|intros; exact I].
  intros k b f _ Hf. apply JI_append_any; assumption.
Qed.

(* the pass keeps JI c i G when [note] does *)
Lemma JI_handle_timeout K t c i (G : str -> Prop) oj rev h :
  joff_ok c -> h_cfg h = c -> h_journal h = oj ->
  (forall ev pid path, jok K t (JI c i G) (note ev pid path oj)) ->
  jok K t (JI c i G) (handle_timeout rev h).
Proof.
  intros HC Ec Ej Hn.
  apply (gjok_handle_timeout K t c oj (JI c i G) (fun k => k = i) HC).
  - apply JI_cl_add.
  - intros p f. apply JI_rmdir.
  - intros p f. apply JI_unlink.
  - intros p f Hf. apply JI_create_excl. exact Hf.
  - intros p f Hu Hf. apply JI_open_create_off; assumption.
  - intros k b f Hk Hf. apply JI_append_other; assumption.
  - intros k f Hk Hf. apply JI_truncate_other; assumption.
  - intros a b f Hb Hf. apply JI_link; assumption.
  - exact Hn.
  - split; assumption.
Qed.

(* EVERY oracle, every step but the environment's: a file that is not the
   journal in force and that no name below the offset root leads to keeps its
   bytes (G := eq b), or whatever property of its bytes (G) *)
Theorem step_keeps_other_file (o : oracle) w h i (G : str -> Prop) pid path nc rev :
  joff_ok (h_cfg h) -> journal_off (h_journal h) i ->
  JI (h_cfg h) i G (w_fs w) ->
  JI (h_cfg h) i G (w_fs (snd (handle_open_exec pid path h o w))) /\
  JI (h_cfg h) i G (w_fs (snd (handle_close_write pid path nc h o w))) /\
  JI (h_cfg h) i G (w_fs (snd (handle_timeout rev h o w))).
Proof.
  intros HC Hoff HI.
  assert (Hn : forall ev pid path, jok oc_all (w_clock w) (JI (h_cfg h) i G) (note ev pid path (h_journal h)))
    by (intros; apply jok_note_other; exact Hoff).
  split; [|split].
  - apply (jok_run oc_all (w_clock w)); [|exact I|exact HI|reflexivity].
    apply (gjok_handle_open_exec _ _ (h_journal h)); [exact Hn|reflexivity].
  - apply (jok_run oc_all (w_clock w)); [|exact I|exact HI|reflexivity].
    apply (gjok_handle_close_write _ _ (h_journal h)); [apply JI_cl_add|exact Hn| |reflexivity].
    intros p f. apply JI_open_create_any.
  - apply (jok_run oc_all (w_clock w)); [|exact I|exact HI|reflexivity].
    apply (JI_handle_timeout _ _ _ _ _ (h_journal h)); auto.
Qed.

(* EVERY oracle: a write event with ANY new configuration [c'] never makes a
   file reachable below the offset root of c' (exec events neither) *)
Theorem close_write_keeps_sep (o : oracle) w h c' i pid path nc :
  jsep c' i (w_fs w) -> jsep c' i (w_fs (snd (handle_close_write pid path nc h o w))).
Proof.
  intros Hs.
  assert (H : JI c' i (fun _ => True) (w_fs (snd (handle_close_write pid path nc h o w)))).
  { apply (jok_run oc_all (w_clock w)); [|exact I|split; [exact Hs|exact I]|reflexivity].
    apply (gjok_handle_close_write _ _ (h_journal h)); [apply JI_cl_add| | |reflexivity].
    - intros. apply jok_note_anyG. auto.
    - intros p f. apply JI_open_create_any. }
  exact (proj1 H).
Qed.

(* ---------- every directory entry names an allocated inode ---------- *)

Definition wf_lt (f : fs) : Prop := forall p i, dent f p (NFile i) -> i < fs_next f.

Lemma wf_add : cl_add wf_lt.
Proof.
  intros f p n Hn H q i Hq. destruct (dent_add _ _ _ _ _ Hq) as [A|[_ E]].
  - exact (H q i A).
  - exfalso. exact (Hn i (eq_sym E)).
Qed.

Lemma wf_del p f : wf_lt f -> wf_lt (del_dent p f).
Proof. intros H q i Hq. apply (H q i). eapply dent_del. exact Hq. Qed.

Lemma wf_rmdir p f : wf_lt f -> wf_lt (snd (fs_rmdir p f)).
Proof.
  intros H. unfold fs_rmdir. destruct (lookup f p) as [[| |]|]; try exact H.
  destruct (children f p); [|exact H]. simpl. apply wf_del. exact H.
Qed.

Lemma wf_unlink p f : wf_lt f -> wf_lt (snd (fs_unlink p f)).
Proof.
  intros H. unfold fs_unlink. destruct (lookup f p) as [[| |]|]; try exact H; simpl; apply wf_del; exact H.
Qed.

Lemma wf_set_file k x f : wf_lt f -> wf_lt (set_file k x f).
Proof. intros H q i Hq. exact (H q i Hq). Qed.

Lemma wf_created p f : wf_lt f -> wf_lt (created p f).
Proof.
  intros H q i Hq. destruct (dent_created _ _ _ _ Hq) as [A|[_ E]].
  - specialize (H q i A). cbn [created fs_next]. lia.
  - inversion E. cbn [created fs_next]. lia.
Qed.

Lemma wf_create_excl p f : wf_lt f -> wf_lt (snd (fs_create_excl p f)).
Proof.
  intros H. unfold fs_create_excl. destruct (lookup f p); [exact H|].
  destruct (parent_is_dir f p); [exact H|]. simpl. apply (wf_created p f H).
Qed.

Lemma wf_open_create p f : wf_lt f -> wf_lt (snd (fs_open_create p f)).
Proof.
  intros H. unfold fs_open_create. destruct (lookup f p) as [[|k|]|]; try exact H.
  apply wf_create_excl. exact H.
Qed.

Lemma wf_link a b f : wf_lt f -> wf_lt (snd (fs_link a b f)).
Proof.
  intros H. unfold fs_link.
  destruct (lookup f a) as [[|k|tg m]|] eqn:E; try exact H.
  - destruct (lookup f b); [exact H|]. destruct (parent_is_dir f b); [exact H|]. simpl.
    intros q i Hq. destruct (dent_add _ _ _ _ _ Hq) as [A|[_ E2]]; [exact (H q i A)|].
    inversion E2; subst. exact (H a k (lookup_dent _ _ _ E)).
  - destruct (lookup f b); [exact H|]. destruct (parent_is_dir f b); [exact H|]. simpl.
    apply wf_add; [discriminate | exact H].
Qed.

Lemma jok_note_wf K t ev pid path oj : jok K t wf_lt (note ev pid path oj).
Proof.
  apply (gjok_note K t wf_lt (fun _ => True)); [|intros; exact I].
  intros k b f _ Hf. unfold fs_append. apply wf_set_file. exact Hf.
Qed.

(* EVERY oracle, every step but the environment's *)
Theorem step_keeps_wf (o : oracle) w h pid path nc rev :
  joff_ok (h_cfg h) -> wf_lt (w_fs w) ->
  wf_lt (w_fs (snd (handle_open_exec pid path h o w))) /\
  wf_lt (w_fs (snd (handle_close_write pid path nc h o w))) /\
  wf_lt (w_fs (snd (handle_timeout rev h o w))).
Proof.
  intros HC Hw.
  split; [|split].
  - apply (jok_run oc_all (w_clock w)); [|exact I|exact Hw|reflexivity].
    apply (gjok_handle_open_exec _ _ (h_journal h)); [intros; apply jok_note_wf|reflexivity].
  - apply (jok_run oc_all (w_clock w)); [|exact I|exact Hw|reflexivity].
    apply (gjok_handle_close_write _ _ (h_journal h)); [apply wf_add|intros; apply jok_note_wf| |reflexivity].
    intros p f. apply wf_open_create.
  - apply (jok_run oc_all (w_clock w)); [|exact I|exact Hw|reflexivity].
    apply (gjok_handle_timeout oc_all (w_clock w) (h_cfg h) (h_journal h) wf_lt (fun _ => False) HC).
    + apply wf_add.
    + intros p f. apply wf_rmdir.
    + intros p f. apply wf_unlink.
    + intros p f Hf. split; [apply wf_create_excl; exact Hf | intros i _ F; exact F].
    + intros p f _ Hf. split; [apply wf_open_create; exact Hf | intros i _ F; exact F].
    + intros k b f _ Hf. unfold fs_append. apply wf_set_file. exact Hf.
    + intros k f _ Hf. unfold fs_truncate. apply wf_set_file. exact Hf.
    + intros a b f _ Hf. apply wf_link. exact Hf.
    + intros. apply jok_note_wf.
    + split; reflexivity.
Qed.

Print Assumptions step_keeps_other_file.
Print Assumptions close_write_keeps_sep.
Print Assumptions step_keeps_wf.
