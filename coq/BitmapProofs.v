From K Require Import Str Sieve Bitmap.
From Coq Require Import Lia.

(* reference: a process id is marked iff the last operation on it was a set *)
Fixpoint ref_bit (bit : nat) (ops : list bm_op) (cur : bool) : bool :=
  match ops with
  | [] => cur
  | BSet i :: r => ref_bit bit r (if Nat.eqb i bit then true else cur)
  | BUnset i :: r => ref_bit bit r (if Nat.eqb i bit then false else cur)
  end.

Lemma bm_write_length i v b : length (bm_write i v b) = length b.
Proof. revert i; induction b as [|x b IH]; intros [|i]; simpl; auto. Qed.

Lemma nth_bm_write_eq i v b : i < length b -> nth i (bm_write i v b) false = v.
Proof. revert i; induction b as [|x b IH]; intros [|i] H; simpl in *; try lia; auto. apply IH; lia. Qed.

Lemma nth_bm_write_neq i j v b : i <> j -> nth j (bm_write i v b) false = nth j b false.
Proof. revert i j; induction b as [|x b IH]; intros [|i] [|j] H; simpl; auto; congruence. Qed.

Lemma nth_app_repeat_false j (b : bitmap) n : nth j (b ++ repeat false n) false = nth j b false.
Proof.
  destruct (Nat.lt_ge_cases j (length b)) as [H|H].
  - apply app_nth1. assumption.
  - rewrite app_nth2 by assumption. rewrite (nth_overflow b) by assumption.
    generalize (j - length b). induction n as [|n IH]; intros [|k]; simpl; auto.
Qed.

Lemma bm_get_set bit j b : bm_get j (bm_set bit b) = if Nat.eqb bit j then true else bm_get j b.
Proof.
  unfold bm_get, bm_set. destruct (Nat.eqb_spec bit j) as [<-|Hn].
  - apply nth_bm_write_eq. destruct (Nat.ltb_spec bit (length b)); [assumption|].
    rewrite app_length, repeat_length. lia.
  - rewrite nth_bm_write_neq by assumption.
    destruct (Nat.ltb bit (length b)); [reflexivity | apply nth_app_repeat_false].
Qed.

Lemma bm_get_unset bit j b : bm_get j (bm_unset bit b) = if Nat.eqb bit j then false else bm_get j b.
Proof.
  unfold bm_get, bm_unset. destruct (Nat.ltb_spec bit (length b)) as [H|H].
  - destruct (Nat.eqb_spec bit j) as [<-|Hn]; [apply nth_bm_write_eq; assumption | apply nth_bm_write_neq; assumption].
  - destruct (Nat.eqb_spec bit j) as [<-|Hn]; [apply nth_overflow; assumption | reflexivity].
Qed.

Lemma bm_fold_ref bit ops : forall b, bm_get bit (fold_left bm_step ops b) = ref_bit bit ops (bm_get bit b).
Proof.
  induction ops as [|o ops IH]; intros b; simpl; [reflexivity|].
  rewrite IH. destruct o as [i|i]; simpl; [rewrite bm_get_set | rewrite bm_get_unset]; reflexivity.
Qed.

Lemma bm_get_create g bit : bm_get bit (bm_create g) = false.
Proof.
  unfold bm_get, bm_create. revert bit. induction g as [|g IH]; intros [|bit]; simpl; auto.
Qed.

Lemma bm_run_ref g ops bit : bm_get bit (bm_run g ops) = ref_bit bit ops false.
Proof. unfold bm_run. rewrite bm_fold_ref, bm_get_create. reflexivity. Qed.

(* ---------- attribution ---------- *)

(* the property's wording: a process is an editor from the moment it executes a
   file whose name is in the editor list until it executes a file that is
   neither an editor nor a loader recorded from a previously seen editor binary *)
Fixpoint spec_run (editors : list str) (evs : list exec_ev) (is_ed : nat -> bool) (loaders : list str)
  : (nat -> bool) * list str :=
  match evs with
  | [] => (is_ed, loaders)
  | e :: r =>
      if mem (exe_name (ex_path e)) editors then
        spec_run editors r (fun p => if Nat.eqb (ex_pid e) p then true else is_ed p)
                 (match ex_interp e with Some i => i :: loaders | None => loaders end)
      else if mem (ex_path e) loaders then spec_run editors r is_ed loaders
      else spec_run editors r (fun p => if Nat.eqb (ex_pid e) p then false else is_ed p) loaders
  end.

Lemma attr_fold_spec editors evs : forall a is_ed,
  (forall p, bm_get p (a_pids a) = is_ed p) ->
  let r := fold_left (attr_step editors) evs a in
  let s := spec_run editors evs is_ed (a_interps a) in
  (forall p, bm_get p (a_pids r) = fst s p) /\ a_interps r = snd s.
Proof.
  induction evs as [|e evs IH]; intros a is_ed H; simpl; [auto|].
  unfold attr_step at 2 4.
  destruct (mem (exe_name (ex_path e)) editors).
  - apply (IH (mkAttr (bm_set (ex_pid e) (a_pids a))
                      (match ex_interp e with Some i => i :: a_interps a | None => a_interps a end))
              (fun p => if Nat.eqb (ex_pid e) p then true else is_ed p)).
    intros p. simpl. rewrite bm_get_set, H. reflexivity.
  - destruct (mem (ex_path e) (a_interps a)) eqn:Em.
    + destruct (bm_get (ex_pid e) (a_pids a)); apply IH; assumption.
    + destruct (bm_get (ex_pid e) (a_pids a)) eqn:Eg.
      * apply (IH (mkAttr (bm_unset (ex_pid e) (a_pids a)) (a_interps a))
                  (fun p => if Nat.eqb (ex_pid e) p then false else is_ed p)).
        intros p. simpl. rewrite bm_get_unset, H. reflexivity.
      * (* not marked: unmarking changes nothing *)
        apply (IH a (fun p => if Nat.eqb (ex_pid e) p then false else is_ed p)).
        intros p. destruct (Nat.eqb_spec (ex_pid e) p) as [<-|]; [assumption | apply H].
Qed.

Lemma attr_run_spec editors g evs :
  let r := attr_run editors g evs in
  let s := spec_run editors evs (fun _ => false) [] in
  (forall p, bm_get p (a_pids r) = fst s p) /\ a_interps r = snd s.
Proof.
  unfold attr_run. apply (attr_fold_spec editors evs (mkAttr (bm_create g) []) (fun _ => false)).
  intros p. apply bm_get_create.
Qed.
