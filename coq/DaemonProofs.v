(* C17 with the REAL handler, and the history theorems lifted to the daemon.

   Daemon.v: [daemon_loop self rev ns pause h], the loop of main.c in the monad
   of World.v over a list of notifications.

   (a) daemon_refines_loop   EVERY oracle, world, handler, notification list:
                             the [out] list of daemon_loop IS Main.loop on the
                             slots [slots_of ...] whose scripted answers are
                             obtained by running the real handler programs;
       C17_daemon_*          the C17 statements for daemon_loop directly.
   (b) daemon_is_history     the final handler and world of a daemon run are
                             those of ReloadHistory.run over [steps_of ...].
   (c) daemon_config_in_force, daemon_tracks_attribution,
       daemon_non_editor_never_queued, daemon_editor_always_queued
   (d) daemon_self_writes_are_wakeups, daemon_own_writes_queue_nothing
   (e) Module DaemonExample. *)
From K Require Import Str Dec Trace Fs World Progs Elf Sieve SieveSpec Handler Linq LinqSpec LinqProofs
     Hoare Confine Confine2 SyncProofs AbandonProofs JournalProofs QueueProofs StoreFs StoreLogic StoreProofs
     FdProofs PassProofs JournalHistoryProofs AcceptProofs ReloadProofs AttrProofs ReloadHistory MixedHistory
     Main MainProofs Daemon.
From Coq Require Import Lia.
Arguments N.add : simpl never.
Arguments N.sub : simpl never.
Arguments N.mul : simpl never.
Arguments N.of_nat : simpl never.
Arguments N.to_nat : simpl never.
Arguments N.eqb : simpl never.
Arguments N.leb : simpl never.
Arguments N.ltb : simpl never.

Local Open Scope N_scope.

Notation hrun := ReloadHistory.run.

(* ====================================================================== *)
(* 0. Running one iteration                                               *)
(* ====================================================================== *)

Lemma service_run rev pre h o w :
  service rev pre h o w =
  match handle_timeout rev h o w with
  | (Some (TPause z, h'), w') => (Some (Next (pre ++ [OTimeout]) z h'), w')
  | (Some (TError, h'), w') => (Some (Stop (pre ++ [OTimeout; OExit 1 (Some T_timeout)]) h'), w')
  | (None, w') => (None, w')
  end.
Proof.
  unfold service, bind. destruct (handle_timeout rev h o w) as [[[[z|] h']|] w']; reflexivity.
Qed.

(* the handler and the world after the dispatch of a well-formed event *)
Definition after_dispatch (self : N) (e : Main.event) (path : str) (nc : option config) (h : handler)
  : M handler :=
  if ev_exec e then handle_open_exec (ev_pid e) path h
  else if ev_write e && negb (ev_pid e =? self) then handle_close_write (ev_pid e) path nc h
  else ret_ h.

Definition dispatched (self : N) (e : Main.event) : bool :=
  ev_exec e || (ev_write e && negb (ev_pid e =? self)).

Definition disp_outs (self : N) (e : Main.event) : list out :=
  if ev_exec e then [OExec (ev_pid e) (ev_fd e)]
  else if ev_write e && negb (ev_pid e =? self) then [OWrite (ev_pid e) (ev_fd e)]
  else [].

Definition disp_top (e : Main.event) : topmsg := if ev_exec e then T_exec else T_write.

Definition well_formed (e : Main.event) : bool := ev_vers_ok e && negb (ev_overflow e).

Lemma dispatch_run_run self e path nc h o w :
  dispatch_run self e path nc h o w =
  match after_dispatch self e path nc h o w with
  | (Some h1, w1) => (Some (disp_outs self e, h1, dispatched self e,
                            if dispatched self e then disp_top e else T_exec), w1)
  | (None, w1) => (None, w1)
  end.
Proof.
  unfold dispatch_run, after_dispatch, dispatched, disp_outs, disp_top, bind.
  destruct (ev_exec e); cbn [orb].
  - destruct (handle_open_exec (ev_pid e) path h o w) as [[h1|] w1]; reflexivity.
  - destruct (ev_write e && negb (ev_pid e =? self)).
    + destruct (handle_close_write (ev_pid e) path nc h o w) as [[h1|] w1]; reflexivity.
    + reflexivity.
Qed.

(* one iteration over a well-formed event, as a function of the runs of the
   real programs *)
Lemma iteration_event self rev e path nc h o w :
  well_formed e = true ->
  iteration self rev (NEvent e path nc) h o w =
  match after_dispatch self e path nc h o w with
  | (Some h1, w1) =>
      if negb (dispatched self e) || okw w1
      then service rev (ORead :: disp_outs self e ++ [OClose (ev_fd e)]) h1 o w1
      else (Some (Stop (ORead :: disp_outs self e ++ [OClose (ev_fd e); OExit 1 (Some (disp_top e))]) h1), w1)
  | (None, w1) => (None, w1)
  end.
Proof.
  unfold well_formed. intros Hwf. apply andb_prop in Hwf. destruct Hwf as [Hv Ho].
  apply negb_true_iff in Ho.
  cbn [iteration]. rewrite Hv, Ho. cbn [negb].
  unfold bind at 1. rewrite dispatch_run_run.
  destruct (after_dispatch self e path nc h o w) as [[h1|] w1]; [|reflexivity].
  unfold bind. rewrite is_ok_run. fold (okw w1).
  destruct (dispatched self e); cbn [negb orb]; [|reflexivity].
  destruct (okw w1); reflexivity.
Qed.

Lemma iteration_event_bad self rev e path nc h o w :
  well_formed e = false ->
  iteration self rev (NEvent e path nc) h o w =
  (Some (Stop [ORead; OExit 1 (Some (if negb (ev_vers_ok e) then T_version else T_overflow))] h), w).
Proof.
  unfold well_formed. intros Hwf. cbn [iteration].
  destruct (ev_vers_ok e); cbn [negb andb] in *; [|reflexivity].
  apply negb_false_iff in Hwf. rewrite Hwf. reflexivity.
Qed.

Definition is_env (n : notif) : bool := match n with NEnv _ => true | _ => false end.

Lemma daemon_loop_cons self rev n rest pause h o w :
  is_env n = false ->
  daemon_loop self rev (n :: rest) pause h o w =
  match iteration self rev n h o w with
  | (Some (Stop outs h'), w1) => (Some (OPoll (poll_ms pause) :: outs, h'), w1)
  | (Some (Next outs z h'), w1) =>
      match daemon_loop self rev rest z h' o w1 with
      | (Some t, w2) => (Some (OPoll (poll_ms pause) :: outs ++ fst t, snd t), w2)
      | (None, w2) => (None, w2)
      end
  | (None, w1) => (None, w1)
  end.
Proof.
  intros Hn. destruct n; try discriminate Hn; cbn [daemon_loop]; unfold bind at 1;
    (lazymatch goal with |- context [iteration ?a ?b ?c ?d o w] => destruct (iteration a b c d o w) as [[[outs h'|outs z h']|] w1] end;
     [reflexivity | | reflexivity]);
    unfold bind; destruct (daemon_loop self rev rest z h' o w1) as [[t|] w2]; reflexivity.
Qed.

Lemma daemon_loop_env self rev w2 rest pause h o w :
  daemon_loop self rev (NEnv w2 :: rest) pause h o w = daemon_loop self rev rest pause h o w2.
Proof. reflexivity. Qed.

Lemma daemon_loop_nil self rev pause h o w :
  daemon_loop self rev [] pause h o w = (Some ([OPoll (poll_ms pause); OEnd], h), w).
Proof. reflexivity. Qed.

(* ====================================================================== *)
(* (a) daemon_loop refines Main.loop                                      *)
(* ====================================================================== *)

Definition ev0 : Main.event := mkEv true false false false 0 0.

(* what handle_timeout answers main.c: Some z = it returned z with an error-free
   trace, None = the trace is not ok afterwards *)
Definition timeout_answer (rev : bool) (h : handler) (o : oracle) (w : world) : option Z :=
  match handle_timeout rev h o w with
  | (Some (TPause z, _), _) => Some z
  | _ => None
  end.

(* The slot of one notification: every scripted answer is what the REAL
   program answers on the world as it is at that moment.  s_exec_ok / s_write_ok:
   the trace is ok after handle_open_exec / handle_close_write run from (h, w);
   s_timeout: the answer of handle_timeout run from the handler and the world
   the dispatch of this notification leaves. *)
Definition slot_of (self : N) (rev : bool) (n : notif) (h : handler) (o : oracle) (w : world) : slot :=
  match n with
  | NWake => mkSlot PollTimeout ReadFull ev0 true true (timeout_answer rev h o w)
  | NPollErr => mkSlot PollErr ReadFull ev0 true true None
  | NPollHup => mkSlot PollHup ReadFull ev0 true true None
  | NReadShort => mkSlot PollEvent ReadShort ev0 true true None
  | NReadFail => mkSlot PollEvent ReadFail ev0 true true None
  | NEvent e path nc =>
      mkSlot PollEvent ReadFull e
             (okw (snd (handle_open_exec (ev_pid e) path h o w)))
             (okw (snd (handle_close_write (ev_pid e) path nc h o w)))
             (match after_dispatch self e path nc h o w with
              | (Some h1, w1) => timeout_answer rev h1 o w1
              | (None, _) => None
              end)
  | NEnv _ => mkSlot PollTimeout ReadFull ev0 true true None
  end.

Fixpoint slots_of (self : N) (rev : bool) (o : oracle) (w : world) (h : handler) (ns : list notif)
  : list slot :=
  match ns with
  | [] => []
  | NEnv w2 :: rest => slots_of self rev o w2 h rest
  | n :: rest =>
      slot_of self rev n h o w ::
      match iteration self rev n h o w with
      | (Some (Next _ _ h'), w') => slots_of self rev o w' h' rest
      | _ => []
      end
  end.

Lemma slots_of_cons self rev o w h n rest :
  is_env n = false ->
  slots_of self rev o w h (n :: rest) =
  slot_of self rev n h o w ::
  match iteration self rev n h o w with
  | (Some (Next _ _ h'), w') => slots_of self rev o w' h' rest
  | _ => []
  end.
Proof. intros Hn. destruct n; try discriminate Hn; reflexivity. Qed.

Lemma service_loop self rev pre h o w v w1 s rest :
  service rev pre h o w = (Some v, w1) ->
  s_timeout s = timeout_answer rev h o w ->
  match v with
  | Stop outs _ => outs
  | Next outs z _ => outs ++ loop self rest z
  end =
  pre ++ OTimeout :: match s_timeout s with
                     | Some z => loop self rest z
                     | None => [OExit 1 (Some T_timeout)]
                     end.
Proof.
  rewrite service_run. unfold timeout_answer. intros E ->.
  destruct (handle_timeout rev h o w) as [[[[z|] h']|] w']; [| |discriminate E];
    injection E as <- <-; rewrite <- ?app_assoc; reflexivity.
Qed.

(* one iteration against one slot *)
Lemma iteration_loop self rev n h o w v w1 rest pause :
  is_env n = false ->
  iteration self rev n h o w = (Some v, w1) ->
  loop self (slot_of self rev n h o w :: rest) pause =
  OPoll (poll_ms pause) ::
  match v with
  | Stop outs _ => outs
  | Next outs z _ => outs ++ loop self rest z
  end.
Proof.
  intros Hn E. destruct n as [|e path nc| | | | |w2]; try discriminate Hn.
  - (* wake-up *)
    cbn [iteration] in E.
    pose proof (service_loop self rev [] h o w v w1 (slot_of self rev NWake h o w) rest E eq_refl) as L.
    cbn [loop slot_of s_poll]. cbn [slot_of] in L. rewrite L. reflexivity.
  - (* event *)
    destruct (well_formed e) eqn:Hwf.
    + rewrite (iteration_event _ _ _ _ _ _ _ _ Hwf) in E.
      unfold well_formed in Hwf. apply andb_prop in Hwf. destruct Hwf as [Hv Ho].
      apply negb_true_iff in Ho.
      cbn [loop slot_of s_poll s_read s_ev s_exec_ok s_write_ok s_timeout]. rewrite Hv, Ho. cbn [negb].
      unfold after_dispatch, dispatched, disp_outs, disp_top in *.
      destruct (ev_exec e); cbn [orb negb] in *.
      * destruct (handle_open_exec (ev_pid e) path h o w) as [[h1|] w2] eqn:Ex; [|discriminate E].
        cbn [snd]. destruct (okw w2).
        -- pose proof (service_loop self rev _ h1 o w2 v w1
                         (mkSlot PollEvent ReadFull e true true (timeout_answer rev h1 o w2)) rest E eq_refl) as L.
           cbn [s_timeout] in L. rewrite L. reflexivity.
        -- injection E as <- <-. reflexivity.
      * destruct (ev_write e && negb (ev_pid e =? self)); cbn [negb orb] in *.
        -- destruct (handle_close_write (ev_pid e) path nc h o w) as [[h1|] w2] eqn:Ex; [|discriminate E].
           cbn [snd]. destruct (okw w2).
           ++ pose proof (service_loop self rev _ h1 o w2 v w1
                            (mkSlot PollEvent ReadFull e true true (timeout_answer rev h1 o w2)) rest E eq_refl) as L.
              cbn [s_timeout] in L. rewrite L. reflexivity.
           ++ injection E as <- <-. reflexivity.
        -- unfold ret_ in E |- *.
           pose proof (service_loop self rev _ h o w v w1
                         (mkSlot PollEvent ReadFull e true true (timeout_answer rev h o w)) rest E eq_refl) as L.
           cbn [s_timeout] in L. rewrite L. reflexivity.
    + rewrite (iteration_event_bad _ _ _ _ _ _ _ _ Hwf) in E. injection E as <- <-.
      unfold well_formed in Hwf.
      cbn [loop slot_of s_poll s_read s_ev].
      destruct (ev_vers_ok e); cbn [negb andb] in *; [|reflexivity].
      apply negb_false_iff in Hwf. rewrite Hwf. reflexivity.
  - cbn [iteration] in E. injection E as <- <-. reflexivity.
  - cbn [iteration] in E. injection E as <- <-. reflexivity.
  - cbn [iteration] in E. injection E as <- <-. reflexivity.
  - cbn [iteration] in E. injection E as <- <-. reflexivity.
Qed.

(* THE REFINEMENT.  Whatever the oracle (failing calls, short transfers), the
   world, the handler and the notifications: when the daemon does not die, what
   it emits is exactly what Main.loop emits on the slots computed by running
   the real handler programs. *)
Theorem daemon_refines_loop (self : N) (rev : bool) (o : oracle) :
  forall (ns : list notif) (pause : Z) (h : handler) (w : world) outs h' w',
  daemon_loop self rev ns pause h o w = (Some (outs, h'), w') ->
  outs = loop self (slots_of self rev o w h ns) pause.
Proof.
  induction ns as [|n rest IH]; intros pause h w outs h' w' E.
  - rewrite daemon_loop_nil in E. injection E as <- _ _. reflexivity.
  - destruct (is_env n) eqn:Hn.
    + destruct n; try discriminate Hn. rewrite daemon_loop_env in E. cbn [slots_of].
      exact (IH _ _ _ _ _ _ E).
    + rewrite (daemon_loop_cons _ _ _ _ _ _ _ _ Hn) in E. rewrite (slots_of_cons _ _ _ _ _ _ _ Hn).
      destruct (iteration self rev n h o w) as [[v|] w1] eqn:Ei; [|discriminate E].
      rewrite (iteration_loop _ _ _ _ _ _ _ _ _ pause Hn Ei).
      destruct v as [outs1 h1|outs1 z h1].
      * injection E as <- _ _. reflexivity.
      * destruct (daemon_loop self rev rest z h1 o w1) as [[t|] w2] eqn:Er; [|discriminate E].
        injection E as <- _ _. destruct t as [outs2 h2]. cbn [fst].
        rewrite (IH _ _ _ _ _ _ Er). reflexivity.
Qed.
Print Assumptions daemon_refines_loop.

(* ====================================================================== *)
(* One iteration, in general                                              *)
(* ====================================================================== *)

(* the notifications at which main.c exits without calling the handler *)
Definition fatal (n : notif) : bool :=
  match n with
  | NPollErr | NPollHup | NReadShort | NReadFail => true
  | NEvent e _ _ => negb (well_formed e)
  | NWake | NEnv _ => false
  end.

Definition fatal_outs (n : notif) : list out :=
  match n with
  | NPollErr | NPollHup => [OExit 1 (Some T_poll)]
  | NReadShort | NReadFail => [ORead; OExit 1 (Some T_read)]
  | NEvent e _ _ => [ORead; OExit 1 (Some (if negb (ev_vers_ok e) then T_version else T_overflow))]
  | NWake | NEnv _ => []
  end.

(* the handler call of an iteration, if any *)
Definition dispatch_of (self : N) (n : notif) (h : handler) : M handler :=
  match n with
  | NEvent e path nc => after_dispatch self e path nc h
  | _ => ret_ h
  end.

Definition dispatched_n (self : N) (n : notif) : bool :=
  match n with NEvent e _ _ => dispatched self e | _ => false end.

(* what an iteration emits between its poll and its timeout pass *)
Definition event_outs (self : N) (n : notif) : list out :=
  match n with
  | NEvent e _ _ => ORead :: disp_outs self e ++ [OClose (ev_fd e)]
  | _ => []
  end.

Definition top_of (n : notif) : topmsg :=
  match n with NEvent e _ _ => disp_top e | _ => T_exec end.

Lemma iteration_run self rev n h o w :
  is_env n = false ->
  iteration self rev n h o w =
  if fatal n then (Some (Stop (fatal_outs n) h), w)
  else match dispatch_of self n h o w with
       | (Some h1, w1) =>
           if negb (dispatched_n self n) || okw w1 then service rev (event_outs self n) h1 o w1
           else (Some (Stop (event_outs self n ++ [OExit 1 (Some (top_of n))]) h1), w1)
       | (None, w1) => (None, w1)
       end.
Proof.
  intros Hn. destruct n as [|e path nc| | | | |w2]; try discriminate Hn; try reflexivity.
  cbn [fatal fatal_outs dispatch_of dispatched_n event_outs top_of].
  destruct (well_formed e) eqn:Hwf; cbn [negb].
  - rewrite (iteration_event _ _ _ _ _ _ _ _ Hwf).
    destruct (after_dispatch self e path nc h o w) as [[h1|] w1]; [|reflexivity].
    destruct (negb (dispatched self e) || okw w1); [reflexivity|].
    cbn [app]. rewrite <- app_assoc. reflexivity.
  - apply iteration_event_bad. exact Hwf.
Qed.

Lemma not_dispatched self n h o w :
  dispatched_n self n = false -> dispatch_of self n h o w = (Some h, w).
Proof.
  destruct n as [|e path nc| | | | |w2]; try reflexivity.
  cbn [dispatched_n dispatch_of]. unfold dispatched, after_dispatch. intros Hd.
  apply orb_false_iff in Hd. destruct Hd as [-> ->]. reflexivity.
Qed.

(* TPause is only answered with an error-free trace *)
Lemma handle_timeout_pause_ok rev h o w z h1 w1 :
  handle_timeout rev h o w = (Some (TPause z, h1), w1) -> okw w1 = true.
Proof.
  unfold handle_timeout, bind.
  destruct (handle_timeout_loop _ rev h o w) as [[r|] w2]; [|discriminate].
  rewrite is_ok_run. unfold ret_, okw. destruct (tr_ok (w_tr w2)) eqn:K; intros E.
  - injection E as _ <-. exact K.
  - injection E as E _. discriminate E.
Qed.

(* with an error on the trace handle_timeout does nothing at all: this is why
   it does not matter that main.c still calls it after a failed dispatch
   (`while (ok(trace))` ends at once), and why Main.loop shows no OTimeout there *)
Lemma handle_timeout_not_ok rev h o w :
  okw w = false -> handle_timeout rev h o w = (Some (TError, h), w).
Proof.
  intros K. unfold handle_timeout. cbn [handle_timeout_loop]. unfold bind. rewrite is_ok_run.
  unfold okw in K. rewrite K. cbn [negb]. unfold ret_. rewrite is_ok_run, K. reflexivity.
Qed.

(* every outcome of an iteration *)
Lemma iteration_cases self rev n h o w v w2 :
  is_env n = false -> iteration self rev n h o w = (Some v, w2) ->
  (fatal n = true /\ w2 = w /\ v = Stop (fatal_outs n) h) \/
  (fatal n = false /\
   exists h1 w1, dispatch_of self n h o w = (Some h1, w1) /\
     ((dispatched_n self n = true /\ okw w1 = false /\ w2 = w1 /\
       v = Stop (event_outs self n ++ [OExit 1 (Some (top_of n))]) h1) \/
      ((dispatched_n self n = true -> okw w1 = true) /\
       exists r, handle_timeout rev h1 o w1 = (Some r, w2) /\
         v = match fst r with
             | TPause z => Next (event_outs self n ++ [OTimeout]) z (snd r)
             | TError => Stop (event_outs self n ++ [OTimeout; OExit 1 (Some T_timeout)]) (snd r)
             end))).
Proof.
  intros Hn E. rewrite (iteration_run _ _ _ _ _ _ Hn) in E.
  destruct (fatal n); [left; injection E as <- <-; auto|]. right. split; [reflexivity|].
  destruct (dispatch_of self n h o w) as [[h1|] w1]; [|discriminate E].
  exists h1, w1. split; [reflexivity|].
  destruct (dispatched_n self n); cbn [negb orb] in E.
  - destruct (okw w1) eqn:K.
    + right. split; [reflexivity|]. rewrite service_run in E.
      destruct (handle_timeout rev h1 o w1) as [[[[z|] h2]|] w3]; [| |discriminate E];
        injection E as <- <-; eexists; split; reflexivity.
    + left. injection E as <- <-. auto.
  - right. split; [discriminate|]. rewrite service_run in E.
    destruct (handle_timeout rev h1 o w1) as [[[[z|] h2]|] w3]; [| |discriminate E];
      injection E as <- <-; eexists; split; reflexivity.
Qed.

(* ====================================================================== *)
(* C17 for daemon_loop directly                                           *)
(* ====================================================================== *)

(* every run starts by sleeping for the pause it was given *)
Lemma daemon_head_poll self rev o : forall ns pause h w outs h' w',
  daemon_loop self rev ns pause h o w = (Some (outs, h'), w') ->
  exists tl, outs = OPoll (poll_ms pause) :: tl.
Proof.
  induction ns as [|n rest IH]; intros pause h w outs h' w' E.
  - rewrite daemon_loop_nil in E. injection E as <- _ _. eauto.
  - destruct (is_env n) eqn:Hn.
    + destruct n; try discriminate Hn. rewrite daemon_loop_env in E. exact (IH _ _ _ _ _ _ E).
    + rewrite (daemon_loop_cons _ _ _ _ _ _ _ _ Hn) in E.
      destruct (iteration self rev n h o w) as [[[outs1 h1|outs1 z h1]|] w1]; [| |discriminate E].
      * injection E as <- _ _. eauto.
      * destruct (daemon_loop self rev rest z h1 o w1) as [[t|] w2]; [|discriminate E].
        injection E as <- _ _. eauto.
Qed.

(* DISPATCH ONCE, THEN THE PASS, AND THE SLEEP IS THE PAUSE.  One iteration of
   the daemon on notification [n]: either the daemon exits in it, or
   - the handler program of the notification's kind ran exactly once, from the
     handler and world of the loop head (dispatch_of: handle_open_exec for the
     exec bit, else handle_close_write for the write bit of another process,
     else nothing), leaving (h1, w1);
   - the event descriptor was closed (event_outs ends in OClose);
   - handle_timeout ran from exactly (h1, w1) and answered TPause z;
   - the next thing the daemon does is to sleep poll_ms z, and it goes on from
     the handler and the world handle_timeout left. *)
Theorem C17_daemon_iteration self rev o n rest pause h w outs h' w' :
  is_env n = false ->
  daemon_loop self rev (n :: rest) pause h o w = (Some (outs, h'), w') ->
  (exists pre t, outs = OPoll (poll_ms pause) :: pre ++ [OExit 1 (Some t)]) \/
  (exists h1 w1 z h2 w2 tl,
     dispatch_of self n h o w = (Some h1, w1) /\
     (dispatched_n self n = true -> okw w1 = true) /\
     handle_timeout rev h1 o w1 = (Some (TPause z, h2), w2) /\
     daemon_loop self rev rest z h2 o w2 = (Some (OPoll (poll_ms z) :: tl, h'), w') /\
     outs = OPoll (poll_ms pause) :: event_outs self n ++ OTimeout :: OPoll (poll_ms z) :: tl).
Proof.
  intros Hn E. rewrite (daemon_loop_cons _ _ _ _ _ _ _ _ Hn) in E.
  destruct (iteration self rev n h o w) as [[v|] w1] eqn:Ei; [|discriminate E].
  destruct (iteration_cases _ _ _ _ _ _ _ _ Hn Ei)
    as [(Hf & -> & ->)|(Hf & h1 & w1' & Ed & [(Hd & K & -> & ->)|(Hk & r & Et & ->)])].
  - left. injection E as <- _ _.
    destruct n as [|e path nc| | | | |w2]; try discriminate Hf; cbn [fatal_outs].
    + exists [ORead]. eexists. reflexivity.
    + exists []. eexists. reflexivity.
    + exists []. eexists. reflexivity.
    + exists [ORead]. eexists. reflexivity.
    + exists [ORead]. eexists. reflexivity.
  - left. injection E as <- _ _. eauto.
  - destruct r as [[z|] h2]; cbn [fst snd] in E.
    + right. destruct (daemon_loop self rev rest z h2 o w1) as [[[outs2 h3]|] w3] eqn:Er; [|discriminate E].
      injection E as <- <- <-. cbn [fst snd].
      destruct (daemon_head_poll _ _ _ _ _ _ _ _ _ _ Er) as [tl ->].
      exists h1, w1', z, h2, w1, tl. split; [exact Ed|]. split; [exact Hk|]. split; [exact Et|].
      split; [exact Er|]. rewrite <- app_assoc. reflexivity.
    + left. injection E as <- _ _. exists (event_outs self n ++ [OTimeout]), T_timeout.
      rewrite <- app_assoc. reflexivity.
Qed.
Print Assumptions C17_daemon_iteration.

(* the same for a wake-up: nothing is dispatched, the pass runs from the very
   handler and world of the loop head *)
Theorem C17_daemon_wakeup_services_queue self rev o rest pause h w outs h' w' :
  daemon_loop self rev (NWake :: rest) pause h o w = (Some (outs, h'), w') ->
  (exists t, outs = [OPoll (poll_ms pause); OTimeout; OExit 1 (Some t)]) \/
  (exists z h2 w2 tl,
     handle_timeout rev h o w = (Some (TPause z, h2), w2) /\
     daemon_loop self rev rest z h2 o w2 = (Some (OPoll (poll_ms z) :: tl, h'), w') /\
     outs = OPoll (poll_ms pause) :: OTimeout :: OPoll (poll_ms z) :: tl).
Proof.
  intros E. rewrite (daemon_loop_cons _ _ _ _ _ _ _ _ (eq_refl : is_env NWake = false)) in E.
  cbn [iteration] in E. rewrite service_run in E.
  destruct (handle_timeout rev h o w) as [[[[z|] h2]|] w2]; [| |discriminate E].
  - right. destruct (daemon_loop self rev rest z h2 o w2) as [[[outs2 h3]|] w3] eqn:Er; [|discriminate E].
    injection E as <- <- <-. destruct (daemon_head_poll _ _ _ _ _ _ _ _ _ _ Er) as [tl ->].
    exists z, h2, w2, tl. auto.
  - left. injection E as <- _ _. eauto.
Qed.
Print Assumptions C17_daemon_wakeup_services_queue.

(* THE SLEEP IS THE PAUSE: when the dispatch of [n] left (h1, w1) without an
   error and handle_timeout, run on exactly that handler and world, answered
   TPause z, the value the daemon sleeps next is poll_ms z: 1000 * z up to
   INT_MAX / 1000 seconds, INT_MAX above, negative (indefinitely) for z < 0
   (the empty queue answers -1) *)
Theorem C17_daemon_sleep_is_pause self rev o n rest pause h w outs h' w' h1 w1 z h2 w2 :
  is_env n = false -> fatal n = false ->
  daemon_loop self rev (n :: rest) pause h o w = (Some (outs, h'), w') ->
  dispatch_of self n h o w = (Some h1, w1) ->
  (dispatched_n self n = true -> okw w1 = true) ->
  handle_timeout rev h1 o w1 = (Some (TPause z, h2), w2) ->
  (exists tl, outs = OPoll (poll_ms pause) :: event_outs self n ++ OTimeout :: OPoll (poll_ms z) :: tl) /\
  ((z <= 2147483)%Z -> poll_ms z = (1000 * z)%Z) /\
  ((z < 0)%Z -> (poll_ms z < 0)%Z) /\
  ((0 <= z)%Z -> (0 <= poll_ms z <= 2147483647)%Z).
Proof.
  intros Hn Hf E Ed Hk Et. split; [|apply poll_ms_spec].
  rewrite (daemon_loop_cons _ _ _ _ _ _ _ _ Hn), (iteration_run _ _ _ _ _ _ Hn), Hf, Ed in E.
  assert (Hc : negb (dispatched_n self n) || okw w1 = true).
  { destruct (dispatched_n self n); [exact (Hk eq_refl)|reflexivity]. }
  rewrite Hc, service_run, Et in E.
  destruct (daemon_loop self rev rest z h2 o w2) as [[[outs2 h3]|] w3] eqn:Er; [|discriminate E].
  injection E as <- _ _. destruct (daemon_head_poll _ _ _ _ _ _ _ _ _ _ Er) as [tl ->].
  exists tl. cbn [fst]. rewrite <- app_assoc. reflexivity.
Qed.
Print Assumptions C17_daemon_sleep_is_pause.

(* DISPATCH BY KIND, with the real programs *)
Theorem C17_daemon_dispatch_by_kind self e path nc h :
  dispatch_of self (NEvent e path nc) h =
  if ev_exec e then handle_open_exec (ev_pid e) path h
  else if ev_write e && negb (ev_pid e =? self) then handle_close_write (ev_pid e) path nc h
  else ret_ h.
Proof. reflexivity. Qed.
Print Assumptions C17_daemon_dispatch_by_kind.

(* SELF IGNORED: a write notification whose pid is the daemon's own reaches no
   handler program: the handler (the queue with it) and the world are, when the
   timeout pass starts, exactly those of the loop head; the iteration is the
   iteration of a wake-up except that the event record was read and the event
   descriptor closed. *)
Theorem C17_daemon_self_ignored self rev e path nc h o w :
  well_formed e = true -> ev_exec e = false -> ev_pid e = self ->
  dispatch_of self (NEvent e path nc) h o w = (Some h, w) /\
  event_outs self (NEvent e path nc) = [ORead; OClose (ev_fd e)] /\
  iteration self rev (NEvent e path nc) h o w = service rev [ORead; OClose (ev_fd e)] h o w /\
  iteration self rev NWake h o w = service rev [] h o w.
Proof.
  intros Hwf He Hp.
  assert (Hd : dispatched self e = false).
  { unfold dispatched. rewrite He, Hp, N.eqb_refl. cbn [negb orb]. apply andb_false_r. }
  assert (Ho : disp_outs self e = []).
  { unfold disp_outs. rewrite He, Hp, N.eqb_refl. cbn [negb]. rewrite andb_false_r. reflexivity. }
  split; [apply not_dispatched; exact Hd|].
  split; [cbn [event_outs]; rewrite Ho; reflexivity|].
  split; [|reflexivity].
  rewrite iteration_run by reflexivity. cbn [fatal]. rewrite Hwf. cbn [negb].
  rewrite (not_dispatched self (NEvent e path nc) h o w Hd). cbn [dispatched_n event_outs].
  rewrite Hd, Ho. reflexivity.
Qed.
Print Assumptions C17_daemon_self_ignored.

(* STOP ON ERROR: a poll failure, an unexpected poll condition, a failed or
   short read, an unsupported format or a queue overflow stop the daemon: no
   handler program runs (handler and world are those of the loop head) and the
   queue is not serviced *)
Theorem C17_daemon_stop_on_error self rev o n rest pause h w :
  fatal n = true ->
  daemon_loop self rev (n :: rest) pause h o w = (Some (OPoll (poll_ms pause) :: fatal_outs n, h), w).
Proof.
  intros Hf. assert (Hn : is_env n = false) by (destruct n; try reflexivity; discriminate Hf).
  rewrite (daemon_loop_cons _ _ _ _ _ _ _ _ Hn), (iteration_run _ _ _ _ _ _ Hn), Hf. reflexivity.
Qed.
Print Assumptions C17_daemon_stop_on_error.

(* HANDLER ERROR: the dispatched program left an error on the trace: the
   descriptor is closed, then the daemon exits with the message of the kind;
   the timeout pass does not run (in main.c it is called and returns at once:
   handle_timeout_not_ok) *)
Theorem C17_daemon_handler_error self rev o n rest pause h w h1 w1 :
  is_env n = false -> fatal n = false ->
  dispatch_of self n h o w = (Some h1, w1) -> dispatched_n self n = true -> okw w1 = false ->
  daemon_loop self rev (n :: rest) pause h o w =
  (Some (OPoll (poll_ms pause) :: event_outs self n ++ [OExit 1 (Some (top_of n))], h1), w1) /\
  handle_timeout rev h1 o w1 = (Some (TError, h1), w1).
Proof.
  intros Hn Hf Ed Hd K. split; [|apply handle_timeout_not_ok; exact K].
  rewrite (daemon_loop_cons _ _ _ _ _ _ _ _ Hn), (iteration_run _ _ _ _ _ _ Hn), Hf, Ed, Hd, K. reflexivity.
Qed.
Print Assumptions C17_daemon_handler_error.

(* ====================================================================== *)
(* (b) a daemon run is a history of handler steps                         *)
(* ====================================================================== *)

(* the handler steps of one notification: the dispatched program (if any),
   then ALWAYS the pass; an environment change is the HEnv step *)
Definition disp_steps (self : N) (n : notif) : list step :=
  match n with
  | NEvent e path nc =>
      if ev_exec e then [HExec (ev_pid e) path]
      else if ev_write e && negb (ev_pid e =? self) then [HWrite (ev_pid e) path nc]
      else []
  | _ => []
  end.

Definition steps_of_notif (self : N) (rev : bool) (n : notif) : list step :=
  match n with
  | NEnv w2 => [HEnv w2]
  | _ => disp_steps self n ++ [HPass rev]
  end.

(* the history of a notification list; it ends at the first notification at
   which main.c exits without calling the handler *)
Fixpoint steps_of (self : N) (rev : bool) (ns : list notif) : list step :=
  match ns with
  | [] => []
  | n :: rest => if fatal n then [] else steps_of_notif self rev n ++ steps_of self rev rest
  end.

(* the environment does not put errors on the daemon's trace *)
Fixpoint envs_ok (ns : list notif) : Prop :=
  match ns with
  | [] => True
  | NEnv w2 :: rest => okw w2 = true /\ envs_ok rest
  | _ :: rest => envs_ok rest
  end.

Lemma hrun_dispatch self n h o w s :
  okw w = true ->
  hrun o (disp_steps self n ++ s) h w =
  match dispatch_of self n h o w with
  | (Some h1, w1) => hrun o s h1 w1
  | (None, w1) => (None, w1)
  end.
Proof.
  intros K. destruct n as [|e path nc| | | | |w2]; try reflexivity.
  cbn [disp_steps dispatch_of]. unfold after_dispatch.
  destruct (ev_exec e).
  - cbn [app ReloadHistory.run step_run]. rewrite K. reflexivity.
  - destruct (ev_write e && negb (ev_pid e =? self)); [|reflexivity].
    cbn [app ReloadHistory.run step_run]. rewrite K. reflexivity.
Qed.

Lemma hrun_pass rev h o w s :
  okw w = true ->
  hrun o (HPass rev :: s) h w =
  match handle_timeout rev h o w with
  | (Some r, w1) => hrun o s (snd r) w1
  | (None, w1) => (None, w1)
  end.
Proof.
  intros K. cbn [ReloadHistory.run step_run]. rewrite K. unfold bind.
  destruct (handle_timeout rev h o w) as [[r|] w1]; reflexivity.
Qed.

(* one iteration is the steps of its notification *)
Lemma iteration_history self rev n h o w rv w2 s :
  is_env n = false -> fatal n = false -> okw w = true ->
  iteration self rev n h o w = (rv, w2) ->
  match rv with
  | None => hrun o (steps_of_notif self rev n ++ s) h w = (None, w2)
  | Some (Next _ _ h2) =>
      okw w2 = true /\ hrun o (steps_of_notif self rev n ++ s) h w = hrun o s h2 w2
  | Some (Stop outs h2) =>
      (okw w2 = false /\ hrun o (steps_of_notif self rev n ++ s) h w = (Some h2, w2)) \/
      (okw w2 = true /\ In (OExit 1 (Some T_timeout)) outs)
  end.
Proof.
  intros Hn Hf K E. rewrite (iteration_run _ _ _ _ _ _ Hn), Hf in E.
  assert (Es : steps_of_notif self rev n ++ s = disp_steps self n ++ HPass rev :: s).
  { destruct n; try discriminate Hn; cbn [steps_of_notif]; rewrite <- app_assoc; reflexivity. }
  rewrite Es, (hrun_dispatch _ _ _ _ _ _ K).
  destruct (dispatch_of self n h o w) as [[h1|] w1] eqn:Ed.
  2:{ injection E as <- <-. reflexivity. }
  assert (Hcase : (negb (dispatched_n self n) || okw w1 = true /\ okw w1 = true) \/
                  (negb (dispatched_n self n) || okw w1 = false /\ okw w1 = false)).
  { destruct (dispatched_n self n) eqn:Hd; cbn [negb orb].
    - destruct (okw w1); auto.
    - rewrite (not_dispatched _ _ _ _ _ Hd) in Ed. injection Ed as <- <-. left. auto. }
  destruct Hcase as [[Hc K1]|[Hc K1]]; rewrite Hc in E.
  - rewrite (hrun_pass _ _ _ _ _ K1). rewrite service_run in E.
    destruct (handle_timeout rev h1 o w1) as [[[[z|] h2]|] w3] eqn:Et.
    + injection E as <- <-. cbn [snd]. split; [exact (handle_timeout_pause_ok _ _ _ _ _ _ _ Et)|reflexivity].
    + injection E as <- <-. cbn [snd]. destruct (okw w3) eqn:K3.
      * right. split; [reflexivity|]. apply in_or_app. right. right. left. reflexivity.
      * left. split; [reflexivity|]. apply run_not_ok. exact K3.
    + injection E as <- <-. reflexivity.
  - injection E as <- <-. left. split; [exact K1|]. apply run_not_ok. exact K1.
Qed.

(* THE GENERAL FORM.  From an error-free world, under EVERY oracle: whatever
   the daemon run does -- goes through all the notifications, stops on a
   notification it cannot handle, stops because a handler program left an
   error, or dies in a call (r = None) -- its final handler and world are those
   of ReloadHistory.run over steps_of, PROVIDED that handle_timeout did not
   answer TError with an error-free trace (the answer the model gives when
   its fuel runs out; it corresponds to nothing main.c can see). *)
Theorem daemon_is_history_gen self rev o : forall ns pause h w r w',
  okw w = true -> envs_ok ns ->
  daemon_loop self rev ns pause h o w = (r, w') ->
  (forall outs h', r = Some (outs, h') -> In (OExit 1 (Some T_timeout)) outs -> okw w' = false) ->
  hrun o (steps_of self rev ns) h w = (option_map snd r, w').
Proof.
  induction ns as [|n rest IH]; intros pause h w r w' K He E Hx.
  - rewrite daemon_loop_nil in E. injection E as <- <-. reflexivity.
  - destruct (is_env n) eqn:Hn.
    + destruct n as [| | | | | |w2]; try discriminate Hn. rewrite daemon_loop_env in E.
      cbn [envs_ok] in He. destruct He as [K2 He].
      cbn [steps_of fatal steps_of_notif app ReloadHistory.run step_run]. rewrite K.
      exact (IH _ _ _ _ _ K2 He E Hx).
    + assert (He' : envs_ok rest) by (destruct n; try discriminate Hn; exact He).
      cbn [steps_of]. destruct (fatal n) eqn:Hf.
      * rewrite (C17_daemon_stop_on_error _ _ _ _ _ _ _ _ Hf) in E. injection E as <- <-. reflexivity.
      * rewrite (daemon_loop_cons _ _ _ _ _ _ _ _ Hn) in E.
        destruct (iteration self rev n h o w) as [rv w1] eqn:Ei.
        pose proof (iteration_history _ _ _ _ _ _ _ _ (steps_of self rev rest) Hn Hf K Ei) as Hi.
        destruct rv as [[outs1 h1|outs1 z h1]|].
        -- injection E as <- <-. cbn [option_map snd].
           destruct Hi as [[_ Hi]|[K1 Hin]]; [exact Hi|].
           exfalso. rewrite (Hx _ _ eq_refl) in K1; [discriminate K1|]. right. exact Hin.
        -- destruct Hi as [K1 Hi]. rewrite Hi.
           destruct (daemon_loop self rev rest z h1 o w1) as [[t|] w2] eqn:Er.
           ++ injection E as <- <-.
              rewrite (IH _ _ _ _ _ K1 He' Er); [reflexivity|].
              intros outs2 h2 Et Hin. apply (Hx _ _ eq_refl). injection Et as ->. cbn [fst].
              right. apply in_or_app. right. exact Hin.
           ++ injection E as <- <-.
              rewrite (IH _ _ _ _ _ K1 He' Er); [reflexivity|]. intros outs2 h2 Et. discriminate Et.
        -- injection E as <- <-. exact Hi.
Qed.
Print Assumptions daemon_is_history_gen.

Definition no_exit (outs : list out) : Prop := forall c t, ~ In (OExit c t) outs.

(* a run that never exits ends at a loop head: no error is pending *)
Lemma daemon_no_exit_ok self rev o : forall ns pause h w outs h' w',
  okw w = true -> envs_ok ns ->
  daemon_loop self rev ns pause h o w = (Some (outs, h'), w') -> no_exit outs -> okw w' = true.
Proof.
  induction ns as [|n rest IH]; intros pause h w outs h' w' K He E Hne.
  - rewrite daemon_loop_nil in E. injection E as _ _ <-. exact K.
  - destruct (is_env n) eqn:Hn.
    + destruct n as [| | | | | |w2]; try discriminate Hn. rewrite daemon_loop_env in E.
      destruct He as [K2 He]. exact (IH _ _ _ _ _ _ K2 He E Hne).
    + assert (He' : envs_ok rest) by (destruct n; try discriminate Hn; exact He).
      destruct (C17_daemon_iteration _ _ _ _ _ _ _ _ _ _ _ Hn E)
        as [(pre & t & ->)|(h1 & w1 & z & h2 & w2 & tl & _ & _ & Et & Er & ->)].
      * exfalso. apply (Hne 1%nat (Some t)). right. apply in_or_app. right. left. reflexivity.
      * apply (IH _ _ _ _ _ _ (handle_timeout_pause_ok _ _ _ _ _ _ _ Et) He' Er).
        intros c t Hin. apply (Hne c t). right. apply in_or_app. right. right. exact Hin.
Qed.

(* (b) THE DAEMON PERFORMS EXACTLY THE HISTORY steps_of.  Under EVERY oracle:
   a daemon run that does not exit ends with the handler and in the world of
   ReloadHistory.run over the steps of its notifications (for each one the
   dispatched handler program if any, then the pass; HEnv for a change of the
   environment), and no error is pending -- so every theorem about
   ReloadHistory.run applies to it. *)
Theorem daemon_is_history self rev o ns pause h w outs h' w' :
  okw w = true -> envs_ok ns ->
  daemon_loop self rev ns pause h o w = (Some (outs, h'), w') -> no_exit outs ->
  hrun o (steps_of self rev ns) h w = (Some h', w') /\ okw w' = true.
Proof.
  intros K He E Hne. split; [|exact (daemon_no_exit_ok _ _ _ _ _ _ _ _ _ _ K He E Hne)].
  apply (daemon_is_history_gen _ _ _ _ _ _ _ _ _ K He E).
  intros outs2 h2 Eq Hin. exfalso. injection Eq as <- _. exact (Hne _ _ Hin).
Qed.
Print Assumptions daemon_is_history.

(* the same when the run was stopped by an error on the trace: the history
   stops at the same step (history_config_stopped and the like apply) *)
Theorem daemon_is_history_stopped self rev o ns pause h w outs h' w' :
  okw w = true -> envs_ok ns ->
  daemon_loop self rev ns pause h o w = (Some (outs, h'), w') -> okw w' = false ->
  hrun o (steps_of self rev ns) h w = (Some h', w').
Proof.
  intros K He E K'. apply (daemon_is_history_gen _ _ _ _ _ _ _ _ _ K He E). intros; exact K'.
Qed.
Print Assumptions daemon_is_history_stopped.

(* and when the process died in a call *)
Theorem daemon_crash_is_history self rev o ns pause h w w' :
  okw w = true -> envs_ok ns ->
  daemon_loop self rev ns pause h o w = (None, w') ->
  hrun o (steps_of self rev ns) h w = (None, w').
Proof.
  intros K He E. apply (daemon_is_history_gen _ _ _ _ _ _ _ _ _ K He E). intros outs h' Eq. discriminate Eq.
Qed.
Print Assumptions daemon_crash_is_history.

(* ====================================================================== *)
(* The state at the loop head after a prefix of the notifications         *)
(* ====================================================================== *)

(* (pause, handler, world) at the loop head once all of [ns] has been gone
   through without exit or death; None otherwise *)
Fixpoint daemon_state (self : N) (rev : bool) (o : oracle) (ns : list notif) (pause : Z)
         (h : handler) (w : world) : option (Z * handler * world) :=
  match ns with
  | [] => Some (pause, h, w)
  | NEnv w2 :: rest => daemon_state self rev o rest pause h w2
  | n :: rest =>
      match iteration self rev n h o w with
      | (Some (Next _ z h'), w') => daemon_state self rev o rest z h' w'
      | _ => None
      end
  end.

Lemma daemon_state_cons self rev o n rest pause h w :
  is_env n = false ->
  daemon_state self rev o (n :: rest) pause h w =
  match iteration self rev n h o w with
  | (Some (Next _ z h'), w') => daemon_state self rev o rest z h' w'
  | _ => None
  end.
Proof. intros Hn. destruct n; try discriminate Hn; reflexivity. Qed.

Lemma daemon_state_app self rev o pre : forall post pause h w,
  daemon_state self rev o (pre ++ post) pause h w =
  match daemon_state self rev o pre pause h w with
  | Some (z, hp, wp) => daemon_state self rev o post z hp wp
  | None => None
  end.
Proof.
  induction pre as [|n pre IH]; intros post pause h w; [reflexivity|].
  destruct (is_env n) eqn:Hn.
  - destruct n; try discriminate Hn. cbn [app daemon_state]. apply IH.
  - cbn [app]. rewrite !(daemon_state_cons _ _ _ _ _ _ _ _ Hn).
    destruct (iteration self rev n h o w) as [[[outs1 h1|outs1 z h1]|] w1]; try reflexivity. apply IH.
Qed.

Lemma no_exit_event_outs self n : no_exit (event_outs self n).
Proof.
  intros c t Hin. destruct n as [|e path nc| | | | |w2]; try exact Hin.
  cbn [event_outs] in Hin. destruct Hin as [Hin|Hin]; [discriminate Hin|].
  apply in_app_or in Hin. destruct Hin as [Hin|[Hin|[]]]; [|discriminate Hin].
  unfold disp_outs in Hin. destruct (ev_exec e); [destruct Hin as [Hin|[]]; discriminate Hin|].
  destruct (ev_write e && negb (ev_pid e =? self)); [destruct Hin as [Hin|[]]; discriminate Hin|exact Hin].
Qed.

(* an exit-free run reaches the loop head after its last notification *)
Lemma daemon_state_of_run self rev o : forall ns pause h w outs h' w',
  daemon_loop self rev ns pause h o w = (Some (outs, h'), w') -> no_exit outs ->
  exists z, daemon_state self rev o ns pause h w = Some (z, h', w').
Proof.
  induction ns as [|n rest IH]; intros pause h w outs h' w' E Hne.
  - rewrite daemon_loop_nil in E. injection E as _ <- <-. exists pause. reflexivity.
  - destruct (is_env n) eqn:Hn.
    + destruct n as [| | | | | |w2]; try discriminate Hn. rewrite daemon_loop_env in E.
      exact (IH _ _ _ _ _ _ E Hne).
    + rewrite (daemon_state_cons _ _ _ _ _ _ _ _ Hn).
      rewrite (daemon_loop_cons _ _ _ _ _ _ _ _ Hn) in E.
      destruct (iteration self rev n h o w) as [[v|] w1] eqn:Ei; [|discriminate E].
      destruct (iteration_cases _ _ _ _ _ _ _ _ Hn Ei)
        as [(Hf & -> & ->)|(Hf & h1 & w1' & Ed & [(Hd & K & -> & ->)|(Hk & r & Et & ->)])].
      * exfalso. injection E as <- _ _.
        destruct n as [|e path nc| | | | |w2]; try discriminate Hf; cbn [fatal_outs] in Hne.
        -- apply (Hne 1%nat (Some (if negb (ev_vers_ok e) then T_version else T_overflow))). right. right. left. reflexivity.
        -- apply (Hne 1%nat (Some T_poll)). right. left. reflexivity.
        -- apply (Hne 1%nat (Some T_poll)). right. left. reflexivity.
        -- apply (Hne 1%nat (Some T_read)). right. right. left. reflexivity.
        -- apply (Hne 1%nat (Some T_read)). right. right. left. reflexivity.
      * exfalso. injection E as <- _ _. apply (Hne 1%nat (Some (top_of n))).
        right. apply in_or_app. right. left. reflexivity.
      * destruct r as [[z|] h2]; cbn [fst snd] in *.
        -- destruct (daemon_loop self rev rest z h2 o w1) as [[[outs2 h3]|] w3] eqn:Er; [|discriminate E].
           injection E as <- <- <-. apply (IH _ _ _ _ _ _ Er).
           intros c t Hin. apply (Hne c t). right. apply in_or_app. right. exact Hin.
        -- exfalso. injection E as <- _ _. apply (Hne 1%nat (Some T_timeout)).
           right. apply in_or_app. right. right. left. reflexivity.
Qed.

(* the run over a longer list goes through the state reached after a prefix *)
Lemma daemon_loop_app self rev o pre : forall pause h w zp hp wp,
  daemon_state self rev o pre pause h w = Some (zp, hp, wp) ->
  exists outs_p, no_exit outs_p /\
    forall post,
      daemon_loop self rev (pre ++ post) pause h o w =
      match daemon_loop self rev post zp hp o wp with
      | (Some t, w2) => (Some (outs_p ++ fst t, snd t), w2)
      | (None, w2) => (None, w2)
      end.
Proof.
  induction pre as [|n pre IH]; intros pause h w zp hp wp E.
  - cbn [daemon_state] in E. injection E as <- <- <-. exists []. split; [intros c t []|].
    intros post. cbn [app]. destruct (daemon_loop self rev post pause h o w) as [[[outs2 h2]|] w2]; reflexivity.
  - destruct (is_env n) eqn:Hn.
    + destruct n as [| | | | | |w2]; try discriminate Hn. cbn [daemon_state] in E.
      destruct (IH _ _ _ _ _ _ E) as (outs_p & Hne & Hp). exists outs_p. split; [exact Hne|].
      intros post. cbn [app]. rewrite daemon_loop_env. apply Hp.
    + rewrite (daemon_state_cons _ _ _ _ _ _ _ _ Hn) in E.
      destruct (iteration self rev n h o w) as [[[outs1 h1|outs1 z h1]|] w1] eqn:Ei; try discriminate E.
      destruct (IH _ _ _ _ _ _ E) as (outs_p & Hne & Hp).
      exists (OPoll (poll_ms pause) :: outs1 ++ outs_p). split.
      * intros c t [Hin|Hin]; [discriminate Hin|]. apply in_app_or in Hin. destruct Hin as [Hin|Hin]; [|exact (Hne _ _ Hin)].
        destruct (iteration_cases _ _ _ _ _ _ _ _ Hn Ei)
          as [(_ & _ & Ev)|(_ & h1' & w1' & _ & [(_ & _ & _ & Ev)|(_ & r & _ & Ev)])]; try discriminate Ev.
        destruct r as [[z'|] h2]; cbn [fst snd] in Ev; [|discriminate Ev].
        injection Ev as -> _ _. apply in_app_or in Hin. destruct Hin as [Hin|[Hin|[]]]; [|discriminate Hin].
        exact (no_exit_event_outs _ _ _ _ Hin).
      * intros post. cbn [app]. rewrite (daemon_loop_cons _ _ _ _ _ _ _ _ Hn), Ei, Hp.
        destruct (daemon_loop self rev post zp hp o wp) as [[[outs2 h2]|] w2]; [|reflexivity].
        cbn [fst snd]. rewrite <- app_assoc. reflexivity.
Qed.

(* ====================================================================== *)
(* (d) the daemon's own writes queue nothing                              *)
(* ====================================================================== *)

(* an event that reaches no handler program: a well-formed one without the exec
   bit, whose write bit (if set) comes from the daemon itself *)
Definition ignored (self : N) (n : notif) : bool :=
  match n with
  | NEvent e _ _ => well_formed e && negb (dispatched self e)
  | _ => false
  end.

Definition as_wakeup (self : N) (n : notif) : notif := if ignored self n then NWake else n.

(* what a run ends with, the [out] items put aside *)
Definition final (x : option (list out * handler) * world) : option handler * world :=
  (option_map snd (fst x), snd x).

Lemma final_cons self rev o n rest pause h w :
  is_env n = false ->
  final (daemon_loop self rev (n :: rest) pause h o w) =
  match iteration self rev n h o w with
  | (Some (Stop _ h'), w1) => (Some h', w1)
  | (Some (Next _ z h'), w1) => final (daemon_loop self rev rest z h' o w1)
  | (None, w1) => (None, w1)
  end.
Proof.
  intros Hn. rewrite (daemon_loop_cons _ _ _ _ _ _ _ _ Hn).
  destruct (iteration self rev n h o w) as [[[outs1 h1|outs1 z h1]|] w1]; try reflexivity.
  destruct (daemon_loop self rev rest z h1 o w1) as [[[outs2 h2]|] w2]; reflexivity.
Qed.

Lemma iteration_ignored self rev n h o w :
  ignored self n = true -> iteration self rev n h o w = service rev (event_outs self n) h o w.
Proof.
  destruct n as [|e path nc| | | | |w2]; try discriminate. cbn [ignored]. intros Hi.
  apply andb_prop in Hi. destruct Hi as [Hwf Hd]. apply negb_true_iff in Hd.
  rewrite iteration_run by reflexivity. cbn [fatal]. rewrite Hwf. cbn [negb].
  rewrite (not_dispatched self (NEvent e path nc) h o w Hd). cbn [dispatched_n]. rewrite Hd. reflexivity.
Qed.

(* (d), EVERY oracle, every world, every continuation (exit, death included):
   replacing each ignored event -- in particular each write notification whose
   pid is the daemon's own -- by a plain wake-up changes neither the final
   handler (queue, pid table, configuration) nor the final world (queue
   directory, store, journal, call log, trace): storing versions inside a
   watched directory has exactly the effect of the timeout passes alone. *)
Theorem daemon_self_writes_are_wakeups self rev o : forall ns pause h w,
  final (daemon_loop self rev ns pause h o w) =
  final (daemon_loop self rev (map (as_wakeup self) ns) pause h o w).
Proof.
  induction ns as [|n rest IH]; intros pause h w; [reflexivity|].
  cbn [map]. unfold as_wakeup at 1. destruct (ignored self n) eqn:Hi.
  - assert (Hn : is_env n = false) by (destruct n; try reflexivity; discriminate Hi).
    rewrite (final_cons _ _ _ _ _ _ _ _ Hn), (final_cons _ _ _ NWake _ _ _ _ eq_refl).
    rewrite (iteration_ignored _ _ _ _ _ _ Hi). cbn [iteration]. rewrite !service_run.
    destruct (handle_timeout rev h o w) as [[[[z|] h2]|] w2]; try reflexivity. apply IH.
  - destruct (is_env n) eqn:Hn.
    + destruct n; try discriminate Hn. rewrite !daemon_loop_env. apply IH.
    + rewrite !(final_cons _ _ _ _ _ _ _ _ Hn).
      destruct (iteration self rev n h o w) as [[[outs1 h1|outs1 z h1]|] w1]; try reflexivity. apply IH.
Qed.
Print Assumptions daemon_self_writes_are_wakeups.

(* the same through (b): when every event of the list is an ignored one (no
   exec; every write by the daemon itself), the history of the run consists of
   timeout passes and environment steps only *)
Definition only_own_writes (self : N) (ns : list notif) : Prop :=
  forall n, In n ns -> n = NWake \/ is_env n = true \/ ignored self n = true.

Definition pass_or_env (st : step) : Prop :=
  match st with HPass _ | HEnv _ => True | _ => False end.

Definition passes_of (rev : bool) (ns : list notif) : list step :=
  map (fun n => match n with NEnv w2 => HEnv w2 | _ => HPass rev end) ns.

Lemma steps_of_own_writes self rev ns :
  only_own_writes self ns -> steps_of self rev ns = passes_of rev ns.
Proof.
  induction ns as [|n rest IH]; intros Ho; [reflexivity|].
  assert (Ho' : only_own_writes self rest) by (intros x Hx; apply Ho; right; exact Hx).
  cbn [steps_of passes_of map]. fold (passes_of rev rest). rewrite <- (IH Ho').
  destruct (Ho n (or_introl eq_refl)) as [->|[Hn|Hi]]; [reflexivity| |].
  - destruct n; try discriminate Hn. reflexivity.
  - destruct n as [|e path nc| | | | |w2]; try discriminate Hi. cbn [ignored] in Hi.
    apply andb_prop in Hi. destruct Hi as [Hwf Hd]. apply negb_true_iff in Hd.
    cbn [fatal]. rewrite Hwf. cbn [negb steps_of_notif disp_steps].
    unfold dispatched in Hd. apply orb_false_iff in Hd. destruct Hd as [-> ->]. reflexivity.
Qed.

Theorem daemon_own_writes_queue_nothing self rev o ns pause h w outs h' w' :
  okw w = true -> envs_ok ns -> only_own_writes self ns ->
  daemon_loop self rev ns pause h o w = (Some (outs, h'), w') -> no_exit outs ->
  hrun o (passes_of rev ns) h w = (Some h', w') /\
  Forall pass_or_env (steps_of self rev ns).
Proof.
  intros K He Ho E Hne. rewrite <- (steps_of_own_writes self rev ns Ho).
  split; [exact (proj1 (daemon_is_history _ _ _ _ _ _ _ _ _ _ K He E Hne))|].
  rewrite (steps_of_own_writes self rev ns Ho). unfold passes_of. apply Forall_forall.
  intros st Hin. apply in_map_iff in Hin. destruct Hin as (n & <- & _). destruct n; exact I.
Qed.
Print Assumptions daemon_own_writes_queue_nothing.

(* without exec events, but with writes of other processes: the history has no
   HWrite step for a notification of the daemon's own *)
Theorem daemon_history_has_no_own_write self rev ns pid path nc :
  In (HWrite pid path nc) (steps_of self rev ns) -> pid <> self.
Proof.
  induction ns as [|n rest IH]; intros Hin; [destruct Hin|].
  cbn [steps_of] in Hin. destruct (fatal n); [destruct Hin|].
  apply in_app_or in Hin. destruct Hin as [Hin|Hin]; [|exact (IH Hin)].
  destruct n as [|e p c| | | | |w2]; cbn [steps_of_notif disp_steps app] in Hin;
    try (destruct Hin as [Hin|[]]; discriminate Hin).
  apply in_app_or in Hin. destruct Hin as [Hin|[Hin|[]]]; [|discriminate Hin].
  destruct (ev_exec e); [destruct Hin as [Hin|[]]; discriminate Hin|].
  destruct (ev_write e && negb (ev_pid e =? self)) eqn:Hw; [|destruct Hin].
  destruct Hin as [Hin|[]]. injection Hin as <- _ _.
  apply andb_prop in Hw. destruct Hw as [_ Hw]. apply negb_true_iff, N.eqb_neq in Hw. exact Hw.
Qed.
Print Assumptions daemon_history_has_no_own_write.

(* ====================================================================== *)
(* (c1) the configuration in force after a daemon run                     *)
(* ====================================================================== *)

(* the specification on NOTIFICATIONS: a write notification for the
   configuration file, from another process, without the exec bit, whose
   content is well-formed, installs that content; nothing else changes the
   configuration *)
Definition next_cfg_notif (self : N) (cp : option str) (c : config) (n : notif) : config :=
  match n, cp with
  | NEvent e path (Some nc), Some p =>
      if negb (ev_exec e) && (ev_write e && negb (ev_pid e =? self)) && str_eqb path p then nc else c
  | _, _ => c
  end.

Fixpoint cfg_of_notifs (self : N) (cp : option str) (c : config) (ns : list notif) : config :=
  match ns with
  | [] => c
  | n :: rest => if fatal n then c else cfg_of_notifs self cp (next_cfg_notif self cp c n) rest
  end.

Lemma cfg_in_force_steps_of self rev cp : forall ns c,
  cfg_in_force cp c (steps_of self rev ns) = cfg_of_notifs self cp c ns.
Proof.
  induction ns as [|n rest IH]; intros c; [reflexivity|].
  cbn [steps_of cfg_of_notifs]. destruct (fatal n); [reflexivity|].
  rewrite cfg_in_force_app, <- IH. f_equal.
  destruct n as [|e path nc| | | | |w2]; try (destruct cp; reflexivity).
  cbn [steps_of_notif disp_steps next_cfg_notif].
  destruct (ev_exec e); cbn [negb andb].
  - cbn [app cfg_in_force next_cfg]. destruct nc, cp; reflexivity.
  - destruct (ev_write e && negb (ev_pid e =? self)); cbn [andb app cfg_in_force next_cfg].
    + destruct nc as [nc|], cp as [p|]; reflexivity.
    + destruct nc, cp; reflexivity.
Qed.

(* ReloadHistory.history_config for the daemon, EVERY oracle: after a run that
   did not exit, the handler carries the configuration in force according to
   the specification on the notifications, and agrees with it (debounce of the
   queue, queue directory, journal handle); configuration path and
   common-parent length are those the daemon started with.
   Hypotheses: those of history_config (coherent h), an error-free start, and
   environment steps that leave the trace alone. *)
Theorem daemon_config_in_force self rev o ns pause h w outs h' w' :
  coherent h -> okw w = true -> envs_ok ns ->
  daemon_loop self rev ns pause h o w = (Some (outs, h'), w') -> no_exit outs ->
  let c := cfg_of_notifs self (h_cfg_path h) (h_cfg h) ns in
  c = cfg_in_force (h_cfg_path h) (h_cfg h) (steps_of self rev ns) /\
  h_cfg h' = c /\
  q_deb (h_q h') = c_debounce c /\
  q_dir (h_q h') = c_queue_path c /\
  journal_of c (h_journal h') /\
  h_cfg_path h' = h_cfg_path h /\ h_cpl h' = h_cpl h.
Proof.
  intros Hc K He E Hne. cbv zeta.
  destruct (daemon_is_history _ _ _ _ _ _ _ _ _ _ K He E Hne) as [R K'].
  pose proof (history_config o _ _ _ _ _ Hc R K') as Hh. cbv zeta in Hh.
  rewrite cfg_in_force_steps_of in Hh. split; [symmetry; apply cfg_in_force_steps_of|exact Hh].
Qed.
Print Assumptions daemon_config_in_force.

(* and when the daemon exited because a handler program left an error
   (ReloadHistory.history_config_stopped): the erring step applied nothing of
   a new configuration *)
Theorem daemon_config_stopped self rev o ns pause h w outs h' w' :
  coherent h -> okw w = true -> envs_ok ns ->
  daemon_loop self rev ns pause h o w = (Some (outs, h'), w') -> okw w' = false ->
  exists s1 st s2 h1 w1,
    steps_of self rev ns = s1 ++ st :: s2 /\
    hrun o s1 h w = (Some h1, w1) /\ okw w1 = true /\
    step_run st h1 o w1 = (Some h', w') /\
    h_cfg h1 = cfg_in_force (h_cfg_path h) (h_cfg h) s1 /\
    same_cfg h1 h' /\ coherent h'.
Proof.
  intros Hc K He E K'.
  exact (history_config_stopped o _ _ _ _ _ Hc K (daemon_is_history_stopped _ _ _ _ _ _ _ _ _ _ K He E K') K').
Qed.
Print Assumptions daemon_config_stopped.

(* ====================================================================== *)
(* (c2) who counts as an editor during a daemon run                       *)
(* ====================================================================== *)

(* the timeout pass never touches the pid table and the loader set: EVERY oracle *)
Lemma handle_timeout_loop_keeps_attr fuel : forall rev h,
  keeps (fun r => same_attr h (snd r)) (handle_timeout_loop fuel rev h).
Proof.
  induction fuel as [|fuel IH]; intros rev h; cbn [handle_timeout_loop];
    [apply keeps_ret; apply same_attr_refl|].
  apply keeps_bind. intros b. destruct (negb b); [apply keeps_ret; apply same_attr_refl|].
  apply keeps_bind. intros _. apply keeps_bind. intros [hd q1]. apply keeps_bind. intros _.
  assert (S1 : same_attr h (set_q q1 h)) by (split; reflexivity).
  apply keeps_bind. intros b1.
  destruct b1; [|apply keeps_ret; exact S1].
  destruct hd as [[z|path meta]|]; [apply keeps_ret; exact S1| |apply keeps_ret; exact S1].
  apply keeps_bind. intros v. apply keeps_bind. intros bv. apply keeps_bind. intros _.
  apply keeps_bind. intros b2.
  destruct v as [version|]; [|apply keeps_ret; exact S1].
  destruct b2; [|apply keeps_ret; exact S1].
  lazymatch goal with |- keeps _ (if ?x then _ else _) => destruct x end.
  { apply keeps_bind. intros _. apply keeps_bind. intros _. apply keeps_ret. exact S1. }
  destruct (N.odd meta).
  - apply keeps_bind. intros f. apply keeps_bind. intros ev. apply keeps_bind. intros _.
    apply keeps_bind. intros q2.
    intros o w r w' E. exact (IH rev (set_q q2 (set_q q1 h)) o w r w' E).
  - apply keeps_bind. intros off. apply keeps_bind. intros b3.
    destruct (negb b3); [apply keeps_ret; exact S1|].
    apply keeps_bind. intros f. apply keeps_bind. intros [[ev is_stored] sp'].
    apply keeps_bind. intros q2. apply keeps_bind. intros b4.
    destruct (negb b4).
    { apply keeps_bind. intros _. apply keeps_bind. intros _. apply keeps_ret. split; reflexivity. }
    apply keeps_bind. intros _. apply keeps_bind. intros _.
    intros o w r w' E. exact (IH rev (set_q q2 (set_q q1 h)) o w r w' E).
Qed.

Theorem handle_timeout_keeps_attribution o w rev h r w' :
  handle_timeout rev h o w = (Some r, w') ->
  h_pids (snd r) = h_pids h /\ h_interps (snd r) = h_interps h.
Proof.
  revert o w r w'. change (keeps (fun r => same_attr h (snd r)) (handle_timeout rev h)).
  unfold handle_timeout. intros o w r w' E.
  apply bind_inv in E. destruct E as (r1 & w1 & E1 & E2).
  pose proof (handle_timeout_loop_keeps_attr _ rev h o w r1 w1 E1) as S1.
  apply bind_inv in E2. destruct E2 as (b & w2 & _ & E3). unfold ret_ in E3. injection E3 as <- _.
  destruct b; exact S1.
Qed.
Print Assumptions handle_timeout_keeps_attribution.

Lemma tracks_same_attr h h' st :
  h_pids h' = h_pids h -> h_interps h' = h_interps h -> tracks h st -> tracks h' st.
Proof. intros Ep Ei [T1 T2]. split; [intros p; rewrite Ep; apply T1 | rewrite Ei; exact T2]. Qed.

(* The attribution events of the notifications, in the vocabulary of
   MixedHistory (EExec pid image interp / EWrite pid path / EEnv w2).  The
   loader an editor binary names is a fact of the file system at the moment
   of the exec, so the list is read off ALONG the run: [interp] is
   interp_of (file system at that loop head) image. *)
Definition events_of_notif (self : N) (n : notif) (f : fs) : list MixedHistory.event :=
  match n with
  | NEvent e path nc =>
      if well_formed e then
        if ev_exec e then [EExec (ev_pid e) path (interp_of f path)]
        else if ev_write e && negb (ev_pid e =? self) then [EWrite (ev_pid e) path]
        else []
      else []
  | NEnv w2 => [EEnv w2]
  | _ => []
  end.

Fixpoint events_along (self : N) (rev : bool) (o : oracle) (ns : list notif) (h : handler) (w : world)
  : list MixedHistory.event :=
  match ns with
  | [] => []
  | NEnv w2 :: rest => EEnv w2 :: events_along self rev o rest h w2
  | n :: rest =>
      events_of_notif self n (w_fs w) ++
      match iteration self rev n h o w with
      | (Some (Next _ _ h'), w') => events_along self rev o rest h' w'
      | _ => []
      end
  end.

Lemma events_along_cons self rev o n rest h w :
  is_env n = false ->
  events_along self rev o (n :: rest) h w =
  events_of_notif self n (w_fs w) ++
  match iteration self rev n h o w with
  | (Some (Next _ _ h'), w') => events_along self rev o rest h' w'
  | _ => []
  end.
Proof. intros Hn. destruct n; try discriminate Hn; reflexivity. Qed.

Lemma events_along_app self rev o pre : forall post pause h w zp hp wp,
  daemon_state self rev o pre pause h w = Some (zp, hp, wp) ->
  events_along self rev o (pre ++ post) h w =
  events_along self rev o pre h w ++ events_along self rev o post hp wp.
Proof.
  induction pre as [|n pre IH]; intros post pause h w zp hp wp E.
  - cbn [daemon_state] in E. injection E as _ <- <-. reflexivity.
  - destruct (is_env n) eqn:Hn.
    + destruct n; try discriminate Hn. cbn [daemon_state] in E. cbn [app events_along].
      rewrite (IH _ _ _ _ _ _ _ E). reflexivity.
    + rewrite (daemon_state_cons _ _ _ _ _ _ _ _ Hn) in E. cbn [app].
      rewrite !(events_along_cons _ _ _ _ _ _ _ Hn).
      destruct (iteration self rev n h o w) as [[[outs1 h1|outs1 z h1]|] w1]; try discriminate E.
      rewrite (IH _ _ _ _ _ _ _ E), app_assoc. reflexivity.
Qed.

(* no notification is a write of the configuration file (MixedHistory.WC_cfg):
   the editor list and the rules stay those of the start *)
Definition no_cfg_event (cp : option str) (ns : list notif) : Prop :=
  forall e path nc, In (NEvent e path nc) ns -> cp <> Some path.

Definition same_setup (h h' : handler) : Prop :=
  h_cfg h' = h_cfg h /\ h_cfg_path h' = h_cfg_path h /\ h_cpl h' = h_cpl h.

Lemma same_cfg_setup h h' : same_cfg h h' -> same_setup h h'.
Proof. intros (A1 & A2 & A3 & _). repeat split; assumption. Qed.

(* one iteration: the tables track one step of the specification *)
Lemma iteration_tracks self rev o n h w outs z h2 w2 st :
  benign o -> okw w = true -> is_env n = false ->
  (forall e path nc, n = NEvent e path nc -> h_cfg_path h <> Some path) ->
  tracks h st ->
  iteration self rev n h o w = (Some (Next outs z h2), w2) ->
  tracks h2 (fold_left (spec_step (c_editors (h_cfg h))) (events_of_notif self n (w_fs w)) st) /\
  same_setup h h2 /\ okw w2 = true.
Proof.
  intros H K Hn Hcp HT Ei.
  destruct (iteration_cases _ _ _ _ _ _ _ _ Hn Ei)
    as [(_ & _ & Ev)|(Hf & h1 & w1 & Ed & [(_ & _ & _ & Ev)|(_ & r & Et & Ev)])]; try discriminate Ev.
  destruct r as [[z'|] h2']; cbn [fst snd] in Ev; [|discriminate Ev]. injection Ev as _ <- <-.
  destruct (handle_timeout_keeps_attribution _ _ _ _ _ _ Et) as [P1 P2]. cbn [snd] in P1, P2.
  pose proof (same_cfg_setup _ _ (rv_handle_timeout rev h1 _ _ _ _ Et)) as S2. cbn [snd] in S2.
  split; [|split; [|exact (handle_timeout_pause_ok _ _ _ _ _ _ _ Et)]].
  - apply (tracks_same_attr h1 h2 _ P1 P2).
    destruct n as [|e path nc| | | | |w3]; try discriminate Hn; try discriminate Hf.
    + cbn [dispatch_of] in Ed. unfold ret_ in Ed. injection Ed as <- _. exact HT.
    + cbn [fatal] in Hf. apply negb_false_iff in Hf. cbn [events_of_notif]. rewrite Hf.
      cbn [dispatch_of] in Ed. unfold after_dispatch in Ed.
      destruct (ev_exec e).
      * destruct (handle_open_exec_refines o w (ev_pid e) path h H K) as (hx & wx & Ex & Eh & _).
        rewrite Ex in Ed. injection Ed as <- _. rewrite Eh. cbn [fold_left].
        apply tracks_exec; [exact HT|]. intros _. reflexivity.
      * destruct (ev_write e && negb (ev_pid e =? self)).
        -- destruct (close_write_keeps_attribution _ _ _ _ _ _ _ _ Ed) as [Q1 Q2].
           cbn [fold_left spec_step]. exact (tracks_same_attr h h1 _ Q1 Q2 HT).
        -- unfold ret_ in Ed. injection Ed as <- _. exact HT.
  - assert (S1 : same_setup h h1).
    { destruct n as [|e path nc| | | | |w3]; try discriminate Hn; try discriminate Hf.
      - cbn [dispatch_of] in Ed. unfold ret_ in Ed. injection Ed as <- _. repeat split.
      - cbn [dispatch_of] in Ed. unfold after_dispatch in Ed. destruct (ev_exec e).
        + exact (same_cfg_setup _ _ (proj1 (rv_handle_open_exec _ _ _ _ _ _ _ Ed))).
        + destruct (ev_write e && negb (ev_pid e =? self)).
          * apply same_cfg_setup. apply (rv_close_write_other _ _ _ _ (Hcp _ _ _ eq_refl) _ _ _ _ Ed).
          * unfold ret_ in Ed. injection Ed as <- _. repeat split. }
    destruct S1 as (A1 & A2 & A3), S2 as (B1 & B2 & B3). repeat split; congruence.
Qed.

(* ATTRIBUTION ALONG A DAEMON RUN (every benign oracle, every pid : N, passes,
   wake-ups, the daemon's own writes and environment steps interleaved in any
   way): the pid table of the handler answers as MixedHistory.is_editor_at does
   on the attribution events of the run so far. *)
Theorem daemon_tracks_attribution_from self rev o : benign o -> forall ns pause h w st zp hp wp,
  okw w = true -> envs_ok ns -> no_cfg_event (h_cfg_path h) ns -> tracks h st ->
  daemon_state self rev o ns pause h w = Some (zp, hp, wp) ->
  tracks hp (fold_left (spec_step (c_editors (h_cfg h))) (events_along self rev o ns h w) st) /\
  same_setup h hp /\ okw wp = true.
Proof.
  intros H. induction ns as [|n rest IH]; intros pause h w st zp hp wp K He Hcp HT E.
  - cbn [daemon_state] in E. injection E as _ <- <-. cbn [events_along fold_left]. split; [exact HT|]. split; [repeat split|exact K].
  - assert (Hcp' : no_cfg_event (h_cfg_path h) rest) by (intros e p c Hin; apply (Hcp e p c); right; exact Hin).
    destruct (is_env n) eqn:Hn.
    + destruct n as [| | | | | |w2]; try discriminate Hn. cbn [daemon_state] in E. destruct He as [K2 He].
      cbn [events_along fold_left spec_step]. exact (IH _ _ _ _ _ _ _ K2 He Hcp' HT E).
    + assert (He' : envs_ok rest) by (destruct n; try discriminate Hn; exact He).
      rewrite (daemon_state_cons _ _ _ _ _ _ _ _ Hn) in E. rewrite (events_along_cons _ _ _ _ _ _ _ Hn).
      destruct (iteration self rev n h o w) as [[[outs1 h1|outs1 z h1]|] w1] eqn:Ei; try discriminate E.
      destruct (iteration_tracks _ _ _ _ _ _ _ _ _ _ _ H K Hn (fun e p c En => Hcp e p c (or_introl En)) HT Ei)
        as (T1 & (A1 & A2 & A3) & K1).
      rewrite fold_left_app.
      rewrite <- A2 in Hcp'.
      destruct (IH _ _ _ _ _ _ _ K1 He' Hcp' T1 E) as (T' & (B1 & B2 & B3) & K').
      rewrite A1 in T'. split; [exact T'|]. split; [repeat split; congruence|exact K'].
Qed.

Theorem daemon_tracks_attribution self rev o ns pause h w zp hp wp :
  benign o -> okw w = true -> envs_ok ns -> no_cfg_event (h_cfg_path h) ns ->
  h_pids h = [] -> h_interps h = [] ->
  daemon_state self rev o ns pause h w = Some (zp, hp, wp) ->
  (forall pid : N, pid_mem pid (h_pids hp) =
                   is_editor_at (c_editors (h_cfg h)) (events_along self rev o ns h w) pid) /\
  h_interps hp = s_ld (spec_state (c_editors (h_cfg h)) (events_along self rev o ns h w)) /\
  same_setup h hp /\ okw wp = true.
Proof.
  intros H K He Hcp Hp Hi E.
  destruct (daemon_tracks_attribution_from self rev o H ns pause h w s_init zp hp wp K He Hcp
              (tracks_init h Hp Hi) E) as ([T1 T2] & S' & K').
  split; [exact T1|]. split; [exact T2|]. split; assumption.
Qed.
Print Assumptions daemon_tracks_attribution.

(* ====================================================================== *)
(* (c3) the two sentences of C07 at a write notification of a daemon run  *)
(* ====================================================================== *)

(* a write notification that reaches handle_close_write *)
Definition foreign_write (self : N) (e : Main.event) : Prop :=
  well_formed e = true /\ ev_exec e = false /\ ev_write e = true /\ ev_pid e <> self.

Lemma foreign_write_dispatch self e path nc h :
  foreign_write self e ->
  dispatch_of self (NEvent e path nc) h = handle_close_write (ev_pid e) path nc h.
Proof.
  intros (_ & He & Hw & Hp). cbn [dispatch_of]. unfold after_dispatch. rewrite He, Hw.
  apply N.eqb_neq in Hp. rewrite Hp. reflexivity.
Qed.

(* "Writes by non-editor processes to paths that are not force-included are
   never queued", for the daemon: the notifications [pre] have been gone
   through (passes, wake-ups, own writes, environment steps included) and the
   daemon is at the loop head in (hp, wp); the next notification is a write by
   a process that does not count as an editor after the attribution events of
   the run so far, for a path whose deciding class is neither "included" nor
   "history".  Then handle_close_write -- which is what the daemon dispatches
   (daemon_loop_app, foreign_write_dispatch) -- returns the handler unchanged,
   the queue is the queue of before, no name of the file system changes, no
   error.  Hypotheses: benign oracle; fresh pid table at the start; no write
   of the configuration file among the notifications; QRel at that loop head;
   the journal time stamp fits a file name (as AcceptProofs.accept_write). *)
Theorem daemon_non_editor_never_queued self rev o pre e path nc pause h w zp hp wp ents :
  benign o -> okw w = true -> envs_ok pre -> no_cfg_event (h_cfg_path h) pre ->
  h_pids h = [] -> h_interps h = [] ->
  daemon_state self rev o pre pause h w = Some (zp, hp, wp) ->
  foreign_write self e -> h_cfg_path h <> Some path ->
  is_editor_at (c_editors (h_cfg h)) (events_along self rev o pre h w) (ev_pid e) = false ->
  class_of (h_cfg h) (h_cpl h) path <> Some (CRule KIncluded) ->
  class_of (h_cfg h) (h_cpl h) path <> Some (CRule KHistory) ->
  QRel (h_q hp) (w_fs wp) ents ->
  journal_fits (h_journal hp) (c_ev_write_not_by_editor (h_cfg h)) (w_clock wp) ->
  exists w1,
    dispatch_of self (NEvent e path nc) hp o wp = (Some hp, w1) /\
    QRel (h_q hp) (w_fs w1) ents /\ fs_dents (w_fs w1) = fs_dents (w_fs wp) /\
    okw w1 = true /\ w_clock w1 = w_clock wp.
Proof.
  intros H K He Hcp Hp Hi E Hfw Hpath Hed Hc1 Hc2 HR Hjf.
  destruct (daemon_tracks_attribution _ _ _ _ _ _ _ _ _ _ H K He Hcp Hp Hi E) as (T1 & _ & (A1 & A2 & A3) & Kp).
  rewrite (foreign_write_dispatch _ _ _ _ _ Hfw).
  destruct (push_decision (c_rules (h_cfg hp)) (h_cpl hp) (pid_mem (ev_pid e) (h_pids hp)) path)
    as [[pu ih] pr] eqn:Hd.
  assert (Epu : pu = false).
  { pose proof (push_decision_verdict (c_rules (h_cfg hp)) (h_cpl hp) (pid_mem (ev_pid e) (h_pids hp)) path) as Ev.
    rewrite Hd, T1, Hed, A1, A3 in Ev. cbn [fst] in Ev. rewrite Ev.
    apply verdict_non_editor; assumption. }
  subst pu.
  destruct (accept_write o wp hp (ev_pid e) path nc ents false ih pr H Kp HR Hd) as (w1 & E1 & J & HR1 & _ & K1 & _ & C1 & _).
  - rewrite A2. exact Hpath.
  - unfold write_ev. rewrite A1. exact Hjf.
  - discriminate.
  - cbv zeta in *. exists w1. split; [exact E1|]. split; [exact HR1|].
    split; [exact (journal_step_dents _ _ _ _ J)|]. split; [exact K1|exact C1].
Qed.
Print Assumptions daemon_non_editor_never_queued.

(* "Writes by editor processes to visible, non-excluded paths always are": the
   writer counts as an editor after the attribution events of the run so far,
   the deciding class is neither a hidden component nor "excluded".  Then the
   dispatch appends the entry of the file (and the entry of its project root,
   when it lies in a project), stamped with the clock of that moment. *)
Theorem daemon_editor_always_queued self rev o pre e path nc pause h w zp hp wp ents :
  benign o -> okw w = true -> envs_ok pre -> no_cfg_event (h_cfg_path h) pre ->
  h_pids h = [] -> h_interps h = [] ->
  daemon_state self rev o pre pause h w = Some (zp, hp, wp) ->
  foreign_write self e -> h_cfg_path h <> Some path ->
  is_editor_at (c_editors (h_cfg h)) (events_along self rev o pre h w) (ev_pid e) = true ->
  class_of (h_cfg h) (h_cpl h) path <> Some CHidden ->
  class_of (h_cfg h) (h_cpl h) path <> Some (CRule KExcluded) ->
  QRel (h_q hp) (w_fs wp) ents ->
  journal_fits (h_journal hp) (c_ev_write_by_editor (h_cfg h)) (w_clock wp) ->
  normal path ->
  (forall ih pr, push_decision (c_rules (h_cfg h)) (h_cpl h) true path = (true, ih, pr) ->
                 fits (q_len_guess (h_q hp)) (path, linq_meta ih pr, w_clock wp)) ->
  exists ih pr w1,
    push_decision (c_rules (h_cfg h)) (h_cpl h) true path = (true, ih, pr) /\
    dispatch_of self (NEvent e path nc) hp o wp = (Some (set_q (acc_q path pr (h_q hp)) hp), w1) /\
    QRel (acc_q path pr (h_q hp)) (w_fs w1) (ents ++ acc_ents path ih pr (w_clock wp)) /\
    okw w1 = true /\ w_clock w1 = w_clock wp.
Proof.
  intros H K He Hcp Hp Hi E Hfw Hpath Hed Hc1 Hc2 HR Hjf Hn Hfit.
  destruct (daemon_tracks_attribution _ _ _ _ _ _ _ _ _ _ H K He Hcp Hp Hi E) as (T1 & _ & (A1 & A2 & A3) & Kp).
  rewrite (foreign_write_dispatch _ _ _ _ _ Hfw).
  destruct (push_decision (c_rules (h_cfg h)) (h_cpl h) true path) as [[pu ih] pr] eqn:Hd.
  assert (Epu : pu = true).
  { pose proof (push_decision_verdict (c_rules (h_cfg h)) (h_cpl h) true path) as Ev.
    rewrite Hd in Ev. cbn [fst] in Ev. rewrite Ev. apply verdict_editor; assumption. }
  subst pu.
  assert (Hd' : push_decision (c_rules (h_cfg hp)) (h_cpl hp) (pid_mem (ev_pid e) (h_pids hp)) path = (true, ih, pr)).
  { rewrite T1, Hed, A1, A3. exact Hd. }
  destruct (accept_write o wp hp (ev_pid e) path nc ents true ih pr H Kp HR Hd') as (w1 & E1 & _ & HR1 & _ & K1 & _ & C1 & _).
  - rewrite A2. exact Hpath.
  - unfold write_ev. rewrite A1. exact Hjf.
  - intros _. exact (acc_ents_ok _ _ _ _ _ _ _ _ _ Hd' Hn (Hfit _ _ eq_refl)).
  - cbv zeta in *. exists ih, pr, w1. split; [reflexivity|]. split; [exact E1|].
    split; [exact HR1|]. split; [exact K1|exact C1].
Qed.
Print Assumptions daemon_editor_always_queued.

(* ====================================================================== *)
(* (e) A concrete daemon run                                              *)
(* ====================================================================== *)

Module DaemonExample.
  Import MixedExample.
  Local Open Scope char_scope.

  (* The world of MixedHistory.MixedExample: editors "vim" and "ed"; /h/x
     excluded but /h/x/i included; queue /q, store /st, journal /j, versions
     "v<seconds>", debounce 5 s; configuration file /h/c; common parent "/h/";
     a freshly loaded handler hM; clock 100; every transfer is cut into pieces
     of at most 2 bytes (o2).  The daemon's own pid is 1; every event comes with
     descriptor 5.

     Notifications: pid 7 executes /b/vim; pid 7 closes /h/a after writing,
     twice; the daemon itself closes /st/a/v100 after writing (a version it
     stored, in a watched directory); the clock moves to 106 s; poll times
     out. *)
  Definition self : N := 1.
  Definition fdn : N := 5.
  Definition ev_x (pid : N) : Main.event := mkEv true true false false pid fdn.
  Definition ev_w (pid : N) : Main.event := mkEv true false true false pid fdn.
  Definition p_sv : str := ["/"; "s"; "t"; "/"; "a"; "/"; "v"; "1"; "0"; "0"].
  Definition v106 : str := ["/"; "s"; "t"; "/"; "a"; "/"; "v"; "1"; "0"; "6"].

  Definition ns1 : list notif :=
    [ NEvent (ev_x 7) p_vim None; NEvent (ev_w 7) p_a None; NEvent (ev_w 7) p_a None;
      NEvent (ev_w self) p_sv None ].
  Definition clk (t : Z) (w : world) : world := mkW (w_fs w) (w_n w) (w_log w) t (w_tr w).
  Definition wE : world :=
    match daemon_state self false o2 ns1 0%Z hM wM with Some (_, _, w) => clk 106 w | None => wM end.
  Definition ns : list notif := ns1 ++ [NEnv wE; NWake].

  Definition outs_expected : list out :=
    [ OPoll 0; ORead; OExec 7 5; OClose 5; OTimeout;          (* nothing queued: wait indefinitely *)
      OPoll (-1000); ORead; OWrite 7 5; OClose 5; OTimeout;   (* /h/a queued at 100 s: 5 s to wait *)
      OPoll 5000; ORead; OWrite 7 5; OClose 5; OTimeout;
      OPoll 5000; ORead; OClose 5; OTimeout;                  (* the daemon's own write: no dispatch *)
      OPoll 5000; OTimeout;                                   (* the wake-up at 106 s stores the version *)
      OPoll (-1000); OEnd ].

  (* ----- direct evaluation ----- *)
  Example run_daemon :
    match daemon self false ns hM o2 wM with
    | (Some (outs, h'), w') =>
        outs = outs_expected /\
        (* the same list from Main.loop on the slots computed with the real handler *)
        loop self (slots_of self false o2 wM hM ns) 0 = outs_expected /\
        (* pid 7 counts as an editor; the queue is empty again *)
        h_pids h' = [7%N] /\ q_size (h_q h') = 0%N /\ q_bag (h_q h') = [] /\
        lookup (w_fs w') n0 = None /\ lookup (w_fs w') n1 = None /\
        (* ONE version of /h/a, stored by the pass of the wake-up *)
        lookup (w_fs w') v106 = Some (NFile 9) /\ f_bytes (get_file (w_fs w') 9) = ["a"] /\
        map fst (children (w_fs w') (p_st ++ ["/"; "a"])) = [v106] /\
        okw w' = true /\ w_clock w' = 106%Z
    | _ => False
    end.
  Proof. vm_compute. repeat split; reflexivity. Qed.

  Example steps_of_ns :
    steps_of self false ns =
    [ HExec 7 p_vim; HPass false; HWrite 7 p_a None; HPass false; HWrite 7 p_a None; HPass false;
      HPass false; HEnv wE; HPass false ].
  Proof. reflexivity. Qed.

  Example cfg_of_ns : cfg_of_notifs self (h_cfg_path hM) (h_cfg hM) ns = cfgM.
  Proof. reflexivity. Qed.

  (* ----- the hypotheses of the theorems hold ----- *)
  Definition h_R : handler :=
    match fst (daemon_loop self false ns 0%Z hM o2 wM) with Some (_, x) => x | None => hM end.
  Definition w_R : world := snd (daemon_loop self false ns 0%Z hM o2 wM).

  Lemma run_eq : daemon_loop self false ns 0%Z hM o2 wM = (Some (outs_expected, h_R), w_R).
  Proof. vm_compute. reflexivity. Qed.

  Lemma outs_no_exit : no_exit outs_expected.
  Proof.
    intros c t Hin. unfold outs_expected in Hin. cbn [In] in Hin.
    repeat (destruct Hin as [Hin|Hin]; [discriminate Hin|]). exact Hin.
  Qed.

  Lemma ns_envs_ok : envs_ok ns.
  Proof. unfold ns, ns1. cbn [app envs_ok]. split; [vm_compute; reflexivity|exact I]. Qed.

  Lemma hM_coherent : coherent hM.
  Proof.
    unfold coherent, journal_of. cbn. split; [reflexivity|]. split; [reflexivity|].
    split; [split; discriminate|]. intros jn E. injection E as <-. reflexivity.
  Qed.

  (* (a) through the theorem *)
  Example refines_by_theorem : outs_expected = loop self (slots_of self false o2 wM hM ns) 0.
  Proof. exact (daemon_refines_loop self false o2 ns 0%Z hM wM _ _ _ run_eq). Qed.

  (* (b) through the theorem: the run is the history *)
  Example history_by_theorem :
    ReloadHistory.run o2 (steps_of self false ns) hM wM = (Some h_R, w_R) /\ okw w_R = true.
  Proof. exact (daemon_is_history self false o2 ns 0%Z hM wM _ _ _ eq_refl ns_envs_ok run_eq outs_no_exit). Qed.

  (* (c1) the configuration in force *)
  Example config_by_theorem :
    h_cfg h_R = cfgM /\ q_deb (h_q h_R) = 5%Z /\ q_dir (h_q h_R) = p_q /\ h_cfg_path h_R = Some p_c /\ h_cpl h_R = 3%nat.
  Proof.
    destruct (daemon_config_in_force self false o2 ns 0%Z hM wM _ _ _ hM_coherent eq_refl ns_envs_ok run_eq outs_no_exit)
      as (_ & A1 & A2 & A3 & _ & A5 & A6).
    cbv zeta in *. rewrite cfg_of_ns in *. auto.
  Qed.

  (* (d) the daemon's own write is a wake-up: same final handler, same final world *)
  Example own_write_is_wakeup :
    map (as_wakeup self) ns =
      [ NEvent (ev_x 7) p_vim None; NEvent (ev_w 7) p_a None; NEvent (ev_w 7) p_a None; NWake; NEnv wE; NWake ] /\
    final (daemon_loop self false (map (as_wakeup self) ns) 0 hM o2 wM) = (Some h_R, w_R).
  Proof.
    split; [reflexivity|]. rewrite <- daemon_self_writes_are_wakeups, run_eq. reflexivity.
  Qed.

  (* a list of own writes and wake-ups only: the hypotheses of
     daemon_own_writes_queue_nothing hold, the history is passes only *)
  Definition ns_own : list notif := [ NEvent (ev_w self) p_sv None; NWake; NEvent (ev_w self) p_a None ].
  Example own_writes_only :
    only_own_writes self ns_own /\ steps_of self false ns_own = [HPass false; HPass false; HPass false] /\
    match daemon_loop self false ns_own 0 hM o2 wM with
    | (Some (outs, h'), w') => no_exit outs /\ h' = hM /\ w_fs w' = w_fs wM
    | _ => False
    end.
  Proof.
    split.
    { intros n [<-|[<-|[<-|[]]]]; [right; right; reflexivity | left; reflexivity | right; right; reflexivity]. }
    split; [reflexivity|]. vm_compute. split; [|split; reflexivity].
    intros c t Hin. repeat (destruct Hin as [Hin|Hin]; [discriminate Hin|]). exact Hin.
  Qed.

  (* (c2)/(c3) at the first write of pid 7: after [exec vim] the daemon is at
     the loop head in (hp1, wp1); pid 7 counts as an editor; the queue is empty *)
  Definition pre1 : list notif := [NEvent (ev_x 7) p_vim None].
  Definition st1 := daemon_state self false o2 pre1 0%Z hM wM.
  Definition hp1 : handler := match st1 with Some (_, x, _) => x | None => hM end.
  Definition wp1 : world := match st1 with Some (_, _, x) => x | None => wM end.

  Lemma st1_eq : daemon_state self false o2 pre1 0%Z hM wM = Some ((-1)%Z, hp1, wp1).
  Proof. vm_compute. reflexivity. Qed.

  Example editor_at_first_write :
    events_along self false o2 pre1 hM wM = [EExec 7 p_vim None] /\
    is_editor_at (c_editors (h_cfg hM)) (events_along self false o2 pre1 hM wM) 7 = true /\
    is_editor_at (c_editors (h_cfg hM)) (events_along self false o2 pre1 hM wM) 9 = false.
  Proof. vm_compute. repeat split; reflexivity. Qed.

  Lemma pre1_no_cfg : no_cfg_event (h_cfg_path hM) pre1.
  Proof.
    intros e path nc [Hin|[]]. injection Hin as <- <- <-. intros X. vm_compute in X. discriminate X.
  Qed.

  Lemma qp1_rel : QRel (h_q hp1) (w_fs wp1) [].
  Proof.
    assert (Eq : h_q hp1 = h_q hM) by (vm_compute; reflexivity). rewrite Eq.
    apply (QRel_same_dents _ (w_fs wM)); [vm_compute; reflexivity | exact qM_rel].
  Qed.

  Example first_write_by_theorem :
    exists w1,
      dispatch_of self (NEvent (ev_w 7) p_a None) hp1 o2 wp1 = (Some (set_q (pushed p_a (h_q hp1)) hp1), w1) /\
      QRel (pushed p_a (h_q hp1)) (w_fs w1) [(p_a, 0%N, 100%Z)] /\ okw w1 = true.
  Proof.
    destruct (daemon_editor_always_queued self false o2 pre1 (ev_w 7) p_a None 0%Z hM wM (-1)%Z hp1 wp1 []
                o2_benign eq_refl I pre1_no_cfg eq_refl eq_refl st1_eq) as (ih & pr & w1 & Hd & E1 & HR & K1 & _).
    - repeat split. intros X. discriminate X.
    - intros X. vm_compute in X. discriminate X.
    - destruct editor_at_first_write as (_ & A & _). exact A.
    - intros X. vm_compute in X. discriminate X.
    - intros X. vm_compute in X. discriminate X.
    - exact qp1_rel.
    - apply jfits_at; vm_compute; reflexivity.
    - apply normalb_spec. vm_compute. reflexivity.
    - intros ih pr Hd. apply fits_by_check; [vm_compute; reflexivity|].
      assert (X : push_decision (c_rules (h_cfg hM)) (h_cpl hM) true p_a = (true, false, None)) by (vm_compute; reflexivity).
      rewrite X in Hd. injection Hd as <- <-. vm_compute. reflexivity.
    - assert (X : push_decision (c_rules (h_cfg hM)) (h_cpl hM) true p_a = (true, false, None)) by (vm_compute; reflexivity).
      rewrite X in Hd. injection Hd as <- <-.
      assert (C : w_clock wp1 = 100%Z) by (vm_compute; reflexivity). rewrite C in HR.
      exists w1. split; [exact E1|]. split; [exact HR|exact K1].
  Qed.

  (* a write by pid 9 (never an editor) at the same point: by
     daemon_non_editor_never_queued nothing is queued *)
  Example non_editor_by_theorem :
    exists w1,
      dispatch_of self (NEvent (ev_w 9) p_a None) hp1 o2 wp1 = (Some hp1, w1) /\
      QRel (h_q hp1) (w_fs w1) [] /\ fs_dents (w_fs w1) = fs_dents (w_fs wp1) /\ okw w1 = true.
  Proof.
    destruct (daemon_non_editor_never_queued self false o2 pre1 (ev_w 9) p_a None 0%Z hM wM (-1)%Z hp1 wp1 []
                o2_benign eq_refl I pre1_no_cfg eq_refl eq_refl st1_eq) as (w1 & E1 & HR & D & K1 & _).
    - repeat split. intros X. discriminate X.
    - intros X. vm_compute in X. discriminate X.
    - destruct editor_at_first_write as (_ & _ & A). exact A.
    - intros X. vm_compute in X. discriminate X.
    - intros X. vm_compute in X. discriminate X.
    - exact qp1_rel.
    - apply jfits_at; vm_compute; reflexivity.
    - exists w1. auto.
  Qed.

  (* C17 directly: the pause slept after the second iteration is poll_ms of
     what handle_timeout answered on the world the write left *)
  Definition d2 := dispatch_of self (NEvent (ev_w 7) p_a None) hp1 o2 wp1.
  Definition h_d2 : handler := match fst d2 with Some x => x | None => hM end.
  Definition t2 := handle_timeout false h_d2 o2 (snd d2).
  Example second_sleep :
    fst d2 = Some h_d2 /\ okw (snd d2) = true /\
    (match fst t2 with Some (TPause z, _) => z = 5%Z | _ => False end) /\
    nth_error outs_expected 10 = Some (OPoll (poll_ms 5)) /\ poll_ms 5 = 5000%Z.
  Proof. vm_compute. repeat split; reflexivity. Qed.

  (* C17_daemon_sleep_is_pause applied to the first iteration of the run (the
     exec of vim): handle_timeout answers -1 on the empty queue, the daemon
     sleeps poll_ms (-1) = -1000: indefinitely *)
  Definition d1 := dispatch_of self (NEvent (ev_x 7) p_vim None) hM o2 wM.
  Definition h_d1 : handler := match fst d1 with Some x => x | None => hM end.
  Lemma d1_eq : dispatch_of self (NEvent (ev_x 7) p_vim None) hM o2 wM = (Some h_d1, snd d1).
  Proof. vm_compute. reflexivity. Qed.
  Lemma t1_eq : handle_timeout false h_d1 o2 (snd d1) = (Some (TPause (-1), hp1), wp1).
  Proof. vm_compute. reflexivity. Qed.

  Example sleep_by_theorem :
    (exists tl, outs_expected = OPoll (poll_ms 0) :: [ORead; OExec 7 5; OClose 5] ++ OTimeout :: OPoll (poll_ms (-1)) :: tl) /\
    (poll_ms (-1) < 0)%Z.
  Proof.
    destruct (C17_daemon_sleep_is_pause self false o2 (NEvent (ev_x 7) p_vim None)
                (skipn 1 ns1 ++ [NEnv wE; NWake]) 0%Z hM wM outs_expected h_R w_R h_d1 (snd d1) (-1)%Z hp1 wp1
                eq_refl eq_refl run_eq d1_eq) as (A & _ & B & _).
    - intros _. vm_compute. reflexivity.
    - exact t1_eq.
    - split; [exact A|apply B; reflexivity].
  Qed.

  (* C17_daemon_self_ignored applied to the daemon's own write *)
  Example self_ignored_by_theorem h o w :
    dispatch_of self (NEvent (ev_w self) p_sv None) h o w = (Some h, w) /\
    iteration self false (NEvent (ev_w self) p_sv None) h o w = service false [ORead; OClose 5] h o w.
  Proof.
    destruct (C17_daemon_self_ignored self false (ev_w self) p_sv None h o w eq_refl eq_refl eq_refl) as (A & _ & B & _).
    split; [exact A|exact B].
  Qed.

  (* daemon_own_writes_queue_nothing applied *)
  Example own_writes_by_theorem :
    exists outs h' w',
      daemon_loop self false ns_own 0 hM o2 wM = (Some (outs, h'), w') /\
      ReloadHistory.run o2 [HPass false; HPass false; HPass false] hM wM = (Some h', w') /\ h' = hM.
  Proof.
    destruct own_writes_only as (Ho & _ & R).
    destruct (daemon_loop self false ns_own 0 hM o2 wM) as [[[outs h']|] w'] eqn:E; [|destruct R].
    destruct R as (Hne & -> & _).
    exists outs, hM, w'. split; [reflexivity|].
    destruct (daemon_own_writes_queue_nothing self false o2 ns_own 0%Z hM wM outs hM w' eq_refl I Ho E Hne) as [A _].
    split; [exact A|reflexivity].
  Qed.

  (* a run that STOPS: pid 9 rewrites the configuration file /h/c with a
     malformed content (nc = None): handle_close_write leaves an error, the
     daemon closes the descriptor and exits with the message of a write event;
     the run is the history up to that step (daemon_is_history_stopped) *)
  Definition ns_bad : list notif := [NEvent (ev_w 9) p_c None; NWake].
  Example stopped_run :
    match daemon_loop self false ns_bad 0 hM o2 wM with
    | (Some (outs, h'), w') =>
        outs = [OPoll 0; ORead; OWrite 9 5; OClose 5; OExit 1 (Some T_write)] /\ okw w' = false /\
        ReloadHistory.run o2 (steps_of self false ns_bad) hM wM = (Some h', w')
    | _ => False
    end.
  Proof.
    destruct (daemon_loop self false ns_bad 0 hM o2 wM) as [[[outs h']|] w'] eqn:E.
    - assert (A : fst (daemon_loop self false ns_bad 0 hM o2 wM) <> None /\
                  match fst (daemon_loop self false ns_bad 0 hM o2 wM) with
                  | Some (x, _) => x = [OPoll 0; ORead; OWrite 9 5; OClose 5; OExit 1 (Some T_write)]
                  | None => True end /\
                  okw (snd (daemon_loop self false ns_bad 0 hM o2 wM)) = false).
      { vm_compute. split; [discriminate|]. split; reflexivity. }
      rewrite E in A. cbn [fst snd] in A. destruct A as (_ & A1 & A2).
      split; [exact A1|]. split; [exact A2|].
      exact (daemon_is_history_stopped self false o2 ns_bad 0%Z hM wM outs h' w' eq_refl I E A2).
    - assert (A : fst (daemon_loop self false ns_bad 0 hM o2 wM) <> None) by (vm_compute; discriminate).
      rewrite E in A. apply A. reflexivity.
  Qed.

  (* a run in which the process DIES (call 30 is never made): the history dies
     in the same world (daemon_crash_is_history) *)
  Definition o_die : oracle := fun i => if Nat.eqb i 30 then FCrash else FShort 2.
  Example crashed_run :
    match daemon_loop self false ns 0 hM o_die wM with
    | (None, w') => w_n w' = 30%nat /\ ReloadHistory.run o_die (steps_of self false ns) hM wM = (None, w')
    | _ => False
    end.
  Proof.
    destruct (daemon_loop self false ns 0 hM o_die wM) as [[r|] w'] eqn:E.
    - assert (A : fst (daemon_loop self false ns 0 hM o_die wM) = None) by (vm_compute; reflexivity).
      rewrite E in A. discriminate A.
    - assert (A : w_n (snd (daemon_loop self false ns 0 hM o_die wM)) = 30%nat) by (vm_compute; reflexivity).
      rewrite E in A. split; [exact A|].
      exact (daemon_crash_is_history self false o_die ns 0%Z hM wM w' eq_refl ns_envs_ok E).
  Qed.
End DaemonExample.

Print Assumptions DaemonExample.run_daemon.
Print Assumptions DaemonExample.refines_by_theorem.
Print Assumptions DaemonExample.history_by_theorem.
Print Assumptions DaemonExample.config_by_theorem.
Print Assumptions DaemonExample.own_write_is_wakeup.
Print Assumptions DaemonExample.own_writes_only.
Print Assumptions DaemonExample.first_write_by_theorem.
Print Assumptions DaemonExample.non_editor_by_theorem.
Print Assumptions DaemonExample.second_sleep.
Print Assumptions DaemonExample.sleep_by_theorem.
Print Assumptions DaemonExample.self_ignored_by_theorem.
Print Assumptions DaemonExample.own_writes_by_theorem.
Print Assumptions DaemonExample.stopped_run.
Print Assumptions DaemonExample.crashed_run.
