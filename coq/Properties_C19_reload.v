(* C19 + C16 over histories WITH rewrites of the configuration (JournalFrame.v,
   JournalReload.v), every benign oracle (short writes included):
   rspec = the specification of the journal, step by step: each exec / write / pass
   contributes the lines built from the label and the stamp pattern of the
   configuration IN FORCE WHEN THE EVENT BEGAN (the rewrite of the configuration
   file itself is journalled under the OLD configuration, in the OLD journal); an
   event whose label is not configured contributes nothing; the log records, per
   step, the journal file in force and its lines.
   C19_journal_history_with_reloads: every journal file that was in force at some
   time (T' - files created by a reload are added as they appear) holds its content
   at the start (or nothing, if the reload created it) followed by exactly the
   lines of the events that happened while it was in force, in order; a file out of
   force is never touched again.  C19_journal_files_append_only: whatever happens,
   a tracked journal keeps its initial bytes as a prefix.
   C19_rejected_reload_journal: a malformed rewrite (or one whose journal cannot be
   opened) is journalled as a write under the old configuration, ends in an error,
   changes neither configuration nor journal, and no later step is handled. *)
From K Require Import Str Dec Trace Fs World Progs Elf Sieve SieveSpec Handler Linq LinqSpec LinqProofs
     SyncProofs ReloadProofs ReloadHistory JournalFrame JournalReload.

Theorem C19_journal_history_with_reloads :
  forall (o : oracle) (s : list step) (T : list nat) (h0 : handler) (w0 : world),
  benign o -> Inv T h0 w0 -> pre_along o T s h0 w0 ->
  exists (h : handler) (w : world) (log : jlog) (T' : list nat),
    run o s h0 w0 = (Some h, w) /\
    rspec o (h_cfg_path h0) (h_cfg h0) s h0 w0 h w log /\
    incl T T' /\
    (okw w = true -> Inv T' h w) /\
    (forall (i : nat) (ls : list str), In (Some i, ls) log -> In i T') /\
    (forall i : nat, In i T' ->
       bytes w i = (if memb i T then bytes w0 i else nil) ++ concat (lines_for i log)).
Proof. exact journal_history_with_reloads. Qed.
Print Assumptions C19_journal_history_with_reloads.

Theorem C19_journal_files_append_only :
  forall (o : oracle) (s : list step) (T : list nat) (h0 : handler) (w0 : world),
  benign o -> Inv T h0 w0 -> pre_along o T s h0 w0 ->
  forall i : nat, In i T ->
  exists t, bytes (snd (run o s h0 w0)) i = bytes w0 i ++ t.
Proof. exact journal_files_append_only. Qed.
Print Assumptions C19_journal_files_append_only.

Theorem C19_rejected_reload_journal :
  forall (o : oracle) (T : list nat) (h : handler) (w : world) (pid : N) (path : str) (nc : option config),
  benign o -> okw w = true -> Inv T h w ->
  step_pre T (HWrite pid path nc) h w ->
  h_cfg_path h = Some path ->
  nc = None \/
  (exists (n : config) (jp : str),
     nc = Some n /\ c_journal_path n = Some jp /\ lookup (w_fs w) jp = Some NDir) ->
  exists (h1 : handler) (w1 : world) (ls : list str),
    handle_close_write pid path nc h o w = (Some h1, w1) /\
    okw w1 = false /\
    h_cfg h1 = h_cfg h /\ h_journal h1 = h_journal h /\
    entry_lines (h_cfg h) (HWrite pid path nc) h w w1 ls /\
    (forall i : nat, In i T -> bytes w1 i = bytes w i ++ concat (sel i (jfile h) ls)) /\
    (forall s2 : list step, run o (HWrite pid path nc :: s2) h w = (Some h1, w1)).
Proof. exact rejected_reload_journal. Qed.
Print Assumptions C19_rejected_reload_journal.

(* non-vacuity: pattern "%s" -> "t%s-" with the write label removed -> journal moved; FShort 3 *)
Example C19_reload_instance := JournalReloadExample.journal_history_instance.
Example C19_moved_journal_instance := JournalReloadExample.moved_journal_instance.
Example C19_rejected_instance := JournalReloadExample.rejected_instance.
