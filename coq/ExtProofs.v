(* extension.c / storepath.c: the extension is everything from the first dot of
   the file name, not counting a leading dot; the store layout. *)
From K Require Import Str World Progs.
From Coq Require Import Lia.

Definition no_dot (s : str) : Prop := forallb (fun c => negb (is_dot c)) s = true.

Lemma index_from_spec f : forall s i j, index_from f s i = Some j ->
  i <= j /\ exists c, nth_error s (j - i) = Some c /\ f c = true /\
  forallb (fun c => negb (f c)) (firstn (j - i) s) = true.
Proof.
  induction s as [|c s IH]; intros i j H; simpl in H; [discriminate|].
  destruct (f c) eqn:Ec.
  - inversion H; subst. split; [lia|]. rewrite Nat.sub_diag. exists c. simpl. auto.
  - destruct (IH (S i) j H) as [Hle [c' [Hn [Hf Hall]]]]. split; [lia|].
    exists c'. replace (j - i) with (S (j - S i)) by lia. simpl. rewrite Ec. simpl. auto.
Qed.

Lemma index_from_none f : forall s i, index_from f s i = None -> forallb (fun c => negb (f c)) s = true.
Proof.
  induction s as [|c s IH]; intros i H; simpl in *; [reflexivity|].
  destruct (f c); [discriminate|]. simpl. eapply IH; eauto.
Qed.

Lemma nth_error_skipn {A} (s : list A) : forall j c, nth_error s j = Some c -> skipn j s = c :: skipn (S j) s.
Proof.
  induction s as [|x s IH]; intros [|j] c H; simpl in *; try discriminate.
  - inversion H; reflexivity.
  - apply IH. assumption.
Qed.

Lemma index_split f s j : index f s = Some j ->
  exists c, f c = true /\ skipn j s = c :: skipn (S j) s /\
            forallb (fun c => negb (f c)) (firstn j s) = true.
Proof.
  intros H. destruct (index_from_spec f s 0 j H) as [_ [c [Hn [Hf Hall]]]].
  rewrite Nat.sub_0_r in *. exists c. split; [assumption|]. split; [|assumption].
  apply nth_error_skipn. assumption.
Qed.

Lemma ext_decomp path :
  let base := basename path in
  let ext := get_file_extension path in
  exists lead stem,
    base = lead ++ stem ++ ext /\
    no_dot stem /\
    (ext = [] \/ exists r, ext = ch_dot :: r) /\
    ((exists r, base = ch_dot :: r) -> lead = [ch_dot]) /\
    ((forall r, base <> ch_dot :: r) -> lead = []).
Proof.
  intros base ext. subst ext. unfold get_file_extension. fold base.
  destruct (index is_dot base) as [i|] eqn:E.
  - destruct (index_split _ _ _ E) as [c [Hc [Hs Hall]]]. apply Ascii.eqb_eq in Hc. subst c.
    destruct i as [|i].
    + (* leading dot *)
      destruct base as [|b0 rest] eqn:Eb; [discriminate|].
      simpl in Hs. inversion Hs; subst b0.
      change (skipn 1 (ch_dot :: rest)) with rest.
      destruct (index is_dot rest) as [j|] eqn:E2.
      * destruct (index_split _ _ _ E2) as [c [Hc [Hs2 Hall2]]]. apply Ascii.eqb_eq in Hc. subst c.
        change (skipn (S j) (ch_dot :: rest)) with (skipn j rest).
        exists [ch_dot], (firstn j rest). split; [|split; [|split; [|split]]].
        -- simpl. rewrite firstn_skipn. reflexivity.
        -- exact Hall2.
        -- right. rewrite Hs2. eauto.
        -- reflexivity.
        -- intros H. exfalso. apply (H rest). reflexivity.
      * exists [ch_dot], rest. split; [|split; [|split; [|split]]].
        -- simpl. rewrite app_nil_r. reflexivity.
        -- apply (index_from_none _ _ _ E2).
        -- left; reflexivity.
        -- reflexivity.
        -- intros H. exfalso. apply (H rest). reflexivity.
    + exists [], (firstn (S i) base). split; [|split; [|split; [|split]]].
      * cbn [app]. rewrite firstn_skipn. reflexivity.
      * exact Hall.
      * right. rewrite Hs. eauto.
      * intros [r Hr]. exfalso. rewrite Hr in Hall. simpl in Hall. discriminate.
      * reflexivity.
  - exists [], base. split; [|split; [|split; [|split]]].
    + simpl. rewrite app_nil_r. reflexivity.
    + apply (index_from_none _ _ _ E).
    + left; reflexivity.
    + intros [r Hr]. exfalso. rewrite Hr in E. unfold index in E. simpl in E. discriminate.
    + reflexivity.
Qed.

(* store layout *)
Lemma layout0 root rel version :
  current_path (create_store_path root rel version) =
  root ++ ch_slash :: rel ++ ch_slash :: version ++ get_file_extension rel.
Proof.
  unfold current_path, create_store_path. simpl. rewrite <- !app_assoc. simpl.
  rewrite <- !app_assoc. reflexivity.
Qed.

Lemma iter_increment_dups k sp : sp_dups (Nat.iter k increment sp) = (sp_dups sp + N.of_nat k)%N
  /\ sp_base (Nat.iter k increment sp) = sp_base sp /\ sp_ext (Nat.iter k increment sp) = sp_ext sp.
Proof.
  induction k as [|k IH]; simpl.
  - repeat split; lia.
  - destruct IH as [H1 [H2 H3]]. repeat split; auto. rewrite H1. lia.
Qed.

Lemma layout_k root rel version k : 0 < k ->
  current_path (Nat.iter k increment (create_store_path root rel version)) =
  root ++ ch_slash :: rel ++ ch_slash :: version ++ ch_dash :: dec (N.of_nat k) ++ get_file_extension rel.
Proof.
  intros Hk. destruct (iter_increment_dups k (create_store_path root rel version)) as [H1 [H2 H3]].
  unfold current_path. rewrite H1, H2, H3. cbn [create_store_path sp_dups sp_base sp_ext].
  replace (0 + N.of_nat k)%N with (N.of_nat k) by lia.
  destruct (N.eqb_spec (N.of_nat k) 0) as [E|_]; [lia|].
  rewrite <- !app_assoc. cbn [app]. rewrite <- !app_assoc. reflexivity.
Qed.

Lemma store_dirs_distinct root rel1 rel2 :
  rel1 <> rel2 -> root ++ ch_slash :: rel1 <> root ++ ch_slash :: rel2.
Proof. intros H E. apply app_inv_head in E. inversion E. contradiction. Qed.
