(* C03, world level, part 3: what sync_file has done when it returns without an
   error -- for every HONEST oracle.

   An oracle is honest when it never makes a call fail with ENOENT, ENOTDIR,
   EACCES or EEXIST (errors the program interprets as facts about the file
   system: "the source is gone", "the source is unreadable", "the version name
   is taken")
   and never reports a transfer of zero bytes while bytes remain (sendfile
   returns 0 only at end of file).  Every other failure (EIO, ENOSPC, EMFILE,
   ...), at any call, any short transfer and a crash before any call remain
   possible.

   Under such an oracle, started with an empty error trace and a source that
   is a readable regular file with bytes b:
     - if sync_file returns with an empty trace, the destination is a new file
       whose bytes are exactly [skipn off b];
     - if the top frame is "destination exists", the destination name did exist;
     - the top frame is never "source missing / denied / not regular". *)
From K Require Import Str Dec Trace Fs World Progs Elf Linq LinqSpec LinqProofs Sieve Handler Hoare
     Confine Confine2 SyncProofs AbandonProofs StoreFs StoreLogic StoreProgs DecProofs QueueProofs
     CrashFrame CrashQueue.
From Coq Require Import Lia FinFun.

Definition honest (o : oracle) : Prop :=
  forall i, match o i with
            | FFail e => e <> ENOENT /\ e <> ENOTDIR /\ e <> EACCES /\ e <> EEXIST
            | FShort n => 0 < n
            | FChunk n => 0 < n
            | _ => True
            end.

Lemma ht_sys_honest {A} (P : world -> Prop) c (perform : fs -> ret * A * fs) (on_fail : errno -> A)
      (Q : A -> world -> Prop) (C : world -> Prop) :
  (forall w, P w -> C w) ->
  (forall w e, P w -> e <> ENOENT -> e <> ENOTDIR -> e <> EACCES -> e <> EEXIST ->
               Q (on_fail e) (after_call c (RFault e) (w_fs w) w)) ->
  (forall w, P w -> let '(r, a, f') := perform (w_fs w) in Q a (after_call c r f' w)) ->
  ht honest P (sys c perform on_fail) Q C.
Proof.
  intros Hc Hf Hs o w Ho Hp. unfold sys. specialize (Ho (w_n w)).
  destruct (o (w_n w)) eqn:E; try (specialize (Hs w Hp); destruct (perform (w_fs w)) as [[r a] f']; exact Hs).
  - destruct Ho as [H1 [H2 [H3 H4]]]. apply Hf; assumption.
  - apply Hc. assumption.
Qed.

(* one sendfile under an honest oracle: an error, or a positive limit *)
Lemma ht_sendfile_honest f1 t1 out inp cur size : 0 < size ->
  ht honest (fun w => w_fs w = f1 /\ w_tr w = t1) (k_sendfile out inp cur size)
     (fun r w => w_tr w = t1 /\
        match r with
        | inr _ => w_fs w = f1
        | inl n => exists lim, 0 < lim /\ lim <= size /\
                     n = length (firstn lim (skipn cur (f_bytes (get_file f1 inp)))) /\
                     w_fs w = fs_append out (firstn lim (skipn cur (f_bytes (get_file f1 inp)))) f1
        end)
     (fun w => w_fs w = f1 /\ w_tr w = t1).
Proof.
  intros Hs o w Ho [Hf Ht]. unfold k_sendfile, bind, transfer_limit, sys.
  specialize (Ho (w_n w)). destruct (o (w_n w)) eqn:E; cbn [w_fs w_tr after_call].
  - split; [exact Ht|]. exists size. rewrite Hf. repeat split; lia.
  - split; [exact Ht | exact Hf].
  - split; [exact Ht|]. exists (Nat.min n size). rewrite Hf. repeat split; lia.
  - split; [exact Ht|]. exists (Nat.min n size). rewrite Hf. repeat split; lia.
  - split; assumption.
Qed.

Lemma firstn_length_firstn {A} k : forall (l : list A), firstn (length (firstn k l)) l = firstn k l.
Proof.
  induction k as [|k IH]; intros [|x l]; cbn [firstn length]; try reflexivity.
  rewrite IH. reflexivity.
Qed.

(* ---------- the sendfile loop ---------- *)

Section SendLoop.
Variables (b : str) (off out inp : nat).
Hypothesis Hio : inp <> out.
Variable F : fs -> Prop.
Hypothesis F_append : forall f x, F f -> F (fs_append out x f).

Definition sl_pre (cur : nat) (w : world) : Prop :=
  F (w_fs w) /\ f_bytes (get_file (w_fs w) inp) = b /\
  f_bytes (get_file (w_fs w) out) ++ skipn cur b = skipn off b /\ t_frames (w_tr w) = [].

Definition sl_post (r : option nat) (w : world) : Prop :=
  F (w_fs w) /\
  match r with
  | Some _ => f_bytes (get_file (w_fs w) out) = skipn off b /\ t_frames (w_tr w) = []
  | None => exists e, t_frames (w_tr w) = [FErrno e]
  end.

Lemma ht_sendfile_loop : forall fuel cur size,
  off <= cur -> cur <= Nat.max off (length b) -> size + (cur - off) = length b -> size < fuel ->
  ht honest (sl_pre cur) (sendfile_loop fuel out inp cur size) sl_post (fun w => F (w_fs w)).
Proof.
  induction fuel as [|fuel IH]; intros cur size H1 H2 H3 H4; [lia|].
  cbn [sendfile_loop]. destruct size as [|s].
  - apply ht_ret. intros w [HF [Hb [H5 Ht]]]. split; [exact HF|]. split; [|exact Ht].
    assert (Hlen : length b <= cur) by lia.
    apply (proj2 (skipn_nil_iff cur b)) in Hlen. rewrite Hlen, app_nil_r in H5. exact H5.
  - apply ht_freeze. intros w0 [HF [Hb [H5 Ht]]].
    eapply ht_bind.
    { eapply ht_conseq3; [| | |apply (ht_sendfile_honest (w_fs w0) (w_tr w0) out inp cur (S s)); lia].
      - intros w ->. split; reflexivity.
      - intros r w H. exact H.
      - intros w [Hf _]. rewrite Hf. exact HF. }
    intros r. rewrite Hb. destruct r as [n|e].
    + apply ht_pure_pre with
        (phi := exists lim, 0 < lim /\ lim <= S s /\ n = length (firstn lim (skipn cur b))).
      { intros w [_ [lim [L1 [L2 [L3 _]]]]]. exists lim. auto. }
      intros [lim [L1 [L2 L3]]].
      set (chunk := firstn lim (skipn cur b)) in *.
      assert (Hpost : forall w, (w_tr w = w_tr w0 /\
                 exists lim0, 0 < lim0 /\ lim0 <= S s /\ n = length (firstn lim0 (skipn cur b)) /\
                   w_fs w = fs_append out (firstn lim0 (skipn cur b)) (w_fs w0)) ->
                 w_tr w = w_tr w0 /\ exists x, length x = n /\ firstn n (skipn cur b) = x /\
                   w_fs w = fs_append out x (w_fs w0)).
      { intros w [T [lim0 [_ [_ [En Ef]]]]]. split; [exact T|].
        exists (firstn lim0 (skipn cur b)). split; [symmetry; exact En|]. split; [|exact Ef].
        rewrite En. apply firstn_length_firstn. }
      destruct n as [|n'].
      * (* end of file *)
        apply ht_ret. intros w Hw. destruct (Hpost w Hw) as [T [x [Hx [_ Ef]]]].
        assert (x = []) by (destruct x; [reflexivity | discriminate]). subst x.
        assert (Hsk : skipn cur b = []).
        { unfold chunk in L3. destruct (skipn cur b) as [|y l]; [reflexivity|].
          destruct lim; [lia | discriminate]. }
        unfold sl_post. rewrite Ef. split; [apply F_append; exact HF|].
        rewrite get_file_append_same. cbn [f_bytes]. rewrite app_nil_r.
        split; [|rewrite T; exact Ht]. rewrite <- H5, Hsk, app_nil_r. reflexivity.
      * assert (Hle : S n' <= lim) by (rewrite L3; unfold chunk; apply firstn_le_length).
        assert (Hle2 : S n' <= length b - cur).
        { rewrite L3. unfold chunk. rewrite firstn_length, skipn_length. lia. }
        eapply ht_conseq3; [| | |apply (IH (cur + S n') (S s - S n'))]; try lia.
        -- intros w Hw. destruct (Hpost w Hw) as [T [x [Hx [Hfx Ef]]]]. unfold sl_pre. rewrite Ef.
           split; [apply F_append; exact HF|].
           split; [rewrite get_file_append_other by exact Hio; exact Hb|].
           split; [|rewrite T; exact Ht].
           rewrite get_file_append_same. cbn [f_bytes].
           rewrite <- Hfx, skipn_add, <- app_assoc, firstn_skipn. exact H5.
        -- auto.
        -- auto.
    + eapply ht_bind with (R := fun _ w => F (w_fs w) /\ t_frames (w_tr w) = [FErrno e]).
      * unfold throw_errno, throw. apply ht_mod_tr. intros w [T Ef]. cbn [QueueProofs.upd_tr w_fs w_tr].
        rewrite Ef, T. split; [exact HF|]. unfold tr_push. cbn [t_frames]. rewrite Ht. reflexivity.
      * intros ?. apply ht_ret. intros w [H Hfr]. split; [exact H|]. exists e. exact Hfr.
Qed.

End SendLoop.

(* ---------- programs that keep the error trace ---------- *)

Lemma ht_true {A} O (m : M A) : ht O (fun _ => True) m (fun _ _ => True) (fun _ => True).
Proof. intros o w _ _. destruct (m o w) as [[a|] w']; exact I. Qed.

(* [m] takes file systems satisfying X to file systems satisfying X' and leaves
   the error trace as it was (crash: nothing claimed) *)
Definition keeps {A} (X X' : fs -> Prop) (m : M A) : Prop :=
  forall t, ht (fun _ => True) (fun w => X (w_fs w) /\ w_tr w = t) m
               (fun _ w => X' (w_fs w) /\ w_tr w = t) (fun _ => True).

Lemma keeps_ret {A} (X X' : fs -> Prop) (a : A) : (forall f, X f -> X' f) -> keeps X X' (ret_ a).
Proof. intros H t. apply ht_ret. intros w [Hx Ht]. auto. Qed.

Lemma keeps_bind {A B} (X Y Z : fs -> Prop) (m : M A) (k : A -> M B) :
  keeps X Y m -> (forall a, keeps Y Z (k a)) -> keeps X Z (bind m k).
Proof. intros Hm Hk t. eapply ht_bind; [apply Hm | intros a; apply Hk]. Qed.

Lemma keeps_sys_unit (X X' : fs -> Prop) c op :
  (forall f, X f -> X' f) -> (forall f, X f -> X' (snd (op f))) -> keeps X X' (sys_unit c op).
Proof.
  intros H0 H t. unfold sys_unit. apply ht_sys.
  - auto.
  - intros w e [Hx Ht]. cbn. auto.
  - intros w [Hx Ht]. specialize (H _ Hx). destruct (op (w_fs w)) as [e f']. cbn in *. auto.
Qed.

Lemma keeps_close X : keeps X X k_close.
Proof. apply keeps_sys_unit; auto. Qed.

(* with any condition on the trace *)
Lemma keeps_use {A} O (X X' : fs -> Prop) (T : trace -> Prop) (m : M A) :
  keeps X X' m ->
  ht O (fun w => X (w_fs w) /\ T (w_tr w)) m (fun _ w => X' (w_fs w) /\ T (w_tr w)) (fun _ => True).
Proof.
  intros H. apply ht_freeze. intros w0 [Hx Ht].
  eapply ht_oracles with (O1 := fun _ => True); [auto|].
  eapply ht_conseq3; [| | |apply (H (w_tr w0))].
  - intros w ->. auto.
  - intros a w [Hx' E]. rewrite E. auto.
  - auto.
Qed.

Section Dirs.
Variable F : fs -> Prop.
Variable As : str -> Prop.
Hypothesis F_mkdir : forall a f, As a -> F f -> F (snd (fs_mkdir a f)).
Hypothesis F_rmdir : forall a f, F f -> F (snd (fs_rmdir a f)).

Lemma d_mkdir_all ds : (forall a, In a ds -> As a) -> tok F (mkdir_all ds).
Proof.
  induction ds as [|a ds IH]; intros Hall; cbn [mkdir_all]; [apply tok_ret|].
  assert (IH' : tok F (mkdir_all ds)) by (apply IH; intros a' Hin; apply Hall; right; exact Hin).
  apply tok_bind.
  - apply tok_sys_unit. intros f. apply F_mkdir. apply Hall. left. reflexivity.
  - intros r. destruct r as [e|]; [destruct e|]; try exact IH'; tk_with leaf1.
Qed.

Lemma d_create_parents p : (forall a, In a (parents_of p) -> As a) -> tok F (create_parents p).
Proof. intros H. unfold create_parents. tk_with leaf1. apply d_mkdir_all. exact H. Qed.

Lemma d_rmdir_up ds : tok F (rmdir_up ds).
Proof.
  induction ds as [|a ds IH]; cbn [rmdir_up]; [apply tok_ret|].
  apply tok_bind.
  - apply tok_sys_unit. intros f. apply F_rmdir.
  - intros r. destruct r as [e|]; [destruct e|]; try exact IH; tk_with leaf1.
Qed.

Lemma d_remove_empty_parents p : tok F (remove_empty_parents p).
Proof. unfold remove_empty_parents. tk_with leaf1. apply d_rmdir_up. Qed.

Lemma keeps_clean_up p : keeps F F (clean_up p).
Proof.
  intros t. unfold clean_up.
  eapply ht_bind with (R := fun a w => F (w_fs w) /\ a = t).
  { intros o w _ [Hf Ht]. cbn. auto. }
  intros a. apply ht_pure_pre with (phi := a = t); [intros w [_ E]; exact E|]. intros ->.
  eapply ht_bind with (R := fun _ w => F (w_fs w)).
  { intros o w _ [Hf _]. cbn. exact Hf. }
  intros ?.
  eapply ht_bind with (R := fun _ w => F (w_fs w)).
  { eapply ht_conseq3; [| | |apply (d_remove_empty_parents p)]; cbn; auto. intros ? w [H _]. exact H. }
  intros ?. intros o w _ Hf. cbn. auto.
Qed.

End Dirs.

(* create_parents and the trace: an empty trace stays empty, or the top frame
   says that an ancestor could not be created *)
Definition cp_trace (t : trace) : Prop :=
  t_frames t = [] \/ exists rest, t_frames t = FStatic M_cannot_create_ancestor :: rest.

Lemma tr_mkdir_all O ds :
  ht O (fun w => t_frames (w_tr w) = []) (mkdir_all ds) (fun _ w => cp_trace (w_tr w)) (fun _ => True).
Proof.
  induction ds as [|a ds IH]; cbn [mkdir_all].
  - apply ht_ret. intros w H. left. exact H.
  - eapply ht_bind with (R := fun _ w => t_frames (w_tr w) = []).
    { unfold k_mkdir, sys_unit. apply ht_sys; [auto | intros w e H; exact H|].
      intros w H. destruct (fs_mkdir a (w_fs w)) as [e f']. exact H. }
    intros r.
    assert (Hthrow : forall e, ht O (fun w => t_frames (w_tr w) = [])
              (throw_errno e;; throw_context a;; throw_static M_cannot_create_ancestor)
              (fun _ w => cp_trace (w_tr w)) (fun _ => True)).
    { intros e. unfold throw_errno, throw_context, throw_static, throw.
      eapply ht_bind with (R := fun _ _ => True); [apply ht_mod_tr; auto|intros ?].
      eapply ht_bind with (R := fun _ _ => True); [apply ht_mod_tr; auto|intros ?].
      apply ht_mod_tr. intros w _. right. cbn. eexists. reflexivity. }
    destruct r as [e|]; [destruct e|]; try exact IH; apply Hthrow.
Qed.

Lemma tr_create_parents O p :
  ht O (fun w => t_frames (w_tr w) = []) (create_parents p) (fun _ w => cp_trace (w_tr w)) (fun _ => True).
Proof.
  unfold create_parents, when_ok.
  eapply ht_bind with (R := fun _ w => t_frames (w_tr w) = []); [apply ht_is_ok; auto|].
  intros b. destruct b; [apply tr_mkdir_all|]. apply ht_ret. intros w H. left. exact H.
Qed.

(* ---------- paths: ancestors are not siblings ---------- *)

Lemma parents_aux_nonempty : forall rest pre_rev a, In a (parents_of_aux pre_rev rest) -> a <> [].
Proof.
  induction rest as [|c r IH]; intros pre_rev a Hin; cbn [parents_of_aux] in Hin; [destruct Hin|].
  apply in_app_or in Hin. destruct Hin as [Hin|Hin]; [|exact (IH _ _ Hin)].
  destruct pre_rev as [|y pr]; [rewrite andb_false_r in Hin; destruct Hin|].
  destruct (is_slash c); cbn [andb negb] in Hin; [|destruct Hin].
  destruct Hin as [<-|[]]. cbn [rev]. intros E. apply app_eq_nil in E. destruct E as [_ E]. discriminate.
Qed.

Lemma rindex_from_some_ge f s : forall i j k,
  j <= i -> rindex_from f s i (Some j) = Some k -> j <= k.
Proof.
  intros i j k Hji H. apply rindex_from_range in H. destruct H as [H|H]; [injection H as <-; lia | lia].
Qed.

Lemma rindex_from_is_some f s : forall i j, exists k, rindex_from f s i (Some j) = Some k.
Proof.
  induction s as [|c s IH]; intros i j; cbn [rindex_from]; [eexists; reflexivity|].
  destruct (f c); apply IH.
Qed.

Lemma dirname_len_ge a r : a <> [] -> length a <= length (dirname (a ++ ch_slash :: r)).
Proof.
  intros Ha. unfold dirname, rindex. rewrite rindex_from_app. cbn [rindex_from].
  change (is_slash ch_slash) with true. cbv iota. cbn [Nat.add].
  destruct (rindex_from_is_some is_slash r (S (length a)) (length a)) as [k Hk]. rewrite Hk.
  pose proof (rindex_from_some_ge _ _ _ _ _ (Nat.le_succ_diag_r _) Hk) as Hge.
  apply rindex_from_range in Hk.
  destruct k as [|k]; [destruct a; [congruence | cbn in Hge; lia]|].
  rewrite firstn_length, app_length. cbn [length].
  destruct Hk as [Hk|Hk]; [injection Hk as Hk; lia | lia].
Qed.

Lemma parents_dirname_neq a dst :
  In a (parents_of dst) -> a <> root_path -> dirname a <> dirname dst.
Proof.
  intros Hin Hr E. pose proof (parents_aux_nonempty _ _ _ Hin) as Hne.
  destruct (parents_of_prefix _ _ Hin) as [r ->].
  pose proof (dirname_len_ge a r Hne) as Hge. rewrite <- E in Hge.
  destruct (dirname a) as [|x l] eqn:Ed.
  - destruct a; [congruence | cbn in Hge; lia].
  - assert (Hlt : length (dirname a) < length a) by (apply dirname_shorter; [exact Hr | rewrite Ed; discriminate]).
    rewrite Ed in Hlt. lia.
Qed.

(* ---------- sync_file under an honest oracle ---------- *)

Definition errno_eq_dec (a b : errno) : {a = b} + {a <> b}.
Proof. decide equality. Defined.

Section SyncSpec.
Variables (src : str) (i : nat) (b : str) (dst : str) (off : nat) (fs0 : fs).

(* the source is a readable regular file with bytes b *)
Definition Src (f : fs) : Prop :=
  lookup f src = Some (NFile i) /\ get_file f i = mkFile b true /\ i < fs_next f.

(* no new name has appeared in the directory of the destination since fs0 *)
Definition PH (f : fs) : Prop :=
  forall p, dirname p = dirname dst -> lookup f p <> None -> lookup fs0 p <> None.

Definition Copied (f : fs) : Prop :=
  exists j, lookup f dst = Some (NFile j) /\ f_bytes (get_file f j) = skipn off b.

Definition other_frame (fr : frame) : Prop :=
  match fr with
  | FStatic M_src_missing | FStatic M_src_denied | FStatic M_not_regular | FStatic M_dst_exists => False
  | _ => True
  end.

Definition sf_out (w : world) : Prop :=
  Src (w_fs w) /\
  ((t_frames (w_tr w) = [] /\ Copied (w_fs w)) \/
   (t_frames (w_tr w) = [FStatic M_dst_exists] /\ PH (w_fs w) /\ lookup fs0 dst <> None) \/
   (exists fr rest, t_frames (w_tr w) = fr :: rest /\ other_frame fr)).

Lemma Src_add a n f : lookup f a = None -> Src f -> Src (add_dent a n f).
Proof.
  intros Hl [H1 [H2 H3]]. split; [|split; assumption].
  rewrite lookup_add_dent_other; [exact H1|]. intros ->. congruence.
Qed.

Lemma Src_del a f : lookup f a <> Some (NFile i) -> Src f -> Src (del_dent a f).
Proof.
  intros Hl [H1 [H2 H3]]. split; [|split; assumption].
  rewrite lookup_del_dent_other; [exact H1|]. intros ->. congruence.
Qed.

Lemma Src_mkdir a f : Src f -> Src (snd (fs_mkdir a f)).
Proof.
  intros H. unfold fs_mkdir. destruct (lookup f a) eqn:E; [exact H|].
  destruct (parent_is_dir f a); [exact H|]. cbn [snd]. apply Src_add; assumption.
Qed.

Lemma Src_rmdir a f : Src f -> Src (snd (fs_rmdir a f)).
Proof.
  intros H. unfold fs_rmdir. destruct (lookup f a) as [[| |]|] eqn:E; try exact H.
  destruct (children f a); [|exact H]. cbn [snd]. apply Src_del; [congruence | exact H].
Qed.

Lemma Src_unlink a f : a <> src -> Src f -> Src (snd (fs_unlink a f)).
Proof.
  intros Hn H. unfold fs_unlink.
  assert (Hd : Src (del_dent a f)).
  { destruct H as [H1 [H2 H3]]. split; [|split; assumption]. rewrite lookup_del_dent_other; auto. }
  destruct (lookup f a) as [[| |]|]; try exact H; exact Hd.
Qed.

Lemma Src_created f : lookup f dst = None -> Src f -> Src (created dst f).
Proof.
  intros Hl [H1 [H2 H3]]. split; [|split].
  - rewrite lookup_created_other; [exact H1|]. intros E. congruence.
  - rewrite get_file_created_other by lia. exact H2.
  - cbn [created fs_next]. lia.
Qed.

Lemma Src_append j x f : j <> i -> Src f -> Src (fs_append j x f).
Proof.
  intros Hn [H1 [H2 H3]]. split; [exact H1|]. split; [|exact H3].
  rewrite get_file_append_other by auto. exact H2.
Qed.

Lemma PH_mkdir a f : In a (parents_of dst) -> PH f -> PH (snd (fs_mkdir a f)).
Proof.
  intros Hin H. unfold fs_mkdir. destruct (lookup f a) eqn:E; [exact H|].
  destruct (parent_is_dir f a); [exact H|]. cbn [snd]. intros p Hd Hl.
  destruct (str_eqb_spec p a) as [->|Hn].
  - exfalso. apply (parents_dirname_neq a dst Hin); [|exact Hd].
    apply (lookup_none_neq_root f). exact E.
  - rewrite lookup_add_dent_other in Hl by exact Hn. apply (H p Hd Hl).
Qed.

Lemma PH_rmdir a f : PH f -> PH (snd (fs_rmdir a f)).
Proof.
  intros H. unfold fs_rmdir. destruct (lookup f a) as [[| |]|]; try exact H.
  destruct (children f a); [|exact H]. cbn [snd]. intros p Hd Hl.
  apply (H p Hd). eapply lookup_del_dent_some. exact Hl.
Qed.

Definition S1 (f : fs) : Prop := Src f /\ PH f.

Lemma S1_mkdir a f : In a (parents_of dst) -> S1 f -> S1 (snd (fs_mkdir a f)).
Proof. intros Hin [H1 H2]. split; [apply Src_mkdir; exact H1 | apply PH_mkdir; assumption]. Qed.

Lemma S1_rmdir a f : S1 f -> S1 (snd (fs_rmdir a f)).
Proof. intros [H1 H2]. split; [apply Src_rmdir; exact H1 | apply PH_rmdir; exact H2]. Qed.

(* the four ways out of sync_file after an error, each keeping the trace *)
Lemma exit1 : keeps S1 S1 (clean_up dst;; ret_ 0).
Proof.
  eapply keeps_bind; [apply keeps_clean_up; intros a f; apply S1_rmdir | intros ?]; cbv beta.
  apply keeps_ret. auto.
Qed.

Lemma exit2 : keeps S1 S1 (k_close;; clean_up dst;; ret_ 0).
Proof. eapply keeps_bind; [apply keeps_close | intros ?]; cbv beta. apply exit1. Qed.

Lemma exit4 : dst <> src -> keeps Src Src (k_close;; k_unlink dst;; clean_up dst;; ret_ 0).
Proof.
  intros Hn. eapply keeps_bind; [apply keeps_close | intros ?]; cbv beta.
  eapply keeps_bind; [unfold k_unlink; apply (keeps_sys_unit Src Src); [auto | intros f; apply Src_unlink; exact Hn] | intros ?]; cbv beta.
  eapply keeps_bind; [apply (keeps_clean_up Src); intros a1 f1; apply Src_rmdir | intros ?]; cbv beta.
  apply keeps_ret. auto.
Qed.

Lemma exit3 : dst <> src -> keeps Src Src (k_close;; k_close;; k_unlink dst;; clean_up dst;; ret_ 0).
Proof. intros Hn. eapply keeps_bind; [apply keeps_close | intros ?]; cbv beta. exact (exit4 Hn). Qed.

Lemma sf_other fr (w : world) rest :
  Src (w_fs w) -> t_frames (w_tr w) = fr :: rest -> other_frame fr -> sf_out w.
Proof. intros H1 H2 H3. split; [exact H1|]. right. right. exists fr, rest. auto. Qed.


Definition sf_pre (w : world) : Prop := Src (w_fs w) /\ PH (w_fs w) /\ t_frames (w_tr w) = [].

(* after O_CREAT|O_EXCL has succeeded with inode j *)
Definition S2 (j : nat) (f : fs) : Prop := Src f /\ lookup f dst = Some (NFile j).

Lemma S2_append j x f : j <> i -> S2 j f -> S2 j (fs_append j x f).
Proof. intros Hn [H1 H2]. split; [apply Src_append; assumption | exact H2]. Qed.

Lemma ht_throw_errno O (X : fs -> Prop) e :
  ht O (fun w => X (w_fs w) /\ t_frames (w_tr w) = []) (throw_errno e)
     (fun _ w => X (w_fs w) /\ t_frames (w_tr w) = [FErrno e]) (fun _ => True).
Proof.
  unfold throw_errno, throw. apply ht_mod_tr. intros w [Hx Ht]. cbn [QueueProofs.upd_tr w_fs w_tr].
  split; [exact Hx|]. unfold tr_push. cbn [t_frames]. rewrite Ht. reflexivity.
Qed.

Lemma ht_throw_static O (X : fs -> Prop) m :
  ht O (fun w => X (w_fs w) /\ t_frames (w_tr w) = []) (throw_static m)
     (fun _ w => X (w_fs w) /\ t_frames (w_tr w) = [FStatic m]) (fun _ => True).
Proof.
  unfold throw_static, throw. apply ht_mod_tr. intros w [Hx Ht]. cbn [QueueProofs.upd_tr w_fs w_tr].
  split; [exact Hx|]. unfold tr_push. cbn [t_frames]. rewrite Ht. reflexivity.
Qed.

(* throw an errno, leave through one of the exits: outcome "other" *)
Lemma ht_fail_exit (X X' : fs -> Prop) e (m : M nat) :
  (forall f, X' f -> Src f) -> keeps X X' m ->
  ht honest (fun w => X (w_fs w) /\ t_frames (w_tr w) = []) (throw_errno e;; m)
     (fun _ => sf_out) (fun _ => True).
Proof.
  intros HX Hm.
  eapply ht_bind; [apply ht_throw_errno|intros ?].
  eapply ht_conseq3; [| | |apply (keeps_use honest X X' (fun t => t_frames t = [FErrno e]) m Hm)].
  - auto.
  - intros ? w [H1 H2]. eapply sf_other; [apply HX; exact H1 | exact H2 | exact I].
  - auto.
Qed.

Lemma S1_Src f : S1 f -> Src f.
Proof. intros [H _]. exact H. Qed.

Lemma keeps_weaken {A} (X X' Y Y' : fs -> Prop) (m : M A) :
  (forall f, Y f -> X f) -> (forall f, X' f -> Y' f) -> keeps X X' m -> keeps Y Y' m.
Proof.
  intros H1 H2 H t. eapply ht_conseq3; [| | |apply (H t)].
  - intros w [Hy Ht]. auto.
  - intros a w [Hx Ht]. auto.
  - auto.
Qed.

Lemma ht_sync_file :
  ht honest sf_pre (sync_file dst src off) (fun _ => sf_out) (fun _ => True).
Proof.
  unfold sync_file, when_ok.
  eapply ht_bind with (R := fun b w => sf_pre w /\ b = true).
  { apply ht_is_ok. intros w H. split; [exact H|]. destruct H as [_ [_ Ht]].
    unfold tr_ok. rewrite Ht. reflexivity. }
  intros b0. apply ht_pure_pre with (phi := b0 = true); [intros w [_ E]; exact E|]. intros ->.
  (* create_parents *)
  eapply ht_bind with (R := fun _ w => S1 (w_fs w) /\ cp_trace (w_tr w)).
  { eapply ht_conseq3;
      [| | |apply ht_conj;
            [apply (ht_oracles (fun _ => True) honest); [auto|];
             apply (d_create_parents S1 (fun a => In a (parents_of dst)) S1_mkdir dst); auto
            |apply (tr_create_parents honest dst)]].
    - intros w [[H1 [H2 H3]] _]. split; [split; assumption | exact H3].
    - intros ? w [[H _] H']. split; assumption.
    - auto. }
  intros ?.
  eapply ht_bind with (R := fun b w => (S1 (w_fs w) /\ cp_trace (w_tr w)) /\ b = tr_ok (w_tr w)).
  { apply ht_is_ok. auto. }
  intros b1. destruct b1; cbn [negb].
  2:{ (* an ancestor could not be created *)
      eapply ht_conseq3;
        [| | |apply (keeps_use honest S1 S1
                       (fun t => exists rest, t_frames t = FStatic M_cannot_create_ancestor :: rest) _ exit1)].
      - intros w [[H1 [H2|H2]] Hb]; [|auto]. unfold tr_ok in Hb. rewrite H2 in Hb. discriminate.
      - intros ? w [H1 [rest H2]]. eapply sf_other; [apply S1_Src; exact H1 | exact H2 | exact I].
      - auto. }
  (* open the source *)
  eapply ht_bind with
    (R := fun rin w => (S1 (w_fs w) /\ t_frames (w_tr w) = []) /\
            (rin = inl (FdFile i) \/ exists e, rin = inr e /\ e <> ENOENT /\ e <> ENOTDIR /\ e <> EACCES)).
  { unfold k_open_read, k_open_gen. apply ht_sys_honest.
    - auto.
    - intros w e [[H1 H2] Hb] E1 E2 E3 E4. cbn. split.
      + split; [exact H1|]. destruct H2 as [H2|[rest H2]]; [exact H2|].
        unfold tr_ok in Hb. rewrite H2 in Hb. discriminate.
      + right. exists e. auto.
    - intros w [[H1 H2] Hb]. cbn. split.
      + split; [exact H1|]. destruct H2 as [H2|[rest H2]]; [exact H2|].
        unfold tr_ok in Hb. rewrite H2 in Hb. discriminate.
      + left. destruct H1 as [[L [G _]] _]. unfold fs_open_read. rewrite L, G. reflexivity. }
  intros rin. destruct rin as [ind|e].
  2:{ apply ht_pure_pre with (phi := e <> ENOENT /\ e <> ENOTDIR /\ e <> EACCES).
      { intros w [_ [H|[e' [H1 H2]]]]; [discriminate|]. inversion H1; subst. exact H2. }
      intros [E1 [E2 E3]].
      assert (Hgo : ht honest (fun w => S1 (w_fs w) /\ t_frames (w_tr w) = [])
                       (throw_errno e;; clean_up dst;; ret_ 0) (fun _ => sf_out) (fun _ => True)).
      { eapply ht_fail_exit; [apply S1_Src | apply exit1]. }
      destruct e; try congruence;
        (eapply ht_conseq3; [| | |apply Hgo]; [intros w [H _]; exact H | auto | auto]). }
  apply ht_pure_pre with (phi := ind = FdFile i).
  { intros w [_ [H|[e [H _]]]]; [inversion H; reflexivity | discriminate]. }
  intros ->.
  (* create the destination *)
  eapply ht_bind with
    (R := fun rout w => t_frames (w_tr w) = [] /\
            ((exists j, rout = inl (FdFile j) /\ S2 j (w_fs w) /\ j <> i /\
                        f_bytes (get_file (w_fs w) j) = [] /\ dst <> src) \/
             (rout = inr EEXIST /\ S1 (w_fs w) /\ lookup fs0 dst <> None) \/
             (exists e, rout = inr e /\ e <> EEXIST /\ S1 (w_fs w)))).
  { unfold k_open_excl, k_open_gen. apply ht_sys_honest.
    - auto.
    - intros w e [[H1 H2] _] E1 E2 E3 E4. cbn. split; [exact H2|]. right. right. exists e. auto.
    - intros w [[H1 H2] _]. unfold fs_create_excl.
      destruct (lookup (w_fs w) dst) as [n|] eqn:El.
      + cbn. split; [exact H2|]. right. left. split; [reflexivity|]. split; [exact H1|].
        destruct H1 as [_ HPH]. apply (HPH dst eq_refl). congruence.
      + destruct (parent_is_dir (w_fs w) dst) as [e|] eqn:Ep.
        * cbn. split; [exact H2|]. right. right. exists e. split; [reflexivity|]. split; [|exact H1].
          unfold parent_is_dir in Ep. destruct (lookup (w_fs w) (dirname dst)) as [[| |]|]; congruence.
        * cbn. split; [exact H2|]. left. exists (fs_next (w_fs w)). split; [reflexivity|].
          fold (created dst (w_fs w)). destruct H1 as [HS _]. pose proof HS as [L [G Hlt]].
          split; [split; [apply Src_created; assumption | apply lookup_created_same; exact El]|].
          split; [lia|]. split; [rewrite get_file_created_new; reflexivity|].
          intros E. rewrite E in El. congruence. }
  intros rout.
  assert (Hexit2 : forall e, ht honest (fun w => S1 (w_fs w) /\ t_frames (w_tr w) = [])
                     (throw_errno e;; k_close;; clean_up dst;; ret_ 0) (fun _ => sf_out) (fun _ => True)).
  { intros e. eapply ht_fail_exit; [apply S1_Src | apply exit2]. }
  destruct rout as [[j|dd]|e].
  3:{ destruct (errno_eq_dec e EEXIST) as [->|Hne].
      - (* the name is taken *)
        apply ht_pure_pre with (phi := lookup fs0 dst <> None).
        { intros w [Ht [[j [H _]]|[[_ [H1 H2]]|[e [H1 [H2 _]]]]]]; [discriminate | auto | inversion H1; congruence]. }
        intros Hex.
        eapply ht_bind with
          (R := fun _ w => S1 (w_fs w) /\ t_frames (w_tr w) = [FStatic M_dst_exists]).
        { eapply ht_conseq3; [| | |apply (ht_throw_static honest S1 M_dst_exists)].
          - intros w [Ht [[j [H _]]|[[_ [H1 H2]]|[e [H1 [H2 _]]]]]]; [discriminate | auto | inversion H1; congruence].
          - auto.
          - auto. }
        intros ?.
        eapply ht_conseq3;
          [| | |apply (keeps_use honest S1 S1 (fun t => t_frames t = [FStatic M_dst_exists]) _ exit2)].
        + auto.
        + intros ? w [[H1 H2] H3]. split; [exact H1|]. right. left. auto.
        + auto.
      - assert (Hpre : forall w, t_frames (w_tr w) = [] /\
                  ((exists j, @inr fd errno e = inl (FdFile j) /\ S2 j (w_fs w) /\ j <> i /\
                              f_bytes (get_file (w_fs w) j) = [] /\ dst <> src) \/
                   (@inr fd errno e = inr EEXIST /\ S1 (w_fs w) /\ lookup fs0 dst <> None) \/
                   (exists e0, @inr fd errno e = inr e0 /\ e0 <> EEXIST /\ S1 (w_fs w))) ->
                  S1 (w_fs w) /\ t_frames (w_tr w) = []).
        { intros w [Ht [[j [H _]]|[[H _]|[e0 [_ [_ H]]]]]]; [discriminate | congruence | auto]. }
        destruct e; try congruence;
          (eapply ht_conseq3; [| | |apply Hexit2]; [exact Hpre | auto | auto]). }
  2:{ apply ht_pure_pre with (phi := False); [|intros []].
      intros w [_ [[j [H _]]|[[H _]|[e [H _]]]]]; discriminate. }
  apply ht_pure_pre with (phi := j <> i /\ dst <> src).
  { intros w [_ [[j' [H [_ [H1 [_ H2]]]]]|[[H _]|[e [H _]]]]]; [inversion H; subst; auto | discriminate | discriminate]. }
  intros [Hji Hds].
  (* fstat *)
  eapply ht_bind with
    (R := fun st w => (S2 j (w_fs w) /\ f_bytes (get_file (w_fs w) j) = [] /\ t_frames (w_tr w) = []) /\
            (st = inl (true, length b) \/ exists e, st = inr e)).
  { unfold k_fstat. apply ht_sys.
    - auto.
    - intros w e [Ht [[j' [H [H1 [_ [H2 _]]]]]|[[H _]|[e' [H _]]]]]; try discriminate.
      inversion H; subst j'. cbn. split; [auto|]. right. exists e. reflexivity.
    - intros w [Ht [[j' [H [H1 [_ [H2 _]]]]]|[[H _]|[e' [H _]]]]]; try discriminate.
      inversion H; subst j'. cbn. split; [auto|]. left.
      destruct H1 as [[_ [G _]] _]. rewrite G. reflexivity. }
  intros st.
  assert (Hexit3 : forall e, ht honest (fun w => S2 j (w_fs w) /\ t_frames (w_tr w) = [])
                     (throw_errno e;; k_close;; k_close;; k_unlink dst;; clean_up dst;; ret_ 0)
                     (fun _ => sf_out) (fun _ => True)).
  { intros e. eapply ht_fail_exit with (X' := Src); [auto|].
    eapply keeps_weaken; [| |apply (exit3 Hds)]; [intros f [H _]; exact H | auto]. }
  destruct st as [[[|] size]|e].
  3:{ eapply ht_conseq3; [| | |apply (Hexit3 e)]; [intros w [[H1 [_ H2]] _]; auto | auto | auto]. }
  2:{ apply ht_pure_pre with (phi := False); [|intros []].
      intros w [_ [H|[e H]]]; discriminate. }
  apply ht_pure_pre with (phi := size = length b).
  { intros w [_ [H|[e H]]]; [inversion H; reflexivity | discriminate]. }
  intros ->. cbv zeta.
  (* the copy *)
  eapply ht_bind.
  { eapply ht_conseq3;
      [| | |apply (ht_sendfile_loop b off j i (fun E => Hji (eq_sym E)) (S2 j)
                     (fun f x => S2_append j x f Hji) (S (length b)) off (length b)); lia].
    - intros w [[H1 [H2 H3]] _]. split; [exact H1|]. split; [|split; [rewrite H2; reflexivity | exact H3]].
      destruct H1 as [[_ [G _]] _]. rewrite G. reflexivity.
    - intros r w H. exact H.
    - auto. }
  intros r. destruct r as [off'|].
  2:{ (* a transfer failed: the error is already in the trace *)
      eapply ht_conseq3;
        [| | |apply (keeps_use honest (S2 j) Src (fun t => exists e, t_frames t = [FErrno e]))].
      - intros w [H1 H2]. split; [exact H1 | exact H2].
      - intros ? w [H1 [e H2]]. eapply sf_other; [exact H1 | exact H2 | exact I].
      - auto.
      - eapply keeps_weaken; [| |apply (exit3 Hds)]; [intros f [H _]; exact H | auto]. }
  (* close the destination *)
  eapply ht_bind with
    (R := fun _ w => (S2 j (w_fs w) /\ f_bytes (get_file (w_fs w) j) = skipn off b) /\ t_frames (w_tr w) = []).
  { eapply ht_conseq3;
      [| | |apply (keeps_use honest (fun f => S2 j f /\ f_bytes (get_file f j) = skipn off b) _
                     (fun t => t_frames t = []) _ (keeps_close _))].
    - intros w [H1 [H2 H3]]. auto.
    - auto.
    - auto. }
  intros c. destruct c as [e|].
  - eapply ht_fail_exit with (X := fun f => S2 j f /\ f_bytes (get_file f j) = skipn off b) (X' := Src); [auto|].
    eapply keeps_weaken; [| |apply (exit4 Hds)]; [intros f [[H _] _]; exact H | auto].
  - eapply ht_bind with
      (R := fun _ w => (S2 j (w_fs w) /\ f_bytes (get_file (w_fs w) j) = skipn off b) /\ t_frames (w_tr w) = []).
    { apply (keeps_use honest (fun f => S2 j f /\ f_bytes (get_file f j) = skipn off b) _
                     (fun t => t_frames t = []) _ (keeps_close _)). }
    intros ?. apply ht_ret. intros w [[[H1 H2] H3] H4]. split; [exact H1|]. left. split; [exact H4|].
    exists j. auto.
Qed.

End SyncSpec.

(* ---------- version names: distinct, all in one directory ---------- *)

Definition ns (s : str) : Prop := forallb (fun c => negb (is_slash c)) s = true.

Lemma ns_app a b : ns a -> ns b -> ns (a ++ b).
Proof. unfold ns. intros Ha Hb. rewrite forallb_app, Ha, Hb. reflexivity. Qed.

Lemma ns_skipn k : forall s, ns s -> ns (skipn k s).
Proof.
  induction k as [|k IH]; intros [|c s] H; cbn [skipn]; try exact H.
  apply IH. unfold ns in *. cbn [forallb] in H. apply andb_true_iff in H. tauto.
Qed.

Lemma ns_nil : ns [].
Proof. reflexivity. Qed.

Lemma rindex_from_tail_ns f s : forall i acc k,
  rindex_from f s i acc = Some k ->
  (acc = Some k /\ forallb (fun c => negb (f c)) s = true) \/
  (i <= k /\ forallb (fun c => negb (f c)) (skipn (S (k - i)) s) = true).
Proof.
  induction s as [|c s IH]; intros i acc k H; cbn [rindex_from] in H.
  - left. auto.
  - destruct (IH _ _ _ H) as [[E Hs]|[Hle Hs]].
    + destruct (f c) eqn:Ec.
      * injection E as <-. right. split; [lia|]. rewrite Nat.sub_diag. exact Hs.
      * left. split; [exact E|]. cbn [forallb]. rewrite Ec. exact Hs.
    + right. split; [lia|]. replace (S (k - i)) with (S (S (k - S i))) by lia. exact Hs.
Qed.

Lemma basename_ns p : ns (basename p).
Proof.
  unfold basename, rindex. destruct (rindex_from is_slash p 0 None) as [k|] eqn:E.
  - destruct (rindex_from_tail_ns _ _ _ _ _ E) as [[E' _]|[_ Hs]]; [discriminate|].
    rewrite Nat.sub_0_r in Hs. exact Hs.
  - assert (H : forall s i, rindex_from is_slash s i None = None -> ns s).
    { induction s as [|c s IH]; intros i H; [reflexivity|]. cbn [rindex_from] in H.
      destruct (is_slash c) eqn:Ec.
      - exfalso. destruct (rindex_from_is_some is_slash s (S i) i) as [k Hk]. congruence.
      - unfold ns. cbn [forallb]. rewrite Ec. exact (IH _ H). }
    exact (H _ _ E).
Qed.

Lemma extension_ns rel : ns (get_file_extension rel).
Proof.
  unfold get_file_extension. pose proof (basename_ns rel) as H.
  destruct (index is_dot (basename rel)) as [[|k]|]; [|apply ns_skipn; exact H | apply ns_nil].
  destruct (index is_dot (skipn 1 (basename rel))); [apply ns_skipn; exact H | apply ns_nil].
Qed.

Lemma dirname_app_ns X s : X <> [] -> ns s -> dirname (X ++ ch_slash :: s) = X.
Proof.
  intros HX Hs. unfold dirname, rindex.
  rewrite rindex_from_app. cbn [rindex_from]. change (is_slash ch_slash) with true. cbv iota.
  rewrite rindex_from_none by exact Hs.
  cbn [Nat.add]. destruct X as [|x X]; [congruence|].
  change (length (x :: X)) with (S (length X)).
  change (S (length X)) with (length (x :: X)).
  rewrite firstn_app, Nat.sub_diag, firstn_all. cbn [firstn]. rewrite app_nil_r. reflexivity.
Qed.

(* the n-th candidate name of a store path *)
Definition sp_at (sp : store_path) (n : nat) : store_path :=
  mkSP (sp_base sp) (sp_ext sp) (sp_dups sp + N.of_nat n).

Lemma sp_at_0 sp : sp_at sp 0 = sp.
Proof. destruct sp as [bs ex dp]. unfold sp_at. cbn [sp_base sp_ext sp_dups]. f_equal. lia. Qed.

Lemma sp_at_S sp n : increment (sp_at sp n) = sp_at sp (S n).
Proof. unfold increment, sp_at. cbn [sp_base sp_ext sp_dups]. f_equal. lia. Qed.

Lemma current_path_inj bs ex n m :
  current_path (mkSP bs ex n) = current_path (mkSP bs ex m) -> n = m.
Proof.
  unfold current_path. cbn [sp_base sp_ext sp_dups].
  destruct (N.eqb_spec n 0) as [->|Hn]; destruct (N.eqb_spec m 0) as [->|Hm]; intros E.
  - reflexivity.
  - apply app_inv_head in E. apply (f_equal (@length ascii)) in E.
    cbn [length] in E. rewrite app_length in E. lia.
  - apply app_inv_head in E. apply (f_equal (@length ascii)) in E.
    cbn [length] in E. rewrite app_length in E. lia.
  - apply app_inv_head in E. injection E as E. apply app_inv_tail in E. apply dec_inj. exact E.
Qed.

Section Names.
Variables (X version ext : str) (fs0 : fs).
Hypothesis HX : X <> [].
Hypothesis Hver : ns version.
Hypothesis Hext : ns ext.

Let sp0 := mkSP (X ++ ch_slash :: version) ext 0.

Lemma ch_dash_ns : is_slash ch_dash = false.
Proof. reflexivity. Qed.

Lemma name_dirname n : dirname (current_path (sp_at sp0 n)) = X.
Proof.
  unfold current_path, sp_at, sp0. cbn [sp_base sp_ext sp_dups].
  destruct (0 + N.of_nat n =? 0)%N.
  - rewrite <- app_assoc. cbn [app]. apply dirname_app_ns; [exact HX|]. apply ns_app; assumption.
  - rewrite <- app_assoc. cbn [app]. apply dirname_app_ns; [exact HX|].
    apply ns_app; [exact Hver|]. unfold ns. cbn [forallb]. rewrite ch_dash_ns. cbn [negb andb].
    apply ns_app; [|exact Hext]. apply digits_no_slash. apply dec_digits.
Qed.

Lemma name_ne_root n : current_path (sp_at sp0 n) <> root_path.
Proof.
  intros E. apply (f_equal (@length ascii)) in E.
  assert (HlX : 1 <= length X) by (destruct X; [congruence | cbn [length]; lia]).
  unfold current_path, sp_at, sp0, root_path in E. cbn [sp_base sp_ext sp_dups] in E.
  destruct (0 + N.of_nat n =? 0)%N; rewrite !app_length in E; cbn [length] in E; lia.
Qed.

Lemma name_inj n m : current_path (sp_at sp0 n) = current_path (sp_at sp0 m) -> n = m.
Proof. unfold sp_at. intros E. apply current_path_inj in E. lia. Qed.

(* more names than the directory has entries cannot all exist *)
Lemma no_room cnt :
  cnt = length (children fs0 X) ->
  (forall n, n < S cnt -> lookup fs0 (current_path (sp_at sp0 n)) <> None) -> False.
Proof.
  intros Hc Hall.
  set (names := map (fun n => current_path (sp_at sp0 n)) (seq 0 (S cnt))).
  assert (Hnd : NoDup names).
  { unfold names. apply Injective_map_NoDup; [|apply seq_NoDup].
    intros n m E. apply name_inj. exact E. }
  assert (Hincl : incl names (map fst (children fs0 X))).
  { intros p Hp. unfold names in Hp. apply in_map_iff in Hp. destruct Hp as [n [<- Hn]].
    apply in_seq in Hn.
    destruct (children_intro fs0 X (current_path (sp_at sp0 n)) (name_ne_root n) (name_dirname n))
      as [v Hv]; [apply Hall; lia|].
    apply in_map_iff. exists (current_path (sp_at sp0 n), v). auto. }
  pose proof (NoDup_incl_length Hnd Hincl) as Hlen.
  unfold names in Hlen. rewrite !map_length, seq_length in Hlen. lia.
Qed.

End Names.

Print Assumptions ht_sync_file.
Print Assumptions no_room.
