(* C04 for the WHOLE program: "storing a version never overwrites, truncates,
   renames or deletes anything already in the file store or project store",
   for Klunok.klunok (start-up of main.c, the REAL load_handler, the event loop
   over the REAL handler programs) and for Daemon.daemon_loop, under EVERY
   oracle.  Statements only; the proofs are in WholeInvariants.v.

   Vocabulary (StoreFs.v, WholeInvariants.v):
   [preserved c f f']   every file under the store root or the project store
                        root of c that exists in f exists in f' under the same
                        name with the same inode and the same bytes.
   [disjoint_locs c], [SI c oj f], [SInv c h f]: the hypotheses of
                        Properties_C04.v, verbatim.
   [cfg_write self cp n c]  notification n is a close-after-write of the
                        configuration file cp by another process, without the
                        exec bit, and the file then parses to c.
   [reload_ok c h w]    the hypotheses of C04_reload_store_immutable on the new
                        configuration c in the state (h, w) in which the
                        notification arrives, and c has the store root and the
                        project store root of the configuration in force.
   [env_keeps c oj w w2]  the environment, replacing world w by w2, itself
                        keeps the store: preserved c (w_fs w) (w_fs w2), and
                        SI c oj (w_fs w2).
   [store_run_ok self rev o cp ns h w]  along the run of the daemon from (h, w)
                        under oracle o: every NEnv w2 of ns satisfies env_keeps
                        for the configuration and journal of the handler and
                        the world it replaces; every configuration c that a
                        notification of ns can install (cfg_write) satisfies
                        reload_ok in the state in which it arrives.
   [quiet cp ns]        no NEnv, and every NEvent e path nc of ns has nc = None
                        or cp <> Some path (DaemonProofs.no_cfg_event): then
                        store_run_ok holds whatever the state. *)
From K Require Import Str Dec Trace Fs World Progs Handler StoreFs StoreProofs ReloadProofs ReloadHistory
     Main MainProofs Daemon DaemonProofs Klunok KlunokProofs WholeInvariants.
Local Open Scope N_scope.

(* THE WHOLE PROGRAM.  Whatever `klunok` returns -- the items of a failed
   start-up or load, of a run that exited or went through all notifications,
   or None: the process died at some call of load_handler or of a handler
   program -- every file that was in the file store or project store of the
   initial world is in the final world with the same name, inode and bytes. *)
Theorem C04_whole_store_immutable :
  forall (o : oracle) (env : Main.env) (cfg : config) (rev : bool) (ns : list notif) (w : world),
  disjoint_locs cfg ->
  SI cfg None (w_fs w) ->
  (forall h w1, loaded env cfg o w = Some (h, w1) ->
     store_run_ok (e_self env) rev o (h_cfg_path h) ns h w1) ->
  preserved cfg (w_fs w) (w_fs (snd (klunok env cfg rev ns o w))).
Proof. exact whole_store_immutable. Qed.
Print Assumptions C04_whole_store_immutable.

(* hypotheses on the start only: those of C04_restart_store_immutable, and a
   notification list without environment steps and without a valid rewritten
   configuration *)
Theorem C04_whole_store_immutable_quiet :
  forall (o : oracle) (env : Main.env) (cfg : config) (rev : bool) (ns : list notif) (w : world),
  disjoint_locs cfg ->
  SI cfg None (w_fs w) ->
  (forall cp cpl u g n, snd (startup env) = Some (cp, cpl, u, g, n) -> quiet cp ns) ->
  preserved cfg (w_fs w) (w_fs (snd (klunok env cfg rev ns o w))).
Proof. exact whole_store_immutable_quiet. Qed.
Print Assumptions C04_whole_store_immutable_quiet.

(* THE DAEMON from a loaded handler: the hypotheses of
   C04_history_store_immutable; when the run returns they hold again of the
   handler and world it ends with, for a configuration with the same store
   roots (so the statement chains, also across restarts: C04_restart) *)
Theorem C04_daemon_store_immutable :
  forall (o : oracle) (self : N) (rev : bool) (ns : list notif) (pause : Z) (h : handler) (w : world),
  disjoint_locs (h_cfg h) ->
  SInv (h_cfg h) h (w_fs w) ->
  store_run_ok self rev o (h_cfg_path h) ns h w ->
  let res := daemon_loop self rev ns pause h o w in
  preserved (h_cfg h) (w_fs w) (w_fs (snd res)) /\
  (forall outs h', fst res = Some (outs, h') ->
     same_store (h_cfg h) (h_cfg h') /\ disjoint_locs (h_cfg h') /\ SInv (h_cfg h') h' (w_fs (snd res))).
Proof. exact daemon_store_immutable. Qed.
Print Assumptions C04_daemon_store_immutable.

Theorem C04_daemon_store_immutable_quiet :
  forall (o : oracle) (self : N) (rev : bool) (ns : list notif) (pause : Z) (h : handler) (w : world),
  disjoint_locs (h_cfg h) ->
  SInv (h_cfg h) h (w_fs w) ->
  quiet (h_cfg_path h) ns ->
  preserved (h_cfg h) (w_fs w) (w_fs (snd (daemon_loop self rev ns pause h o w))).
Proof. exact daemon_store_immutable_quiet. Qed.
Print Assumptions C04_daemon_store_immutable_quiet.

(* ... and at every loop head the run reaches *)
Theorem C04_daemon_store_immutable_state :
  forall (o : oracle) (self : N) (rev : bool) (ns : list notif) (pause : Z) (h : handler) (w : world) z hp wp,
  disjoint_locs (h_cfg h) ->
  SInv (h_cfg h) h (w_fs w) ->
  store_run_ok self rev o (h_cfg_path h) ns h w ->
  daemon_state self rev o ns pause h w = Some (z, hp, wp) ->
  preserved (h_cfg h) (w_fs w) (w_fs wp) /\
  same_store (h_cfg h) (h_cfg hp) /\ disjoint_locs (h_cfg hp) /\ SInv (h_cfg hp) hp (w_fs wp).
Proof. exact daemon_store_immutable_state. Qed.
Print Assumptions C04_daemon_store_immutable_state.

(* the two conditions store_run_ok puts on a run, spelled out *)
Theorem C04_store_run_ok_env :
  forall self rev o cp w2 rest h w,
  store_run_ok self rev o cp (NEnv w2 :: rest) h w <->
  (preserved (h_cfg h) (w_fs w) (w_fs w2) /\ SI (h_cfg h) (h_journal h) (w_fs w2)) /\
  store_run_ok self rev o cp rest h w2.
Proof. intros. reflexivity. Qed.

Theorem C04_store_run_ok_quiet :
  forall self rev o cp ns, quiet cp ns -> forall h w, store_run_ok self rev o cp ns h w.
Proof. exact quiet_store_run_ok. Qed.

(* non-vacuity.  KlunokExample's command line and configuration, in a world
   that already holds the stored version /st/a/v50 (inode 9): pid 7 executes
   /b/vim and closes /h/a after writing, poll times out.  EVERY oracle: the
   stored version keeps its name, inode and bytes. *)
Example C04_whole_example_every_oracle : forall (o : oracle),
  let w' := snd (klunok KlunokExample.env_user MixedHistory.MixedExample.cfgM false WholeExample.nsQ o WholeExample.wS) in
  disjoint_locs MixedHistory.MixedExample.cfgM /\
  SI MixedHistory.MixedExample.cfgM None (w_fs WholeExample.wS) /\
  lookup (w_fs w') WholeExample.v50 = Some (NFile 9) /\
  f_bytes (get_file (w_fs w') 9) = MixedHistory.MixedExample.old.
Proof.
  intros o w'. destruct WholeExample.start_hyps as (D & HS & _).
  split; [exact D|]. split; [exact HS|]. apply WholeExample.stored_version_survives_every_oracle.
Qed.

(* with an environment step (the clock moves to 106 s) under the oracle that
   cuts every transfer into pieces of 2 bytes: the condition on the run holds,
   v50 is kept by the theorem, and the run does store a new version v106 *)
Example C04_whole_example_env :
  let w' := snd (klunok KlunokExample.env_user MixedHistory.MixedExample.cfgM false WholeExample.nsE
                   MixedHistory.MixedExample.o2 WholeExample.wS) in
  (forall h w1, loaded KlunokExample.env_user MixedHistory.MixedExample.cfgM MixedHistory.MixedExample.o2 WholeExample.wS = Some (h, w1) ->
     store_run_ok (e_self KlunokExample.env_user) false MixedHistory.MixedExample.o2 (h_cfg_path h) WholeExample.nsE h w1) /\
  lookup (w_fs w') WholeExample.v50 = Some (NFile 9) /\
  f_bytes (get_file (w_fs w') 9) = MixedHistory.MixedExample.old /\
  lookup (w_fs WholeExample.wS) WholeExample.v106 = None /\
  lookup (w_fs w') WholeExample.v106 = Some (NFile 10).
Proof.
  intros w'. split; [exact WholeExample.nsE_ok|].
  destruct WholeExample.stored_version_survives_o2 as (A & B & C & D & _).
  split; [exact A|]. split; [exact B|]. split; [exact C | exact D].
Qed.
Print Assumptions C04_whole_example_every_oracle.
Print Assumptions C04_whole_example_env.
