(* C17 Event loop: every notification dispatched once, own writes ignored. *)
From K Require Import Str Main MainProofs.
Local Open Scope N_scope.

(* a successfully read, well-versioned, non-overflow notification causes exactly
   one dispatch by kind -- exec if the exec bit is set, else write if the write
   bit is set and the writer is not the daemon itself, else nothing -- then exactly
   one close of its descriptor, then the pending queue is serviced, and the next
   sleep is what that asked for *)
Theorem C17_dispatch_once : forall (self : N) (s : slot) (rest : list slot) (pause z : Z),
  good_event s -> handler_ok self s = true -> s_timeout s = Some z ->
  loop self (s :: rest) pause =
  OPoll (poll_ms pause) :: ORead :: dispatch self s ++ OClose (ev_fd (s_ev s)) :: OTimeout :: loop self rest z.
Proof. exact loop_good. Qed.
Print Assumptions C17_dispatch_once.

Theorem C17_dispatch_by_kind : forall (self : N) (s : slot),
  dispatch self s =
    if ev_exec (s_ev s) then [OExec (ev_pid (s_ev s)) (ev_fd (s_ev s))]
    else if ev_write (s_ev s) && negb (ev_pid (s_ev s) =? self) then [OWrite (ev_pid (s_ev s)) (ev_fd (s_ev s))]
    else [].
Proof. reflexivity. Qed.
Print Assumptions C17_dispatch_by_kind.

(* writes performed by the daemon itself are ignored *)
Theorem C17_self_ignored : forall (self : N) (s : slot),
  ev_exec (s_ev s) = false -> ev_pid (s_ev s) = self -> dispatch self s = [].
Proof. exact self_write_ignored. Qed.
Print Assumptions C17_self_ignored.

(* a poll failure, an unexpected poll condition, a failed or short read, an
   unsupported format or a queue overflow stop the daemon with an error: nothing
   is dispatched and the queue is not serviced for that slot *)
Theorem C17_stop_on_error : forall (self : N) (s : slot) (rest : list slot) (pause : Z) (pre : list out) (t : topmsg),
  bad_top s = Some (pre, t) ->
  loop self (s :: rest) pause = OPoll (poll_ms pause) :: pre ++ [OExit 1 (Some t)].
Proof. exact loop_stops. Qed.
Print Assumptions C17_stop_on_error.

Theorem C17_bad_top_cases : forall (s : slot),
  (s_poll s = PollErr \/ s_poll s = PollHup -> bad_top s = Some ([], T_poll)) /\
  (s_poll s = PollEvent -> s_read s <> ReadFull -> bad_top s = Some ([ORead], T_read)) /\
  (s_poll s = PollEvent -> s_read s = ReadFull -> ev_vers_ok (s_ev s) = false -> bad_top s = Some ([ORead], T_version)) /\
  (s_poll s = PollEvent -> s_read s = ReadFull -> ev_vers_ok (s_ev s) = true -> ev_overflow (s_ev s) = true ->
   bad_top s = Some ([ORead], T_overflow)).
Proof.
  intros s. unfold bad_top. repeat split.
  - intros [H|H]; rewrite H; reflexivity.
  - intros H1 H2. rewrite H1. destruct (s_read s); congruence.
  - intros H1 H2 H3. rewrite H1, H2, H3. reflexivity.
  - intros H1 H2 H3 H4. rewrite H1, H2, H3, H4. reflexivity.
Qed.
Print Assumptions C17_bad_top_cases.

(* a handler failure is reported after the descriptor was closed *)
Theorem C17_handler_error : forall (self : N) (s : slot) (rest : list slot) (pause : Z),
  good_event s -> handler_ok self s = false ->
  loop self (s :: rest) pause =
  OPoll (poll_ms pause) :: ORead :: dispatch self s ++ OClose (ev_fd (s_ev s)) ::
  [OExit 1 (Some (if ev_exec (s_ev s) then T_exec else T_write))].
Proof. exact loop_handler_error. Qed.
Print Assumptions C17_handler_error.

(* a wake-up without a notification also services the queue *)
Theorem C17_wakeup_services_queue : forall (self : N) (s : slot) (rest : list slot) (pause z : Z),
  s_poll s = PollTimeout -> s_timeout s = Some z ->
  loop self (s :: rest) pause = OPoll (poll_ms pause) :: OTimeout :: loop self rest z.
Proof. exact loop_wakeup. Qed.
Print Assumptions C17_wakeup_services_queue.

(* the sleep is the wait asked for: milliseconds = 1000 * seconds up to INT_MAX/1000,
   clamped above, negative (indefinite) for a negative wait *)
Theorem C17_sleep_is_pause : forall (pause : Z),
  ((pause <= 2147483)%Z -> poll_ms pause = (1000 * pause)%Z) /\
  ((pause < 0)%Z -> (poll_ms pause < 0)%Z) /\
  ((0 <= pause)%Z -> (0 <= poll_ms pause <= 2147483647)%Z).
Proof. exact poll_ms_spec. Qed.
Print Assumptions C17_sleep_is_pause.
