(* C07, handler level: editor attribution follows the process's executions.

   Properties_C07.C07_attribution is about the pure fold [attr_run] of
   Bitmap.v.  This file ties it to the program [Handler.handle_open_exec]
   running against the WORLD.

   The handler keeps the marked processes as a list used as a set ([h_pids],
   consulted only through [pid_mem]) while [attr] keeps a bit table consulted
   only through [bm_get].  The abstraction [abs_attr] therefore is stated up to
   [attr_eqv]: the same answers of [bm_get] for every process id, and the same
   list of recorded loaders.

   Main results
     elf_interp_pure / get_elf_interpreter_benign
                              what get_elf_interpreter returns is a function of
                              the bytes of the file (and of the existence of the
                              loader it names)
     h_step_refines           the pure update of the handler is attr_step
     handle_open_exec_refines one exec event, every benign oracle: the new
                              handler, the error trace, the file system
     handle_open_exec_any_oracle   every oracle (failure side)
     handle_open_execs_refine_attr_run   sequences of exec events
     C07_handler_attribution  the handler-level corollary of C07_attribution
     Module AttrExample       two editors with different loaders, a non-editor,
                              pid reuse *)
From K Require Import Str Dec Trace Fs World Progs Sieve Elf Handler Bitmap BitmapProofs
     SyncProofs JournalProofs QueueProofs PassProofs FdProofs Properties_C07.
From Coq Require Import Lia.
Arguments N.add : simpl never.
Arguments N.sub : simpl never.
Arguments N.mul : simpl never.
Arguments N.of_nat : simpl never.
Arguments N.to_nat : simpl never.
Arguments N.eqb : simpl never.
Arguments N.leb : simpl never.
Arguments N.ltb : simpl never.
Arguments N.min : simpl never.

Notation benign := SyncProofs.benign.

(* ====================================================================== *)
(* 1. The abstraction                                                     *)
(* ====================================================================== *)

(* the bit table that has exactly the listed processes marked *)
Definition abs_pids (l : list N) : bitmap :=
  fold_right (fun p b => bm_set (N.to_nat p) b) [] l.

Definition abs_attr (h : handler) : attr := mkAttr (abs_pids (h_pids h)) (h_interps h).

(* attribution states are observed through bm_get and the loader list *)
Definition attr_eqv (a b : attr) : Prop :=
  (forall p, bm_get p (a_pids a) = bm_get p (a_pids b)) /\ a_interps a = a_interps b.

Lemma attr_eqv_refl a : attr_eqv a a.
Proof. split; reflexivity. Qed.

Lemma attr_eqv_sym a b : attr_eqv a b -> attr_eqv b a.
Proof. intros [H1 H2]. split; [intros p; symmetry; apply H1 | symmetry; exact H2]. Qed.

Lemma attr_eqv_trans a b c : attr_eqv a b -> attr_eqv b c -> attr_eqv a c.
Proof.
  intros [H1 H2] [H3 H4]. split; [intros p; rewrite H1; apply H3 | congruence].
Qed.

Lemma bm_get_nil p : bm_get p [] = false.
Proof. unfold bm_get. destruct p; reflexivity. Qed.

Lemma eqb_to_nat a p : Nat.eqb (N.to_nat a) p = N.eqb (N.of_nat p) a.
Proof.
  destruct (Nat.eqb_spec (N.to_nat a) p) as [E|E]; symmetry.
  - apply N.eqb_eq. subst p. apply N2Nat.id.
  - apply N.eqb_neq. intros E'. apply E. subst a. apply Nat2N.id.
Qed.

Lemma bm_get_abs_pids l p : bm_get p (abs_pids l) = pid_mem (N.of_nat p) l.
Proof.
  induction l as [|a l IH]; cbn [abs_pids fold_right pid_mem existsb].
  - apply bm_get_nil.
  - fold (abs_pids l). rewrite bm_get_set, IH, eqb_to_nat. fold (pid_mem (N.of_nat p) l).
    destruct (N.eqb (N.of_nat p) a); reflexivity.
Qed.

Lemma bm_get_abs_pids_N l (p : N) : bm_get (N.to_nat p) (abs_pids l) = pid_mem p l.
Proof. rewrite bm_get_abs_pids, N2Nat.id. reflexivity. Qed.

Lemma pid_mem_remove p q l :
  pid_mem q (pid_remove p l) = if N.eqb p q then false else pid_mem q l.
Proof.
  unfold pid_mem, pid_remove. induction l as [|a l IH]; cbn [filter existsb].
  - destruct (N.eqb p q); reflexivity.
  - destruct (N.eqb_spec p a) as [E|E]; cbn [negb].
    + rewrite IH. subst a. destruct (N.eqb_spec p q) as [E2|E2]; [reflexivity|].
      destruct (N.eqb_spec q p) as [E3|E3]; [congruence | reflexivity].
    + cbn [existsb]. rewrite IH.
      destruct (N.eqb_spec p q) as [E2|E2]; [|reflexivity].
      subst q. destruct (N.eqb_spec p a) as [E3|E3]; [contradiction | reflexivity].
Qed.

(* attr_step only observes its state through bm_get and the loader list *)
Lemma attr_step_eqv editors a b e :
  attr_eqv a b -> attr_eqv (attr_step editors a e) (attr_step editors b e).
Proof.
  intros [H1 H2]. unfold attr_step.
  destruct (mem (exe_name (ex_path e)) editors).
  - split; cbn [a_pids a_interps].
    + intros p. rewrite !bm_get_set, H1. reflexivity.
    + rewrite H2. reflexivity.
  - rewrite H1, H2. destruct (bm_get (ex_pid e) (a_pids b)); [|split; assumption].
    destruct (mem (ex_path e) (a_interps b)); [split; assumption|].
    split; cbn [a_pids a_interps]; [|reflexivity].
    intros p. rewrite !bm_get_unset, H1. reflexivity.
Qed.

Lemma attr_fold_eqv editors evs : forall a b,
  attr_eqv a b ->
  attr_eqv (fold_left (attr_step editors) evs a) (fold_left (attr_step editors) evs b).
Proof.
  induction evs as [|e evs IH]; intros a b H; cbn [fold_left]; [exact H|].
  apply IH. apply attr_step_eqv. exact H.
Qed.

(* ---------- the pure update of the handler ---------- *)

(* what handle_open_exec does to the handler when [oi] is what came out of
   reading the executable (used only when the file is an editor) *)
Definition h_step (h : handler) (pid : N) (path : str) (oi : option str) : handler :=
  if mem (basename path) (c_editors (h_cfg h)) then
    mkH (h_cfg h) (h_cfg_path h) (h_cpl h) (h_q h) (h_journal h)
        (if pid_mem pid (h_pids h) then h_pids h else pid :: h_pids h)
        (match oi with Some s => s :: h_interps h | None => h_interps h end)
  else if pid_mem pid (h_pids h) then
    if negb (mem path (h_interps h)) then
      mkH (h_cfg h) (h_cfg_path h) (h_cpl h) (h_q h) (h_journal h)
          (pid_remove pid (h_pids h)) (h_interps h)
    else h
  else h.

(* everything but the two attribution fields is left alone *)
Definition same_static (h h' : handler) : Prop :=
  h_cfg h' = h_cfg h /\ h_cfg_path h' = h_cfg_path h /\ h_cpl h' = h_cpl h /\
  h_q h' = h_q h /\ h_journal h' = h_journal h.

Lemma same_static_refl h : same_static h h.
Proof. repeat split. Qed.

Lemma same_static_trans a b c : same_static a b -> same_static b c -> same_static a c.
Proof.
  intros (A1 & A2 & A3 & A4 & A5) (B1 & B2 & B3 & B4 & B5). repeat split; congruence.
Qed.

Lemma h_step_static h pid path oi : same_static h (h_step h pid path oi).
Proof.
  unfold h_step.
  destruct (mem (basename path) (c_editors (h_cfg h))); [repeat split|].
  destruct (pid_mem pid (h_pids h)); [|apply same_static_refl].
  destruct (negb (mem path (h_interps h))); [repeat split | apply same_static_refl].
Qed.

(* the marked processes do not depend on what was read from the executable *)
Lemma h_step_pids h pid path oi : h_pids (h_step h pid path oi) = h_pids (h_step h pid path None).
Proof.
  unfold h_step.
  destruct (mem (basename path) (c_editors (h_cfg h))); [reflexivity|].
  destruct (pid_mem pid (h_pids h)); [|reflexivity].
  destruct (negb (mem path (h_interps h))); reflexivity.
Qed.

Theorem h_step_refines h pid path oi :
  attr_eqv (abs_attr (h_step h pid path oi))
           (attr_step (c_editors (h_cfg h)) (abs_attr h) (mkEx (N.to_nat pid) path oi)).
Proof.
  unfold h_step, attr_step. cbn [ex_path ex_pid ex_interp].
  change (exe_name path) with (basename path).
  destruct (mem (basename path) (c_editors (h_cfg h))) eqn:Ed.
  - unfold abs_attr. cbn [h_pids h_interps a_pids a_interps]. split; cbn [a_pids a_interps].
    + intros p. rewrite bm_get_set, !bm_get_abs_pids, eqb_to_nat.
      destruct (pid_mem pid (h_pids h)) eqn:Em.
      * destruct (N.eqb_spec (N.of_nat p) pid) as [E|E]; [rewrite E; exact Em | reflexivity].
      * cbn [pid_mem existsb]. fold (pid_mem (N.of_nat p) (h_pids h)).
        destruct (N.eqb (N.of_nat p) pid); reflexivity.
    + destruct oi; reflexivity.
  - unfold abs_attr at 2 3. cbn [a_pids a_interps].
    rewrite bm_get_abs_pids_N.
    destruct (pid_mem pid (h_pids h)) eqn:Em; [|apply attr_eqv_refl].
    destruct (mem path (h_interps h)) eqn:Ei; cbn [negb]; [apply attr_eqv_refl|].
    unfold abs_attr. cbn [h_pids h_interps]. split; cbn [a_pids a_interps]; [|reflexivity].
    intros p. rewrite bm_get_unset, !bm_get_abs_pids, pid_mem_remove, eqb_to_nat.
    rewrite N.eqb_sym. reflexivity.
Qed.

(* ====================================================================== *)
(* 2. get_elf_interpreter is a function of the bytes of the file          *)
(* ====================================================================== *)

Local Open Scope N_scope.

(* read(fd, buf, want) at position pos of a file with content [b] *)
Definition pread (b : str) (pos want : N) : str :=
  let len := N.of_nat (length b) in
  if len <=? pos then []
  else firstn (N.to_nat (N.min want (len - pos))) (skipn (N.to_nat pos) b).

(* the read loop of elfinterp.c: the data, or nothing when the file ends first *)
Definition pread_full (b : str) (pos want : N) : option str :=
  if want =? 0 then Some []
  else
    let r := pread b pos want in
    let got := N.of_nat (length r) in
    if got =? 0 then None else if got <? want then None else Some r.

Fixpoint phdr_pure (count : nat) (b : str) (pos : N) : option str :=
  match count with
  | O => None
  | S count' =>
      match pread_full b pos 56 with
      | None => None
      | Some p =>
          if field p 0 4 =? 3 then
            let off := field p 8 8 in
            let filesz := field p 32 8 in
            if off_max <=? off then None
            else if alloc_max <? filesz then None
            else
              match pread_full b off filesz with
              | None => None
              | Some s => if last_is_nul s then Some (c_string s) else None
              end
          else phdr_pure count' b (pos + 56)
      end
  end.

(* the PT_INTERP string of an ELF image (before realpath) *)
Definition elf_interp_pure (b : str) : option str :=
  match pread_full b 0 64 with
  | None => None
  | Some hd =>
      let phoff := field hd 32 8 in
      if negb (str_eqb (firstn 4 hd) elf_magic) || (phoff =? 0) || (off_max <=? phoff) then None
      else phdr_pure (N.to_nat (field hd 56 2)) b phoff
  end.

(* nothing but the call counter and the log moved *)
Definition quiet (w w' : world) : Prop :=
  w_fs w' = w_fs w /\ w_tr w' = w_tr w /\ w_clock w' = w_clock w.

Lemma quiet_refl w : quiet w w.
Proof. repeat split. Qed.

Lemma quiet_trans a b c : quiet a b -> quiet b c -> quiet a c.
Proof. intros (A1 & A2 & A3) (B1 & B2 & B3). repeat split; congruence. Qed.

Lemma k_read_at_benign o w i pos want :
  benign o ->
  exists w', k_read_at i pos want o w =
               (Some (inl (pread (f_bytes (get_file (w_fs w) i)) pos want)), w') /\
             quiet w w'.
Proof.
  intros H. unfold k_read_at. rewrite sys_benign by exact H. cbv beta zeta. cbn [fst snd].
  eexists. split; [reflexivity|]. repeat split.
Qed.

Lemma read_full_benign o w i pos want :
  benign o ->
  exists w', read_full i pos want o w =
               (Some (pread_full (f_bytes (get_file (w_fs w) i)) pos want), w') /\
             quiet w w'.
Proof.
  intros H. unfold read_full, pread_full.
  destruct (want =? 0).
  { exists w. split; [reflexivity | apply quiet_refl]. }
  destruct (k_read_at_benign o w i pos want H) as (w1 & E1 & Q1).
  rewrite (bind_some _ _ _ _ _ _ E1). cbv zeta.
  set (r := pread (f_bytes (get_file (w_fs w) i)) pos want).
  destruct (N.of_nat (length r) =? 0).
  { exists w1. split; [reflexivity | exact Q1]. }
  destruct (N.of_nat (length r) <? want).
  - destruct (k_read_at_benign o w1 i (pos + N.of_nat (length r)) want H) as (w2 & E2 & Q2).
    rewrite (bind_some _ _ _ _ _ _ E2).
    exists w2. split; [reflexivity | exact (quiet_trans _ _ _ Q1 Q2)].
  - exists w1. split; [reflexivity | exact Q1].
Qed.

Lemma phdr_loop_benign o i : benign o -> forall count pos w,
  exists w', phdr_loop count i pos o w =
               (Some (phdr_pure count (f_bytes (get_file (w_fs w) i)) pos), w') /\
             quiet w w'.
Proof.
  intros H. induction count as [|count IH]; intros pos w; cbn [phdr_loop phdr_pure].
  { exists w. split; [reflexivity | apply quiet_refl]. }
  destruct (read_full_benign o w i pos 56 H) as (w1 & E1 & Q1).
  rewrite (bind_some _ _ _ _ _ _ E1).
  destruct (pread_full (f_bytes (get_file (w_fs w) i)) pos 56) as [p|].
  2:{ exists w1. split; [reflexivity | exact Q1]. }
  destruct (field p 0 4 =? 3).
  - cbv zeta. destruct (off_max <=? field p 8 8).
    { exists w1. split; [reflexivity | exact Q1]. }
    destruct (alloc_max <? field p 32 8).
    { exists w1. split; [reflexivity | exact Q1]. }
    destruct (read_full_benign o w1 i (field p 8 8) (field p 32 8) H) as (w2 & E2 & Q2).
    rewrite (bind_some _ _ _ _ _ _ E2).
    destruct Q1 as (F1 & T1 & C1). rewrite F1.
    assert (Q : quiet w w2).
    { apply (quiet_trans w w1 w2); [repeat split; assumption | exact Q2]. }
    destruct (pread_full (f_bytes (get_file (w_fs w) i)) (field p 8 8) (field p 32 8)) as [s|].
    + destruct (last_is_nul s); exists w2; (split; [reflexivity | exact Q]).
    + exists w2. split; [reflexivity | exact Q].
  - destruct (IH (pos + 56) w1) as (w2 & E2 & Q2).
    exists w2. split; [|exact (quiet_trans _ _ _ Q1 Q2)].
    rewrite E2. destruct Q1 as (F1 & _). rewrite F1. reflexivity.
Qed.

Theorem get_elf_interpreter_raw_benign o w i :
  benign o ->
  exists w', get_elf_interpreter_raw i o w =
               (Some (elf_interp_pure (f_bytes (get_file (w_fs w) i))), w') /\
             quiet w w'.
Proof.
  intros H. unfold get_elf_interpreter_raw, elf_interp_pure.
  destruct (read_full_benign o w i 0 64 H) as (w1 & E1 & Q1).
  rewrite (bind_some _ _ _ _ _ _ E1).
  destruct (pread_full (f_bytes (get_file (w_fs w) i)) 0 64) as [hd|].
  2:{ exists w1. split; [reflexivity | exact Q1]. }
  cbv zeta.
  destruct (negb (str_eqb (firstn 4 hd) elf_magic) || (field hd 32 8 =? 0) || (off_max <=? field hd 32 8)).
  { exists w1. split; [reflexivity | exact Q1]. }
  destruct (phdr_loop_benign o i H (N.to_nat (field hd 56 2)) (field hd 32 8) w1) as (w2 & E2 & Q2).
  exists w2. split; [|exact (quiet_trans _ _ _ Q1 Q2)].
  rewrite E2. destruct Q1 as (F1 & _). rewrite F1. reflexivity.
Qed.

Local Close Scope N_scope.

(* realpath: the loader must exist *)
Definition resolve (f : fs) (r : option str) : option str :=
  match r with
  | Some p => if fs_exists p f then Some p else None
  | None => None
  end.

Definition dangling (f : fs) (r : option str) : bool :=
  match r with
  | Some p => negb (fs_exists p f)
  | None => false
  end.

Theorem get_elf_interpreter_benign o w i :
  benign o -> tr_ok (w_tr w) = true ->
  let r := elf_interp_pure (f_bytes (get_file (w_fs w) i)) in
  exists w', get_elf_interpreter i o w = (Some (resolve (w_fs w) r), w') /\
             w_fs w' = w_fs w /\ w_clock w' = w_clock w /\
             w_tr w' = if dangling (w_fs w) r then tr_push (FErrno ENOENT) (w_tr w) else w_tr w.
Proof.
  intros H Hok r. unfold get_elf_interpreter.
  destruct (get_elf_interpreter_raw_benign o w i H) as (w1 & E1 & F1 & T1 & C1).
  rewrite (bind_some _ _ _ _ _ _ E1). fold r.
  destruct r as [p|]; cbn [resolve dangling].
  2:{ exists w1. split; [reflexivity|]. auto. }
  rewrite (bind_some _ _ _ _ _ _ (is_ok_eq o w1)). rewrite T1, Hok. cbn [negb].
  rewrite (bind_some _ _ _ _ _ _ (get_fs_eq o w1)). rewrite F1.
  destruct (fs_exists p (w_fs w)); cbn [negb].
  - exists w1. split; [reflexivity|]. auto.
  - eexists. split; [reflexivity|]. cbn [w_fs w_clock w_tr]. rewrite T1. auto.
Qed.

(* ====================================================================== *)
(* 3. One exec event                                                      *)
(* ====================================================================== *)

(* what reading the executable [path] yields on the file system [f]:
   the file's bytes determine the PT_INTERP string, realpath needs the loader *)
Definition raw_interp_of (f : fs) (path : str) : option str :=
  match lookup f path with
  | Some (NFile i) => elf_interp_pure (f_bytes (get_file f i))
  | _ => None
  end.

Definition interp_of (f : fs) (path : str) : option str := resolve f (raw_interp_of f path).

(* the exec event the pure model is fed with *)
Definition ev_of (f : fs) (pid : N) (path : str) : exec_ev :=
  mkEx (N.to_nat pid) path (interp_of f path).

Definition is_editor (h : handler) (path : str) : bool :=
  mem (basename path) (c_editors (h_cfg h)).

(* the one error a benign run can meet before the journal: an editor binary
   whose PT_INTERP names a file that does not exist (realpath fails) *)
Definition exec_dangling (h : handler) (f : fs) (path : str) : bool :=
  is_editor h path && dangling f (raw_interp_of f path).

(* the journal line *)
Definition exec_event_name (h : handler) (path : str) : option str :=
  if is_editor h path then c_ev_exec_editor (h_cfg h) else c_ev_exec_not_editor (h_cfg h).

Definition exec_line (h : handler) (now : Z) (pid : N) (path : str) : str :=
  match h_journal h, exec_event_name h path with
  | Some jn, Some e => journal_line (ts_of jn now) e pid path
  | _, _ => []
  end.

(* record_event for any pid (PassProofs.record_event_ok is the pid-0 instance) *)
Lemma record_event_pid_ok o w ev pid path h :
  benign o -> tr_ok (w_tr w) = true ->
  journal_fits (h_journal h) ev (w_clock w) ->
  exists w',
    record_event ev pid path h o w = (Some tt, w') /\
    tr_keep (w_tr w) (w_tr w') /\ w_clock w' = w_clock w /\
    journal_step (h_journal h)
      (match h_journal h, ev with
       | Some jn, Some e => journal_line (ts_of jn (w_clock w)) e pid path
       | _, _ => []
       end) (w_fs w) (w_fs w').
Proof.
  intros H Hok Hfit. unfold record_event.
  rewrite (bind_some _ _ _ _ _ _ (try_eq o w)).
  set (w1 := upd_tr tr_try w).
  assert (Hok1 : tr_ok (w_tr w1) = true) by (apply tr_try_ok; exact Hok).
  assert (Hn : exists w2,
             note ev pid path (h_journal h) o w1 = (Some tt, w2) /\
             w_tr w2 = w_tr w1 /\ w_clock w2 = w_clock w /\
             journal_step (h_journal h)
               (match h_journal h, ev with
                | Some jn, Some e => journal_line (ts_of jn (w_clock w)) e pid path
                | _, _ => []
                end) (w_fs w) (w_fs w2)).
  { destruct (h_journal h) as [jn|] eqn:Ej.
    - destruct ev as [e|].
      + destruct (note_appends_one_line o w1 e pid path jn H Hok1) as (w2 & E2 & A2 & T2 & C2).
        { exact (Hfit jn e eq_refl eq_refl). }
        exists w2. split; [exact E2|]. split; [exact T2|]. split; [exact C2|]. exact A2.
      + exists w1. split; [apply note_no_event|]. split; [reflexivity|]. split; [reflexivity|].
        cbn [journal_step]. apply appended_nil.
    - exists w1. split; [apply note_no_journal|]. split; [reflexivity|]. split; [reflexivity|].
      reflexivity. }
  destruct Hn as (w2 & E2 & T2 & C2 & J2).
  rewrite (bind_some _ _ _ _ _ _ E2).
  assert (Hk : tr_keep (w_tr w) (tr_finally_rethrow_static M_journal_cannot_write (w_tr w2))).
  { rewrite T2. apply tr_keep_finally_rethrow; [exact Hok | apply tr_keep_refl; exact Hok1]. }
  destruct (c_journal_path (h_cfg h)) as [jp|].
  - rewrite (bind_some _ _ _ _ _ _ (rethrow_context_eq jp o w2)).
    rewrite finally_rethrow_eq. eexists. split; [reflexivity|].
    cbn [upd_tr w_fs w_tr w_clock].
    rewrite (tr_rethrow_context_ok jp (w_tr w2)) by (rewrite T2; exact Hok1).
    split; [exact Hk|]. split; [exact C2 | exact J2].
  - rewrite (bind_some _ _ _ _ _ _ (ret_eq tt o w2)).
    rewrite finally_rethrow_eq. eexists. split; [reflexivity|].
    cbn [upd_tr w_fs w_tr w_clock].
    split; [exact Hk|]. split; [exact C2 | exact J2].
Qed.

(* the trace operations of record_event keep a failed trace failed *)
Lemma tr_try_notok t : tr_ok t = false -> tr_ok (tr_try t) = false.
Proof. intros H. unfold tr_try. rewrite H. exact H. Qed.

Lemma tr_rethrow_context_notok s t : tr_ok t = false -> tr_ok (tr_rethrow_context s t) = false.
Proof.
  intros H. unfold tr_rethrow_context.
  destruct (Nat.eqb (t_post t) 0 && negb (tr_ok t)); [reflexivity | exact H].
Qed.

Lemma tr_finally_rethrow_notok m t : tr_ok t = false -> tr_ok (tr_finally_rethrow_static m t) = false.
Proof.
  intros H. unfold tr_finally_rethrow_static, tr_decrement.
  destruct (t_post t) as [|p]; cbn [andb].
  - replace (tr_ok (mkTr (t_frames t) (Nat.pred (t_pre t)) 0)) with (tr_ok t) by reflexivity.
    rewrite H. reflexivity.
  - exact H.
Qed.

(* with an error pending nothing is written, for every oracle *)
Lemma record_event_notok o w ev pid path h :
  tr_ok (w_tr w) = false ->
  exists w',
    record_event ev pid path h o w = (Some tt, w') /\
    tr_ok (w_tr w') = false /\ w_clock w' = w_clock w /\ w_fs w' = w_fs w /\
    w_n w' = w_n w /\ w_log w' = w_log w.
Proof.
  intros Hno. unfold record_event.
  rewrite (bind_some _ _ _ _ _ _ (try_eq o w)).
  set (w1 := upd_tr tr_try w).
  assert (Hno1 : tr_ok (w_tr w1) = false) by (apply tr_try_notok; exact Hno).
  assert (En : note ev pid path (h_journal h) o w1 = (Some tt, w1)).
  { destruct (h_journal h) as [jn|]; [|reflexivity]. destruct ev as [e|]; [|reflexivity].
    unfold note, when_ok. rewrite (bind_some _ _ _ _ _ _ (is_ok_eq o w1)). rewrite Hno1. reflexivity. }
  rewrite (bind_some _ _ _ _ _ _ En).
  destruct (c_journal_path (h_cfg h)) as [jp|].
  - rewrite (bind_some _ _ _ _ _ _ (rethrow_context_eq jp o w1)).
    rewrite finally_rethrow_eq. eexists. split; [reflexivity|].
    cbn [upd_tr w_fs w_tr w_clock w_n w_log].
    split; [|auto]. apply tr_finally_rethrow_notok, tr_rethrow_context_notok. exact Hno1.
  - rewrite (bind_some _ _ _ _ _ _ (ret_eq tt o w1)).
    rewrite finally_rethrow_eq. eexists. split; [reflexivity|].
    cbn [upd_tr w_fs w_tr w_clock w_n w_log].
    split; [|auto]. apply tr_finally_rethrow_notok. exact Hno1.
Qed.

(* under a benign oracle record_event always returns (possibly with an error:
   a time stamp longer than NAME_MAX) *)
Lemma note_total o w ev pid path oj :
  benign o ->
  exists w', note ev pid path oj o w = (Some tt, w') /\ w_clock w' = w_clock w.
Proof.
  intros H. destruct oj as [jn|]; [|exists w; split; reflexivity].
  destruct ev as [e|]; [|exists w; split; reflexivity].
  unfold note, when_ok. rewrite (bind_some _ _ _ _ _ _ (is_ok_eq o w)).
  destruct (tr_ok (w_tr w)) eqn:Hok; [|exists w; split; reflexivity].
  destruct (Nat.ltb name_max (length (expand_pattern (j_pattern jn) (dec (Z.to_N (w_clock w)))))) eqn:El.
  - assert (Et : get_timestamp (j_pattern jn) o w
                 = (Some None, upd_tr (tr_push (FStatic M_ts_overflow)) w)).
    { unfold get_timestamp, bind, get_clock. rewrite is_ok_eq, Hok, El. reflexivity. }
    rewrite (bind_some _ _ _ _ _ _ Et). eexists. split; reflexivity.
  - apply Nat.ltb_ge in El.
    rewrite (bind_some _ _ _ _ _ _ (get_timestamp_ok (j_pattern jn) o w Hok El)).
    destruct (write_all_appends o H
                (S (length (journal_line (expand_pattern (j_pattern jn) (dec (Z.to_N (w_clock w)))) e pid path)))
                (j_ino jn) _ w (le_n _)) as (w' & Hw & _ & _ & Hck).
    exists w'. split; [exact Hw | exact Hck].
Qed.

Lemma record_event_total o w ev pid path h :
  benign o ->
  exists w', record_event ev pid path h o w = (Some tt, w') /\ w_clock w' = w_clock w.
Proof.
  intros H. unfold record_event.
  rewrite (bind_some _ _ _ _ _ _ (try_eq o w)).
  destruct (note_total o (upd_tr tr_try w) ev pid path (h_journal h) H) as (w2 & E2 & C2).
  rewrite (bind_some _ _ _ _ _ _ E2).
  destruct (c_journal_path (h_cfg h)) as [jp|].
  - rewrite (bind_some _ _ _ _ _ _ (rethrow_context_eq jp o w2)).
    rewrite finally_rethrow_eq. eexists. split; [reflexivity|]. exact C2.
  - rewrite (bind_some _ _ _ _ _ _ (ret_eq tt o w2)).
    rewrite finally_rethrow_eq. eexists. split; [reflexivity|]. exact C2.
Qed.

(* reading the executable, under a benign oracle *)
Lemma read_interp_benign o w path :
  benign o -> tr_ok (w_tr w) = true ->
  exists w1,
    (match lookup (w_fs w) path with
     | Some (NFile i) => get_elf_interpreter i
     | _ => ret_ None
     end) o w = (Some (interp_of (w_fs w) path), w1) /\
    w_fs w1 = w_fs w /\ w_clock w1 = w_clock w /\
    w_tr w1 = if dangling (w_fs w) (raw_interp_of (w_fs w) path)
              then tr_push (FErrno ENOENT) (w_tr w) else w_tr w.
Proof.
  intros H Hok. unfold interp_of, raw_interp_of.
  destruct (lookup (w_fs w) path) as [[|i|t m]|];
    try (exists w; split; [reflexivity|]; cbn [dangling]; auto).
  exact (get_elf_interpreter_benign o w i H Hok).
Qed.

Lemma tr_ok_push fr t : tr_ok (tr_push fr t) = false.
Proof. reflexivity. Qed.

(* ---------- the refinement step, every benign oracle ---------- *)

Theorem handle_open_exec_refines o w pid path h :
  benign o -> tr_ok (w_tr w) = true ->
  exists h' w',
    handle_open_exec pid path h o w = (Some h', w') /\
    (* the handler: exactly the pure update, hence one attr_step *)
    h' = h_step h pid path (interp_of (w_fs w) path) /\
    attr_eqv (abs_attr h')
             (attr_step (c_editors (h_cfg h)) (abs_attr h) (ev_of (w_fs w) pid path)) /\
    same_static h h' /\
    w_clock w' = w_clock w /\
    (* no error, and the file system is unchanged except for the journal line *)
    (exec_dangling h (w_fs w) path = false ->
     journal_fits (h_journal h) (exec_event_name h path) (w_clock w) ->
     tr_keep (w_tr w) (w_tr w') /\
     journal_step (h_journal h) (exec_line h (w_clock w) pid path) (w_fs w) (w_fs w')) /\
    (* an editor whose loader does not exist: the event is an error *)
    (exec_dangling h (w_fs w) path = true ->
     tr_ok (w_tr w') = false /\ w_fs w' = w_fs w).
Proof.
  intros H Hok.
  set (oi := interp_of (w_fs w) path).
  assert (Hrun : exists w',
    handle_open_exec pid path h o w = (Some (h_step h pid path oi), w') /\
    w_clock w' = w_clock w /\
    (exec_dangling h (w_fs w) path = false ->
     journal_fits (h_journal h) (exec_event_name h path) (w_clock w) ->
     tr_keep (w_tr w) (w_tr w') /\
     journal_step (h_journal h) (exec_line h (w_clock w) pid path) (w_fs w) (w_fs w')) /\
    (exec_dangling h (w_fs w) path = true ->
     tr_ok (w_tr w') = false /\ w_fs w' = w_fs w)).
  { unfold handle_open_exec. rewrite when_ok_true by exact Hok.
    rewrite (bind_some _ _ _ _ _ _ (get_fs_eq o w)).
    unfold exec_dangling, exec_event_name, exec_line, exec_event_name, is_editor, h_step.
    destruct (mem (basename path) (c_editors (h_cfg h))) eqn:Ed; cbn [andb].
    - (* an editor *)
      destruct (read_interp_benign o w path H Hok) as (w1 & E1 & F1 & C1 & T1).
      fold oi in E1.
      set (pids := if pid_mem pid (h_pids h) then h_pids h else pid :: h_pids h).
      rewrite (bind_some _ _ o w
                 (mkH (h_cfg h) (h_cfg_path h) (h_cpl h) (h_q h) (h_journal h) pids
                      (match oi with Some s => s :: h_interps h | None => h_interps h end),
                  c_ev_exec_editor (h_cfg h)) w1).
      2:{ rewrite (bind_some _ _ _ _ _ _ E1).
          rewrite (bind_some _ _ _ _ _ _ (is_ok_eq o w1)). unfold ret_.
          (* interp = Some s only when the trace is still ok *)
          destruct oi as [s|] eqn:Eo; [|destruct (tr_ok (w_tr w1)); reflexivity].
          assert (Hd : dangling (w_fs w) (raw_interp_of (w_fs w) path) = false).
          { unfold oi, interp_of, resolve in Eo. unfold dangling.
            destruct (raw_interp_of (w_fs w) path) as [p|]; [|reflexivity].
            destruct (fs_exists p (w_fs w)); [reflexivity | discriminate Eo]. }
          rewrite Hd in T1. rewrite T1, Hok. reflexivity. }
      cbn [fst snd].
      destruct (dangling (w_fs w) (raw_interp_of (w_fs w) path)) eqn:Hd.
      + (* error pending: nothing is written *)
        assert (Hno : tr_ok (w_tr w1) = false) by (rewrite T1; apply tr_ok_push).
        destruct (record_event_notok o w1 (c_ev_exec_editor (h_cfg h)) pid path
                    (mkH (h_cfg h) (h_cfg_path h) (h_cpl h) (h_q h) (h_journal h) pids
                         (match oi with Some s => s :: h_interps h | None => h_interps h end)) Hno)
          as (w2 & E2 & T2 & C2 & F2 & _).
        rewrite (bind_some _ _ _ _ _ _ E2). unfold ret_. exists w2.
        split; [reflexivity|]. split; [congruence|].
        split; [discriminate|]. intros _. split; [exact T2 | congruence].
      + assert (Hok1 : tr_ok (w_tr w1) = true) by (rewrite T1; exact Hok).
        set (hh := mkH (h_cfg h) (h_cfg_path h) (h_cpl h) (h_q h) (h_journal h) pids
                       (match oi with Some s => s :: h_interps h | None => h_interps h end)).
        destruct (record_event_total o w1 (c_ev_exec_editor (h_cfg h)) pid path hh H) as (w2 & E2 & C2).
        rewrite (bind_some _ _ _ _ _ _ E2). unfold ret_. exists w2.
        split; [reflexivity|]. split; [congruence|].
        split; [|discriminate]. intros _ Hfit.
        destruct (record_event_pid_ok o w1 (c_ev_exec_editor (h_cfg h)) pid path hh H Hok1)
          as (w2' & E2' & K2 & _ & J2).
        { rewrite C1. exact Hfit. }
        rewrite E2 in E2'. injection E2' as <-.
        rewrite T1 in K2. rewrite F1, C1 in J2. split; [exact K2 | exact J2].
    - (* not an editor: the decision needs no call *)
      assert (Hdec : exists hh,
        (if pid_mem pid (h_pids h)
         then do b <- is_ok;
              if b && negb (mem path (h_interps h))
              then ret_ (mkH (h_cfg h) (h_cfg_path h) (h_cpl h) (h_q h) (h_journal h)
                             (pid_remove pid (h_pids h)) (h_interps h),
                         c_ev_exec_not_editor (h_cfg h))
              else ret_ (h, c_ev_exec_not_editor (h_cfg h))
         else ret_ (h, c_ev_exec_not_editor (h_cfg h))) o w
        = (Some (hh, c_ev_exec_not_editor (h_cfg h)), w) /\
        hh = (if pid_mem pid (h_pids h)
              then if negb (mem path (h_interps h))
                   then mkH (h_cfg h) (h_cfg_path h) (h_cpl h) (h_q h) (h_journal h)
                            (pid_remove pid (h_pids h)) (h_interps h)
                   else h
              else h) /\ h_journal hh = h_journal h).
      { destruct (pid_mem pid (h_pids h)).
        - rewrite (bind_some _ _ _ _ _ _ (is_ok_eq o w)). rewrite Hok. cbn [andb].
          destruct (negb (mem path (h_interps h))); eexists; (split; [reflexivity|]); split; reflexivity.
        - eexists. split; [reflexivity|]. split; reflexivity. }
      destruct Hdec as (hh & Edec & Ehh & Ej).
      rewrite (bind_some _ _ _ _ _ _ Edec). cbn [fst snd]. rewrite <- Ehh.
      destruct (record_event_total o w (c_ev_exec_not_editor (h_cfg h)) pid path hh H) as (w2 & E2 & C2).
      rewrite (bind_some _ _ _ _ _ _ E2). unfold ret_. exists w2.
      split; [reflexivity|]. split; [exact C2|].
      split; [|discriminate]. intros _ Hfit.
      destruct (record_event_pid_ok o w (c_ev_exec_not_editor (h_cfg h)) pid path hh H Hok)
        as (w2' & E2' & K2 & _ & J2).
      { rewrite Ej. exact Hfit. }
      rewrite E2 in E2'. injection E2' as <-.
      rewrite Ej in J2. split; [exact K2 | exact J2]. }
  destruct Hrun as (w' & E & C & Hgood & Hbad).
  exists (h_step h pid path oi), w'.
  split; [exact E|]. split; [reflexivity|].
  split; [apply h_step_refines|]. split; [apply h_step_static|].
  split; [exact C|]. split; assumption.
Qed.

(* ---------- every oracle: the failure side ---------- *)

Lemma bind_inv {A B} (m : M A) (k : A -> M B) o w b w' :
  bind m k o w = (Some b, w') ->
  exists a w1, m o w = (Some a, w1) /\ k a o w1 = (Some b, w').
Proof.
  unfold bind. destruct (m o w) as [[a|] w1]; [|discriminate].
  intros E. exists a, w1. split; [reflexivity | exact E].
Qed.

(* Whatever fails (reads of the executable, realpath, the journal), as long as
   the process survives the handler is the pure update for SOME reading [oi] of
   the executable: the marked processes are those of the fault-free run, only a
   loader may go unrecorded.  With an error already pending nothing happens. *)
Theorem handle_open_exec_any_oracle o w pid path h h' w' :
  handle_open_exec pid path h o w = (Some h', w') ->
  (tr_ok (w_tr w) = false -> h' = h /\ w' = w) /\
  (tr_ok (w_tr w) = true ->
   exists oi, h' = h_step h pid path oi /\
              h_pids h' = h_pids (h_step h pid path None) /\
              attr_eqv (abs_attr h')
                (attr_step (c_editors (h_cfg h)) (abs_attr h) (mkEx (N.to_nat pid) path oi))).
Proof.
  intros E. split.
  - intros Hno. unfold handle_open_exec, when_ok in E.
    rewrite (bind_some _ _ _ _ _ _ (is_ok_eq o w)) in E. rewrite Hno in E.
    unfold ret_ in E. injection E as <- <-. split; reflexivity.
  - intros Hok.
    assert (Hoi : exists oi, h' = h_step h pid path oi).
    { unfold handle_open_exec in E. rewrite when_ok_true in E by exact Hok.
      rewrite (bind_some _ _ _ _ _ _ (get_fs_eq o w)) in E.
      apply bind_inv in E. destruct E as (a & w1 & E1 & E2).
      apply bind_inv in E2. destruct E2 as (u & w2 & _ & E3).
      unfold ret_ in E3. injection E3 as <- _.
      unfold h_step.
      destruct (mem (basename path) (c_editors (h_cfg h))).
      - apply bind_inv in E1. destruct E1 as (interp & w3 & _ & E4).
        rewrite (bind_some _ _ _ _ _ _ (is_ok_eq o w3)) in E4. unfold ret_ in E4.
        injection E4 as <- _. cbn [fst].
        destruct interp as [s|]; [|exists None; reflexivity].
        destruct (tr_ok (w_tr w3)); [exists (Some s) | exists None]; reflexivity.
      - destruct (pid_mem pid (h_pids h)).
        + rewrite (bind_some _ _ _ _ _ _ (is_ok_eq o w)) in E1. rewrite Hok in E1. cbn [andb] in E1.
          destruct (negb (mem path (h_interps h))); unfold ret_ in E1; injection E1 as <- _;
            exists None; reflexivity.
        + unfold ret_ in E1. injection E1 as <- _. exists None. reflexivity. }
    destruct Hoi as (oi & ->). exists oi.
    split; [reflexivity|]. split; [apply h_step_pids | apply h_step_refines].
Qed.

(* ====================================================================== *)
(* 4. Sequences of exec events                                            *)
(* ====================================================================== *)

Fixpoint handle_open_execs (reqs : list (N * str)) (h : handler) : M handler :=
  match reqs with
  | [] => ret_ h
  | r :: reqs' => do h' <- handle_open_exec (fst r) (snd r) h; handle_open_execs reqs' h'
  end.

(* it is the event loop of FdProofs restricted to exec events *)
Lemma handle_open_execs_events reqs : forall h o w,
  handle_open_execs reqs h o w =
  handle_events (map (fun r => EvExec (fst r) (snd r)) reqs) h o w.
Proof.
  induction reqs as [|r reqs IH]; intros h o w; cbn [handle_open_execs handle_events map];
    [reflexivity|].
  cbn [handle_event]. unfold bind.
  destruct (handle_open_exec (fst r) (snd r) h o w) as [[h1|] w1]; [apply IH | reflexivity].
Qed.

Definition evs_of (f : fs) (reqs : list (N * str)) : list exec_ev :=
  map (fun r => ev_of f (fst r) (snd r)) reqs.

Definition exec_lines (h : handler) (now : Z) (reqs : list (N * str)) : str :=
  flat_map (fun r => exec_line h now (fst r) (snd r)) reqs.

(* what each request needs of the file system [f] at time [now]:
   - if the file is an editor with a PT_INTERP segment, the loader exists;
   - the journal time stamp is a name;
   - the executable is not the journal itself (so that journal lines written
     for earlier events do not change what is read from it) *)
Definition exec_ok (h : handler) (f : fs) (now : Z) (r : N * str) : Prop :=
  exec_dangling h f (snd r) = false /\
  journal_fits (h_journal h) (exec_event_name h (snd r)) now /\
  (forall jn i, h_journal h = Some jn -> lookup f (snd r) = Some (NFile i) -> i <> j_ino jn).

Lemma journal_step_app oj a b f g k :
  journal_step oj a f g -> journal_step oj b g k -> journal_step oj (a ++ b) f k.
Proof.
  destruct oj as [jn|]; cbn [journal_step].
  - apply appended_trans.
  - intros -> ->. reflexivity.
Qed.

Lemma journal_step_nil oj f : journal_step oj [] f f.
Proof. destruct oj; cbn [journal_step]; [apply appended_nil | reflexivity]. Qed.

Lemma journal_step_exists oj line f f' x :
  journal_step oj line f f' -> fs_exists x f' = fs_exists x f.
Proof. intros HJ. unfold fs_exists. rewrite (journal_step_lookup _ _ _ _ x HJ). reflexivity. Qed.

Lemma raw_interp_of_frame oj line f f' path :
  journal_step oj line f f' ->
  (forall jn i, oj = Some jn -> lookup f path = Some (NFile i) -> i <> j_ino jn) ->
  raw_interp_of f' path = raw_interp_of f path.
Proof.
  intros HJ Hne. unfold raw_interp_of. rewrite (journal_step_lookup _ _ _ _ path HJ).
  destruct (lookup f path) as [[|i|t m]|] eqn:El; try reflexivity.
  rewrite (journal_step_file _ _ _ _ i HJ); [reflexivity|].
  intros jn Ej. exact (Hne jn i Ej eq_refl).
Qed.

Lemma interp_of_frame oj line f f' path :
  journal_step oj line f f' ->
  (forall jn i, oj = Some jn -> lookup f path = Some (NFile i) -> i <> j_ino jn) ->
  interp_of f' path = interp_of f path.
Proof.
  intros HJ Hne. unfold interp_of. rewrite (raw_interp_of_frame _ _ _ _ _ HJ Hne).
  unfold resolve. destruct (raw_interp_of f path) as [p|]; [|reflexivity].
  rewrite (journal_step_exists _ _ _ _ p HJ). reflexivity.
Qed.

Lemma exec_ok_frame h h' f f' now line r :
  same_static h h' -> journal_step (h_journal h) line f f' ->
  exec_ok h f now r -> exec_ok h' f' now r.
Proof.
  intros (S1 & _ & _ & _ & S5) HJ (D & Fit & Hne).
  unfold exec_ok, exec_dangling, exec_event_name, is_editor. rewrite S1, S5.
  split; [|split].
  - unfold exec_dangling, is_editor in D.
    rewrite (raw_interp_of_frame _ _ _ _ _ HJ Hne).
    unfold dangling. destruct (raw_interp_of f (snd r)) as [p|]; [|exact D].
    rewrite (journal_step_exists _ _ _ _ p HJ). exact D.
  - exact Fit.
  - intros jn i Ej El. rewrite (journal_step_lookup _ _ _ _ (snd r) HJ) in El.
    exact (Hne jn i Ej El).
Qed.

Lemma exec_line_static h h' now pid path :
  same_static h h' -> exec_line h' now pid path = exec_line h now pid path.
Proof.
  intros (S1 & _ & _ & _ & S5). unfold exec_line, exec_event_name, is_editor.
  rewrite S1, S5. reflexivity.
Qed.

Theorem handle_open_execs_refine_attr_run o : benign o -> forall reqs h w,
  tr_ok (w_tr w) = true ->
  Forall (exec_ok h (w_fs w) (w_clock w)) reqs ->
  exists h' w',
    handle_open_execs reqs h o w = (Some h', w') /\
    attr_eqv (abs_attr h')
             (fold_left (attr_step (c_editors (h_cfg h))) (evs_of (w_fs w) reqs) (abs_attr h)) /\
    same_static h h' /\
    w_clock w' = w_clock w /\
    tr_keep (w_tr w) (w_tr w') /\
    journal_step (h_journal h) (exec_lines h (w_clock w) reqs) (w_fs w) (w_fs w').
Proof.
  intros H. induction reqs as [|[pid path] reqs IH]; intros h w Hok Hall.
  - exists h, w. cbn [handle_open_execs evs_of map fold_left exec_lines flat_map].
    split; [reflexivity|]. split; [apply attr_eqv_refl|]. split; [apply same_static_refl|].
    split; [reflexivity|]. split; [apply tr_keep_refl; exact Hok | apply journal_step_nil].
  - inversion Hall as [|x xs Hr Hrest]; subst x xs.
    destruct Hr as (D & Fit & Hne). cbn [fst snd] in D, Fit, Hne.
    destruct (handle_open_exec_refines o w pid path h H Hok)
      as (h1 & w1 & E1 & _ & R1 & S1 & C1 & Good & _).
    destruct (Good D Fit) as (K1 & J1).
    assert (Hok1 : tr_ok (w_tr w1) = true) by exact (tr_keep_ok _ _ K1).
    assert (Hall1 : Forall (exec_ok h1 (w_fs w1) (w_clock w1)) reqs).
    { rewrite C1. revert Hrest. apply Forall_impl. intros r Hr.
      exact (exec_ok_frame h h1 _ _ _ _ r S1 J1 Hr). }
    destruct (IH h1 w1 Hok1 Hall1) as (h' & w' & E2 & R2 & S2 & C2 & K2 & J2).
    exists h', w'.
    cbn [handle_open_execs fst snd]. rewrite (bind_some _ _ _ _ _ _ E1).
    split; [exact E2|].
    destruct S1 as (S11 & S12 & S13 & S14 & S15).
    split; [|split; [|split; [|split]]].
    + cbn [evs_of map fold_left fst snd].
      eapply attr_eqv_trans; [exact R2|].
      rewrite S11.
      assert (Em : evs_of (w_fs w1) reqs = evs_of (w_fs w) reqs).
      { unfold evs_of. apply map_ext_in. intros r Hin.
        rewrite Forall_forall in Hrest. destruct (Hrest r Hin) as (_ & _ & Hner).
        unfold ev_of. rewrite (interp_of_frame _ _ _ _ _ J1 Hner). reflexivity. }
      rewrite Em. apply attr_fold_eqv. exact R1.
    + apply (same_static_trans h h1 h'); [repeat split; assumption | exact S2].
    + congruence.
    + exact (tr_keep_trans _ _ _ K1 K2).
    + cbn [exec_lines flat_map fst snd]. fold (exec_lines h (w_clock w) reqs).
      eapply journal_step_app; [exact J1|].
      rewrite S15 in J2. rewrite C1 in J2.
      assert (El : exec_lines h1 (w_clock w) reqs = exec_lines h (w_clock w) reqs).
      { unfold exec_lines. apply flat_map_ext. intros r.
        apply exec_line_static. repeat split; assumption. }
      rewrite El in J2. exact J2.
Qed.

(* ====================================================================== *)
(* 5. The handler-level corollary of C07_attribution                      *)
(* ====================================================================== *)

(* From any handler state: after the exec events are handled by the real
   program, a process is marked exactly when the property's wording
   (BitmapProofs.spec_run) calls it an editor, and the recorded loaders are
   exactly the interpreters of the editor binaries seen so far. *)
Theorem C07_handler_attribution_from o reqs h w :
  benign o -> tr_ok (w_tr w) = true ->
  Forall (exec_ok h (w_fs w) (w_clock w)) reqs ->
  exists h' w',
    handle_open_execs reqs h o w = (Some h', w') /\
    let s := spec_run (c_editors (h_cfg h)) (evs_of (w_fs w) reqs)
                      (fun p => pid_mem (N.of_nat p) (h_pids h)) (h_interps h) in
    (forall p : N, pid_mem p (h_pids h') = fst s (N.to_nat p)) /\
    h_interps h' = snd s /\
    tr_ok (w_tr w') = true /\
    journal_step (h_journal h) (exec_lines h (w_clock w) reqs) (w_fs w) (w_fs w').
Proof.
  intros H Hok Hall.
  destruct (handle_open_execs_refine_attr_run o H reqs h w Hok Hall)
    as (h' & w' & E & (R1 & R2) & _ & _ & K & J).
  exists h', w'. split; [exact E|]. cbv zeta.
  destruct (attr_fold_spec (c_editors (h_cfg h)) (evs_of (w_fs w) reqs) (abs_attr h)
              (fun p => pid_mem (N.of_nat p) (h_pids h))) as (P1 & P2).
  { intros p. apply bm_get_abs_pids. }
  cbv zeta in P1, P2. cbn [abs_attr a_interps] in P1, P2.
  split; [|split; [|split]].
  - intros p. rewrite <- P1, <- R1. cbn [abs_attr a_pids]. symmetry. apply bm_get_abs_pids_N.
  - rewrite <- P2. exact R2.
  - exact (tr_keep_ok _ _ K).
  - exact J.
Qed.

(* From a freshly loaded handler (load_handler returns empty tables): the
   statement of Properties_C07.C07_attribution, for the real program. *)
Theorem C07_handler_attribution o reqs h w :
  benign o -> tr_ok (w_tr w) = true ->
  h_pids h = [] -> h_interps h = [] ->
  Forall (exec_ok h (w_fs w) (w_clock w)) reqs ->
  exists h' w',
    handle_open_execs reqs h o w = (Some h', w') /\
    let s := spec_run (c_editors (h_cfg h)) (evs_of (w_fs w) reqs) (fun _ => false) [] in
    (forall p : N, pid_mem p (h_pids h') = fst s (N.to_nat p)) /\
    h_interps h' = snd s /\
    (* the pure model agrees, whatever the size guess of its bit table *)
    (forall g, attr_eqv (abs_attr h') (attr_run (c_editors (h_cfg h)) g (evs_of (w_fs w) reqs))) /\
    tr_ok (w_tr w') = true /\
    journal_step (h_journal h) (exec_lines h (w_clock w) reqs) (w_fs w) (w_fs w').
Proof.
  intros H Hok Hp Hi Hall.
  destruct (C07_handler_attribution_from o reqs h w H Hok Hall) as (h' & w' & E & P1 & P2 & K & J).
  cbv zeta in P1, P2. rewrite Hp, Hi in P1, P2. cbn [pid_mem existsb] in P1, P2.
  exists h', w'. split; [exact E|]. cbv zeta.
  split; [exact P1|]. split; [exact P2|]. split; [|split; assumption].
  intros g. destruct (C07_attribution (c_editors (h_cfg h)) g (evs_of (w_fs w) reqs)) as (Q1 & Q2).
  cbv zeta in Q1, Q2. split.
  - intros p. rewrite Q1. cbn [abs_attr a_pids]. rewrite bm_get_abs_pids, P1, Nat2N.id. reflexivity.
  - rewrite Q2. exact P2.
Qed.

Print Assumptions h_step_refines.
Print Assumptions get_elf_interpreter_benign.
Print Assumptions handle_open_exec_refines.
Print Assumptions handle_open_exec_any_oracle.
Print Assumptions handle_open_execs_refine_attr_run.
Print Assumptions C07_handler_attribution_from.
Print Assumptions C07_handler_attribution.

(* ====================================================================== *)
(* 6. A concrete world                                                    *)
(* ====================================================================== *)

Module AttrExample.
  Local Open Scope char_scope.

  (* ----- ELF images: header, PT_LOAD, PT_INTERP, the loader string ----- *)
  Fixpoint le_bytes (k : nat) (n : N) : str :=
    match k with
    | O => []
    | S k' => ascii_of_N (n mod 256) :: le_bytes k' (n / 256)
    end.
  Definition zeros (n : nat) : str := repeat (ascii_of_N 0) n.

  Definition elf_image (interp : str) : str :=
    (* Elf64_Ehdr: e_ident, ..., e_phoff = 64 at 32, ..., e_phnum = 2 at 56 *)
    elf_magic ++ zeros 28 ++ le_bytes 8 64 ++ zeros 16 ++ le_bytes 2 2 ++ zeros 6
    (* Elf64_Phdr 0: PT_LOAD *)
    ++ le_bytes 4 1 ++ zeros 52
    (* Elf64_Phdr 1: PT_INTERP, p_offset = 176 at 8, p_filesz at 32 *)
    ++ le_bytes 4 3 ++ zeros 4 ++ le_bytes 8 176 ++ zeros 16
    ++ le_bytes 8 (N.of_nat (S (length interp))) ++ zeros 16
    ++ interp ++ [ascii_of_N 0].

  Definition p_b : str := ["/"; "b"].
  Definition p_vim : str := ["/"; "b"; "/"; "v"; "i"; "m"].
  Definition p_emacs : str := ["/"; "b"; "/"; "e"; "m"; "a"; "c"; "s"].
  Definition p_nano : str := ["/"; "b"; "/"; "n"; "a"; "n"; "o"].
  Definition p_sh : str := ["/"; "b"; "/"; "s"; "h"].
  Definition p_ld1 : str := ["/"; "l"; "d"; "1"].
  Definition p_ld2 : str := ["/"; "l"; "d"; "2"].
  Definition p_nold : str := ["/"; "n"; "o"; "l"; "d"].
  Definition p_j : str := ["/"; "j"].
  Definition p_q : str := ["/"; "q"].
  Definition old : str := ["o"; "l"; "d"; "010"].

  (* editors vim, emacs, nano; events "x" (exec by a non-editor) and "e" *)
  Definition cfg0 : config :=
    mkCfg [["v"; "i"; "m"]; ["e"; "m"; "a"; "c"; "s"]; ["n"; "a"; "n"; "o"]]
          (mkRules [] [] [] [] [] []) ["/"; "s"; "t"] ["/"; "p"] ["/"; "u"] p_q (Some p_j)
          ["/"; "o"; "f"; "f"] ["%"; "s"] ["v"; "%"; "s"] 5%Z 0 16
          (Some ["x"]) (Some ["e"]) None None None None None.

  (* vim is linked against /ld1, emacs against /ld2, nano against /nold which
     does not exist; sh is a script; /j (inode 1) is the open journal *)
  Definition f0 : fs :=
    mkFs [ (p_q, NDir); (p_b, NDir); (p_j, NFile 1); (p_vim, NFile 2); (p_emacs, NFile 3);
           (p_sh, NFile 4); (p_ld1, NFile 5); (p_ld2, NFile 6); (p_nano, NFile 7) ]
         [ (1, mkFile old true); (2, mkFile (elf_image p_ld1) true);
           (3, mkFile (elf_image p_ld2) true); (4, mkFile ["#"; "!"; "/"; "b"] true);
           (5, mkFile (elf_magic ++ zeros 60) true); (6, mkFile (elf_magic ++ zeros 60) true);
           (7, mkFile (elf_image p_nold) true) ]
         8.

  Definition h0 : handler :=
    mkH cfg0 None 0 (mkQ p_q 0 0 5%Z 16 []) (Some (mkJ 1 ["%"; "s"])) [] [].
  Definition w0 : world := mkW f0 0 [] 100%Z tr_empty.

  (* vim starts as 100 (the kernel then runs its loader), emacs as 200, a shell
     as 300; the vim process execs a shell; the emacs process execs vim's
     loader; pid 100 is reused by a new emacs; the old emacs execs a shell *)
  Definition reqs : list (N * str) :=
    [ (100%N, p_vim); (100%N, p_ld1); (200%N, p_emacs); (200%N, p_ld2); (300%N, p_sh);
      (100%N, p_sh); (200%N, p_ld1); (100%N, p_emacs); (200%N, p_sh) ].

  (* what is read from the executables *)
  Example interps :
    map (fun r => ex_interp (ev_of f0 (fst r) (snd r))) reqs =
    [Some p_ld1; None; Some p_ld2; None; None; None; None; Some p_ld2; None] /\
    raw_interp_of f0 p_nano = Some p_nold /\ interp_of f0 p_nano = None.
  Proof. vm_compute. auto. Qed.

  (* the kernel moves at most 3 bytes per transfer *)
  Definition o3 : oracle := fun _ => FShort 3.
  Lemma o3_benign : benign o3.
  Proof. intros i. right. exists 3. split; [lia | left; reflexivity]. Qed.

  (* the hypotheses of the sequence theorems hold *)
  Example hyps_hold :
    tr_ok (w_tr w0) = true /\ h_pids h0 = [] /\ h_interps h0 = [] /\
    Forall (exec_ok h0 (w_fs w0) (w_clock w0)) reqs.
  Proof.
    split; [reflexivity|]. split; [reflexivity|]. split; [reflexivity|].
    unfold reqs. repeat apply Forall_cons; try apply Forall_nil;
      (split; [vm_compute; reflexivity|]; split;
       [ intros jn e Ej Ee; cbn [h0 h_journal] in Ej; injection Ej as <-; vm_compute; lia
       | intros jn i Ej El; cbn [h0 h_journal] in Ej; injection Ej as <-;
         vm_compute in El; try discriminate El; injection El as <-; vm_compute; discriminate ]).
  Qed.

  (* the real program, run: marks of 100, 200, 300 after each prefix *)
  Definition marks_after (o : oracle) (n : nat) : list bool :=
    match fst (handle_open_execs (firstn n reqs) h0 o w0) with
    | Some h => map (fun p => pid_mem p (h_pids h)) [100%N; 200%N; 300%N]
    | None => []
    end.

  Example run_marks :
    map (marks_after o3) [1; 2; 3; 4; 5; 6; 7; 8; 9]%nat =
    [ [true; false; false]; [true; false; false]; [true; true; false]; [true; true; false];
      [true; true; false]; [false; true; false]; [false; true; false]; [true; true; false];
      [true; false; false] ].
  Proof. vm_compute. reflexivity. Qed.

  Example run_final :
    match handle_open_execs reqs h0 o3 w0 with
    | (Some h, w) =>
        h_pids h = [100%N] /\ h_interps h = [p_ld2; p_ld2; p_ld1] /\ tr_ok (w_tr w) = true /\
        f_bytes (get_file (w_fs w) 1) = old ++ exec_lines h0 100 reqs /\
        fs_dents (w_fs w) = fs_dents f0
    | _ => False
    end.
  Proof. vm_compute. auto 6. Qed.

  (* the same by the theorem, for EVERY benign oracle *)
  Example by_theorem o : benign o ->
    exists h' w',
      handle_open_execs reqs h0 o w0 = (Some h', w') /\
      pid_mem 100 (h_pids h') = true /\ pid_mem 200 (h_pids h') = false /\
      pid_mem 300 (h_pids h') = false /\
      h_interps h' = [p_ld2; p_ld2; p_ld1] /\
      tr_ok (w_tr w') = true /\
      f_bytes (get_file (w_fs w') 1) = old ++ exec_lines h0 100 reqs /\
      fs_dents (w_fs w') = fs_dents f0.
  Proof.
    intros H. destruct hyps_hold as (Hok & Hp & Hi & Hall).
    destruct (C07_handler_attribution o reqs h0 w0 H Hok Hp Hi Hall)
      as (h' & w' & E & P1 & P2 & _ & K & J).
    exists h', w'. split; [exact E|].
    cbv zeta in P1, P2.
    split; [rewrite P1; vm_compute; reflexivity|].
    split; [rewrite P1; vm_compute; reflexivity|].
    split; [rewrite P1; vm_compute; reflexivity|].
    split; [rewrite P2; vm_compute; reflexivity|].
    split; [exact K|].
    cbn [h0 h_journal journal_step] in J. destruct J as (J1 & _ & _ & J4 & _).
    split; [exact J1 | exact J4].
  Qed.

  (* one step by the step theorem: vim as pid 100 *)
  Example first_step o : benign o ->
    exists h' w',
      handle_open_exec 100 p_vim h0 o w0 = (Some h', w') /\
      h_pids h' = [100%N] /\ h_interps h' = [p_ld1] /\ tr_ok (w_tr w') = true /\
      f_bytes (get_file (w_fs w') 1) =
        old ++ ["1"; "0"; "0"; "009"; "e"; "009"; "1"; "0"; "0"; "009"] ++ p_vim ++ ["010"].
  Proof.
    intros H.
    destruct (handle_open_exec_refines o w0 100 p_vim h0 H eq_refl)
      as (h' & w' & E & Eh & _ & _ & _ & Good & _).
    exists h', w'. split; [exact E|].
    destruct Good as (K & J).
    { vm_compute. reflexivity. }
    { intros jn e Ej Ee. cbn [h0 h_journal] in Ej. injection Ej as <-. vm_compute. lia. }
    rewrite Eh. split; [vm_compute; reflexivity|]. split; [vm_compute; reflexivity|].
    split; [exact (tr_keep_ok _ _ K)|].
    cbn [h0 h_journal journal_step] in J. destruct J as (J1 & _). exact J1.
  Qed.

  (* an editor whose loader is missing: the mark is set, the event is an error
     (main.c then terminates the daemon), nothing is written *)
  Example dangling_is_error o : benign o ->
    exists h' w',
      handle_open_exec 400 p_nano h0 o w0 = (Some h', w') /\
      h_pids h' = [400%N] /\ h_interps h' = [] /\
      tr_ok (w_tr w') = false /\ w_fs w' = f0.
  Proof.
    intros H.
    destruct (handle_open_exec_refines o w0 400 p_nano h0 H eq_refl)
      as (h' & w' & E & Eh & _ & _ & _ & _ & Bad).
    exists h', w'. split; [exact E|].
    destruct Bad as (T & F); [vm_compute; reflexivity|].
    rewrite Eh. split; [vm_compute; reflexivity|]. split; [vm_compute; reflexivity|].
    split; [exact T | exact F].
  Qed.

  Example dangling_run :
    match handle_open_exec 400 p_nano h0 no_faults w0 with
    | (Some h, w) => w_tr w = mkTr [FErrno ENOENT] 0 0 /\ w_fs w = f0
    | _ => False
    end.
  Proof. vm_compute. auto. Qed.

  (* a read of the executable fails (call 1 answers EIO): the mark is set all
     the same, only the loader goes unrecorded -- so the next exec of /ld1 by
     the same process unmarks it *)
  Definition o_eio : oracle := fun i => if Nat.eqb i 1 then FFail EIO else FNone.
  Example failed_read :
    match handle_open_exec 100 p_vim h0 o_eio w0 with
    | (Some h, w) => h_pids h = [100%N] /\ h_interps h = [] /\ tr_ok (w_tr w) = false
    | _ => False
    end.
  Proof. vm_compute. auto. Qed.
End AttrExample.

Print Assumptions AttrExample.hyps_hold.
Print Assumptions AttrExample.by_theorem.
Print Assumptions AttrExample.first_step.
Print Assumptions AttrExample.dangling_is_error.
