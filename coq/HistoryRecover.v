(* C08 "each new version of a history path contains exactly the bytes appended
   since the previous version; the position reached is remembered across
   restarts; a copy that fails or is abandoned leaves the remembered position
   where it was" and C03 crash-safety, for a queue holding ONE HISTORY entry:
   the analogue of RecoverProofs.v (plain entries).

   history_crash_leaves  (HistCrash.v) for EVERY HONEST oracle (a crash before
       any call, any failing call with an errno other than ENOENT / ENOTDIR /
       EACCES / EEXIST, any non-zero short transfer): the disk after
       handle_timeout over a due history head, source bytes b, remembered
       position p0, is exactly one of
         (a) nothing has changed;
         (b) a new file at the first candidate name holding a PREFIX of
             [skipn p0 b]; entry queued; position p0;
         (c) the complete slice [skipn p0 b]; entry queued; the position file
             untouched (p0) or holding a PREFIX of the digits of [length b]
             (all of them = the crash came before the pop);
         (d) the complete slice, position [length b], the entry popped.
   position_after_crash_is_prefix / position_not_ahead: the number the position
       file spells is at most [length b] and never exceeds the bytes stored.
   history_recover  then the restart (load_linq) and a fault-free pass (HistPass.v):
       the queue is empty, no error, the position is [length b], everything
       that was in the store is unchanged, and the new versions are, in the
       order they were made,
         (a), (d)   [slice]
         (b)        [prefix; slice]      the partial file stays: a DUPLICATE of the prefix
         (c)        [slice; skipn v b]   v the torn position: a DUPLICATE of the
                                         bytes from v on (K1's crash twin)
   no_byte_lost  in every case one new version is the COMPLETE slice, and
       [firstn p0 b ++ slice = b].

   Module HistoryRecoverExample: /w/hist.log, "line1\n" stored at position 6,
   "second line\n" appended; the pass crashed at EVERY call index, by
   evaluation, and the theorems instantiated. *)
From K Require Import Str Dec Trace Fs World Progs Elf Linq LinqSpec LinqProofs Sieve Handler Hoare
     Confine Confine2 SyncProofs AbandonProofs StoreFs StoreLogic StoreProgs DecProofs
     QueueProofs CrashFrame CrashLoad CrashQueue CrashCopy CrashProofs PassProofs PassProofs2
     RecoverFrame RecoverProofs HistPass HistCrash.
From Coq Require Import Lia.

Section HistRecover.
Variables (cfg : config) (cpl : nat) (oj : option journal) (d : str) (f0 : fs) (now now2 : Z)
          (p : str) (t : Z) (i : nat) (b : str) (p0 : nat) (q0 : qmem).

Notation dst := (store_name cfg cpl now p).
Notation offp := (offset_name cfg cpl p).
Notation ents := [(p, 2%N, t)].
Notation L := (length b).
Notation slice := (skipn p0 b).
Notation newpos := (dec (N.of_nat (length b))).
(* the candidate names of the pass after the restart *)
Definition cd (j : nat) : str := cand cfg cpl now2 p j.

(* the side conditions of the pass after the restart: the entry is well formed
   and due; the first two candidate names at the clock of the restart are
   free at the start, lie below directories or nothing, outside the queue
   directory, and do not collide with the position file or with the first
   candidate name of the crashed pass (cd 0 may BE that name: same second) *)
Record h2_ok : Prop := {
  H2_abs : prefixb [ch_slash] p = true;
  H2_last : is_slash (last p ch_dot) = false;
  H2_cpl : cpl <= length p;
  H2_vlen : length (version_of cfg now2) <= name_max;
  H2_vslash : existsb is_slash (version_of cfg now2) = false;
  H2_jfits : journal_fits oj (c_ev_stored cfg) now2;
  H2_root : exists r, c_store_root cfg = ch_slash :: r;
  H2_oroot : exists r, c_offset_root cfg = ch_slash :: r;
  H2_dq : forall j, j <= 1 -> Str.under d (cd j) = false;
  H2_free : forall j, j <= 1 -> lookup f0 (cd j) = None;
  H2_par : forall j x, j <= 1 -> In x (parents_of (cd j)) -> lookup f0 x = Some NDir \/ lookup f0 x = None;
  H2_off : forall j, j <= 1 ->
             offp <> cd j /\ ~ In offp (parents_of (cd j)) /\ ~ In (cd j) (parents_of offp);
  H2_npar : forall j, j <= 1 -> ~ In (cd j) (parents_of dst) /\ ~ In dst (parents_of (cd j));
  H2_ne : cd 1 <> dst;
  H2_due : (q_deb q0 <= now2 - t)%Z
}.

Hypothesis HK : h1_ok cfg cpl oj d f0 now p t i b p0 q0.
Hypothesis HK2 : h2_ok.

Notation HLeft := (HLeft cfg cpl oj f0 now p q0).
Notation hcase := (hcase b p0).

Let Hdnr : d <> root_path.
Proof. rewrite <- (H1_qd _ _ _ _ _ _ _ _ _ _ _ _ HK). exact (QR_nroot _ _ _ (H1_q _ _ _ _ _ _ _ _ _ _ _ _ HK)). Qed.

(* ====================================================================== *)
(* 1. what the crashed pass leaves                                         *)
(* ====================================================================== *)

Theorem history_crash_leaves (o : oracle) (rev : bool) (h : handler) (w : world) :
  honest o ->
  h_cfg h = cfg -> h_cpl h = cpl -> h_journal h = oj -> h_q h = q0 ->
  w_fs w = f0 -> w_clock w = now ->
  exists ver pos queued,
    hcase ver pos queued /\ HLeft ver pos queued (w_fs (snd (handle_timeout rev h o w))).
Proof.
  intros Ho Hcfg Hcpl Hoj Hq Hf Hc.
  exact (history_crash_frame cfg cpl oj d f0 now p t i b p0 q0 HK o rev h w Ho
           (conj Hcfg (conj Hcpl Hoj)) Hq Hf Hc).
Qed.

(* the number the position file spells, and the bytes of the new file *)
Definition pos_value (pos : option str) : nat :=
  match pos with None => p0 | Some ds => N.to_nat (undec ds) end.
Definition ver_bytes (ver : option str) : str := match ver with None => [] | Some x => x end.

(* a torn position file holds a PREFIX of the digits of the new position *)
Lemma position_after_crash_is_prefix ver pos queued :
  hcase ver pos queued ->
  match pos with Some ds => exists m, ds = firstn m newpos | None => True end.
Proof.
  intros [(_ & -> & _)|[(m & _ & -> & _)|[(_ & [->|(m & ->)] & _)|(_ & -> & _)]]]; try exact I.
  - exists m. reflexivity.
  - exists (length newpos). rewrite firstn_all. reflexivity.
Qed.

(* ... hence a number that is at most the new position, and never ahead of the
   bytes that are in the store: old versions (p0 bytes) plus the new file *)
Lemma position_not_ahead ver pos queued :
  hcase ver pos queued ->
  pos_value pos <= L /\ pos_value pos <= p0 + length (ver_bytes ver).
Proof.
  pose proof (H1_le _ _ _ _ _ _ _ _ _ _ _ _ HK) as Hle.
  assert (Hpre : forall m, N.to_nat (undec (firstn m newpos)) <= L).
  { intros m. pose proof (undec_firstn_dec (N.of_nat L) m). lia. }
  assert (Hsl : p0 + length slice = L) by (rewrite skipn_length; lia).
  intros [(-> & -> & _)|[(m & -> & -> & _)|[(-> & [->|(m & ->)] & _)|(-> & -> & _)]]];
    cbn [pos_value ver_bytes].
  - lia.
  - lia.
  - lia.
  - pose proof (Hpre m). lia.
  - rewrite undec_dec, Nat2N.id. lia.
Qed.

(* the position file on the crashed disk spells pos_value *)
Lemma crashed_pos_reads ver pos queued f :
  hcase ver pos queued -> HLeft ver pos queued f -> pos_reads f offp i (pos_value pos).
Proof.
  intros Hc H. destruct pos as [ds|]; cbn [pos_value].
  - destruct (HL_pos _ _ _ _ _ _ _ _ _ _ _ H) as (j & A1 & A2 & A3 & A4).
    right. exists j. split; [exact A1|]. split; [exact A3|]. split.
    { destruct A4 as [A4|[_ A4]].
      - exact (proj1 (H1_posi _ _ _ _ _ _ _ _ _ _ _ _ HK j A4)).
      - destruct (H1_src _ _ _ _ _ _ _ _ _ _ _ _ HK) as (_ & _ & S3 & _). lia. }
    rewrite A2. cbn [f_readable f_bytes]. split; [reflexivity|]. rewrite N2Nat.id. reflexivity.
  - destruct (HL_pos _ _ _ _ _ _ _ _ _ _ _ H) as [A1 A2].
    destruct (H1_pos _ _ _ _ _ _ _ _ _ _ _ _ HK) as [[E1 E2]|[E1 (io & E2 & E3 & E4)]].
    + left. split; [congruence | exact E1].
    + right. exists io. split; [congruence|].
      pose proof (HL_next _ _ _ _ _ _ _ _ _ _ _ H). split; [lia|].
      split; [exact (proj1 (H1_posi _ _ _ _ _ _ _ _ _ _ _ _ HK io E2))|].
      rewrite (A2 io E2), E3. cbn [f_readable f_bytes]. rewrite undec_dec. auto.
Qed.

(* both, on the disk: whatever the honest oracle, the number a restarted daemon
   will read from the position file is at most the length of the file and at
   most the number of bytes stored so far (the p0 bytes of the earlier versions
   plus the new file, which holds a prefix of the slice): NO BYTE CAN BE SKIPPED *)
Theorem crash_position_safe (o : oracle) (rev : bool) (h : handler) (w : world) :
  honest o ->
  h_cfg h = cfg -> h_cpl h = cpl -> h_journal h = oj -> h_q h = q0 ->
  w_fs w = f0 -> w_clock w = now ->
  let f := w_fs (snd (handle_timeout rev h o w)) in
  exists v nb,
    pos_reads f offp i v /\ v <= L /\ v <= p0 + length nb /\ (exists m, nb = firstn m slice) /\
    ((lookup f dst = None /\ nb = []) \/
     exists j, lookup f dst = Some (NFile j) /\ f_bytes (get_file f j) = nb).
Proof.
  intros Ho Hcfg Hcpl Hoj Hq Hf Hc. cbv zeta.
  destruct (history_crash_leaves o rev h w Ho Hcfg Hcpl Hoj Hq Hf Hc) as (ver & pos & queued & Hcase & HL).
  exists (pos_value pos), (ver_bytes ver).
  split; [exact (crashed_pos_reads _ _ _ _ Hcase HL)|].
  destruct (position_not_ahead _ _ _ Hcase) as [A B]. split; [exact A|]. split; [exact B|].
  split.
  - destruct Hcase as [(-> & _)|[(m & -> & _)|[(-> & _)|(-> & _)]]]; cbn [ver_bytes].
    + exists 0. reflexivity.
    + exists m. reflexivity.
    + exists (length slice). rewrite firstn_all. reflexivity.
    + exists (length slice). rewrite firstn_all. reflexivity.
  - pose proof (HL_ver _ _ _ _ _ _ _ _ _ _ _ HL) as Hv. destruct ver as [x|]; cbn [ver_bytes].
    + right. destruct Hv as (V1 & _ & V3). exists (fs_next f0). auto.
    + left. auto.
Qed.

(* ====================================================================== *)
(* 2. from the crashed disk to the hypotheses of the second pass           *)
(* ====================================================================== *)

Lemma dst_abs : exists r, dst = ch_slash :: r.
Proof. apply store_name_abs. exact (H2_root HK2). Qed.

Lemma dst_nroot : dst <> root_path.
Proof. intros E. pose proof (H1_free _ _ _ _ _ _ _ _ _ _ _ _ HK) as Hf. rewrite E in Hf. discriminate. Qed.

Lemma qn_of (q : qmem) k x : q_dir q = d -> Str.under d x = false ->
  x <> join (q_dir q) (dec k) /\ ~ In (join (q_dir q) (dec k)) (parents_of x).
Proof. intros -> Hu. apply under_join_dec; [exact Hdnr | exact Hu]. Qed.

(* a name the crashed pass has not touched *)
Lemma cd_untouched ver pos queued f j :
  HLeft ver pos queued f -> j <= 1 -> cd j <> dst -> lookup f (cd j) = None.
Proof.
  intros H Hj Hne.
  destruct (H2_off HK2 j Hj) as (O1 & O2 & O3). destruct (H2_npar HK2 j Hj) as (N1 & N2).
  destruct (qn_of q0 (q_head q0) (cd j) (H1_qd _ _ _ _ _ _ _ _ _ _ _ _ HK) (H2_dq HK2 j Hj)) as [Q1 _].
  rewrite (HL_other _ _ _ _ _ _ _ _ _ _ _ H (cd j) Hne N1 (fun E => O1 (eq_sym E)) O3 Q1).
  exact (H2_free HK2 j Hj).
Qed.

Lemma cd_parents ver pos queued f j x :
  HLeft ver pos queued f -> j <= 1 -> In x (parents_of (cd j)) ->
  lookup f x = Some NDir \/ lookup f x = None.
Proof.
  intros H Hj Hx.
  destruct (str_in_dec x (parents_of dst)) as [Hd|Hnd]; [exact (HL_par _ _ _ _ _ _ _ _ _ _ _ H x (or_introl Hd))|].
  destruct (str_in_dec x (parents_of offp)) as [Ho|Hno]; [exact (HL_par _ _ _ _ _ _ _ _ _ _ _ H x (or_intror Ho))|].
  destruct (H2_off HK2 j Hj) as (O1 & O2 & O3). destruct (H2_npar HK2 j Hj) as (N1 & N2).
  destruct (qn_of q0 (q_head q0) (cd j) (H1_qd _ _ _ _ _ _ _ _ _ _ _ _ HK) (H2_dq HK2 j Hj)) as [_ Q2].
  rewrite (HL_other _ _ _ _ _ _ _ _ _ _ _ H x); try assumption.
  - exact (H2_par HK2 j x Hj Hx).
  - intros ->. exact (N2 Hx).
  - intros ->. exact (O2 Hx).
  - intros ->. exact (Q2 Hx).
Qed.

(* the number of candidate names of the second pass that are taken: one when
   the restart comes in the same second and the crashed pass has left a file *)
Definition k2 (ver : option str) : nat :=
  match ver with
  | Some _ => if str_eqb (cd 0) dst then 1 else 0
  | None => 0
  end.

Lemma k2_le ver : k2 ver <= 1.
Proof. unfold k2. destruct ver; [destruct (str_eqb _ _)|]; lia. Qed.

Lemma second_pass_hyps ver pos f (q2 : qmem) :
  hcase ver pos true -> HLeft ver pos true f -> q_dir q2 = d ->
  hist_taken_ok cfg cpl oj (q_dir q2) f now2 p i b (pos_value pos) (k2 ver).
Proof.
  intros Hc H Hd2. rewrite Hd2.
  pose proof (k2_le ver) as Hk.
  pose proof (Left_src cfg cpl oj d f0 now p t i b p0 q0 HK _ _ _ _ H) as (S1 & S2 & S3).
  assert (Hkfree : lookup f (cd (k2 ver)) = None).
  { unfold k2. destruct ver as [x|].
    - destruct (str_eqb_spec (cd 0) dst) as [E|E].
      + apply (cd_untouched _ _ _ _ 1 H); [lia | exact (H2_ne HK2)].
      + apply (cd_untouched _ _ _ _ 0 H); [lia | exact E].
    - destruct (str_eqb_spec (cd 0) dst) as [E|E].
      + rewrite E. exact (HL_ver _ _ _ _ _ _ _ _ _ _ _ H).
      + apply (cd_untouched _ _ _ _ 0 H); [lia | exact E]. }
  destruct (H2_off HK2 (k2 ver) Hk) as (O1 & O2 & O3).
  constructor.
  - exact (H2_abs HK2).
  - exact (H2_last HK2).
  - exact (H2_cpl HK2).
  - exact (H2_vlen HK2).
  - exact (H2_vslash HK2).
  - exact S1.
  - exact S2.
  - exact S3.
  - exact (H2_root HK2).
  - intros j Hj. unfold k2 in Hj. destruct ver as [x|]; [|lia].
    destruct (str_eqb_spec (cd 0) dst) as [E|E]; [|lia].
    assert (j = 0) by lia. subst j. fold (cd 0). rewrite E.
    apply taken_of_wft; [exact (HL_wft _ _ _ _ _ _ _ _ _ _ _ H) | exact dst_abs | | exact dst_nroot].
    destruct (HL_ver _ _ _ _ _ _ _ _ _ _ _ H) as [A _]. rewrite A. discriminate.
  - intros j Hj. apply (H2_dq HK2 j). lia.
  - exact Hkfree.
  - intros x Hx. exact (cd_parents _ _ _ f (k2 ver) x H Hk Hx).
  - exact (H2_dq HK2 _ Hk).
  - exact (proj1 (position_not_ahead _ _ _ Hc)).
  - exact (H1_bpos _ _ _ _ _ _ _ _ _ _ _ _ HK).
  - exact (crashed_pos_reads _ _ _ f Hc H).
  - exact (H2_oroot HK2).
  - intros x Hx. exact (HL_par _ _ _ _ _ _ _ _ _ _ _ H x (or_intror Hx)).
  - exact (H1_oq _ _ _ _ _ _ _ _ _ _ _ _ HK).
  - exact O1.
  - exact O2.
  - exact O3.
  - exact (H2_jfits HK2).
  - intros jn Hj. destruct (H1_src _ _ _ _ _ _ _ _ _ _ _ _ HK) as (_ & _ & _ & S4).
    pose proof (H1_j _ _ _ _ _ _ _ _ _ _ _ _ HK jn Hj) as Hjl.
    pose proof (HL_next _ _ _ _ _ _ _ _ _ _ _ H) as Hn.
    split; [intros E; exact (S4 jn Hj (eq_sym E))|]. split; [lia|].
    intros io Hio.
    assert (Hold : forall io', lookup f0 offp = Some (NFile io') -> j_ino jn <> io').
    { intros io' E1 E2. exact (proj2 (H1_posi _ _ _ _ _ _ _ _ _ _ _ _ HK io' E1) jn Hj (eq_sym E2)). }
    destruct pos as [ds|].
    + destruct (HL_pos _ _ _ _ _ _ _ _ _ _ _ H) as (j & A1 & _ & _ & A4).
      rewrite A1 in Hio. injection Hio as <-.
      destruct A4 as [A4|[_ A4]]; [exact (Hold j A4) | lia].
    + destruct (HL_pos _ _ _ _ _ _ _ _ _ _ _ H) as [A1 _]. rewrite A1 in Hio. exact (Hold io Hio).
Qed.

(* the only new files on the crashed disk: the version, the position file *)
Lemma crashed_new_files ver pos queued f x j :
  HLeft ver pos queued f -> lookup f x = Some (NFile j) -> lookup f0 x = None ->
  x = offp \/ (x = dst /\ ver <> None).
Proof.
  intros H Hx H0.
  destruct (str_eqb_spec x offp) as [->|Hxo]; [left; reflexivity|]. right.
  destruct (str_eqb_spec x dst) as [->|Hxd].
  { split; [reflexivity|]. intros ->. rewrite (HL_ver _ _ _ _ _ _ _ _ _ _ _ H) in Hx. discriminate. }
  exfalso.
  destruct (str_in_dec x (parents_of dst)) as [Hd|Hnd].
  { destruct (HL_par _ _ _ _ _ _ _ _ _ _ _ H x (or_introl Hd)) as [E|E]; rewrite E in Hx; discriminate. }
  destruct (str_in_dec x (parents_of offp)) as [Ho|Hno].
  { destruct (HL_par _ _ _ _ _ _ _ _ _ _ _ H x (or_intror Ho)) as [E|E]; rewrite E in Hx; discriminate. }
  destruct (str_eqb_spec x (head_name q0)) as [->|Hxq].
  { pose proof (HL_q _ _ _ _ _ _ _ _ _ _ _ H) as Hq. destruct queued; rewrite Hq in Hx; congruence. }
  rewrite (HL_other _ _ _ _ _ _ _ _ _ _ _ H x Hxd Hnd Hxo Hno Hxq) in Hx. congruence.
Qed.

(* ====================================================================== *)
(* 3. crash, restart, pass                                                 *)
(* ====================================================================== *)

(* x is a NEW file of the store with bytes bs *)
Definition is_ver (f3 : fs) (x : str) (bs : str) : Prop :=
  lookup f0 x = None /\ exists j, lookup f3 x = Some (NFile j) /\ fs_next f0 <= j /\ f_bytes (get_file f3 j) = bs.

(* the new versions after the recovery, in the order they were made *)
Inductive outcome :=
| OClean (x : str)                  (* one version: the slice *)
| OPartial (m : nat) (x : str)      (* the partial file of the crashed pass, then the slice *)
| OAgain (v : nat) (x : str).       (* the slice, then the bytes from the torn position v on *)

Definition new_bytes (oc : outcome) : list str :=
  match oc with
  | OClean _ => [slice]
  | OPartial m _ => [firstn m slice; slice]
  | OAgain v _ => [slice; skipn v b]
  end.

Definition new_names (oc : outcome) : list str :=
  match oc with
  | OClean x => [x]
  | OPartial _ x => [dst; x]
  | OAgain _ x => [dst; x]
  end.

(* which outcome follows which crashed state *)
Definition outcome_of (ver pos : option str) (queued : bool) (oc : outcome) : Prop :=
  match oc with
  | OClean x =>
      (* (a): nothing was there; (d): the entry was popped *)
      (ver = None /\ queued = true /\ x = cd 0) \/ (ver = Some slice /\ queued = false /\ x = dst)
  | OPartial m x =>
      (* (b) *)
      ver = Some (firstn m slice) /\ pos = None /\ queued = true /\ length (firstn m slice) < length slice /\
      x = cd (k2 ver)
  | OAgain v x =>
      (* (c), and (b) when the "prefix" is everything *)
      ver = Some slice /\ queued = true /\ v = pos_value pos /\ v <= L /\ x = cd (k2 ver)
  end.

(* the new names hold the new bytes, they are distinct, and there is NO OTHER
   new file (but the position file, when there was none) *)
Definition stored (f3 : fs) (oc : outcome) : Prop :=
  Forall2 (is_ver f3) (new_names oc) (new_bytes oc) /\ NoDup (new_names oc) /\
  forall x j, lookup f3 x = Some (NFile j) -> lookup f0 x = None -> x = offp \/ In x (new_names oc).

Theorem history_recover (o : oracle) (rev : bool) (h : handler) (w : world)
        (o2 : oracle) (w2 : world) (rev2 : bool) :
  honest o -> benign o2 ->
  h_cfg h = cfg -> h_cpl h = cpl -> h_journal h = oj -> h_q h = q0 ->
  w_fs w = f0 -> w_clock w = now ->
  (* the restart finds the disk the pass has left, at a clock at which the entry is due *)
  w_fs w2 = w_fs (snd (handle_timeout rev h o w)) -> w_clock w2 = now2 ->
  tr_ok (w_tr w2) = true -> t_post (w_tr w2) = 0 ->
  exists (ver pos : option str) (queued : bool) (q2 : qmem) (w2' : world) (h3 : handler) (w3 : world)
         (oc : outcome),
    (* the crashed disk *)
    hcase ver pos queued /\ HLeft ver pos queued (w_fs w2) /\
    (* the queue is reloaded *)
    load_linq d (q_deb q0) (q_len_guess q0) o2 w2 = (Some (Some q2), w2') /\
    QRel q2 (w_fs w2') (if queued then ents else []) /\ w_fs w2' = w_fs w2 /\
    (* the pass after the restart: no error, the queue is empty *)
    handle_timeout rev2 (set_q q2 h) o2 w2' = (Some (TPause (-1), h3), w3) /\
    QRel (h_q h3) (w_fs w3) [] /\ tr_ok (w_tr w3) = true /\
    let f3 := w_fs w3 in
    (* the remembered position is the length of the file *)
    pos_is f3 offp L /\
    (* what was there - the source, the earlier versions - is unchanged *)
    (forall x j, lookup f0 x = Some (NFile j) -> Str.under d x = false -> j < fs_next f0 ->
                 nj oj j -> lookup f0 offp <> Some (NFile j) ->
                 lookup f3 x = Some (NFile j) /\ get_file f3 j = get_file f0 j) /\
    (* the new versions *)
    outcome_of ver pos queued oc /\ stored f3 oc.
Proof.
  intros Ho Ho2 Hcfg Hcpl Hoj Hq Hf Hc Hf2 Hc2 Hok2 Hp2.
  destruct (history_crash_leaves o rev h w Ho Hcfg Hcpl Hoj Hq Hf Hc) as (ver & pos & queued & Hcase & HL).
  rewrite <- Hf2 in HL. set (f := w_fs w2) in *.
  pose proof (H1_qd _ _ _ _ _ _ _ _ _ _ _ _ HK) as Hqd.
  pose proof (HL_nodup _ _ _ _ _ _ _ _ _ _ _ HL) as Hnd.
  pose proof (Left_qclean cfg cpl oj d f0 now p t i b p0 q0 HK _ _ _ _ HL) as Hcl.
  pose proof (HL_next _ _ _ _ _ _ _ _ _ _ _ HL) as Hnext.
  assert (Hfits : Forall (fits (q_len_guess q0)) ents).
  { pose proof (QR_wf _ _ _ (H1_q _ _ _ _ _ _ _ _ _ _ _ _ HK)) as Hw.
    eapply Forall_impl; [|exact Hw]. intros x [_ Hx]. exact Hx. }
  (* what was there is unchanged on the crashed disk *)
  assert (Hold : forall x j, lookup f0 x = Some (NFile j) -> Str.under d x = false -> j < fs_next f0 ->
                   nj oj j -> lookup f0 offp <> Some (NFile j) ->
                   x <> offp -> lookup f x = Some (NFile j) /\ get_file f j = get_file f0 j).
  { intros x j Hx Hu Hj Hn Hno Hxo. split; [|apply (HL_files _ _ _ _ _ _ _ _ _ _ _ HL); assumption].
    rewrite (HL_other _ _ _ _ _ _ _ _ _ _ _ HL x); [exact Hx| | | exact Hxo | |].
    - intros ->. rewrite (H1_free _ _ _ _ _ _ _ _ _ _ _ _ HK) in Hx. discriminate.
    - intros Hin. destruct (H1_par _ _ _ _ _ _ _ _ _ _ _ _ HK x Hin) as [E|E]; rewrite E in Hx; discriminate.
    - intros Hin. destruct (H1_opar _ _ _ _ _ _ _ _ _ _ _ _ HK x Hin) as [E|E]; rewrite E in Hx; discriminate.
    - exact (proj1 (qn_of q0 (q_head q0) x Hqd Hu)). }
  destruct queued.
  - (* the entry is still queued: the second pass copies again *)
    pose proof (Left_QRel cfg cpl oj d f0 now p t i b p0 q0 HK _ _ _ HL) as HRq.
    destruct (restart_loads o2 q0 ents (q_deb q0) (q_len_guess q0) w2 Ho2 Hok2 Hp2)
      as (q2 & w2' & El & HR2 & Hd2 & Hdeb2 & Hg2 & Hfs2 & Hok2' & Hp2' & Hc2'); try assumption.
    { rewrite Hqd. exact Hcl. }
    rewrite Hqd in El, Hd2. fold f in Hfs2.
    pose proof (second_pass_hyps ver pos f q2 Hcase HL Hd2) as HT.
    destruct (hist_taken_pass o2 rev2 (set_q q2 h) w2' p t i b (pos_value pos) (k2 ver) Ho2 Hok2' Hp2')
      as (w3 & E3 & TP & HR3 & Hnd3 & Hok3 & Hc3).
    { rewrite Hfs2. exact Hnd. }
    { cbn [set_q h_q]. exact HR2. }
    { cbn [set_q h_q]. rewrite Hdeb2, Hc2', Hc2. exact (H2_due HK2). }
    { cbn [set_q h_cfg h_cpl h_journal h_q]. rewrite Hcfg, Hcpl, Hoj, Hfs2, Hc2', Hc2. exact HT. }
    cbn [set_q h_cfg h_cpl h_journal h_q] in TP, HR3, E3.
    rewrite Hcfg, Hcpl, Hoj, Hfs2, Hc2', Hc2 in TP.
    set (f3 := w_fs w3) in *. set (x2 := cd (k2 ver)).
    destruct TP as [T1 T2 Tpar Tpospar T3 T4 T5 T6 T7 T8 T9].
    fold (cd (k2 ver)) in T1, T6, Tpar. fold x2 in T1, T6, Tpar.
    pose proof (k2_le ver) as Hk.
    assert (Hx2u : Str.under d x2 = false) by exact (H2_dq HK2 _ Hk).
    assert (Hhn : forall x, Str.under d x = false -> x <> head_name q2).
    { intros x Hu. exact (proj1 (qn_of q2 (q_head q2) x Hd2 Hu)). }
    (* the inode of the position file after the second pass *)
    assert (Hposino : forall io, lookup f3 offp = Some (NFile io) ->
              (lookup f0 offp = Some (NFile io)) \/ fs_next f0 < io).
    { intros io Hio. destruct (T4 io Hio) as [A|[_ A]]; [|right; lia].
      destruct pos as [ds|].
      - destruct (HL_pos _ _ _ _ _ _ _ _ _ _ _ HL) as (j & A1 & _ & _ & A4).
        rewrite A1 in A. injection A as <-. destruct A4 as [A4|[_ A4]]; auto.
      - destruct (HL_pos _ _ _ _ _ _ _ _ _ _ _ HL) as [A1 _]. left. congruence. }
    assert (Hnewino : forall j, fs_next f0 <= j -> nj oj j).
    { intros j Hj jn Hjn E. pose proof (H1_j _ _ _ _ _ _ _ _ _ _ _ _ HK jn Hjn). lia. }
    (* the second version *)
    assert (Hv2 : is_ver f3 x2 (skipn (pos_value pos) b)).
    { split; [exact (H2_free HK2 _ Hk)|]. exists (fs_next f). split; [exact T1|]. split; [lia | exact T2]. }
    (* the file of the crashed pass, if any, is still there *)
    assert (Hv1 : forall y, ver = Some y -> is_ver f3 dst y /\ x2 <> dst).
    { intros y ->. destruct (HL_ver _ _ _ _ _ _ _ _ _ _ _ HL) as (A1 & A2 & A3). split.
      - split; [exact (H1_free _ _ _ _ _ _ _ _ _ _ _ _ HK)|]. exists (fs_next f0).
        split; [rewrite T7; [exact A1 | apply Hhn; exact (H1_dq _ _ _ _ _ _ _ _ _ _ _ _ HK) | rewrite A1; discriminate]|].
        split; [lia|]. rewrite T8; [exact A3 | lia | | apply Hnewino; lia].
        intros io Hio. destruct (Hposino io Hio) as [B|B]; [|lia].
        destruct (H1_pos _ _ _ _ _ _ _ _ _ _ _ _ HK) as [[_ E]|[_ (io' & E & _ & E')]]; [congruence|].
        rewrite B in E. injection E as <-. lia.
      - unfold x2, k2. destruct (str_eqb_spec (cd 0) dst) as [E|E]; [exact (H2_ne HK2) | exact E]. }
    (* no other new file *)
    assert (Hnew : forall x j, lookup f3 x = Some (NFile j) -> lookup f0 x = None ->
              x = offp \/ x = x2 \/ (x = dst /\ ver <> None)).
    { intros x j Hx H0.
      destruct (str_eqb_spec x offp) as [->|Hxo]; [left; reflexivity|]. right.
      destruct (str_eqb_spec x x2) as [->|Hxx]; [left; reflexivity|]. right.
      destruct (str_in_dec x (parents_of x2)) as [Hp|Hnp]; [rewrite (Tpar x Hp) in Hx; discriminate|].
      destruct (str_in_dec x (parents_of offp)) as [Hp|Hnop]; [rewrite (Tpospar x Hp) in Hx; discriminate|].
      destruct (str_eqb_spec x (head_name q2)) as [->|Hxq]; [rewrite T5 in Hx; discriminate|].
      rewrite (T6 x Hxx Hnp Hxo Hnop Hxq) in Hx.
      destruct (crashed_new_files _ _ _ f x j HL Hx H0) as [E|E]; [contradiction | exact E]. }
    exists ver, pos, true, q2, w2', (set_q (popped p q2) (set_q q2 h)), w3.
    (* the outcome *)
    assert (Hout : exists oc, outcome_of ver pos true oc /\ stored f3 oc).
    { destruct Hcase as [(-> & -> & _)|[(m & -> & -> & _)|[(-> & Hpos & _)|(_ & _ & E)]]]; [| | |discriminate].
      - exists (OClean x2). split; [left; auto|].
        split; [|split; [constructor; [intros []|constructor]|]].
        + constructor; [|constructor]. exact Hv2.
        + intros x j Hx H0. destruct (Hnew x j Hx H0) as [E|[E|[_ E]]]; [left; exact E | right; left; auto | congruence].
      - destruct (Hv1 _ eq_refl) as [V1 Vne].
        destruct (Nat.lt_ge_cases (length (firstn m slice)) (length slice)) as [Hlt|Hge].
        + exists (OPartial m x2). split; [cbn [outcome_of]; auto 6|].
          split; [|split; [constructor; [intros [E|[]]; exact (Vne E)|constructor; [intros []|constructor]]|]].
          { constructor; [exact V1|]. constructor; [exact Hv2|constructor]. }
          intros x j Hx H0. destruct (Hnew x j Hx H0) as [E|[E|[E _]]];
            [left; exact E | right; right; left; auto | right; left; auto].
        + assert (Efull : firstn m slice = slice).
          { rewrite firstn_length in Hge. apply firstn_all2. lia. }
          exists (OAgain p0 x2). rewrite Efull in *. split.
          { cbn [outcome_of pos_value]. split; [reflexivity|]. split; [reflexivity|]. split; [reflexivity|].
            split; [exact (H1_le _ _ _ _ _ _ _ _ _ _ _ _ HK) | reflexivity]. }
          split; [|split; [constructor; [intros [E|[]]; exact (Vne E)|constructor; [intros []|constructor]]|]].
          { constructor; [exact V1|]. constructor; [exact Hv2|constructor]. }
          intros x j Hx H0. destruct (Hnew x j Hx H0) as [E|[E|[E _]]];
            [left; exact E | right; right; left; auto | right; left; auto].
      - destruct (Hv1 _ eq_refl) as [V1 Vne].
        exists (OAgain (pos_value pos) x2). split.
        { cbn [outcome_of]. split; [reflexivity|]. split; [reflexivity|]. split; [reflexivity|].
          split; [|reflexivity].
          apply (proj1 (position_not_ahead (Some slice) pos true
                          (or_intror (or_intror (or_introl (conj eq_refl (conj Hpos eq_refl))))))). }
        split; [|split; [constructor; [intros [E|[]]; exact (Vne E)|constructor; [intros []|constructor]]|]].
        { constructor; [exact V1|]. constructor; [exact Hv2|constructor]. }
        intros x j Hx H0. destruct (Hnew x j Hx H0) as [E|[E|[E _]]];
          [left; exact E | right; right; left; auto | right; left; auto]. }
    destruct Hout as (oc & Hoc1 & Hoc2).
    exists oc. split; [exact Hcase|]. split; [exact HL|]. split; [exact El|].
    split; [exact HR2|]. split; [exact Hfs2|]. split; [exact E3|]. split; [exact HR3|]. split; [exact Hok3|].
    cbv zeta. split; [exact T3|]. split; [|split; [exact Hoc1 | exact Hoc2]].
    intros x j Hx Hu Hj Hn Hno.
    assert (Hxo : x <> offp) by (intros ->; exact (Hno Hx)).
    destruct (Hold x j Hx Hu Hj Hn Hno Hxo) as [A1 A2].
    split; [rewrite T7; [exact A1 | apply Hhn; exact Hu | rewrite A1; discriminate]|].
    rewrite T8; [exact A2 | lia | | exact Hn].
    intros io Hio. destruct (Hposino io Hio) as [B|B]; [congruence | lia].
  - (* the entry was popped: nothing to do *)
    pose proof (Left_QRel_popped cfg cpl oj d f0 now p t i b p0 q0 HK _ _ _ HL) as HRq.
    destruct (restart_loads o2 (popped p q0) [] (q_deb q0) (q_len_guess q0) w2 Ho2 Hok2 Hp2)
      as (q2 & w2' & El & HR2 & Hd2 & Hdeb2 & Hg2 & Hfs2 & Hok2' & Hp2' & Hc2'); try assumption.
    { cbn [popped q_dir]. rewrite Hqd. exact Hcl. }
    { constructor. }
    cbn [popped q_dir] in El, Hd2. rewrite Hqd in El, Hd2. fold f in Hfs2.
    destruct (pass_idle o2 w2' (set_q q2 h) rev2 (S (N.to_nat (q_size q2))) Hok2')
      as (w3 & E3 & F3 & _ & _ & C3 & K3).
    { cbn [set_q h_q]. exact HR2. }
    assert (Ever : ver = Some slice /\ pos = Some newpos).
    { destruct Hcase as [(_ & _ & E)|[(m & _ & _ & E)|[(_ & _ & E)|(A & B & _)]]]; try discriminate. auto. }
    destruct Ever as [-> ->].
    exists (Some slice), (Some newpos), false, q2, w2', (set_q q2 h), w3, (OClean dst).
    split; [exact Hcase|]. split; [exact HL|]. split; [exact El|].
    split; [exact HR2|]. split; [exact Hfs2|].
    split.
    { unfold handle_timeout. cbn [set_q h_q].
      rewrite (bind_some _ _ _ _ _ _ E3). rewrite (bind_some _ _ _ _ _ _ (is_ok_eq o2 w3)).
      rewrite (tr_keep_ok _ _ K3). reflexivity. }
    split; [cbn [set_q h_q]; rewrite F3; exact HR2|]. split; [exact (tr_keep_ok _ _ K3)|].
    cbv zeta. rewrite F3, Hfs2.
    destruct (HL_pos _ _ _ _ _ _ _ _ _ _ _ HL) as (j & A1 & A2 & A3 & A4).
    destruct (HL_ver _ _ _ _ _ _ _ _ _ _ _ HL) as (B1 & B2 & B3).
    split.
    { right. split; [exact (H1_bpos _ _ _ _ _ _ _ _ _ _ _ _ HK)|]. exists j. auto. }
    split.
    { intros x j' Hx Hu Hj Hn Hno. apply Hold; try assumption. intros ->. exact (Hno Hx). }
    split; [right; auto|].
    split; [|split; [constructor; [intros []|constructor]|]].
    + constructor; [|constructor].
      split; [exact (H1_free _ _ _ _ _ _ _ _ _ _ _ _ HK)|]. exists (fs_next f0). split; [exact B1|]. split; [lia | exact B3].
    + intros x j' Hx H0. destruct (crashed_new_files _ _ _ f x j' HL Hx H0) as [E|[E _]];
        [left; exact E | right; left; auto].
Qed.

(* NO BYTE IS LOST: whatever happened, one of the new versions is the complete
   slice, and the earlier versions (p0 bytes) followed by it are the file *)
Theorem no_byte_lost ver pos queued oc :
  outcome_of ver pos queued oc ->
  In slice (new_bytes oc) /\ firstn p0 b ++ slice = b.
Proof.
  intros _. split; [|apply firstn_skipn].
  destruct oc; cbn [new_bytes In]; auto.
Qed.

(* the same, byte by byte: byte idx of the file (idx >= p0: not in the earlier
   versions) is byte idx - p0 of one of the new versions *)
Lemma nth_error_skipn_add {T} (l : list T) : forall n k, nth_error (skipn n l) k = nth_error l (n + k).
Proof.
  induction l as [|x l IH]; intros n k.
  - rewrite skipn_nil. destruct k, n; reflexivity.
  - destruct n as [|n]; [reflexivity|]. cbn [skipn Nat.add nth_error]. apply IH.
Qed.

Corollary every_byte_stored ver pos queued oc idx :
  outcome_of ver pos queued oc -> p0 <= idx -> idx < L ->
  exists bs, In bs (new_bytes oc) /\ nth_error bs (idx - p0) = nth_error b idx /\ nth_error b idx <> None.
Proof.
  intros Hoc H1 H2. exists slice. split; [exact (proj1 (no_byte_lost _ _ _ _ Hoc))|].
  rewrite nth_error_skipn_add. replace (p0 + (idx - p0)) with idx by lia.
  split; [reflexivity|]. apply nth_error_Some. exact H2.
Qed.

(* the exact concatenation, per outcome: what is stored twice *)
Theorem new_versions_concat ver pos queued oc :
  outcome_of ver pos queued oc ->
  match oc with
  | OClean _ => firstn p0 b ++ concat (new_bytes oc) = b
  | OPartial m _ =>
      (* the prefix is there twice *)
      firstn p0 b ++ concat (new_bytes oc) = firstn p0 b ++ firstn m slice ++ slice
  | OAgain v _ =>
      (* the bytes from the torn position on are there twice *)
      firstn p0 b ++ concat (new_bytes oc) = b ++ skipn v b
  end.
Proof.
  intros _. destruct oc; cbn [new_bytes concat]; rewrite ?app_nil_r.
  - apply firstn_skipn.
  - reflexivity.
  - rewrite app_assoc, firstn_skipn. reflexivity.
Qed.

End HistRecover.

Print Assumptions history_crash_leaves.
Print Assumptions position_after_crash_is_prefix.
Print Assumptions position_not_ahead.
Print Assumptions crash_position_safe.
Print Assumptions history_recover.
Print Assumptions no_byte_lost.
Print Assumptions every_byte_stored.
Print Assumptions new_versions_concat.

(* ====================================================================== *)
(* 4. a concrete history file, the pass crashed at EVERY call              *)
(* ====================================================================== *)

Module HistoryRecoverExample.
  Local Open Scope char_scope.

  Definition p_q : str := ["/"; "q"].
  Definition p_st : str := ["/"; "s"; "t"].
  Definition p_off : str := ["/"; "o"; "f"; "f"].
  Definition p_j : str := ["/"; "j"].
  Definition p_w : str := ["/"; "w"].
  Definition p_h : str := ["/"; "w"; "/"; "h"; "i"; "s"; "t"; "."; "l"; "o"; "g"].
  Definition line1 : str := ["l"; "i"; "n"; "e"; "1"; "010"].
  Definition second : str := ["s"; "e"; "c"; "o"; "n"; "d"; " "; "l"; "i"; "n"; "e"; "010"].
  Definition content : str := line1 ++ second.
  Definition stored : str := ["s"; "t"; "o"; "r"; "e"; "d"].

  (* store /st, positions /off, versions "v<seconds>", debounce 5 s, journal /j (inode 1) *)
  Definition cfg0 : config :=
    mkCfg [] (mkRules [] [] [] [] [] []) p_st ["/"; "p"] ["/"; "u"] p_q (Some p_j) p_off
          ["%"; "s"] ["v"; "%"; "s"] 5%Z 0 16 None None None None None None (Some stored).
  Definition jn0 : journal := mkJ 1 ["%"; "s"].

  Definition d_h : str := p_st ++ ["/"; "h"; "i"; "s"; "t"; "."; "l"; "o"; "g"].
  Definition v50 : str := d_h ++ ["/"; "v"; "5"; "0"; "."; "l"; "o"; "g"].
  Definition v100 : str := d_h ++ ["/"; "v"; "1"; "0"; "0"; "."; "l"; "o"; "g"].
  Definition v100_1 : str := d_h ++ ["/"; "v"; "1"; "0"; "0"; "-"; "1"; "."; "l"; "o"; "g"].
  Definition v107 : str := d_h ++ ["/"; "v"; "1"; "0"; "7"; "."; "l"; "o"; "g"].
  Definition offh : str := p_off ++ ["/"; "h"; "i"; "s"; "t"; "."; "l"; "o"; "g"].

  (* /w/hist.log (inode 2) held "line1\n" when it was stored at 50 s as v50.log
     (inode 3) and the position 6 was remembered (/off/hist.log, inode 4);
     "second line\n" has been appended since *)
  Definition fbase : fs :=
    mkFs [ (p_q, NDir); (p_w, NDir); (p_j, NFile 1); (p_h, NFile 2); (p_st, NDir); (d_h, NDir);
           (v50, NFile 3); (p_off, NDir); (offh, NFile 4) ]
         [ (1, mkFile [] true); (2, mkFile content true); (3, mkFile line1 true); (4, mkFile ["6"] true) ] 5.

  Definition qE : qmem := mkQ p_q 0 0 5%Z 16 [].
  (* the write was seen at 10 s (metadata 2: history); it is now 100 s *)
  Definition q1 := pushed p_h qE.
  Definition f1 := add_dent (next_name qE) (NLink (encode 2 p_h) 10%Z) fbase.
  Definition h0 : handler := mkH cfg0 None 3 q1 (Some jn0) [] [].
  Definition w0 : world := mkW f1 0 [] 100%Z tr_empty.

  Example names :
    store_name cfg0 3 100 p_h = v100 /\ cand cfg0 3 100 p_h 1 = v100_1 /\
    cand cfg0 3 107 p_h 0 = v107 /\ offset_name cfg0 3 p_h = offh /\ linq_meta true None = 2%N /\
    length content = 18 /\ skipn 6 content = second /\ dec 18 = ["1"; "8"].
  Proof. repeat split; vm_compute; reflexivity. Qed.

  (* ---------- evaluation ---------- *)

  Definition crash_at (k : nat) : oracle := fun i => if Nat.eqb i k then FCrash else FNone.
  Definition fail_at (k : nat) (e : errno) : oracle := fun i => if Nat.eqb i k then FFail e else FNone.
  (* a kernel that moves 5 bytes per transfer, and the process dies at call k *)
  Definition short_crash_at (k : nat) : oracle := fun i => if Nat.eqb i k then FCrash else FShort 5.

  Definition bytes_at (f : fs) (x : str) : option str :=
    match lookup f x with Some (NFile i) => Some (f_bytes (get_file f i)) | _ => None end.

  (* the versions of the path, in the order of their names *)
  Definition versions_of (now2 : Z) (f : fs) : list str :=
    flat_map (fun x => match bytes_at f x with Some bs => [bs] | None => [] end)
             (if Z.eqb now2 100 then [v50; v100; v100_1] else [v50; v100; v107]).

  (* the files below the store *)
  Definition store_files (f : fs) : nat :=
    length (filter (fun e => Str.under p_st (fst e) &&
                             match snd e with NFile _ => true | _ => false end) (fs_dents f)).

  (* is [s] a subsequence of [l] *)
  Fixpoint subseq (s l : str) : bool :=
    match s, l with
    | [], _ => true
    | _, [] => false
    | x :: s', y :: l' => if Ascii.eqb x y then subseq s' l' else subseq s l'
    end.

  (* run the pass under o; restart on the disk it leaves (fresh process: empty
     trace, call counter 0) at clock now2, with no faults; [chk] judges the
     concatenation of the versions *)
  Definition recovers (now2 : Z) (chk : str -> bool) (o : oracle) : bool :=
    let wc := snd (handle_timeout false h0 o w0) in
    let w2 := mkW (w_fs wc) 0 [] now2 tr_empty in
    match load_linq p_q 5%Z 16 no_faults w2 with
    | (Some (Some q2), w2') =>
        match handle_timeout false (set_q q2 h0) no_faults w2' with
        | (Some (TPause z, h3), w3) =>
            let f3 := w_fs w3 in
            Z.eqb z (-1) && N.eqb (q_size (h_q h3)) 0 && tr_ok (w_tr w3) &&
            (* the queue directory is empty *)
            match children f3 p_q with [] => true | _ => false end &&
            (* the remembered position is 18 *)
            match bytes_at f3 offh with Some bs => str_eqb bs ["1"; "8"] | None => false end &&
            (* the source and the old version are what they were *)
            match bytes_at f3 p_h with Some bs => str_eqb bs content | None => false end &&
            match bytes_at f3 v50 with Some bs => str_eqb bs line1 | None => false end &&
            (* no other file in the store than the versions listed; at most two new ones *)
            Nat.eqb (store_files f3) (length (versions_of now2 f3)) && Nat.leb (store_files f3) 3 &&
            (* one version is the complete slice *)
            existsb (str_eqb second) (versions_of now2 f3) &&
            chk (concat (versions_of now2 f3))
        | _ => false
        end
    | _ => false
    end.

  (* every byte of the file is in the concatenation, in order *)
  Definition no_loss (c : str) : bool := subseq content c.
  Definition exact (c : str) : bool := str_eqb c content.

  (* the fault-free pass makes 24 calls *)
  Example pass_calls : w_n (snd (handle_timeout false h0 no_faults w0)) = 24.
  Proof. vm_compute. reflexivity. Qed.

  (* the process dies before call k, for EVERY k (k = 24: it does not die):
     queue empty, no error, position 18, a complete slice, no byte lost *)
  Example crash_at_every_call :
    forallb (fun k => recovers 100 no_loss (crash_at k)) (seq 0 25) = true.
  Proof. vm_compute. reflexivity. Qed.

  (* the same with a restart 7 s later (another version name) *)
  Example crash_at_every_call_later :
    forallb (fun k => recovers 107 no_loss (crash_at k)) (seq 0 25) = true.
  Proof. vm_compute. reflexivity. Qed.

  (* which crash points store bytes twice: the crash after the transfer and before
     the pop (calls 12 .. 19: between the sendfile that moved the slice and the
     write of the last digit of the position); before call 12 and from call 20 on
     (the position file is complete) the concatenation is exactly the file *)
  Example duplicates_exactly_at :
    filter (fun k => negb (recovers 100 exact (crash_at k))) (seq 0 25) = [12; 13; 14; 15; 16; 17; 18; 19].
  Proof. vm_compute. reflexivity. Qed.

  (* the torn position: a crash before the first digit (call 18: the file is
     empty, position 0) stores the WHOLE file again; before the second digit
     (call 19: "1") the bytes from 1 on *)
  Example torn_position :
    let after k := w_fs (snd (handle_timeout false h0 (crash_at k) w0)) in
    let queued k := match lookup (after k) (head_name q1) with Some _ => true | None => false end in
    bytes_at (after 18) offh = Some [] /\ bytes_at (after 19) offh = Some ["1"] /\
    bytes_at (after 20) offh = Some ["1"; "8"] /\ bytes_at (after 17) offh = Some ["6"] /\
    bytes_at (after 18) v100 = Some second /\
    forallb queued [17; 18; 19; 20; 21; 22] = true /\ queued 23 = false.
  Proof. vm_compute. repeat split; reflexivity. Qed.

  (* with 5-byte transfers the pass makes more calls; crash before each of them *)
  Example short_pass_calls : w_n (snd (handle_timeout false h0 (fun _ => FShort 5) w0)) = 29.
  Proof. vm_compute. reflexivity. Qed.
  Example short_crash_at_every_call :
    forallb (fun k => recovers 100 no_loss (short_crash_at k)) (seq 0 30) = true.
  Proof. vm_compute. reflexivity. Qed.

  (* a crash during the transfer leaves a PARTIAL version (a prefix of the slice)
     which stays in the store beside the complete one: the history analogue of
     RecoverExample.partial_version *)
  Example partial_version :
    existsb (fun k =>
      let wc := snd (handle_timeout false h0 (short_crash_at k) w0) in
      match bytes_at (w_fs wc) v100 with
      | Some bs => str_eqb bs ["s"; "e"; "c"; "o"; "n"] && negb (recovers 100 exact (short_crash_at k))
      | None => false
      end) (seq 0 30) = true.
  Proof. vm_compute. reflexivity. Qed.

  (* EIO at call k, for every k *)
  Example fail_at_every_call :
    forallb (fun k => recovers 100 no_loss (fail_at k EIO)) (seq 0 25) = true.
  Proof. vm_compute. reflexivity. Qed.

  (* ---------- the theorems, instantiated ---------- *)

  Ltac neq := let E := fresh in intros E; vm_compute in E; discriminate E.
  Ltac not_in := let Hin := fresh in intros Hin; vm_compute in Hin;
                 repeat (destruct Hin as [Hin|Hin]; [discriminate Hin|]); exact Hin.
  Ltac dir_or_none Hx := vm_compute in Hx; repeat (destruct Hx as [<-|Hx]; [vm_compute; auto|]); destruct Hx.

  Lemma q1_rel : QRel q1 f1 [(p_h, 2%N, 10%Z)].
  Proof.
    assert (R0 : QRel qE fbase []).
    { apply QRel_empty; [discriminate | reflexivity|]. apply free_under; [discriminate | vm_compute; reflexivity]. }
    apply (QRel_push qE fbase [] p_h 2%N 10%Z R0);
      [apply normalb_spec; reflexivity | apply PassExample.fits16; reflexivity].
  Qed.

  Lemma f1_nodup : keys_nodup f1.
  Proof. unfold keys_nodup. apply nodupb_ok. vm_compute. reflexivity. Qed.

  Lemma f1_clean : qclean p_q f1.
  Proof.
    split; [discriminate|]. intros x Hd Hr Hl.
    assert (Hin : In x (map fst (fs_dents f1))).
    { destruct (str_in_dec x (map fst (fs_dents f1))) as [H|H]; [exact H|].
      exfalso. apply Hl. rewrite (lookup_nonroot _ _ Hr). apply notin_alookup_none. exact H. }
    cbn in Hin.
    repeat (destruct Hin as [Hin|Hin]; [subst x; try (vm_compute in Hd; discriminate Hd)|]);
      try contradiction.
    exists 0%N. vm_compute. reflexivity.
  Qed.

  Lemma hyp1 : h1_ok cfg0 3 (Some jn0) p_q f1 100 p_h 10%Z 2 content 6 q1.
  Proof.
    constructor.
    - vm_compute. reflexivity.
    - vm_compute. reflexivity.
    - neq.
    - not_in.
    - not_in.
    - vm_compute. reflexivity.
    - intros x Hx. dir_or_none Hx.
    - intros x Hx. dir_or_none Hx.
    - apply pos_isb_sound. vm_compute. reflexivity.
    - vm_compute. lia.
    - vm_compute. lia.
    - intros io Hio. vm_compute in Hio. injection Hio as <-. split; [lia|].
      intros jn Hj. injection Hj as <-. cbn. lia.
    - split; [vm_compute; reflexivity|]. split; [vm_compute; reflexivity|]. split; [vm_compute; lia|].
      intros jn Hj. injection Hj as <-. cbn. lia.
    - intros jn Hj. injection Hj as <-. vm_compute. lia.
    - exact f1_nodup.
    - apply wftb_ok. vm_compute. reflexivity.
    - exact f1_clean.
    - exact q1_rel.
    - reflexivity.
  Qed.

  Lemma hyp2 (now2 : Z) : now2 = 100%Z \/ now2 = 107%Z ->
    h2_ok cfg0 3 (Some jn0) p_q f1 100 now2 p_h 10%Z q1.
  Proof.
    intros Hn2.
    constructor.
    - vm_compute. reflexivity.
    - vm_compute. reflexivity.
    - vm_compute. lia.
    - destruct Hn2 as [-> | ->]; vm_compute; lia.
    - destruct Hn2 as [-> | ->]; vm_compute; reflexivity.
    - intros jn ev Hj Hev. injection Hj as <-. destruct Hn2 as [-> | ->]; vm_compute; lia.
    - eexists. reflexivity.
    - eexists. reflexivity.
    - intros j Hj. destruct j as [|[|j]]; [| |exfalso; lia]; destruct Hn2 as [-> | ->]; vm_compute; reflexivity.
    - intros j Hj. destruct j as [|[|j]]; [| |exfalso; lia]; destruct Hn2 as [-> | ->]; vm_compute; reflexivity.
    - intros j x Hj Hx. destruct j as [|[|j]]; [| |exfalso; lia]; destruct Hn2 as [-> | ->]; dir_or_none Hx.
    - intros j Hj. destruct j as [|[|j]]; [| |exfalso; lia]; destruct Hn2 as [-> | ->];
        (split; [neq|]; split; not_in).
    - intros j Hj. destruct j as [|[|j]]; [| |exfalso; lia]; destruct Hn2 as [-> | ->]; (split; not_in).
    - destruct Hn2 as [-> | ->]; neq.
    - destruct Hn2 as [-> | ->]; vm_compute; discriminate.
  Qed.

  (* non-vacuity: the hypotheses of the theorems hold of this world, for a
     restart in the same second and 7 s later *)
  Example hyps_hold :
    h1_ok cfg0 3 (Some jn0) p_q f1 100 p_h 10%Z 2 content 6 q1 /\
    h2_ok cfg0 3 (Some jn0) p_q f1 100 100 p_h 10%Z q1 /\
    h2_ok cfg0 3 (Some jn0) p_q f1 100 107 p_h 10%Z q1.
  Proof. split; [exact hyp1|]. split; apply hyp2; auto. Qed.

  (* EVERY honest oracle for the first pass: what is on disk *)
  Example crash_leaves_every_honest_oracle (o : oracle) (rev : bool) :
    honest o ->
    exists ver pos queued,
      hcase content 6 ver pos queued /\
      HLeft cfg0 3 (Some jn0) f1 100 p_h q1 ver pos queued (w_fs (snd (handle_timeout rev h0 o w0))).
  Proof.
    intros Ho.
    exact (history_crash_leaves cfg0 3 (Some jn0) p_q f1 100 p_h 10%Z 2 content 6 q1 hyp1 o rev h0 w0 Ho
             eq_refl eq_refl eq_refl eq_refl eq_refl eq_refl).
  Qed.

  (* EVERY honest oracle for the first pass, every benign one for the second,
     the restart at 100 s or at 107 s: the queue is empty, no error, the
     position is 18, "line1\n" is still in v50.log, "second line\n" is in a new
     version, and with it the versions give back the file *)
  Example every_honest_oracle (o o2 : oracle) (rev rev2 : bool) (now2 : Z) (w2 : world) :
    honest o -> benign o2 -> now2 = 100%Z \/ now2 = 107%Z ->
    w_fs w2 = w_fs (snd (handle_timeout rev h0 o w0)) -> w_clock w2 = now2 ->
    tr_ok (w_tr w2) = true -> t_post (w_tr w2) = 0 ->
    exists q2 w2' h3 w3,
      load_linq p_q 5%Z 16 o2 w2 = (Some (Some q2), w2') /\
      handle_timeout rev2 (set_q q2 h0) o2 w2' = (Some (TPause (-1), h3), w3) /\
      QRel (h_q h3) (w_fs w3) [] /\ tr_ok (w_tr w3) = true /\
      pos_is (w_fs w3) offh 18 /\
      lookup (w_fs w3) v50 = Some (NFile 3) /\ get_file (w_fs w3) 3 = mkFile line1 true /\
      (exists x j, lookup f1 x = None /\ lookup (w_fs w3) x = Some (NFile j) /\
                   f_bytes (get_file (w_fs w3) j) = second) /\
      line1 ++ second = content.
  Proof.
    intros Ho Ho2 Hn2 Hf2 Hc2 Hok2 Hp2.
    destruct (history_recover cfg0 3 (Some jn0) p_q f1 100 now2 p_h 10%Z 2 content 6 q1 hyp1 (hyp2 now2 Hn2)
                o rev h0 w0 o2 w2 rev2 Ho Ho2 eq_refl eq_refl eq_refl eq_refl eq_refl eq_refl Hf2 Hc2 Hok2 Hp2)
      as (ver & pos & queued & q2 & w2' & h3 & w3 & oc & _ & _ & El & _ & _ & E3 & HR3 & Hok3 & Hpos & Hold & Hoc & Hst).
    exists q2, w2', h3, w3. split; [exact El|]. split; [exact E3|]. split; [exact HR3|]. split; [exact Hok3|].
    destruct names as (_ & _ & _ & N4 & _ & N6 & N7 & _).
    rewrite N4, N6 in Hpos. split; [exact Hpos|].
    destruct (Hold v50 3) as [A1 A2]; try (vm_compute; reflexivity); try (vm_compute; lia).
    { intros jn Hj. injection Hj as <-. cbn. lia. }
    { vm_compute. discriminate. }
    split; [exact A1|]. split; [rewrite A2; vm_compute; reflexivity|].
    split; [|reflexivity].
    destruct (no_byte_lost _ _ _ _ _ _ _ ver pos queued oc Hoc) as [Hin _]. rewrite N7 in Hin.
    destruct Hst as [Hst _].
    assert (Hget : forall names bytes, Forall2 (is_ver f1 (w_fs w3)) names bytes -> In second bytes ->
              exists x j, lookup f1 x = None /\ lookup (w_fs w3) x = Some (NFile j) /\
                          f_bytes (get_file (w_fs w3) j) = second).
    { intros nms bts HF. induction HF as [|x y l l' Hxy _ IH]; intros Hi; [destruct Hi|].
      destruct Hi as [<-|Hi]; [|exact (IH Hi)].
      destruct Hxy as [B1 (j & B2 & _ & B3)]. exists x, j. auto. }
    apply (Hget _ _ Hst). rewrite <- N7. exact Hin.
  Qed.
End HistoryRecoverExample.

Print Assumptions HistoryRecoverExample.hyps_hold.
Print Assumptions HistoryRecoverExample.crash_leaves_every_honest_oracle.
Print Assumptions HistoryRecoverExample.every_honest_oracle.
