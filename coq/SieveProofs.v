(* sieve() computes the declarative matching; the decision loop is "the deepest
   candidate decides". *)
From K Require Import Str Sieve SieveSpec.
From Coq Require Import Lia Arith.

(* ---------- greatest ---------- *)

Lemma greatest_S P n : greatest P (S n) = if P (S n) then Some (S n) else greatest P n.
Proof. unfold greatest. rewrite seq_S, fold_left_app. simpl. reflexivity. Qed.

Lemma greatest_spec P n :
  match greatest P n with
  | Some k => 1 <= k <= n /\ P k = true /\ forall k', k < k' <= n -> P k' = false
  | None => forall k', 1 <= k' <= n -> P k' = false
  end.
Proof.
  induction n as [|n IH].
  - simpl. intros; lia.
  - rewrite greatest_S. destruct (P (S n)) eqn:E.
    + split; [lia|]. split; [assumption|]. intros; lia.
    + destruct (greatest P n) as [k|].
      * destruct IH as [H1 [H2 H3]]. split; [lia|]. split; [assumption|].
        intros k' Hk. destruct (Nat.eq_dec k' (S n)) as [->|]; [assumption | apply H3; lia].
      * intros k' Hk. destruct (Nat.eq_dec k' (S n)) as [->|]; [assumption | apply IH; lia].
Qed.

(* ---------- list helpers ---------- *)

Lemma skipn_cons_nth {A} (l : list A) : forall i x r, skipn i l = x :: r ->
  nth_error l i = Some x /\ skipn (S i) l = r /\ firstn (S i) l = firstn i l ++ [x] /\ i < length l.
Proof.
  induction l as [|y l IH]; intros [|i] x r H; try discriminate.
  - cbn [skipn] in H. inversion H; subst. cbn. repeat split; auto. lia.
  - change (skipn (S i) (y :: l)) with (skipn i l) in H.
    destruct (IH i x r H) as [H1 [H2 [H3 H4]]].
    change (skipn (S (S i)) (y :: l)) with (skipn (S i) l).
    change (firstn (S (S i)) (y :: l)) with (y :: firstn (S i) l).
    change (firstn (S i) (y :: l)) with (y :: firstn i l).
    cbn [nth_error length app]. rewrite H3. repeat split; auto. lia.
Qed.

Lemma hd_error_skipn {A} (l : list A) : forall i, hd_error (skipn i l) = nth_error l i.
Proof. induction l as [|y l IH]; intros [|i]; simpl; auto. Qed.

Lemma map_combine_map {A B C} (g : A * B -> C) (f : A -> B) (l : list A) :
  map g (combine l (map f l)) = map (fun x => g (x, f x)) l.
Proof. induction l as [|x l IH]; simpl; [reflexivity | rewrite IH; reflexivity]. Qed.

(* ---------- the loop invariant ---------- *)

Record SInv (path : str) (off : nat) (sets : list (list str)) (i : nat) (st : sieve_st) : Prop := {
  si_abs : sv_abs st = rev (firstn i path);
  si_rel : sv_rel st = rev (skipn off (firstn i path));
  si_ends : sv_ends st = map (fun s => greatest (matches_at path off s) i) sets;
  si_dot : sv_dot st = greatest (dot_at path) i
}.

Lemma step_boundary path i next :
  i < length path -> next = nth_error path (S i) ->
  (match next with None => true | Some c => is_slash c end || Nat.eqb i 0) = boundary path (S i).
Proof.
  intros Hi ->. unfold boundary. change (Nat.eqb (S i) 1) with (Nat.eqb i 0).
  destruct (nth_error path (S i)) as [c|] eqn:E.
  - assert (S i < length path) by (apply nth_error_Some; congruence).
    destruct (Nat.eqb_spec (S i) (length path)); [lia|].
    destruct (Nat.eqb i 0), (is_slash c); reflexivity.
  - apply nth_error_None in E.
    destruct (Nat.eqb_spec (S i) (length path)); [|lia].
    destruct (Nat.eqb i 0); reflexivity.
Qed.

Lemma SInv_step path off sets i this rest st :
  skipn i path = this :: rest -> SInv path off sets i st ->
  SInv path off sets (S i) (sieve_step sets off i this (hd_error rest) st).
Proof.
  intros Hsk [Ha Hr He Hd].
  destruct (skipn_cons_nth path i this rest Hsk) as [Hnth [Hsk' [Hfn Hlt]]].
  assert (Hnext : hd_error rest = nth_error path (S i)) by (rewrite <- Hsk'; apply hd_error_skipn).
  assert (Hlen : length (firstn i path) = i) by (apply firstn_length_le; lia).
  unfold sieve_step. constructor; cbn [sv_abs sv_rel sv_ends sv_dot].
  - rewrite Ha, Hfn, rev_app_distr. reflexivity.
  - rewrite Hr, Hfn. rewrite skipn_app, Hlen.
    destruct (Nat.leb_spec off i) as [Hle|Hgt].
    + replace (off - i) with 0 by lia. simpl. rewrite rev_app_distr. reflexivity.
    + rewrite (skipn_all2 (firstn i path)) by lia.
      destruct (off - i) as [|d] eqn:Ed; [lia|]. simpl. rewrite skipn_nil. reflexivity.
  - rewrite (step_boundary path i (hd_error rest) Hlt Hnext).
    rewrite He. destruct (boundary path (S i)) eqn:Eb.
    + rewrite map_combine_map. apply map_ext. intros s. cbn [fst snd].
      assert (Em : matches_at path off s (S i) =
                   (mem (firstn (S i) path) s || (Nat.ltb off (S i) && mem (firstn (S i - off) (skipn off path)) s)))
        by (unfold matches_at; rewrite Eb; reflexivity).
      rewrite greatest_S, Em. clear Em.
      assert (E1 : rev (this :: sv_abs st) = firstn (S i) path).
      { cbn [rev]. rewrite Ha, rev_involutive, Hfn. reflexivity. }
      rewrite E1.
      change (Nat.ltb off (S i)) with (Nat.leb off i).
      destruct (Nat.leb off i) eqn:El; [|rewrite !andb_false_l; reflexivity].
      assert (E2 : rev (this :: sv_rel st) = firstn (S i - off) (skipn off path)).
      { cbn [rev]. rewrite Hr, rev_involutive. rewrite <- skipn_firstn_comm, Hfn, skipn_app, Hlen.
        apply Nat.leb_le in El. replace (off - i) with 0 by lia. reflexivity. }
      rewrite E2. reflexivity.
    + apply map_ext. intros s.
      assert (Em : matches_at path off s (S i) = false) by (unfold matches_at; rewrite Eb; reflexivity).
      rewrite greatest_S, Em. reflexivity.
  - assert (Em : dot_at path (S i) = (is_slash this && match hd_error rest with Some c => is_dot c | None => false end)).
    { unfold dot_at. replace (S i - 1) with i by lia. rewrite Hnth, <- Hnext.
      destruct (hd_error rest); [reflexivity | rewrite andb_false_r; reflexivity]. }
    rewrite greatest_S, Em, Hd. reflexivity.
Qed.

Lemma SInv_loop path off sets : forall rest i st,
  skipn i path = rest -> i <= length path -> SInv path off sets i st ->
  SInv path off sets (length path) (sieve_loop sets off i rest st).
Proof.
  induction rest as [|this rest IH]; intros i st Hsk Hle HI; simpl.
  - assert (E : length (skipn i path) = length path - i) by apply skipn_length.
    rewrite Hsk in E. simpl in E. replace (length path) with i by lia. assumption.
  - destruct (skipn_cons_nth path i this rest Hsk) as [_ [Hsk' [_ Hlt]]].
    apply (IH (S i)); [assumption | lia |]. apply SInv_step; assumption.
Qed.

Lemma sieve_correct path off sets :
  sieve path off sets = (map (spec_end path off) sets, spec_dot path).
Proof.
  unfold sieve.
  assert (H0 : SInv path off sets 0 (mkSv [] [] (map (fun _ => None) sets) None)).
  { constructor; simpl; try reflexivity. rewrite skipn_nil. reflexivity. }
  destruct (SInv_loop path off sets path 0 _ eq_refl (Nat.le_0_l _) H0) as [_ _ He Hd].
  rewrite He, Hd. reflexivity.
Qed.

(* ---------- matching is by whole components ---------- *)

Lemma boundary_whole path k : 1 <= k <= length path -> boundary path k = true ->
  k = 1 \/ firstn k path = path \/ exists rest, path = firstn k path ++ ch_slash :: rest.
Proof.
  intros Hk Hb. unfold boundary in Hb. rewrite !orb_true_iff in Hb.
  destruct Hb as [[Hb|Hb]|Hb].
  - left. apply Nat.eqb_eq. assumption.
  - right; left. apply Nat.eqb_eq in Hb. subst. apply firstn_all.
  - right; right. destruct (nth_error path k) as [c|] eqn:E; [|discriminate].
    apply Ascii.eqb_eq in Hb. subst c.
    exists (skipn (S k) path).
    rewrite <- (firstn_skipn k path) at 1. f_equal.
    destruct (skipn k path) as [|x r] eqn:Es.
    + assert (length (skipn k path) = length path - k) by apply skipn_length.
      rewrite Es in H. simpl in H. apply nth_error_Some in E || (assert (k < length path) by (apply nth_error_Some; congruence)); lia.
    + destruct (skipn_cons_nth path k x r Es) as [Hn [Hs _]]. rewrite Hs. congruence.
Qed.

(* ---------- the decision loop ---------- *)

Definition run_step (editor : bool) (st : option nat * bool) (ce : cand * option nat) : option nat * bool :=
  if ptr_gt (snd ce) (fst st) then (snd ce, outcome editor (fst ce)) else st.

Definition run_cands (editor : bool) (cs : list (cand * option nat)) (st : option nat * bool) :=
  fold_left (run_step editor) cs st.

Lemma ptr_gt_trans_lt k e far : ptr_gt (Some k) e = true -> ptr_gt (Some k) far = true ->
  ptr_gt (Some k) (if ptr_gt e far then e else far) = true.
Proof. intros H1 H2. destruct (ptr_gt e far); assumption. Qed.

Lemma run_before editor k l1 : forall st,
  (forall c' e', In (c', e') l1 -> ptr_gt (Some k) e' = true) ->
  ptr_gt (Some k) (fst st) = true ->
  ptr_gt (Some k) (fst (run_cands editor l1 st)) = true.
Proof.
  induction l1 as [|[c e] l1 IH]; intros st Hall Hst; simpl; [assumption|].
  apply IH.
  - intros c' e' Hin. apply (Hall c' e'). right; assumption.
  - unfold run_step. simpl. destruct (ptr_gt e (fst st)) eqn:E; simpl; [|assumption].
    apply (Hall c e). left; reflexivity.
Qed.

Lemma run_after editor k b l2 :
  (forall c' e', In (c', e') l2 -> ptr_gt e' (Some k) = false) ->
  run_cands editor l2 (Some k, b) = (Some k, b).
Proof.
  induction l2 as [|[c e] l2 IH]; intros Hall; [reflexivity|].
  unfold run_cands. cbn [fold_left].
  assert (E : run_step editor (Some k, b) (c, e) = (Some k, b)).
  { unfold run_step. cbn [fst snd]. rewrite (Hall c e (or_introl eq_refl)). reflexivity. }
  rewrite E. apply IH. intros c' e' Hin. apply (Hall c' e'). right; assumption.
Qed.

Lemma run_decides editor c k cs :
  decides c k cs -> snd (run_cands editor cs (None, editor)) = outcome editor c.
Proof.
  intros [l1 [l2 [-> [H1 H2]]]]. unfold run_cands. rewrite fold_left_app. cbn [fold_left].
  pose proof (run_before editor k l1 (None, editor) H1 eq_refl) as Hb.
  unfold run_cands in Hb.
  assert (E : run_step editor (fold_left (run_step editor) l1 (None, editor)) (c, Some k) = (Some k, outcome editor c)).
  { unfold run_step at 1. cbn [fst snd]. rewrite Hb. reflexivity. }
  rewrite E. fold (run_cands editor l2 (Some k, outcome editor c)).
  rewrite run_after by assumption. reflexivity.
Qed.

Lemma run_none editor cs :
  (forall c e, In (c, e) cs -> e = None) -> run_cands editor cs (None, editor) = (None, editor).
Proof.
  induction cs as [|[c e] cs IH]; intros Hall; [reflexivity|].
  unfold run_cands. cbn [fold_left].
  assert (E : run_step editor (None, editor) (c, e) = (None, editor)).
  { rewrite (Hall c e (or_introl eq_refl)). reflexivity. }
  rewrite E. apply IH. intros c' e' Hin. apply (Hall c' e'). right; assumption.
Qed.

(* the C loop is the candidate run; project sets never change is_pushed *)
Lemma decide_run editor ec ei ee eh ep epp dot :
  d_pushed (decide editor [ec; ei; ee; eh; ep; epp] dot) =
  snd (run_cands editor (candidates ec ei ee eh dot) (None, editor)).
Proof.
  unfold decide, candidates, run_cands, kinds. simpl.
  unfold run_step, decide_step. simpl.
  destruct dot as [d|]; simpl;
  destruct (ptr_gt ec _); simpl; destruct (ptr_gt ei _); simpl;
  destruct (ptr_gt ee _); simpl; destruct (ptr_gt eh _); simpl;
  destruct (ptr_gt ep _); simpl; destruct (ptr_gt epp _); simpl; reflexivity.
Qed.

Definition rule_ends (r : rules) (cpl : nat) (path : str) : list (cand * option nat) :=
  candidates (spec_end path cpl (r_cluded r)) (spec_end path cpl (r_included r))
             (spec_end path cpl (r_excluded r)) (spec_end path cpl (r_history r)) (spec_dot path).

Lemma push_decision_run r cpl editor path :
  fst (fst (push_decision r cpl editor path)) =
  snd (run_cands editor (rule_ends r cpl path) (None, editor)).
Proof.
  unfold push_decision. rewrite sieve_correct. unfold rule_sets. cbn [map].
  cbn [fst]. apply decide_run.
Qed.

Lemma policy_decides r cpl editor path c k :
  decides c k (rule_ends r cpl path) ->
  fst (fst (push_decision r cpl editor path)) = outcome editor c.
Proof. intros H. rewrite push_decision_run. apply (run_decides editor c k). assumption. Qed.

Lemma policy_default r cpl editor path :
  (forall c e, In (c, e) (rule_ends r cpl path) -> e = None) ->
  fst (fst (push_decision r cpl editor path)) = editor.
Proof. intros H. rewrite push_decision_run. rewrite run_none by assumption. reflexivity. Qed.
