(* C13 Hostile inputs cannot corrupt memory -- the part a Gallina model carries:
   the index arithmetic of the parsers stays inside their objects.  Memory
   safety of the C itself (lifetimes, libc contracts) is witnessed by the
   AddressSanitizer / UBSan build that the check runs on hostile inputs. *)
From K Require Import Str Progs Elf Handler Linq BoundsProofs Main.

(* the backward scan for the project name: under the guard handle_timeout checks
   before using a queue entry (absolute path, stored offset within the path) it
   stops at a '/' inside the string, at an index >= 1 and <= the offset *)
Theorem C13_project_name_scan_in_bounds : forall (path : str) (fuel e : nat),
  prefixb [ch_slash] path = true -> e <= length path -> e <= fuel ->
  name_start path e fuel <= e /\
  (e > 0 -> 1 <= name_start path e fuel /\
            exists c, nth_error path (name_start path e fuel - 1) = Some c /\ is_slash c = true).
Proof. exact name_start_spec. Qed.
Print Assumptions C13_project_name_scan_in_bounds.

(* the relative path is computed with an offset that never exceeds the length *)
Theorem C13_relative_path_in_bounds : forall (path : str) (cpl : nat),
  Nat.min (length path) cpl <= length path /\
  exists pre, path = pre ++ skipn (Nat.min (length path) cpl) path.
Proof. exact rel_in_bounds. Qed.
Print Assumptions C13_relative_path_in_bounds.

(* whatever a queue link contains, decoding yields a suffix of it *)
Theorem C13_decode_in_bounds : forall (t : str), exists pre, t = pre ++ snd (decode t).
Proof. exact decode_suffix. Qed.
Print Assumptions C13_decode_in_bounds.

(* the interpreter string taken from a PT_INTERP segment is a NUL-free proper
   prefix of the buffer (so the C string ends inside it) *)
Theorem C13_interp_string_in_buffer : forall (sg : str), last_is_nul sg = true ->
  (exists rest, sg = c_string sg ++ rest) /\ length (c_string sg) < length sg /\
  Forall (fun c => (N_of_ascii c =? 0)%N = false) (c_string sg).
Proof.
  intros sg H. split; [apply c_string_prefix|]. split; [apply c_string_shorter; assumption | apply c_string_no_nul].
Qed.
Print Assumptions C13_interp_string_in_buffer.

(* every argv is either parsed or rejected: the parser is total *)
Theorem C13_params_total : forall (args : list str), exists r, parse_params args = r.
Proof. intros. eexists. reflexivity. Qed.
Print Assumptions C13_params_total.
