(* Model of src/sieve.c and of the decision loop of push_to_linq (handler.c).
   Rule sets are lists of strings (membership = is_within on the real set,
   which C15 proves exact).  No proofs here. *)
From K Require Export Str.

Definition mem (v : str) (s : list str) : bool := existsb (str_eqb v) s.

(* ---------- sieve(): character loop with two growing buffers ---------- *)

Record sieve_st := mkSv {
  sv_abs : str;                 (* absolute_path_buffer, reversed *)
  sv_rel : str;                 (* relative_path_buffer, reversed *)
  sv_ends : list (option nat);  (* ends[i] as offsets into the path (None = NULL) *)
  sv_dot : option nat           (* hiding_dot *)
}.

(* one iteration: [this] is the character at index i, [next] the one at i+1
   (None = the terminating NUL) *)
Definition sieve_step (sets : list (list str)) (off : nat) (i : nat)
           (this : ascii) (next : option ascii) (st : sieve_st) : sieve_st :=
  let abs := this :: sv_abs st in
  let in_rel := Nat.leb off i in
  let rel := if in_rel then this :: sv_rel st else sv_rel st in
  let boundary :=
    match next with None => true | Some c => is_slash c end || Nat.eqb i 0 in
  let ends :=
    if boundary then
      map (fun se : list str * option nat =>
             if mem (rev abs) (fst se) || (in_rel && mem (rev rel) (fst se))
             then Some (S i) else snd se)
          (combine sets (sv_ends st))
    else sv_ends st in
  let dot :=
    if is_slash this && match next with Some c => is_dot c | None => false end
    then Some (S i) else sv_dot st in
  mkSv abs rel ends dot.

Fixpoint sieve_loop (sets : list (list str)) (off : nat) (i : nat) (p : str) (st : sieve_st) : sieve_st :=
  match p with
  | [] => st
  | this :: p' => sieve_loop sets off (S i) p' (sieve_step sets off i this (hd_error p') st)
  end.

(* asserts: *path == '/' and relative_path_offset != 0 *)
Definition sieve (path : str) (off : nat) (sets : list (list str)) : list (option nat) * option nat :=
  let st := sieve_loop sets off 0 path (mkSv [] [] (map (fun _ => None) sets) None) in
  (sv_ends st, sv_dot st).

(* ---------- push_to_linq: the decision loop ---------- *)

(* enum status { cluded, included, excluded, history, project, project_parent } *)
Inductive kind := KCluded | KIncluded | KExcluded | KHistory | KProject | KProjectParent.
Definition kinds : list kind := [KCluded; KIncluded; KExcluded; KHistory; KProject; KProjectParent].

(* pointer comparison a > b with NULL smallest *)
Definition ptr_gt (a b : option nat) : bool :=
  match a, b with
  | Some x, Some y => Nat.ltb y x
  | Some _, None => true
  | None, _ => false
  end.

Record decision := mkDec {
  d_far : option nat;
  d_pushed : bool;
  d_history : bool
}.

Definition decide_step (editor : bool) (d : decision) (ke : kind * option nat) : decision :=
  let '(k, e) := ke in
  if ptr_gt e (d_far d) then
    mkDec e
          (match k with
           | KCluded => editor
           | KIncluded | KHistory => true
           | KExcluded => false
           | _ => d_pushed d
           end)
          (match k with KHistory => true | _ => false end)
  else d.

Definition decide (editor : bool) (ends : list (option nat)) (dot : option nat) : decision :=
  fold_left (decide_step editor) (combine kinds ends)
            (mkDec dot (negb (match dot with Some _ => true | None => false end) && editor) false).

(* project_root_end *)
Definition nth_char (p : str) (i : nat) : option ascii := nth_error p i.

Definition project_root_end (path : str) (ends : list (option nat)) : option nat :=
  let ep := nth 4 ends None in
  let epp := nth 5 ends None in
  let nonnul (e : option nat) :=
    match e with Some k => match nth_char path k with Some _ => true | None => false end | None => false end in
  if ptr_gt epp ep && nonnul epp then
    match epp with
    | Some k => match index_from is_slash (skipn (S k) path) (S k) with Some j => Some j | None => None end
    | None => None
    end
  else if nonnul ep then ep else None.

Record rules := mkRules {
  r_cluded : list str; r_included : list str; r_excluded : list str;
  r_history : list str; r_project : list str; r_project_parent : list str
}.

Definition rule_sets (r : rules) : list (list str) :=
  [r_cluded r; r_included r; r_excluded r; r_history r; r_project r; r_project_parent r].

(* what push_to_linq computes: queued or not, and the metadata *)
Definition push_decision (r : rules) (cpl : nat) (editor : bool) (path : str)
  : bool * bool * option nat :=
  let '(ends, dot) := sieve path cpl (rule_sets r) in
  let d := decide editor ends dot in
  (d_pushed d, d_history d, project_root_end path ends).

Definition linq_meta (is_history : bool) (pre : option nat) : N :=
  N.lor (if is_history then 2%N else 0%N)
        (match pre with Some k => N.shiftl (N.of_nat k) 2 | None => 0%N end).
