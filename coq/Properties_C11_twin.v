(* C11 for MORE THAN ONE project (TwinProjects.v): klunok names a project's unstable
   tree and its snapshot directories by the LAST component of its root only.
   same_name_iff_shared: two projects share the unstable tree IFF their roots end in
   the same component.  Open finding K6, machine-checked:
   C11_snapshot_prunes_foreign_members - the snapshot walk of P removes from the
   shared tree every entry of a same-named P' that P does not have (and neither
   snapshot gets it); the witnesses TwinProjects.twin_projects_prune /
   twin_projects_snapshot_lacks_member show the consequence on a concrete history
   (x/proj and y/proj; also children of two project parents): the next snapshot of
   x/proj lacks a.c, which was versioned as part of it and still exists.
   What the finding delimits, C11_distinct_names_independent: when the last
   components differ, a snapshot of P leaves P' 's unstable tree and all its
   snapshots untouched (the only per-pair hypothesis is basename P <> basename P'). *)
From K Require Import Str Dec Trace Fs World Progs Sieve Handler Linq LinqSpec LinqProofs
     SyncProofs AbandonProofs StoreFs QueueProofs SnapshotProofs TwinProjects.

Theorem C11_same_name_iff_shared : forall (h : handler) (P P' : str),
  unstable_of h P = unstable_of h P' <-> basename P = basename P'.
Proof. exact same_name_iff_shared. Qed.
Print Assumptions C11_same_name_iff_shared.

Theorem C11_snapshot_prunes_foreign_members :
  forall o w rv h P P' meta t rest k fuel r,
  project_head_due o w h P meta t rest k ->
  basename P' = basename P ->
  lookup (w_fs w) (P ++ ch_slash :: r) = None ->
  exists w',
    handle_timeout_loop (S fuel) rv h o w =
      handle_timeout_loop fuel rv (set_q (popped P (h_q h)) h) o w' /\
    lookup (w_fs w') (unstable_of h P' ++ ch_slash :: r) = None /\
    lookup (w_fs w') (snap_dir h P (w_clock w) k ++ ch_slash :: r) = None /\
    lookup (w_fs w') (snap_dir h P' (w_clock w) k ++ ch_slash :: r) = None /\
    (forall x, ~ within (q_dir (h_q h)) x -> ~ within (unstable_of h P) x ->
               ~ within (snap_home h P) x -> ~ under x (snap_home h P) ->
               lookup (w_fs w') x = lookup (w_fs w) x).
Proof. exact snapshot_prunes_foreign_members. Qed.
Print Assumptions C11_snapshot_prunes_foreign_members.

Theorem C11_distinct_names_independent :
  forall o w rv h P P' meta t rest k fuel,
  project_head_due o w h P meta t rest k ->
  basename P <> basename P' ->
  nn (c_unstable_root (h_cfg h)) (c_project_store_root (h_cfg h)) ->
  nn (q_dir (h_q h)) (c_unstable_root (h_cfg h)) ->
  nn (q_dir (h_q h)) (c_project_store_root (h_cfg h)) ->
  exists w',
    handle_timeout_loop (S fuel) rv h o w =
      handle_timeout_loop fuel rv (set_q (popped P (h_q h)) h) o w' /\
    (forall x, within (unstable_of h P') x \/ within (snap_home h P') x ->
               lookup (w_fs w') x = lookup (w_fs w) x) /\
    (forall i, get_file (w_fs w') i = get_file (w_fs w) i \/
               exists jn, h_journal h = Some jn /\ i = j_ino jn) /\
    QRel (popped P (h_q h)) (w_fs w') rest /\ keys_nodup (w_fs w') /\ parents_exist (w_fs w') /\
    tr_keep (w_tr w) (w_tr w') /\ w_clock w' = w_clock w.
Proof. exact distinct_names_independent. Qed.
Print Assumptions C11_distinct_names_independent.

(* the finding on a concrete history, both walk orders (by evaluation) *)
Example C11_K6_prune := TwinProjects.twin_projects_prune.
Example C11_K6_snapshot_lacks_member := TwinProjects.twin_projects_snapshot_lacks_member.
Example C11_K6_children_of_parents := TwinProjects.twin_children_of_parents.
Example C11_distinct_instance := TwinProjects.independent_by_theorem.
