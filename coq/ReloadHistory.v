(* C16 over HISTORIES of handler events, and "the debounce in force" of C01/C02.

   ReloadProofs.v proves that ONE reload is all-or-nothing.  Here a history is
   a list of steps (write events, exec events, timeout passes, changes made by
   the environment); the daemon stops at the first step that leaves an error
   on the trace (main.c exits).  The specification [cfg_in_force] folds the
   history: a write of the configuration file with a well-formed content
   installs that content, every other step keeps the configuration.

   Part 1 (EVERY oracle): handler-level invariants of each event handler.
   Part 2 (EVERY oracle): history_config, history_config_stopped,
           rejected_reload_changes_nothing (malformed / journal cannot be opened).
   Part 3 (benign oracles): events_governed_by_config_in_force: the next write
           is decided by the rules in force and goes to the queue directory in
           force; the next pass uses the debounce in force.
   Part 4 the queue across a reload: kept when queue_path is kept
           (config_write_keeps_queue); caveat K3 otherwise (the handler works
           on what load_linq found at the new path; the old entries stay behind).
   ReloadHistoryExample: concrete runs. *)
From K Require Import Str Dec Trace Fs World Progs Elf Sieve SieveSpec Handler Linq LinqSpec LinqProofs Hoare Confine Confine2
     SyncProofs AbandonProofs JournalProofs QueueProofs StoreFs StoreLogic StoreProofs FdProofs PassProofs
     JournalHistoryProofs AcceptProofs ReloadProofs.
From Coq Require Import Lia.
Arguments N.add : simpl never.
Arguments N.sub : simpl never.
Arguments N.mul : simpl never.
Arguments N.of_nat : simpl never.
Arguments N.eqb : simpl never.
Arguments N.leb : simpl never.

(* ====================================================================== *)
(* Part 1. What a RETURNED value says, whatever the oracle and the world   *)
(* ====================================================================== *)

(* [rv R m]: every run of m that returns, returns a value in R *)
Definition rv {A} (R : A -> Prop) (m : M A) : Prop :=
  forall (o : oracle) (w : world) (a : A) (w' : world), m o w = (Some a, w') -> R a.

Lemma rv_ret {A} (R : A -> Prop) (a : A) : R a -> rv R (ret_ a).
Proof. intros H o w b w' E. unfold ret_ in E. injection E as <- _. exact H. Qed.

Lemma rv_bind {A B} (R1 : A -> Prop) (R : B -> Prop) (m : M A) (k : A -> M B) :
  rv R1 m -> (forall a, R1 a -> rv R (k a)) -> rv R (bind m k).
Proof.
  intros Hm Hk o w b w' E. apply ReloadProofs.bind_some in E. destruct E as (a & w1 & E1 & E2).
  exact (Hk a (Hm _ _ _ _ E1) _ _ _ _ E2).
Qed.

Lemma rv_skip {A B} (R : B -> Prop) (m : M A) (k : A -> M B) :
  (forall a, rv R (k a)) -> rv R (bind m k).
Proof. intros Hk. apply (rv_bind (fun _ => True)); [intros o w a w' _; exact I | intros a _; apply Hk]. Qed.

Lemma rv_weaken {A} (R R' : A -> Prop) (m : M A) : rv R m -> (forall a, R a -> R' a) -> rv R' m.
Proof. intros H Hw o w a w' E. apply Hw. exact (H _ _ _ _ E). Qed.

Lemma rv_when_ok {A} (R : A -> Prop) (d : A) (m : M A) : R d -> rv R m -> rv R (when_ok d m).
Proof.
  intros Hd Hm. unfold when_ok. apply rv_skip. intros b. destruct b; [exact Hm | apply rv_ret; exact Hd].
Qed.

(* ---------- the queue: directory, debounce and buffer guess never move ---------- *)

Definition qkeep (q q' : qmem) : Prop :=
  q_dir q' = q_dir q /\ q_deb q' = q_deb q /\ q_len_guess q' = q_len_guess q.

Lemma qkeep_refl q : qkeep q q.
Proof. repeat split. Qed.
Lemma qkeep_trans a b c : qkeep a b -> qkeep b c -> qkeep a c.
Proof. unfold qkeep. intros (A1 & A2 & A3) (B1 & B2 & B3). repeat split; congruence. Qed.

Lemma rv_q_push path meta q : rv (qkeep q) (q_push path meta q).
Proof.
  unfold q_push. apply rv_when_ok; [apply qkeep_refl|].
  apply rv_skip. intros r. destruct r as [e|].
  - apply rv_skip. intros _. apply rv_ret. apply qkeep_refl.
  - apply rv_ret. repeat split.
Qed.

Lemma rv_q_pop_head q : rv (qkeep q) (q_pop_head q).
Proof.
  unfold q_pop_head. apply rv_when_ok; [apply qkeep_refl|].
  apply rv_skip. intros t. apply rv_skip. intros b.
  destruct (negb b); [apply rv_ret; apply qkeep_refl|].
  apply rv_skip. intros r. destruct r as [e|].
  - apply rv_skip. intros _. apply rv_ret. apply qkeep_refl.
  - apply rv_ret. repeat split.
Qed.

Lemma rv_q_get_head fuel : forall q, rv (fun r => qkeep q (snd r)) (q_get_head fuel q).
Proof.
  induction fuel as [|fuel IH]; intros q; cbn [q_get_head].
  - apply rv_skip. intros b. destruct (negb b); [apply rv_ret; apply qkeep_refl|].
    destruct (q_size q =? 0)%N; [apply rv_ret; apply qkeep_refl|].
    apply rv_skip. intros st. destruct st as [mtime|e].
    + apply rv_skip. intros now.
      destruct (now - mtime <? q_deb q)%Z; [apply rv_ret; apply qkeep_refl|].
      apply rv_skip. intros t. apply rv_skip. intros b2.
      destruct t as [target|]; [|apply rv_ret; apply qkeep_refl].
      destruct b2; [|apply rv_ret; apply qkeep_refl].
      destruct (decode target) as [meta path].
      destruct (Nat.ltb 1 (bag_count path (q_bag q))); apply rv_ret; apply qkeep_refl.
    + apply rv_skip. intros _. apply rv_ret. apply qkeep_refl.
  - apply rv_skip. intros b. destruct (negb b); [apply rv_ret; apply qkeep_refl|].
    destruct (q_size q =? 0)%N; [apply rv_ret; apply qkeep_refl|].
    apply rv_skip. intros st. destruct st as [mtime|e].
    + apply rv_skip. intros now.
      destruct (now - mtime <? q_deb q)%Z; [apply rv_ret; apply qkeep_refl|].
      apply rv_skip. intros t. apply rv_skip. intros b2.
      destruct t as [target|]; [|apply rv_ret; apply qkeep_refl].
      destruct b2; [|apply rv_ret; apply qkeep_refl].
      destruct (decode target) as [meta path].
      destruct (Nat.ltb 1 (bag_count path (q_bag q))); [|apply rv_ret; apply qkeep_refl].
      eapply rv_bind; [apply rv_q_pop_head|]. intros q' Hq'.
      eapply rv_weaken; [apply IH|]. intros r Hr. cbn beta in Hr. exact (qkeep_trans _ _ _ Hq' Hr).
    + apply rv_skip. intros _. apply rv_ret. apply qkeep_refl.
Qed.

(* ---------- the handler: what every step but a successful reload keeps ---------- *)

Definition same_cfg (h h' : handler) : Prop :=
  h_cfg h' = h_cfg h /\ h_cfg_path h' = h_cfg_path h /\ h_cpl h' = h_cpl h /\
  h_journal h' = h_journal h /\ qkeep (h_q h) (h_q h').

Lemma same_cfg_refl h : same_cfg h h.
Proof. repeat split. Qed.
Lemma same_cfg_trans a b c : same_cfg a b -> same_cfg b c -> same_cfg a c.
Proof.
  intros (A1 & A2 & A3 & A4 & A5) (B1 & B2 & B3 & B4 & B5).
  repeat split; try congruence; destruct A5 as (X1 & X2 & X3), B5 as (Y1 & Y2 & Y3); congruence.
Qed.
Lemma same_cfg_set_q h q : qkeep (h_q h) q -> same_cfg h (set_q q h).
Proof. intros H. repeat split; apply H. Qed.

Lemma rv_push_to_linq pid path h : rv (fun r => same_cfg h (snd r)) (push_to_linq pid path h).
Proof.
  unfold push_to_linq. apply rv_when_ok; [apply same_cfg_refl|].
  destruct (push_decision _ _ _ _) as [[pushed is_hist] pre].
  destruct (negb pushed); [apply rv_ret; apply same_cfg_refl|].
  apply rv_skip. intros _.
  eapply rv_bind; [apply rv_q_push|]. intros q1 Hq1.
  apply rv_skip. intros _. apply rv_skip. intros _.
  destruct pre as [k|].
  - apply rv_skip. intros _.
    eapply rv_bind; [apply rv_q_push|]. intros q2 Hq2.
    apply rv_skip. intros _. apply rv_skip. intros _.
    apply rv_ret. cbn [snd]. apply same_cfg_set_q. exact (qkeep_trans _ _ _ Hq1 Hq2).
  - apply rv_ret. cbn [snd]. apply same_cfg_set_q. exact Hq1.
Qed.

Lemma rv_handle_open_exec pid path h :
  rv (fun h' => same_cfg h h' /\ h_q h' = h_q h) (handle_open_exec pid path h).
Proof.
  unfold handle_open_exec. apply rv_when_ok; [split; [apply same_cfg_refl|reflexivity]|].
  apply rv_skip. intros f.
  eapply rv_bind with (R1 := fun r : handler * option str => same_cfg h (fst r) /\ h_q (fst r) = h_q h).
  - destruct (mem (basename path) (c_editors (h_cfg h))).
    + apply rv_skip. intros interp. apply rv_skip. intros b. apply rv_ret.
      cbn [fst]. split; [|reflexivity]. repeat split.
    + destruct (pid_mem pid (h_pids h)).
      * apply rv_skip. intros b. destruct (b && negb (mem path (h_interps h))); apply rv_ret; cbn [fst].
        -- split; [|reflexivity]. repeat split.
        -- split; [apply same_cfg_refl|reflexivity].
      * apply rv_ret. cbn [fst]. split; [apply same_cfg_refl|reflexivity].
  - intros r Hr. apply rv_skip. intros _. apply rv_ret. exact Hr.
Qed.

Lemma rv_handle_timeout_loop fuel : forall rev h,
  rv (fun r => same_cfg h (snd r)) (handle_timeout_loop fuel rev h).
Proof.
  induction fuel as [|fuel IH]; intros rev h; cbn [handle_timeout_loop];
    [apply rv_ret; apply same_cfg_refl|].
  apply rv_skip. intros b. destruct (negb b); [apply rv_ret; apply same_cfg_refl|].
  apply rv_skip. intros _.
  eapply rv_bind; [apply rv_q_get_head|]. intros r Hr.
  apply rv_skip. intros _.
  destruct r as [hd q1]. cbn [snd] in Hr.
  pose proof (same_cfg_set_q h q1 Hr) as Hh1.
  set (h1 := set_q q1 h) in *.
  apply rv_skip. intros b1.
  destruct b1; [|apply rv_ret; exact Hh1].
  destruct hd as [[z|path meta]|]; [apply rv_ret; exact Hh1| |apply rv_ret; exact Hh1].
  apply rv_skip. intros v. apply rv_skip. intros bv. apply rv_skip. intros _. apply rv_skip. intros b2.
  destruct v as [version|]; [|apply rv_ret; exact Hh1].
  destruct b2; [|apply rv_ret; exact Hh1].
  lazymatch goal with |- rv _ (if ?x then _ else _) => destruct x end.
  { apply rv_skip. intros _. apply rv_skip. intros _. apply rv_ret. exact Hh1. }
  destruct (N.odd meta).
  - apply rv_skip. intros f. apply rv_skip. intros ev. apply rv_skip. intros _.
    eapply rv_bind; [apply rv_q_pop_head|]. intros q2 Hq2.
    eapply rv_weaken; [apply IH|]. intros r Hr2. cbn beta in Hr2.
    refine (same_cfg_trans _ _ _ Hh1 (same_cfg_trans _ _ _ _ Hr2)).
    apply same_cfg_set_q. exact Hq2.
  - apply rv_skip. intros off. apply rv_skip. intros b3.
    destruct (negb b3); [apply rv_ret; exact Hh1|].
    apply rv_skip. intros f. apply rv_skip. intros r2. destruct r2 as [[ev is_stored] sp'].
    eapply rv_bind; [apply rv_q_pop_head|]. intros q2 Hq2.
    assert (Hh2 : same_cfg h (set_q q2 h1)).
    { refine (same_cfg_trans _ _ _ Hh1 _). apply same_cfg_set_q. exact Hq2. }
    apply rv_skip. intros b4.
    destruct (negb b4).
    { apply rv_skip. intros _. apply rv_skip. intros _. apply rv_ret. exact Hh2. }
    apply rv_skip. intros _. apply rv_skip. intros _.
    eapply rv_weaken; [apply IH|]. intros r Hr2. cbn beta in Hr2.
    exact (same_cfg_trans _ _ _ Hh2 Hr2).
Qed.

Lemma rv_handle_timeout rev h : rv (fun r => same_cfg h (snd r)) (handle_timeout rev h).
Proof.
  unfold handle_timeout. eapply rv_bind; [apply rv_handle_timeout_loop|]. intros r Hr.
  apply rv_skip. intros b. apply rv_ret. destruct b; exact Hr.
Qed.

(* a write that is not a write of the configuration file *)
Lemma rv_close_write_other pid path nc h :
  h_cfg_path h <> Some path ->
  rv (same_cfg h) (handle_close_write pid path nc h).
Proof.
  intros Hcp. unfold handle_close_write. apply rv_when_ok; [apply same_cfg_refl|].
  eapply rv_bind; [apply rv_push_to_linq|]. intros r Hr. destruct r as [pushed h1]. cbn [snd] in Hr.
  apply rv_skip. intros _. apply rv_skip. intros b.
  destruct b; [|apply rv_ret; exact Hr].
  assert (E : h_cfg_path h1 = h_cfg_path h) by apply Hr.
  rewrite E. destruct (h_cfg_path h) as [cp|]; [|apply rv_ret; exact Hr].
  destruct (str_eqb_spec path cp) as [->|_]; [congruence|apply rv_ret; exact Hr].
Qed.

(* ====================================================================== *)
(* Part 2. Histories                                                      *)
(* ====================================================================== *)

(* ---------- the handler agrees with its configuration ---------- *)

(* the journal handle is the one opened for the journal path of [c]: held iff
   a journal is configured, and it stamps lines with the pattern of [c] *)
Definition journal_of (c : config) (j : option journal) : Prop :=
  (j = None <-> c_journal_path c = None) /\
  (forall jn, j = Some jn -> j_pattern jn = c_journal_pattern c).

Definition coherent (h : handler) : Prop :=
  q_deb (h_q h) = c_debounce (h_cfg h) /\
  q_dir (h_q h) = c_queue_path (h_cfg h) /\
  journal_of (h_cfg h) (h_journal h).

Lemma coherent_same_cfg h h' : same_cfg h h' -> coherent h -> coherent h'.
Proof.
  intros (E1 & E2 & E3 & E4 & E5 & E6 & E7) (C1 & C2 & C3). unfold coherent.
  rewrite E1, E4, E5, E6. auto.
Qed.

(* trace-only steps between two worlds *)
Lemma ctx_step_some (p : option str) o w a w1 :
  (match p with Some x => rethrow_context x | None => ret_ tt end) o w = (Some a, w1) ->
  same_but_trace w w1 /\ okw w1 = okw w.
Proof.
  destruct p as [x|]; [apply rethrow_context_some|].
  intros E. apply ret_some in E. destruct E as [-> _]. split; [apply sbt_refl|reflexivity].
Qed.

(* the handler built at start-up is coherent (every oracle) *)
Theorem load_handler_coherent (o : oracle) w cfg cp cpl h w' :
  load_handler cfg cp cpl o w = (Some (Some h), w') ->
  h_cfg h = cfg /\ h_cfg_path h = cp /\ h_cpl h = cpl /\ h_pids h = [] /\ coherent h /\ okw w' = true.
Proof.
  intros H. unfold load_handler in H.
  binv H as u0 w0 E0.
  binv H as q wl El. apply load_linq_some in El.
  binv H as u1 w1 E1. binv H as u2 w2 E2.
  binv H as u3 w3 E3. apply try_some in E3. destruct E3 as [_ K3].
  binv H as j wo Eo.
  binv H as u4 w4 E4. apply ctx_step_some in E4. destruct E4 as [_ K4].
  binv H as u5 w5 E5. apply finally_rethrow_static_some in E5. destruct E5 as [_ K5].
  binv H as b w6 E6. apply is_ok_some in E6. destruct E6 as [-> ->].
  destruct (okw w5) eqn:K; [destruct q as [qm|]|].
  - apply ret_some in H. destruct H as [-> Hh]. injection Hh as ->.
    cbn [h_cfg h_cfg_path h_cpl h_pids]. repeat (split; [reflexivity|]). split; [|exact K].
    assert (Ko : okw wo = true) by congruence.
    destruct (open_journal_some _ _ _ _ _ _ Eo Ko) as [J1 J2].
    destruct El as (_ & Hd & Hdeb & _).
    unfold coherent, journal_of. cbn [h_q h_cfg h_journal]. auto.
  - exfalso. binv H as u7 w7 E7. binv H as u8 w8 E8. apply ret_some in H. destruct H as [_ H]. discriminate.
  - exfalso. binv H as u7 w7 E7. binv H as u8 w8 E8. apply ret_some in H. destruct H as [_ H]. discriminate.
Qed.
Print Assumptions load_handler_coherent.

(* ---------- steps, runs, the specification ---------- *)

Inductive step :=
| HWrite (pid : N) (path : str) (nc : option config)   (* close-after-write of [path]; [nc]: what the
                                                          configuration file parses to at that moment *)
| HExec (pid : N) (path : str)                         (* open-for-exec *)
| HPass (rev : bool)                                   (* the timeout pass *)
| HEnv (w2 : world).                                   (* the environment (editors, time) replaces the world *)

Definition step_run (st : step) (h : handler) : M handler :=
  match st with
  | HWrite pid path nc => handle_close_write pid path nc h
  | HExec pid path => handle_open_exec pid path h
  | HPass rev => do r <- handle_timeout rev h; ret_ (snd r)
  | HEnv w2 => fun _ _ => (Some h, w2)
  end.

(* The event loop: main.c leaves the loop (and exits) as soon as an error is on
   the trace, so a step is only taken from an error-free world; a crash
   (None) ends the run. *)
Fixpoint run (o : oracle) (s : list step) (h : handler) (w : world) : option handler * world :=
  match s with
  | [] => (Some h, w)
  | st :: s' =>
      if okw w then
        match step_run st h o w with
        | (Some h1, w1) => run o s' h1 w1
        | (None, w1) => (None, w1)
        end
      else (Some h, w)
  end.

(* SPEC.  [cp] is the path of the configuration file the daemon was started
   with (it never changes).  A write of that file with a well-formed content
   installs the content; every other step keeps the configuration.  (A
   well-formed content that cannot be put in force -- queue or journal cannot be
   opened -- and a malformed content end the run with an error: see
   history_config_stopped, rejected_reload_changes_nothing.) *)
Definition next_cfg (cp : option str) (c : config) (st : step) : config :=
  match st, cp with
  | HWrite _ path (Some n), Some p => if str_eqb path p then n else c
  | _, _ => c
  end.

Fixpoint cfg_in_force (cp : option str) (c : config) (s : list step) : config :=
  match s with
  | [] => c
  | st :: s' => cfg_in_force cp (next_cfg cp c st) s'
  end.

Lemma cfg_in_force_app cp s1 : forall c s2,
  cfg_in_force cp c (s1 ++ s2) = cfg_in_force cp (cfg_in_force cp c s1) s2.
Proof. induction s1 as [|st s1 IH]; intros c s2; cbn [app cfg_in_force]; [reflexivity|apply IH]. Qed.

Lemma run_not_ok o s h w : okw w = false -> run o s h w = (Some h, w).
Proof. intros K. destruct s; cbn [run]; [reflexivity|]. rewrite K. reflexivity. Qed.

Lemma run_app o s1 : forall s2 h w,
  run o (s1 ++ s2) h w =
  match run o s1 h w with
  | (Some h1, w1) => run o s2 h1 w1
  | (None, w1) => (None, w1)
  end.
Proof.
  induction s1 as [|st s1 IH]; intros s2 h w; cbn [app run]; [reflexivity|].
  destruct (okw w) eqn:K.
  - destruct (step_run st h o w) as [[h1|] w1]; [apply IH|reflexivity].
  - symmetry. apply run_not_ok. exact K.
Qed.

(* ---------- one step ---------- *)

Lemma grown_q_keep k q q' : grown_q k q q' -> qkeep q q'.
Proof. intros (A1 & _ & A3 & A4 & _). repeat split; assumption. Qed.

(* a successful reload leaves a coherent handler *)
Lemma reload_applied_coherent o w h n h' w' :
  coherent h -> reload_applied o w h n h' w' -> coherent h' /\ h_cfg h' = n.
Proof.
  intros (C1 & C2 & C3) Happ.
  pose proof (reload_applied_queue _ _ _ _ _ _ Happ) as (Q1 & Q2 & _).
  destruct Happ as (Ecfg & _ & _ & _ & _ & w1 & w2 & w3 & w4 & _ & _ & _ & _ & _ & Eo & Ko & Hjn & _).
  split; [|exact Ecfg]. unfold coherent. rewrite Ecfg. split; [exact Q1|]. split.
  - rewrite Q2. destruct (str_eqb_spec (c_queue_path (h_cfg h)) (c_queue_path n)) as [E|_]; [congruence|reflexivity].
  - split; [exact Hjn|]. destruct (open_journal_some _ _ _ _ _ _ Eo Ko) as [_ J2]. exact J2.
Qed.

(* what one step does to the configuration, whatever the oracle *)
Theorem step_config (o : oracle) w st h h' w' :
  step_run st h o w = (Some h', w') -> coherent h ->
  h_cfg_path h' = h_cfg_path h /\ h_cpl h' = h_cpl h /\ coherent h' /\
  (okw w' = true -> h_cfg h' = next_cfg (h_cfg_path h) (h_cfg h) st) /\
  (okw w' = false -> same_cfg h h').
Proof.
  intros H Hc.
  assert (Hsame : same_cfg h h' -> next_cfg (h_cfg_path h) (h_cfg h) st = h_cfg h ->
                  h_cfg_path h' = h_cfg_path h /\ h_cpl h' = h_cpl h /\ coherent h' /\
                  (okw w' = true -> h_cfg h' = next_cfg (h_cfg_path h) (h_cfg h) st) /\
                  (okw w' = false -> same_cfg h h')).
  { intros S E. pose proof S as (S1 & S2 & S3 & _).
    split; [exact S2|]. split; [exact S3|]. split; [exact (coherent_same_cfg _ _ S Hc)|].
    split; [intros _; congruence | intros _; exact S]. }
  destruct st as [pid path nc|pid path|rev|w2]; cbn [step_run] in H.
  - (* write *)
    destruct (h_cfg_path h) as [cp|] eqn:Ecp.
    2:{ apply Hsame.
        - apply (rv_close_write_other pid path nc h) in H; [exact H|congruence].
        - cbn [next_cfg]. destruct nc; reflexivity. }
    destruct (str_eqb_spec path cp) as [->|Hne].
    2:{ apply Hsame.
        - apply (rv_close_write_other pid path nc h) in H; [exact H|congruence].
        - cbn [next_cfg]. destruct nc; [|reflexivity].
          destruct (str_eqb_spec path cp); [contradiction|reflexivity]. }
    destruct (handle_close_write_all_or_nothing _ _ _ _ _ _ _ _ Ecp H)
      as (h1 & w1 & Eh1 & Hg & [(Kw' & _ & _ & _ & n & -> & Happ)|(Kw' & ->)]).
    + assert (S1 : same_cfg h h1).
      { rewrite Eh1. apply same_cfg_set_q. apply (grown_q_keep _ _ _ Hg). }
      destruct (reload_applied_coherent _ _ _ _ _ _ (coherent_same_cfg _ _ S1 Hc) Happ) as [Hc' En].
      destruct Happ as (_ & P2 & P3 & _).
      destruct S1 as (_ & S2 & S3 & _).
      split; [congruence|]. split; [congruence|]. split; [exact Hc'|].
      split; [|congruence]. intros _. cbn [next_cfg]. rewrite str_eqb_refl. exact En.
    + assert (S1 : same_cfg h h1).
      { rewrite Eh1. apply same_cfg_set_q. apply (grown_q_keep _ _ _ Hg). }
      pose proof S1 as (_ & S2 & S3 & _).
      split; [congruence|]. split; [exact S3|]. split; [exact (coherent_same_cfg _ _ S1 Hc)|].
      split; [congruence|]. intros _. exact S1.
  - (* exec *)
    apply Hsame; [|destruct (h_cfg_path h); reflexivity].
    apply (rv_handle_open_exec pid path h) in H. apply H.
  - (* pass *)
    apply Hsame; [|destruct (h_cfg_path h); reflexivity].
    binv H as r w1 E. apply ret_some in H. destruct H as [_ ->].
    exact (rv_handle_timeout rev h _ _ _ _ E).
  - (* environment *)
    injection H as <- <-. apply Hsame; [apply same_cfg_refl|destruct (h_cfg_path h); reflexivity].
Qed.
Print Assumptions step_config.

(* ---------- (1) history_config ---------- *)

(* After a history that ran without an error -- under EVERY oracle: failing
   calls and short transfers that the daemon survived are included -- the
   configuration record of the handler is the configuration in force according
   to the specification, and the handler agrees with it: the queue's debounce
   interval is c_debounce of it (redebounce), the queue directory is its
   queue_path, the journal handle is the one opened for its journal path, with
   its stamp pattern.  The configuration path and the common-parent length
   never change. *)
Theorem history_config (o : oracle) : forall s h0 w0 h w',
  coherent h0 ->
  run o s h0 w0 = (Some h, w') -> okw w' = true ->
  let c := cfg_in_force (h_cfg_path h0) (h_cfg h0) s in
  h_cfg h = c /\
  q_deb (h_q h) = c_debounce c /\
  q_dir (h_q h) = c_queue_path c /\
  journal_of c (h_journal h) /\
  h_cfg_path h = h_cfg_path h0 /\ h_cpl h = h_cpl h0.
Proof.
  induction s as [|st s IH]; intros h0 w0 h w' Hc H Kw'; cbv zeta.
  - cbn [run] in H. injection H as <- <-. cbn [cfg_in_force].
    destruct Hc as (C1 & C2 & C3). auto 10.
  - cbn [run] in H. destruct (okw w0) eqn:K0.
    2:{ injection H as <- <-. congruence. }
    destruct (step_run st h0 o w0) as [[h1|] w1] eqn:E1; [|discriminate].
    destruct (step_config _ _ _ _ _ _ E1 Hc) as (P1 & P2 & Hc1 & Pok & _).
    destruct (okw w1) eqn:K1.
    2:{ rewrite run_not_ok in H by exact K1. injection H as <- <-. congruence. }
    specialize (IH h1 w1 h w' Hc1 H Kw'). cbv zeta in IH.
    cbn [cfg_in_force]. rewrite P1, (Pok eq_refl), P2 in IH. exact IH.
Qed.
Print Assumptions history_config.

(* The same when the run was stopped by an error: the history splits into the
   steps that ran without error, the step [st] that left the error, and the
   steps never taken; the erring step applied NOTHING of a new configuration
   (same configuration record, journal, queue directory, debounce as before
   it), so the handler still carries the configuration in force after [s1]. *)
Theorem history_config_stopped (o : oracle) : forall s h0 w0 h w',
  coherent h0 -> okw w0 = true ->
  run o s h0 w0 = (Some h, w') -> okw w' = false ->
  exists s1 st s2 h1 w1,
    s = s1 ++ st :: s2 /\
    run o s1 h0 w0 = (Some h1, w1) /\ okw w1 = true /\
    step_run st h1 o w1 = (Some h, w') /\
    h_cfg h1 = cfg_in_force (h_cfg_path h0) (h_cfg h0) s1 /\
    same_cfg h1 h /\ coherent h.
Proof.
  induction s as [|st s IH]; intros h0 w0 h w' Hc K0 H Kw'.
  - cbn [run] in H. injection H as <- <-. congruence.
  - cbn [run] in H. rewrite K0 in H.
    destruct (step_run st h0 o w0) as [[h1|] w1] eqn:E1; [|discriminate].
    destruct (step_config _ _ _ _ _ _ E1 Hc) as (P1 & P2 & Hc1 & Pok & Pbad).
    destruct (okw w1) eqn:K1.
    + destruct (IH h1 w1 h w' Hc1 K1 H Kw') as (s1 & st' & s2 & h2 & w2 & -> & R1 & K2 & E2 & Ecfg & S2 & Hc2).
      exists (st :: s1), st', s2, h2, w2. split; [reflexivity|].
      split; [cbn [run]; rewrite K0, E1; exact R1|]. split; [exact K2|]. split; [exact E2|].
      split; [|split; assumption]. cbn [cfg_in_force]. rewrite Ecfg, P1, (Pok eq_refl). reflexivity.
    + rewrite run_not_ok in H by exact K1. injection H as <- <-.
      exists [], st, s, h0, w0. split; [reflexivity|]. split; [reflexivity|]. split; [exact K0|].
      split; [exact E1|]. split; [reflexivity|]. split; [exact (Pbad eq_refl)|exact Hc1].
Qed.
Print Assumptions history_config_stopped.

(* ---------- (2) a rejected reload changes nothing ---------- *)

(* [h'] is [h] up to the queue counters moved by the push of the write itself *)
Definition only_pushed (h h' : handler) : Prop :=
  h' = set_q (h_q h') h /\ grown_q 2 (h_q h) (h_q h').

Lemma only_pushed_same_cfg h h' : only_pushed h h' -> same_cfg h h'.
Proof. intros [E G]. rewrite E. apply same_cfg_set_q. exact (grown_q_keep _ _ _ G). Qed.

(* the rewritten file is malformed: EVERY oracle *)
Theorem rejected_malformed (o : oracle) w pid path h h' w' :
  h_cfg_path h = Some path ->
  handle_close_write pid path None h o w = (Some h', w') ->
  okw w' = false /\ only_pushed h h'.
Proof.
  intros Ecp H.
  destruct (handle_close_write_all_or_nothing _ _ _ _ _ _ _ _ Ecp H)
    as (h1 & w1 & Eh1 & Hg & [(_ & _ & _ & _ & n & En & _)|(Kw' & ->)]); [discriminate|].
  split; [exact Kw'|]. split; assumption.
Qed.
Print Assumptions rejected_malformed.

(* a returned run of a program that keeps a predicate on the file system *)
Lemma tri_some {A} (P : fs -> Prop) (R : A -> Prop) (m : M A) o w a w' :
  tri P R m -> P (w_fs w) -> m o w = (Some a, w') -> P (w_fs w') /\ R a.
Proof. intros T Hp E. specialize (T o w I Hp). rewrite E in T. exact T. Qed.

(* the journal path of the new configuration is a directory: open(2) of the
   journal fails (EISDIR, or whatever the oracle says), whatever happens before *)
Lemma open_journal_dir_fails (o : oracle) w jp pat j w' :
  open_journal (Some jp) pat o w = (Some j, w') ->
  lookup (w_fs w) jp = Some NDir -> okw w' = false.
Proof.
  intros H Hd. unfold open_journal in H.
  binv H as u w1 Ec.
  assert (Hd1 : lookup (w_fs w1) jp = Some NDir).
  { assert (K0 : keeps_dents (w_fs w) (w_fs w)) by (intros p v Hp; exact Hp).
    destruct (tri_some _ _ _ _ _ _ _ (tok_create_parents _ (KP_add (w_fs w)) jp) K0 Ec) as [K1 _].
    apply K1. exact Hd. }
  binv H as b w2 E. apply is_ok_some in E. destruct E as [-> ->].
  destruct (okw w1) eqn:K1; cbn [negb] in H.
  2:{ apply ret_some in H. destruct H as [-> _]. exact K1. }
  binv H as r w3 Eo. unfold k_open_a, k_open_gen in Eo. apply sys_some in Eo.
  assert (Hr : exists e, r = inr e).
  { destruct Eo as [_ [[e [-> _]]|[-> _]]]; [exists e; reflexivity|].
    unfold fs_open_create. rewrite Hd1. cbn [fst snd]. exists EISDIR. reflexivity. }
  destruct Hr as [e ->].
  binv H as u2 w4 Et. unfold throw_errno in Et. apply throw_some in Et. destruct Et as [_ K4].
  apply ret_some in H. destruct H as [-> _]. exact K4.
Qed.

(* the rewritten file is well-formed but names a journal that cannot be
   opened (its path is a directory): EVERY oracle.  Nothing of [n] is applied:
   not its rules, not its debounce, not its queue path -- even when the new
   queue directory was already created and loaded. *)
Theorem rejected_journal_unopenable (o : oracle) w pid path n jp h h' w' :
  h_cfg_path h = Some path ->
  c_journal_path n = Some jp -> lookup (w_fs w) jp = Some NDir ->
  handle_close_write pid path (Some n) h o w = (Some h', w') ->
  okw w' = false /\ only_pushed h h'.
Proof.
  intros Ecp Ejp Hd H.
  destruct (handle_close_write_all_or_nothing _ _ _ _ _ _ _ _ Ecp H)
    as (h1 & w1 & Eh1 & Hg & [(_ & _ & _ & (pushed & w0 & ev & Ep & Er) & n' & En & Happ)|(Kw' & ->)]).
  2:{ split; [exact Kw'|]. split; assumption. }
  exfalso. injection En as <-.
  assert (K0 : keeps_dents (w_fs w) (w_fs w)) by (intros p v Hp; exact Hp).
  destruct (tri_some _ _ _ _ _ _ _ (tri_push_to_linq _ (KP_add (w_fs w)) pid path h) K0 Ep) as [Ka _].
  destruct (tri_some _ _ _ _ _ _ _ (tok_record_event_k (w_fs w) ev pid path h1) Ka Er) as [Kb _].
  destruct Happ as (_ & _ & _ & _ & _ & x1 & x2 & x3 & x4 & S1 & _ & Hq & S3 & _ & Eo & Ko & _).
  assert (Kc : keeps_dents (w_fs w) (w_fs x2)).
  { destruct (str_eqb (c_queue_path (h_cfg h1)) (c_queue_path n)).
    - destruct Hq as [_ ->]. rewrite (sbt_fs _ _ S1). exact Kb.
    - rewrite <- (sbt_fs _ _ S1) in Kb.
      destruct (tri_some _ _ _ _ _ _ _ (tok_load_linq_k (w_fs w) _ _ _) Kb Hq) as [Kc _]. exact Kc. }
  rewrite <- (sbt_fs _ _ S3) in Kc.
  rewrite Ejp in Eo.
  pose proof (open_journal_dir_fails _ _ _ _ _ _ Eo (Kc _ _ Hd)) as Kbad. congruence.
Qed.
Print Assumptions rejected_journal_unopenable.

(* (2), as asked: a write of the configuration file with a malformed content,
   or with a configuration whose journal cannot be opened, ends with an error
   on the trace (the daemon stops) and the handler is unchanged up to the queue
   counters of the push of that very write: same configuration record (rules,
   debounce, paths, patterns, labels), same journal, same queue directory,
   same debounce, same editor pids and interpreters. *)
Theorem rejected_reload_changes_nothing (o : oracle) w pid path nc h h' w' :
  h_cfg_path h = Some path ->
  (nc = None \/
   exists n jp, nc = Some n /\ c_journal_path n = Some jp /\ lookup (w_fs w) jp = Some NDir) ->
  handle_close_write pid path nc h o w = (Some h', w') ->
  okw w' = false /\ h' = set_q (h_q h') h /\ grown_q 2 (h_q h) (h_q h') /\
  h_cfg h' = h_cfg h /\ h_journal h' = h_journal h /\ q_dir (h_q h') = q_dir (h_q h) /\
  q_deb (h_q h') = q_deb (h_q h) /\ h_pids h' = h_pids h /\ h_interps h' = h_interps h.
Proof.
  intros Ecp Hnc H.
  assert (X : okw w' = false /\ only_pushed h h').
  { destruct Hnc as [->|(n & jp & -> & Ejp & Hd)].
    - exact (rejected_malformed _ _ _ _ _ _ _ Ecp H).
    - exact (rejected_journal_unopenable _ _ _ _ _ _ _ _ _ Ecp Ejp Hd H). }
  destruct X as [K [E G]]. split; [exact K|]. split; [exact E|]. split; [exact G|].
  rewrite E. cbn [set_q h_cfg h_journal h_q h_pids h_interps].
  destruct G as (G1 & _ & G3 & _). auto 10.
Qed.
Print Assumptions rejected_reload_changes_nothing.

(* the same at the end of a history: the run stops there, and the
   configuration in force is the one before the rejected rewrite *)
Corollary history_rejected_last (o : oracle) s h0 w0 h1 w1 pid cp nc h' w' :
  coherent h0 -> h_cfg_path h0 = Some cp ->
  run o s h0 w0 = (Some h1, w1) -> okw w1 = true ->
  (nc = None \/
   exists n jp, nc = Some n /\ c_journal_path n = Some jp /\ lookup (w_fs w1) jp = Some NDir) ->
  run o (s ++ [HWrite pid cp nc]) h0 w0 = (Some h', w') ->
  okw w' = false /\
  h_cfg h' = cfg_in_force (Some cp) (h_cfg h0) s /\
  same_cfg h1 h' /\ coherent h' /\
  (* and nothing after it is handled *)
  (forall s2, run o (s ++ HWrite pid cp nc :: s2) h0 w0 = (Some h', w')).
Proof.
  intros Hc Ecp R1 K1 Hnc R2.
  destruct (history_config o s h0 w0 h1 w1 Hc R1 K1) as (A1 & _ & _ & _ & A5 & _).
  rewrite Ecp in A1, A5.
  assert (E : handle_close_write pid cp nc h1 o w1 = (Some h', w')).
  { rewrite run_app, R1 in R2. cbn [run step_run] in R2. rewrite K1 in R2.
    destruct (handle_close_write pid cp nc h1 o w1) as [[hx|] wx]; [exact R2|discriminate]. }
  destruct (rejected_reload_changes_nothing _ _ _ _ _ _ _ _ A5 Hnc E) as (K & Eh & G & Ecfg & _).
  assert (S : same_cfg h1 h') by (apply only_pushed_same_cfg; split; assumption).
  split; [exact K|]. split; [congruence|]. split; [exact S|].
  split.
  { apply (coherent_same_cfg _ _ S).
    destruct (history_config o s h0 w0 h1 w1 Hc R1 K1) as (B1 & B2 & B3 & B4 & _).
    unfold coherent. rewrite B1. auto. }
  intros s2. rewrite run_app, R1. cbn [run step_run]. rewrite K1, E. apply run_not_ok. exact K.
Qed.
Print Assumptions history_rejected_last.

(* ====================================================================== *)
(* Part 3. Later events are governed by the configuration in force        *)
(*         (benign oracles; plain heads)                                  *)
(* ====================================================================== *)

Lemma run_snoc o s st h0 w0 h w :
  run o s h0 w0 = (Some h, w) -> okw w = true ->
  run o (s ++ [st]) h0 w0 =
  match step_run st h o w with (Some h1, w1) => (Some h1, w1) | (None, w1) => (None, w1) end.
Proof.
  intros R K. rewrite run_app, R. cbn [run]. rewrite K.
  destruct (step_run st h o w) as [[h1|] w1]; reflexivity.
Qed.

Lemma step_run_write pid path nc h : step_run (HWrite pid path nc) h = handle_close_write pid path nc h.
Proof. reflexivity. Qed.
Lemma step_run_env w2 h o w : step_run (HEnv w2) h o w = (Some h, w2).
Proof. reflexivity. Qed.

(* (3a) The next write (not of the configuration file) after an error-free
   history: the queueing decision is push_decision under the RULES in force
   (with the common-parent length the daemon started with and the editor pids
   gathered so far); when it says "queue", the new entries are links in the
   QUEUE DIRECTORY in force, stamped with the current clock, and the journal
   line carries the label of the configuration in force. *)
Theorem next_write_governed o s h0 w0 h w pid path nc ents pu ih pre :
  benign o -> coherent h0 ->
  run o s h0 w0 = (Some h, w) -> okw w = true ->
  let c := cfg_in_force (h_cfg_path h0) (h_cfg h0) s in
  QRel (h_q h) (w_fs w) ents ->
  push_decision (c_rules c) (h_cpl h0) (pid_mem pid (h_pids h)) path = (pu, ih, pre) ->
  h_cfg_path h0 <> Some path ->
  journal_fits (h_journal h) (write_ev c pu) (w_clock w) ->
  (pu = true -> ents_ok (q_len_guess (h_q h)) (acc_ents path ih pre (w_clock w))) ->
  let now := w_clock w in
  let q' := if pu then acc_q path pre (h_q h) else h_q h in
  let h' := if pu then set_q q' h else h in
  exists w',
    run o (s ++ [HWrite pid path nc]) h0 w0 = (Some h', w') /\
    h_cfg h' = c /\ q_dir q' = c_queue_path c /\ q_deb q' = c_debounce c /\
    journal_step (h_journal h) (wline (h_journal h) (write_ev c pu) pid path now)
                 (if pu then acc_fs path ih pre now (h_q h) (w_fs w) else w_fs w) (w_fs w') /\
    QRel q' (w_fs w') (if pu then ents ++ acc_ents path ih pre now else ents) /\
    (pu = true ->
     lookup (w_fs w') (join (c_queue_path c) (dec (q_head (h_q h) + N.of_nat (length ents))))
     = Some (NLink (encode (linq_meta ih pre) path) now)) /\
    okw w' = true /\ w_clock w' = now.
Proof.
  intros H Hc R K. cbv zeta. intros HR Hd Hcp Hjf Hwf.
  destruct (history_config o s h0 w0 h w Hc R K) as (A1 & A2 & A3 & _ & A5 & A6). cbv zeta in *.
  set (c := cfg_in_force (h_cfg_path h0) (h_cfg h0) s) in *.
  rewrite <- A1, <- A6 in Hd. rewrite <- A5 in Hcp. rewrite <- A1 in Hjf.
  destruct (accept_write o w h pid path nc ents pu ih pre H K HR Hd Hcp Hjf Hwf)
    as (w' & E & J & HR' & _ & K' & _ & C' & _). cbv zeta in *.
  exists w'. rewrite (run_snoc _ _ _ _ _ _ _ R K). cbn [step_run]. rewrite E.
  split; [reflexivity|].
  split; [destruct pu; exact A1|].
  split; [destruct pu; [destruct pre|]; exact A3|].
  split; [destruct pu; [destruct pre|]; exact A2|].
  rewrite A1 in J. split; [exact J|]. split; [exact HR'|].
  split; [|split; [exact K'|exact C']].
  intros ->.
  pose proof (QR_ent _ _ _ HR' (length ents) path (linq_meta ih pre) (w_clock w)) as L.
  rewrite <- A3.
  replace (q_dir (h_q h)) with (q_dir (acc_q path pre (h_q h))) by (destruct pre; reflexivity).
  replace (q_head (h_q h)) with (q_head (acc_q path pre (h_q h))) by (destruct pre; reflexivity).
  apply L. unfold acc_ents. rewrite nth_error_app2 by lia. rewrite Nat.sub_diag. reflexivity.
Qed.
Print Assumptions next_write_governed.

(* (3b) The next pass uses the DEBOUNCE in force.  The head is younger than
   that debounce: nothing is stored, the pass answers with the remaining wait
   computed from the debounce in force. *)
Theorem next_pass_young o s h0 w0 h w rev p m t rest :
  benign o -> coherent h0 ->
  run o s h0 w0 = (Some h, w) -> okw w = true ->
  let c := cfg_in_force (h_cfg_path h0) (h_cfg h0) s in
  QRel (h_q h) (w_fs w) ((p, m, t) :: rest) ->
  (w_clock w - t < c_debounce c)%Z ->
  exists w',
    handle_timeout rev h o w = (Some (TPause (c_debounce c - (w_clock w - t)), h), w') /\
    run o (s ++ [HPass rev]) h0 w0 = (Some h, w') /\
    w_fs w' = w_fs w /\ okw w' = true /\
    QRel (h_q h) (w_fs w') ((p, m, t) :: rest).
Proof.
  intros H Hc R K. cbv zeta. intros HR Hy.
  destruct (history_config o s h0 w0 h w Hc R K) as (_ & A2 & _). cbv zeta in A2.
  rewrite <- A2 in Hy |- *.
  destruct (handle_timeout_not_due o w h rev p m t rest H K HR Hy) as (w' & E & F & _ & Kk & HR').
  exists w'. split; [exact E|]. split.
  { rewrite (run_snoc _ _ _ _ _ _ _ R K). cbn [step_run]. unfold bind. rewrite E. reflexivity. }
  split; [exact F|]. split; [exact (tr_keep_ok _ _ Kk)|exact HR'].
Qed.
Print Assumptions next_pass_young.

(* The head is a plain file entry at least as old as the debounce in force (the
   last write of its burst; what follows is younger than the debounce in
   force): exactly one version is stored, under the store root / version
   pattern of the configuration in force, and the head is popped. *)
Theorem next_pass_due o s h0 w0 h w rev p t rest i b :
  benign o -> coherent h0 ->
  run o s h0 w0 = (Some h, w) -> okw w = true ->
  let c := cfg_in_force (h_cfg_path h0) (h_cfg h0) s in
  keys_nodup (w_fs w) ->
  QRel (h_q h) (w_fs w) ((p, 0%N, t) :: rest) ->
  (c_debounce c <= w_clock w - t)%Z ->
  occurs p rest = false ->
  not_due (w_clock w) (c_debounce c) rest ->
  plain_ok c (h_cpl h0) (h_journal h) (c_queue_path c) (w_fs w) (w_clock w) p i b ->
  exists w',
    handle_timeout rev h o w =
      (Some (TPause (pause_of (w_clock w) (c_debounce c) rest), set_q (popped p (h_q h)) h), w') /\
    run o (s ++ [HPass rev]) h0 w0 = (Some (set_q (popped p (h_q h)) h), w') /\
    step_post c (h_cpl h0) (h_journal h) (head_name (h_q h)) (w_fs w) (w_fs w') (w_clock w) p b /\
    QRel (popped p (h_q h)) (w_fs w') rest /\ keys_nodup (w_fs w') /\
    okw w' = true /\ w_clock w' = w_clock w.
Proof.
  intros H Hc R K. cbv zeta. intros Hnd HR Hdue Hocc Hstop HP.
  destruct (history_config o s h0 w0 h w Hc R K) as (A1 & A2 & A3 & _ & _ & A6). cbv zeta in *.
  rewrite <- A2 in Hdue, Hstop |- *. rewrite <- A3, <- A1, <- A6 in HP. rewrite <- A1, <- A6.
  destruct (handle_timeout_one_plain_head o rev h w p t rest i b H K Hnd HR Hdue Hocc Hstop HP)
    as (w' & E & SP & HR' & Hnd' & K' & _ & C').
  exists w'. split; [exact E|]. split.
  { rewrite (run_snoc _ _ _ _ _ _ _ R K). cbn [step_run]. unfold bind. rewrite E. reflexivity. }
  auto 10.
Qed.
Print Assumptions next_pass_due.

(* (3) in one statement: after ANY error-free history, whatever
   configuration rewrites it contains, the next write event and the next pass
   are governed by [cfg_in_force] of that history. *)
Theorem events_governed_by_config_in_force o s h0 w0 h w :
  benign o -> coherent h0 ->
  run o s h0 w0 = (Some h, w) -> okw w = true ->
  let c := cfg_in_force (h_cfg_path h0) (h_cfg h0) s in
  (* a later write of a file other than the configuration file *)
  (forall pid path nc ents pu ih pre,
     QRel (h_q h) (w_fs w) ents ->
     push_decision (c_rules c) (h_cpl h0) (pid_mem pid (h_pids h)) path = (pu, ih, pre) ->
     h_cfg_path h0 <> Some path ->
     journal_fits (h_journal h) (write_ev c pu) (w_clock w) ->
     (pu = true -> ents_ok (q_len_guess (h_q h)) (acc_ents path ih pre (w_clock w))) ->
     let q' := if pu then acc_q path pre (h_q h) else h_q h in
     let h' := if pu then set_q q' h else h in
     exists w',
       run o (s ++ [HWrite pid path nc]) h0 w0 = (Some h', w') /\
       h_cfg h' = c /\ q_dir q' = c_queue_path c /\ q_deb q' = c_debounce c /\
       QRel q' (w_fs w') (if pu then ents ++ acc_ents path ih pre (w_clock w) else ents) /\
       (pu = true ->
        lookup (w_fs w') (join (c_queue_path c) (dec (q_head (h_q h) + N.of_nat (length ents))))
        = Some (NLink (encode (linq_meta ih pre) path) (w_clock w))) /\
       okw w' = true) /\
  (* a later pass, head younger than the debounce in force *)
  (forall rev p m t rest,
     QRel (h_q h) (w_fs w) ((p, m, t) :: rest) ->
     (w_clock w - t < c_debounce c)%Z ->
     exists w',
       handle_timeout rev h o w = (Some (TPause (c_debounce c - (w_clock w - t)), h), w') /\
       run o (s ++ [HPass rev]) h0 w0 = (Some h, w') /\
       w_fs w' = w_fs w /\ okw w' = true) /\
  (* a later pass, plain head at least as old as the debounce in force *)
  (forall rev p t rest i b,
     keys_nodup (w_fs w) ->
     QRel (h_q h) (w_fs w) ((p, 0%N, t) :: rest) ->
     (c_debounce c <= w_clock w - t)%Z ->
     occurs p rest = false ->
     not_due (w_clock w) (c_debounce c) rest ->
     plain_ok c (h_cpl h0) (h_journal h) (c_queue_path c) (w_fs w) (w_clock w) p i b ->
     exists w',
       handle_timeout rev h o w =
         (Some (TPause (pause_of (w_clock w) (c_debounce c) rest), set_q (popped p (h_q h)) h), w') /\
       run o (s ++ [HPass rev]) h0 w0 = (Some (set_q (popped p (h_q h)) h), w') /\
       step_post c (h_cpl h0) (h_journal h) (head_name (h_q h)) (w_fs w) (w_fs w') (w_clock w) p b /\
       QRel (popped p (h_q h)) (w_fs w') rest /\ okw w' = true).
Proof.
  intros H Hc R K. cbv zeta. split; [|split].
  - intros pid path nc ents pu ih pre HR Hd Hcp Hjf Hwf.
    destruct (next_write_governed o s h0 w0 h w pid path nc ents pu ih pre H Hc R K HR Hd Hcp Hjf Hwf)
      as (w' & A1 & A2 & A3 & A4 & _ & A6 & A7 & A8 & _).
    exists w'. auto 10.
  - intros rev p m t rest HR Hy.
    destruct (next_pass_young o s h0 w0 h w rev p m t rest H Hc R K HR Hy) as (w' & A1 & A2 & A3 & A4 & _).
    exists w'. auto.
  - intros rev p t rest i b Hnd HR Hdue Hocc Hstop HP.
    destruct (next_pass_due o s h0 w0 h w rev p t rest i b H Hc R K Hnd HR Hdue Hocc Hstop HP)
      as (w' & A1 & A2 & A3 & A4 & _ & A6 & _).
    exists w'. auto 10.
Qed.
Print Assumptions events_governed_by_config_in_force.

(* ====================================================================== *)
(* Part 4. The queue across a reload                                      *)
(* ====================================================================== *)

(* ---------- opening a journal only adds the journal file and its parents ---------- *)

Section Adds.
Variables (f0 : fs) (S : str -> Prop).

(* a name that was free in [f0] and is not in [S] is still free *)
Definition adds_in (f : fs) : Prop := forall x, lookup f0 x = None -> ~ S x -> lookup f x = None.

Lemma AI_add p n f : S p -> adds_in f -> adds_in (add_dent p n f).
Proof.
  intros Hs H x Hx Hn. destruct (lookup (add_dent p n f) x) as [v|] eqn:E; [|reflexivity].
  apply lookup_add_inv in E. destruct E as [E|[-> _]]; [|contradiction].
  rewrite (H x Hx Hn) in E. discriminate.
Qed.

Lemma AI_mkdir p f : S p -> adds_in f -> adds_in (snd (fs_mkdir p f)).
Proof.
  intros Hs H. unfold fs_mkdir. destruct (lookup f p); [exact H|].
  destruct (parent_is_dir f p); [exact H|]. cbn [snd]. apply AI_add; assumption.
Qed.

Lemma AI_open_create p f : S p -> adds_in f -> adds_in (snd (fs_open_create p f)).
Proof.
  intros Hs H. unfold fs_open_create, fs_create_excl.
  destruct (lookup f p) as [[|i|t m]|]; cbn [snd]; try exact H.
  destruct (parent_is_dir f p); cbn [snd]; [exact H|].
  intros x Hx Hn.
  change (lookup (mkFs (fs_dents f ++ [(p, NFile (fs_next f))])
                       ((fs_next f, mkFile [] true) :: fs_files f) (Datatypes.S (fs_next f))) x)
    with (lookup (add_dent p (NFile (fs_next f)) f) x).
  exact (AI_add p _ f Hs H x Hx Hn).
Qed.

Lemma tok_mkdir_a p : S p -> tok adds_in (k_mkdir p).
Proof. intros Hs. apply tok_sys_unit. intros f. apply AI_mkdir. exact Hs. Qed.

Lemma tok_mkdir_all_a ds : (forall d, In d ds -> S d) -> tok adds_in (mkdir_all ds).
Proof.
  induction ds as [|d ds IH]; intros Hs; cbn [mkdir_all]; [apply tok_ret|].
  assert (IH' : tok adds_in (mkdir_all ds)) by (apply IH; intros x Hx; apply Hs; right; exact Hx).
  apply tok_bind; [apply tok_mkdir_a; apply Hs; left; reflexivity|]. intros r.
  destruct r as [e|]; [destruct e|]; try exact IH'; tk_with leaf1.
Qed.

Lemma tok_create_parents_a p : (forall d, In d (parents_of p) -> S d) -> tok adds_in (create_parents p).
Proof. intros Hs. unfold create_parents. tk_with leaf1. apply tok_mkdir_all_a. exact Hs. Qed.

Lemma tok_open_a_a p : S p -> tok adds_in (k_open_a p).
Proof.
  intros Hs. apply tok_of_tri with (R := fun _ => True). unfold k_open_a. apply tri_open_gen; [auto|].
  intros f Hf. split; [apply AI_open_create; assumption|exact I].
Qed.

Lemma tok_open_journal_a jp pat :
  S jp -> (forall d, In d (parents_of jp) -> S d) -> tok adds_in (open_journal (Some jp) pat).
Proof.
  intros H1 H2. unfold open_journal.
  apply tok_bind; [apply tok_create_parents_a; exact H2|]. intros _.
  tk_with leaf1. apply tok_open_a_a. exact H1.
Qed.
End Adds.

(* the refinement of the queue survives the opening of a journal that does
   not live inside the queue directory (every oracle) *)
Lemma open_journal_QRel (o : oracle) w jpo pat j w' q ents :
  open_journal jpo pat o w = (Some j, w') ->
  QRel q (w_fs w) ents ->
  (forall jp, jpo = Some jp -> Str.under (q_dir q) jp = false) ->
  QRel q (w_fs w') ents.
Proof.
  intros E HR Hout. destruct jpo as [jp|].
  2:{ unfold open_journal in E. apply ret_some in E. destruct E as [-> _]. exact HR. }
  specialize (Hout jp eq_refl).
  assert (K0 : keeps_dents (w_fs w) (w_fs w)) by (intros p v Hp; exact Hp).
  destruct (tri_some _ _ _ _ _ _ _ (tok_open_journal_k (w_fs w) (Some jp) pat) K0 E) as [K1 _].
  set (S := fun x => x = jp \/ In x (parents_of jp)).
  assert (A0 : adds_in (w_fs w) S (w_fs w)) by (intros x Hx _; exact Hx).
  assert (T : tok (adds_in (w_fs w) S) (open_journal (Some jp) pat)).
  { apply tok_open_journal_a; [left; reflexivity|intros d Hd; right; exact Hd]. }
  destruct (tri_some _ _ _ _ _ _ _ T A0 E) as [A1 _].
  apply (QRel_frame q (w_fs w) (w_fs w') ents HR).
  - intros x Hx. destruct (lookup (w_fs w) x) as [v|] eqn:Ex; [|congruence]. apply K1. exact Ex.
  - intros k Hk. apply A1; [exact Hk|].
    destruct (under_join_dec (q_dir q) k jp (QR_nroot _ _ _ HR) Hout) as [N1 N2].
    intros [Hs|Hs]; [apply N1; symmetry; exact Hs|apply N2; exact Hs].
Qed.

(* ---------- (a) the rewrite KEEPS queue_path: nothing pending is lost ---------- *)

(* A write of the configuration file that is put in force and keeps the queue
   path (benign oracle).  The write itself is decided by the OLD rules and, if
   queued, goes to the queue; then the handler keeps its queue -- same
   directory, head, size, bag -- with the debounce of the new configuration
   (redebounce), and the on-disk queue directory still refines the same
   entries: everything pending will be handled, under the new debounce.
   Side condition: the new journal is not a file inside the queue directory. *)
Theorem config_write_keeps_queue o w h pid path n ents pu ih pre h' w' :
  benign o -> okw w = true ->
  h_cfg_path h = Some path -> coherent h ->
  QRel (h_q h) (w_fs w) ents ->
  push_decision (c_rules (h_cfg h)) (h_cpl h) (pid_mem pid (h_pids h)) path = (pu, ih, pre) ->
  (pu = true -> ents_ok (q_len_guess (h_q h)) (acc_ents path ih pre (w_clock w))) ->
  c_queue_path n = c_queue_path (h_cfg h) ->
  (forall jp, c_journal_path n = Some jp -> Str.under (c_queue_path n) jp = false) ->
  handle_close_write pid path (Some n) h o w = (Some h', w') -> okw w' = true ->
  let q1 := if pu then acc_q path pre (h_q h) else h_q h in
  h_cfg h' = n /\
  h_q h' = ReloadProofs.set_deb (c_debounce n) q1 /\
  QRel (h_q h') (w_fs w') (if pu then ents ++ acc_ents path ih pre (w_clock w) else ents).
Proof.
  intros H K Ecp Hc HR Hd Hwf Eqp Hout E K'. cbv zeta.
  destruct (handle_close_write_all_or_nothing _ _ _ _ _ _ _ _ Ecp E)
    as (h1 & w1 & Eh1 & Hg & [(_ & _ & _ & (pushed & w0 & ev & Ep & Er) & n' & En & Happ)|(Kbad & _)]);
    [|congruence].
  injection En as <-.
  destruct (push_to_linq_accept o w h pid path ents pu ih pre H K HR Hd Hwf)
    as (wa & Ea & _ & HRa & _ & Ca & _).
  rewrite Ea in Ep. injection Ep as <- <- <-.
  set (q1 := if pu then acc_q path pre (h_q h) else h_q h) in *.
  assert (Eq1 : h_q (if pu then set_q (acc_q path pre (h_q h)) h else h) = q1) by (destruct pu; reflexivity).
  assert (Ec1 : h_cfg (if pu then set_q (acc_q path pre (h_q h)) h else h) = h_cfg h) by (destruct pu; reflexivity).
  set (h1 := if pu then set_q (acc_q path pre (h_q h)) h else h) in *.
  (* the journal line *)
  pose proof (lext_record_event _ _ _ _ _ _ _ _ Er) as (lj & _ & _ & D1).
  assert (HR1 : QRel q1 (w_fs w1) (if pu then ents ++ acc_ents path ih pre (w_clock w) else ents)).
  { apply (QRel_same_dents _ (w_fs wa)); [exact D1|exact HRa]. }
  (* the reload *)
  destruct Happ as (Ecfg & _ & _ & _ & _ & x1 & x2 & x3 & x4 & S1 & _ & Hq & S3 & _ & Eo & _ & _ & Ff).
  rewrite Ec1, <- Eqp, str_eqb_refl in Hq. destruct Hq as [Hq ->].
  rewrite Eq1 in Hq.
  split; [exact Ecfg|]. split; [exact Hq|].
  assert (HR3 : QRel q1 (w_fs x3) (if pu then ents ++ acc_ents path ih pre (w_clock w) else ents)).
  { rewrite (sbt_fs _ _ S3), (sbt_fs _ _ S1). exact HR1. }
  assert (Hdir : q_dir q1 = c_queue_path n).
  { destruct Hc as (_ & C2 & _). unfold q1. rewrite Eqp, <- C2. destruct pu; [destruct pre|]; reflexivity. }
  rewrite Hq, Ff. apply QRel_set_deb.
  apply (open_journal_QRel _ _ _ _ _ _ _ _ Eo HR3). rewrite Hdir. exact Hout.
Qed.
Print Assumptions config_write_keeps_queue.

(* ---------- (b) the rewrite MOVES queue_path: caveat K3 ---------- *)

(* Open finding K3 of ReloadProofs (reload_strands_exactly,
   reload_never_strands_refuted), at the level of the write event, EVERY
   oracle: when the configuration put in force names another queue directory,
   the handler's queue is exactly what load_linq found at the NEW path (run in
   some intermediate world of this very event), and every entry of the OLD
   queue directory -- including the entry just pushed for the configuration
   file itself -- is still on disk where it was; the new handler never looks
   there.  So the theorems of Part 3 apply after such a reload with [ents] =
   what the new directory holds, NOT with the entries pending before. *)
Theorem config_write_moves_queue (o : oracle) w h pid path n h' w' :
  h_cfg_path h = Some path -> coherent h ->
  c_queue_path n <> c_queue_path (h_cfg h) ->
  handle_close_write pid path (Some n) h o w = (Some h', w') -> okw w' = true ->
  h_cfg h' = n /\
  q_dir (h_q h') = c_queue_path n /\ q_dir (h_q h') <> q_dir (h_q h) /\ q_deb (h_q h') = c_debounce n /\
  (exists wa wb,
     load_linq (c_queue_path n) (c_debounce n) (c_path_length_guess n) o wa = (Some (Some (h_q h')), wb)) /\
  (forall name target mtime,
     lookup (w_fs w) (join (q_dir (h_q h)) name) = Some (NLink target mtime) ->
     lookup (w_fs w') (join (q_dir (h_q h)) name) = Some (NLink target mtime)).
Proof.
  intros Ecp Hc Hne E K'.
  destruct (handle_close_write_all_or_nothing _ _ _ _ _ _ _ _ Ecp E)
    as (h1 & w1 & Eh1 & Hg & [(_ & _ & _ & _ & n' & En & Happ)|(Kbad & _)]); [|congruence].
  injection En as <-.
  assert (S1 : same_cfg h h1) by (rewrite Eh1; apply same_cfg_set_q; apply (grown_q_keep _ _ _ Hg)).
  pose proof (coherent_same_cfg _ _ S1 Hc) as Hc1.
  destruct (reload_applied_coherent _ _ _ _ _ _ Hc1 Happ) as [(C1 & C2 & _) Ecfg].
  destruct S1 as (S1 & _).
  destruct Hc as (_ & D2 & _).
  split; [exact Ecfg|]. rewrite Ecfg in C1, C2.
  split; [exact C2|]. split; [rewrite C2, D2; exact Hne|]. split; [exact C1|].
  split.
  - destruct Happ as (_ & _ & _ & _ & _ & x1 & x2 & x3 & x4 & _ & _ & Hq & _).
    rewrite S1 in Hq.
    destruct (str_eqb_spec (c_queue_path (h_cfg h)) (c_queue_path n)) as [Heq|_]; [congruence|].
    exists x1, x2. exact Hq.
  - intros name target mtime Hl.
    pose proof (handle_close_write_keeps_dents o w pid path (Some n) h) as Kd.
    rewrite E in Kd. cbn [snd] in Kd. apply Kd. exact Hl.
Qed.
Print Assumptions config_write_moves_queue.

(* ---------- (c) the journal of the configuration put in force ---------- *)

(* a journal handle returned by open_journal names the inode the journal path
   resolves to (every oracle) *)
Lemma open_journal_inode (o : oracle) w jp pat jn w' :
  open_journal (Some jp) pat o w = (Some (Some jn), w') ->
  lookup (w_fs w') jp = Some (NFile (j_ino jn)) /\ j_pattern jn = pat.
Proof.
  intros H. unfold open_journal in H.
  binv H as u w1 Ec. binv H as b w2 E. apply is_ok_some in E. destruct E as [-> ->].
  destruct (okw w1); cbn [negb] in H.
  2:{ apply ret_some in H. destruct H as [_ H]. discriminate. }
  binv H as r w3 Eo. unfold k_open_a, k_open_gen in Eo. apply sys_some in Eo.
  destruct Eo as [_ [[e [-> _]]|[Er Ef]]].
  { binv H as u2 w4 Et. apply ret_some in H. destruct H as [_ H]. discriminate. }
  destruct (fs_open_create jp (w_fs w1)) as [r' f'] eqn:Ecr. cbn [fst snd] in Er, Ef. subst r'.
  destruct r as [[i|d]|e].
  - apply ret_some in H. destruct H as [-> H]. injection H as ->. cbn [j_ino j_pattern].
    split; [|reflexivity]. rewrite Ef. clear Ef.
    unfold fs_open_create, fs_create_excl in Ecr.
    destruct (lookup (w_fs w1) jp) as [[|i'|t m]|] eqn:El; try discriminate.
    + injection Ecr as <- <-. exact El.
    + destruct (parent_is_dir (w_fs w1) jp); [discriminate|]. injection Ecr as <- <-.
      exact (lookup_add_dent_same (w_fs w1) jp (NFile (fs_next (w_fs w1))) El).
  - apply ret_some in H. destruct H as [_ H]. discriminate.
  - binv H as u2 w4 Et. apply ret_some in H. destruct H as [_ H]. discriminate.
Qed.

(* A write of the configuration file that is put in force, EVERY oracle: the
   handler's journal is exactly what open_journal returned for the journal
   path and stamp pattern of the new configuration during this event, and at
   the end of the event that path resolves to the inode the handle names. *)
Theorem config_write_journal (o : oracle) w h pid path n h' w' :
  h_cfg_path h = Some path ->
  handle_close_write pid path (Some n) h o w = (Some h', w') -> okw w' = true ->
  h_cfg h' = n /\
  (exists wa wb,
     open_journal (c_journal_path n) (c_journal_pattern n) o wa = (Some (h_journal h'), wb) /\
     okw wb = true /\ w_fs w' = w_fs wb) /\
  (forall jp jn, c_journal_path n = Some jp -> h_journal h' = Some jn ->
     lookup (w_fs w') jp = Some (NFile (j_ino jn)) /\ j_pattern jn = c_journal_pattern n).
Proof.
  intros Ecp E K'.
  destruct (handle_close_write_all_or_nothing _ _ _ _ _ _ _ _ Ecp E)
    as (h1 & w1 & _ & _ & [(_ & _ & _ & _ & n' & En & Happ)|(Kbad & _)]); [|congruence].
  injection En as <-.
  destruct Happ as (Ecfg & _ & _ & _ & _ & x1 & x2 & x3 & x4 & _ & _ & _ & _ & _ & Eo & Ko & _ & Ff).
  split; [exact Ecfg|]. split; [exists x3, x4; auto|].
  intros jp jn Ejp Ej. rewrite Ejp, Ej in Eo. rewrite Ff. exact (open_journal_inode _ _ _ _ _ _ Eo).
Qed.
Print Assumptions config_write_journal.

(* ====================================================================== *)
(* Concrete runs                                                          *)
(* ====================================================================== *)

Module ReloadHistoryExample.
  Import AcceptExample.
  Local Open Scope char_scope.

  (* The daemon of AcceptExample: configuration cfgA = debounce 5 s, /h/x
     excluded (but /h/x/i included), queue /q, journal /j ("%s"), versions
     "v%s", accepted writes labelled "W"; configuration file /h/c; common
     parent "/h/"; pid 7 is an editor, pid 9 is not; clock 100. *)

  (* the rewritten configuration: debounce 0, ANOTHER excluded set (/h/a
     instead of /h/x), versions "n%s", accepted writes labelled "N"; same
     queue and journal paths *)
  Definition rulesB : rules := mkRules [] [] [p_a] [] [] [].
  Definition cfgB : config :=
    mkCfg [["v"; "i"]] rulesB p_st ["/"; "p"; "s"] ["/"; "u"] p_q (Some p_j) ["/"; "o"; "f"; "f"]
          ["%"; "s"] ["n"; "%"; "s"] 0%Z 0 16 None None (Some ["w"]) (Some ["N"]) None None (Some stored).
  (* like cfgB, but the journal path is the directory /h *)
  Definition cfgD : config :=
    mkCfg [["v"; "i"]] rulesB p_st ["/"; "p"; "s"] ["/"; "u"] p_q (Some p_h) ["/"; "o"; "f"; "f"]
          ["%"; "s"] ["n"; "%"; "s"] 0%Z 0 16 None None (Some ["w"]) (Some ["N"]) None None (Some stored).
  (* like cfgB, but the queue moves to /r *)
  Definition p_r : str := ["/"; "r"].
  Definition cfgM : config :=
    mkCfg [["v"; "i"]] rulesB p_st ["/"; "p"; "s"] ["/"; "u"] p_r (Some p_j) ["/"; "o"; "f"; "f"]
          ["%"; "s"] ["n"; "%"; "s"] 0%Z 0 16 None None (Some ["w"]) (Some ["N"]) None None (Some stored).

  Definition clk (t : Z) (w : world) : world := mkW (w_fs w) (w_n w) (w_log w) t (w_tr w).
  Lemma w_fs_clk t w : w_fs (clk t w) = w_fs w.
  Proof. reflexivity. Qed.

  (* the history: the editor writes /h/a at 100 s (queued under the default
     rule of cfgA); pid 9 rewrites /h/c to cfgB; the clock moves to 102 s; a
     pass; the editor writes /h/x/o and /h/a again *)
  Definition S1 : list step := [HWrite 7 p_a None].
  Definition S2 : list step := S1 ++ [HWrite 9 p_c (Some cfgB)].
  Definition wA1 : world := snd (run o2 S1 h0 w0).
  Definition wA2 : world := snd (run o2 S2 h0 w0).
  Definition wE : world := clk 102 wA2.
  Definition S3 : list step := S2 ++ [HEnv wE].
  Definition S4 : list step := S3 ++ [HPass false].
  Definition S5 : list step := S4 ++ [HWrite 7 p_o None; HWrite 7 p_a None].
  Definition wA4 : world := snd (run o2 S4 h0 w0).

  Definition hA1 : handler := set_q (pushed p_a q0) h0.
  Definition hA2 : handler :=
    mkH cfgB (Some p_c) 3 (mkQ p_q 0 1 0%Z 16 [p_a]) (Some (mkJ 1 ["%"; "s"])) [7%N] [].
  Definition hA4 : handler := set_q (popped p_a (h_q hA2)) hA2.

  Definition a102 : str := p_st ++ ["/"; "a"; "/"; "n"; "1"; "0"; "2"].

  (* ----- the specification on this history ----- *)
  Example spec_S5 :
    cfg_in_force (Some p_c) cfgA S1 = cfgA /\
    cfg_in_force (Some p_c) cfgA S2 = cfgB /\
    cfg_in_force (Some p_c) cfgA S5 = cfgB.
  Proof. repeat split; reflexivity. Qed.

  (* ----- direct evaluation (2-byte transfers) ----- *)
  Example run_S5 :
    match run o2 S5 h0 w0 with
    | (Some h, w) =>
        okw w = true /\
        h_cfg h = cfgB /\ q_deb (h_q h) = 0%Z /\ q_dir (h_q h) = p_q /\
        h_journal h = Some (mkJ 1 ["%"; "s"]) /\
        (* the pass at 102 s stored /h/a (2 s old: younger than the OLD debounce 5,
           older than the NEW debounce 0), under the NEW version pattern *)
        lookup (w_fs w) a102 = Some (NFile 6) /\ f_bytes (get_file (w_fs w) 6) = ["a"] /\
        (* then /h/x/o (excluded by cfgA, not by cfgB) was queued, /h/a (excluded by cfgB) was not *)
        q_size (h_q h) = 1%N /\ q_bag (h_q h) = [p_o] /\
        lookup (w_fs w) n0 = Some (NLink p_o 102%Z) /\ lookup (w_fs w) n1 = None /\
        (* the journal: labels W (cfgA), then N (cfgB) *)
        f_bytes (get_file (w_fs w) 1) =
          old ++ journal_line ["1"; "0"; "0"] ["W"] 7 p_a
              ++ journal_line ["1"; "0"; "0"] ["w"] 9 p_c
              ++ journal_line ["1"; "0"; "2"] stored 0 ["a"]
              ++ journal_line ["1"; "0"; "2"] ["N"] 7 p_o
              ++ journal_line ["1"; "0"; "2"] ["w"] 7 p_a
    | _ => False
    end.
  Proof. vm_compute. repeat split; reflexivity. Qed.

  (* the same history WITHOUT the rewrite: at 102 s the pass waits 3 s more *)
  Example run_without_rewrite :
    match run o2 (S1 ++ [HEnv (clk 102 wA1)]) h0 w0 with
    | (Some h, w) =>
        match handle_timeout false h o2 w with
        | (Some (TPause z, h'), w') => z = 3%Z /\ h' = h /\ w_fs w' = w_fs w /\ lookup (w_fs w') a102 = None
        | _ => False
        end
    | _ => False
    end.
  Proof. vm_compute. repeat split; reflexivity. Qed.

  (* a MALFORMED rewrite: the run stops with an error, nothing is applied
     (rules, debounce, labels of cfgA), the next write is not handled *)
  Definition Sbad : list step := S1 ++ [HWrite 9 p_c None; HWrite 7 p_o None].
  Example run_malformed :
    match run o2 Sbad h0 w0 with
    | (Some h, w) =>
        okw w = false /\ h = hA1 /\
        t_frames (w_tr w) = [FStatic M_cfg_cannot_reload; FContext p_c; FDyn []] /\
        lookup (w_fs w) n0 = Some (NLink p_a 100%Z) /\ lookup (w_fs w) n1 = None
    | _ => False
    end.
  Proof. vm_compute. repeat split; reflexivity. Qed.

  (* a well-formed rewrite whose journal cannot be opened: the same *)
  Example run_unopenable :
    match run o2 (S1 ++ [HWrite 9 p_c (Some cfgD); HWrite 7 p_o None]) h0 w0 with
    | (Some h, w) => okw w = false /\ h = hA1 /\ lookup (w_fs w) n1 = None
    | _ => False
    end.
  Proof. vm_compute. repeat split; reflexivity. Qed.

  (* caveat K3: the rewrite moves the queue to /r; /q/0 stays behind, the
     handler works on the empty /r *)
  Example run_moved_queue :
    match run o2 (S1 ++ [HWrite 9 p_c (Some cfgM)]) h0 w0 with
    | (Some h, w) =>
        okw w = true /\ h_cfg h = cfgM /\ q_dir (h_q h) = p_r /\ q_size (h_q h) = 0%N /\ q_deb (h_q h) = 0%Z /\
        lookup (w_fs w) n0 = Some (NLink p_a 100%Z) /\ children (w_fs w) p_r = []
    | _ => False
    end.
  Proof. vm_compute. repeat split; reflexivity. Qed.

  (* ----- the theorems apply: hypotheses hold, conclusions instantiated ----- *)

  Lemma h0_coherent : coherent h0.
  Proof.
    unfold coherent, journal_of. cbn. split; [reflexivity|]. split; [reflexivity|].
    split; [split; discriminate|]. intros jn E. injection E as <-. reflexivity.
  Qed.

  Lemma pair_eta {A B} (x : A * B) a : fst x = a -> x = (a, snd x).
  Proof. destruct x. cbn. intros ->. reflexivity. Qed.
  Lemma snd_eq {A B} (a a' : A) (b b' : B) : (a, b) = (a', b') -> b = b'.
  Proof. intros H. injection H. auto. Qed.
  Lemma returns {A} (x : option A * world) : (exists a, fst x = Some a) -> exists a w, x = (Some a, w).
  Proof. destruct x as [r w]. cbn [fst]. intros [a ->]. exists a, w. reflexivity. Qed.
  Ltac returns_tac := apply returns; vm_compute; eexists; reflexivity.
  Ltac by_run :=
    lazymatch goal with
    | |- ?x = (?a, _) =>
        let H := fresh in assert (H : fst x = a) by (vm_compute; reflexivity); exact (pair_eta x a H)
    end.

  Lemma runS5_eq : exists h, run o2 S5 h0 w0 = (Some h, snd (run o2 S5 h0 w0)) /\ okw (snd (run o2 S5 h0 w0)) = true.
  Proof.
    pose proof run_S5 as R. destruct (run o2 S5 h0 w0) as [[h|] w]; [|destruct R].
    exists h. split; [reflexivity|apply R].
  Qed.

  (* (1) history_config on the whole history *)
  Example history_config_applies :
    exists h w, run o2 S5 h0 w0 = (Some h, w) /\
      h_cfg h = cfgB /\ q_deb (h_q h) = c_debounce cfgB /\ q_dir (h_q h) = c_queue_path cfgB /\
      journal_of cfgB (h_journal h) /\ h_cfg_path h = Some p_c /\ h_cpl h = 3.
  Proof.
    destruct runS5_eq as (h & E & K). exists h, (snd (run o2 S5 h0 w0)). split; [exact E|].
    exact (history_config o2 S5 h0 w0 h _ h0_coherent E K).
  Qed.

  (* (2) rejected reloads: the step, and the history ending in it *)
  Example runS1_eq : run o2 S1 h0 w0 = (Some hA1, wA1).
  Proof. by_run. Qed.

  Example wA1_ok : okw wA1 = true.
  Proof. vm_compute. reflexivity. Qed.

  Example rejected_applies nc :
    (nc = None \/ nc = Some cfgD) ->
    exists h' w', run o2 (S1 ++ [HWrite 9 p_c nc]) h0 w0 = (Some h', w') /\
      okw w' = false /\ h_cfg h' = cfgA /\ same_cfg hA1 h' /\ coherent h' /\
      forall s2, run o2 (S1 ++ HWrite 9 p_c nc :: s2) h0 w0 = (Some h', w').
  Proof.
    intros Hnc.
    assert (Hr : exists h' w', run o2 (S1 ++ [HWrite 9 p_c nc]) h0 w0 = (Some h', w')).
    { destruct Hnc as [->| ->]; returns_tac. }
    destruct Hr as (h' & w' & E). exists h', w'. split; [exact E|].
    refine (history_rejected_last o2 S1 h0 w0 hA1 wA1 9 p_c nc h' w' h0_coherent eq_refl runS1_eq wA1_ok _ E).
    destruct Hnc as [->| ->]; [left; reflexivity|].
    right. exists cfgD, p_h. split; [reflexivity|]. split; [reflexivity|]. vm_compute. reflexivity.
  Qed.

  (* (3a) the first write, by next_write_governed on the empty history (rules of cfgA) *)
  Lemma ents_ok_1 p t : normalb p = true -> Nat.leb (length (encode 0 p)) 16 = true ->
    ents_ok 16 (acc_ents p false None t).
  Proof.
    intros Hn Hl. unfold ents_ok, acc_ents. constructor; [|constructor].
    split; [apply normalb_spec; exact Hn | apply fits16; exact Hl].
  Qed.

  Example first_write_governed :
    QRel (h_q hA1) (w_fs wA1) [(p_a, 0%N, 100%Z)].
  Proof.
    destruct (next_write_governed o2 [] h0 w0 h0 w0 7 p_a None [] true false None
                o2_benign h0_coherent eq_refl eq_refl q0_rel) as (w' & E & _ & _ & _ & _ & HR & _).
    - vm_compute. reflexivity.
    - apply cfg_path_other. intros X. vm_compute in X. discriminate X.
    - apply jfits.
    - intros _. apply ents_ok_1; reflexivity.
    - change ([] ++ [HWrite 7 p_a None]) with S1 in E. rewrite runS1_eq in E. apply snd_eq in E. rewrite E. exact HR.
  Qed.

  (* Part 4: the rewrite to cfgB keeps the queue path *)
  Example step2_eq : handle_close_write 9 p_c (Some cfgB) hA1 o2 wA1 = (Some hA2, wA2).
  Proof.
    assert (E : run o2 S2 h0 w0 = (Some hA2, wA2)) by by_run.
    unfold S2 in E. rewrite (run_snoc _ _ _ _ _ _ _ runS1_eq wA1_ok), step_run_write in E.
    destruct (handle_close_write 9 p_c (Some cfgB) hA1 o2 wA1) as [[h|] w]; [exact E|discriminate E].
  Qed.

  Lemma hA1_coherent : coherent hA1.
  Proof. exact h0_coherent. Qed.

  Example rewrite_keeps_queue :
    h_cfg hA2 = cfgB /\ h_q hA2 = ReloadProofs.set_deb 0 (pushed p_a q0) /\
    QRel (h_q hA2) (w_fs wA2) [(p_a, 0%N, 100%Z)].
  Proof.
    refine (config_write_keeps_queue o2 wA1 hA1 9 p_c cfgB [(p_a, 0%N, 100%Z)] false false None hA2 wA2
              o2_benign wA1_ok eq_refl hA1_coherent first_write_governed _ _ eq_refl _ step2_eq _).
    - vm_compute. reflexivity.
    - discriminate.
    - intros jp E. injection E as <-. vm_compute. reflexivity.
    - vm_compute. reflexivity.
  Qed.

  (* the environment step: only the clock moves *)
  Example runS3_eq : run o2 S3 h0 w0 = (Some hA2, wE).
  Proof.
    assert (E : run o2 S2 h0 w0 = (Some hA2, wA2)) by by_run.
    unfold S3. rewrite (run_snoc _ _ _ _ _ _ _ E); [rewrite step_run_env; reflexivity|vm_compute; reflexivity].
  Qed.

  Example cfS3 : cfg_in_force (h_cfg_path h0) (h_cfg h0) S3 = cfgB.
  Proof. reflexivity. Qed.

  Lemma wE_nodup : keys_nodup (w_fs wE).
  Proof.
    unfold keys_nodup. vm_compute.
    repeat (constructor; [let Hin := fresh in intros Hin; cbn [In] in Hin;
                          repeat (destruct Hin as [Hin|Hin]; [discriminate Hin|]); exact Hin|]).
    constructor.
  Qed.

  Ltac neq := let E := fresh in intros E; vm_compute in E; discriminate E.
  Ltac not_in := let Hin := fresh in intros Hin; vm_compute in Hin;
                 repeat (destruct Hin as [Hin|Hin]; [discriminate Hin|]); exact Hin.

  Lemma wE_plain_ok : plain_ok cfgB 3 (h_journal hA2) p_q (w_fs wE) 102%Z p_a 4 ["a"].
  Proof.
    constructor.
    - reflexivity.
    - reflexivity.
    - vm_compute. lia.
    - vm_compute. lia.
    - reflexivity.
    - vm_compute. reflexivity.
    - vm_compute. reflexivity.
    - vm_compute. lia.
    - eexists. reflexivity.
    - vm_compute. reflexivity.
    - intros d Hd. vm_compute in Hd.
      repeat (destruct Hd as [Hd|Hd]; [subst d; vm_compute; auto|]). destruct Hd.
    - vm_compute. reflexivity.
    - vm_compute. reflexivity.
    - vm_compute. reflexivity.
    - neq.
    - not_in.
    - not_in.
    - intros jn e Ej _. injection Ej as <-. vm_compute. lia.
    - intros jn Ej. injection Ej as <-. vm_compute. split; [discriminate | lia].
  Qed.

  (* (3b) the pass at 102 s uses the debounce in force (0): the entry of 100 s is stored *)
  Example pass_uses_new_debounce :
    exists w',
      handle_timeout false hA2 o2 wE = (Some (TPause (-1), hA4), w') /\
      run o2 S4 h0 w0 = (Some hA4, w') /\
      lookup (w_fs w') a102 = Some (NFile 6) /\ f_bytes (get_file (w_fs w') 6) = ["a"] /\
      lookup (w_fs w') n0 = None /\
      QRel (h_q hA4) (w_fs w') [] /\ okw w' = true /\ w_clock w' = 102%Z.
  Proof.
    pose proof (next_pass_due o2 S3 h0 w0 hA2 wE false p_a 100 [] 4 ["a"]
                  o2_benign h0_coherent runS3_eq eq_refl) as T.
    cbv zeta in T. rewrite cfS3 in T.
    destruct T as (w' & E & R & SP & HR & _ & K & C).
    - exact wE_nodup.
    - destruct rewrite_keeps_queue as (_ & _ & HR). unfold wE. rewrite w_fs_clk. exact HR.
    - vm_compute. discriminate.
    - reflexivity.
    - exact I.
    - exact wE_plain_ok.
    - exists w'. split; [exact E|]. split; [exact R|].
      destruct SP as [S1' S2' _ S4' _ _ _ _ _].
      assert (Nm : store_name cfgB (h_cpl h0) (w_clock wE) p_a = a102) by (vm_compute; reflexivity).
      assert (Nx : fs_next (w_fs wE) = 6) by (vm_compute; reflexivity).
      rewrite Nm, Nx in S1'. rewrite Nx in S2'.
      split; [exact S1'|]. split; [exact S2'|]. split; [exact S4'|]. split; [exact HR|].
      split; [exact K | exact C].
  Qed.

  (* under the OLD configuration the same entry at the same time is too young:
     next_pass_young on the history without the rewrite *)
  Example pass_old_debounce :
    exists w', handle_timeout false hA1 o2 (clk 102 wA1) = (Some (TPause 3, hA1), w') /\
               w_fs w' = w_fs wA1.
  Proof.
    assert (R : run o2 (S1 ++ [HEnv (clk 102 wA1)]) h0 w0 = (Some hA1, clk 102 wA1)).
    { rewrite (run_snoc _ _ _ _ _ _ _ runS1_eq wA1_ok), step_run_env. reflexivity. }
    destruct (next_pass_young o2 _ h0 w0 hA1 (clk 102 wA1) false p_a 0%N 100 [] o2_benign h0_coherent R wA1_ok)
      as (w' & E & _ & F & _).
    - rewrite w_fs_clk. exact first_write_governed.
    - vm_compute. reflexivity.
    - rewrite w_fs_clk in F. exists w'. split; [exact E|exact F].
  Qed.

  (* (3a) the write of /h/x/o after the pass: decided by the rules in force
     (cfgB: queued; cfgA would have said no), linked in the queue directory in
     force, journalled with the label in force *)
  Example later_write_governed :
    push_decision (c_rules cfgA) 3 true p_o = (false, false, None) /\
    push_decision (c_rules cfgB) 3 true p_o = (true, false, None) /\
    exists w4 w',
      run o2 S4 h0 w0 = (Some hA4, w4) /\
      run o2 (S4 ++ [HWrite 7 p_o None]) h0 w0 = (Some (set_q (pushed p_o (h_q hA4)) hA4), w') /\
      lookup (w_fs w') (join (c_queue_path cfgB) (dec 0)) = Some (NLink p_o 102%Z) /\
      QRel (pushed p_o (h_q hA4)) (w_fs w') [(p_o, 0%N, 102%Z)] /\ okw w' = true.
  Proof.
    split; [vm_compute; reflexivity|]. split; [vm_compute; reflexivity|].
    destruct pass_uses_new_debounce as (w4 & _ & R4 & _ & _ & _ & HR4 & K4 & C4).
    exists w4.
    pose proof (next_write_governed o2 S4 h0 w0 hA4 w4 7 p_o None [] true false None
                  o2_benign h0_coherent R4 K4) as T.
    cbv zeta in T.
    assert (cf : cfg_in_force (h_cfg_path h0) (h_cfg h0) S4 = cfgB) by reflexivity.
    rewrite cf, C4 in T.
    destruct T as (w' & E & _ & _ & _ & _ & HR & L & K & _).
    - exact HR4.
    - vm_compute. reflexivity.
    - apply cfg_path_other. neq.
    - intros jn e Ej _. injection Ej as <-. vm_compute. lia.
    - intros _. apply ents_ok_1; reflexivity.
    - exists w'. split; [exact R4|]. split; [exact E|]. split; [exact (L eq_refl)|]. split; [exact HR|exact K].
  Qed.

  (* caveat K3 by the theorem *)
  Example moved_queue_by_theorem :
    exists h' w', handle_close_write 9 p_c (Some cfgM) hA1 o2 wA1 = (Some h', w') /\
      q_dir (h_q h') = p_r /\ q_dir (h_q h') <> q_dir (h_q hA1) /\
      lookup (w_fs w') (join (q_dir (h_q hA1)) ["0"]) = Some (NLink p_a 100%Z).
  Proof.
    assert (Hr : exists h' w', handle_close_write 9 p_c (Some cfgM) hA1 o2 wA1 = (Some h', w')) by returns_tac.
    destruct Hr as (h' & w' & E). exists h', w'. split; [exact E|].
    assert (K : okw w' = true).
    { assert (X : okw (snd (handle_close_write 9 p_c (Some cfgM) hA1 o2 wA1)) = true) by (vm_compute; reflexivity).
      rewrite E in X. exact X. }
    destruct (config_write_moves_queue o2 wA1 hA1 9 p_c cfgM h' w' eq_refl hA1_coherent) as (_ & D1 & D2 & _ & _ & D5);
      [neq | exact E | exact K |].
    split; [exact D1|]. split; [exact D2|]. apply D5. vm_compute. reflexivity.
  Qed.
End ReloadHistoryExample.

Print Assumptions ReloadHistoryExample.history_config_applies.
Print Assumptions ReloadHistoryExample.rejected_applies.
Print Assumptions ReloadHistoryExample.rewrite_keeps_queue.
Print Assumptions ReloadHistoryExample.pass_uses_new_debounce.
Print Assumptions ReloadHistoryExample.pass_old_debounce.
Print Assumptions ReloadHistoryExample.later_write_governed.
Print Assumptions ReloadHistoryExample.moved_queue_by_theorem.
