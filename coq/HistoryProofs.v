(* Append-only history paths: slices concatenate to the file. *)
From K Require Import Str.
From Coq Require Import Lia.

(* successive contents of an append-only file: each is an extension of the previous one *)
Inductive grows : str -> list str -> Prop :=
| grows_nil b : grows b []
| grows_cons b b' r : (exists x, b' = b ++ x) -> grows b' r -> grows b (b' :: r).

(* the version made at each pass: the bytes from the remembered position on;
   the new remembered position is the length copied so far *)
Fixpoint slices (off : nat) (bs : list str) : list str :=
  match bs with
  | [] => []
  | b :: r => skipn off b :: slices (Nat.max off (length b)) r
  end.

Lemma last_cons {A} (r : list A) : forall a d, last (a :: r) d = last r a.
Proof. induction r as [|x r IH]; intros a d; [reflexivity|]. change (last (a :: x :: r) d) with (last (x :: r) d). rewrite !IH. reflexivity. Qed.

Lemma grows_last b bs : grows b bs ->
  exists y, last bs b = b ++ y /\ concat (slices (length b) bs) = y.
Proof.
  intros H. induction H as [b|b b' r [x Hx] Hg [y' [IH1 IH2]]].
  - exists []. simpl. rewrite app_nil_r. auto.
  - subst b'. exists (x ++ y'). split.
    + rewrite last_cons, IH1, <- app_assoc. reflexivity.
    + cbn [slices concat]. rewrite skipn_app, skipn_all, Nat.sub_diag. cbn [skipn app].
      rewrite Nat.max_r by (rewrite app_length; lia). rewrite IH2. reflexivity.
Qed.

Lemma slices_concat b0 bs : grows b0 bs ->
  concat (slices (length b0) bs) = skipn (length b0) (last bs b0).
Proof.
  intros H. destruct (grows_last b0 bs H) as [y [H1 H2]]. rewrite H1, H2.
  rewrite skipn_app, skipn_all, Nat.sub_diag. reflexivity.
Qed.

Lemma slices_whole bs : grows [] bs -> concat (slices 0 bs) = last bs [].
Proof. intros H. apply (slices_concat [] bs H). Qed.
