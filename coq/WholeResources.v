(* C20 (descriptors) and C19 (journal append-only) for the WHOLE program.

   FdProofs.v proves the descriptor accounting of every handler operation for
   EVERY oracle; JournalHistoryProofs.v proves, for every oracle, that no
   handler operation other than an effective reload removes a byte from the
   journal.  Here both are lifted to the event loop Daemon.daemon_loop (the loop
   of main.c over the real handler programs) and to Klunok.klunok (start-up,
   the real load_handler, the loop).

   Part 1  descriptors
     outside h w                 fd_count w - held h: descriptors open but not
                                 owned by the handler (FdProofs.fd_count /
                                 FdProofs.held)
     iteration_fd                one iteration of the loop
     envs_keep_fd                NEnv steps keep the descriptor table (along the
                                 run); envs_fd c ns: the static form
     daemon_descriptors_constant      THE THEOREM for the loop, any notifications
     daemon_descriptors_constant_plain ... without a write of the configuration
                                 file: the count itself is constant
     daemon_heads_descriptors    at every loop head
     klunok_descriptors          the whole program
     klunok_descriptors_plain    ... without a write of the configuration file
   Part 2  the journal
     quiet_notif, envs_journal   no effective reload; the environment leaves the
                                 journal alone (static form), envs_journal_along
                                 (relative to the world each NEnv replaces)
     iteration_journal           one iteration, every oracle
     daemon_journal_append_only_gen / daemon_journal_append_only
                                 whatever the loop returns (result, exit, death)
     load_handler_keeps_journal  O_APPEND | O_CREAT on an existing journal: the
                                 same inode, not a byte changed ("across restarts")
     klunok_journal_append_only  the whole program
   Checkers no_cfg_eventb, envs_fdb, envs_journalb for concrete lists.
   Module WholeExample          the hypotheses hold in DaemonExample's and
                                 KlunokExample's worlds; the +1 of the failed
                                 reload is attained in the daemon. *)
From K Require Import Str Dec Trace Fs World Progs Elf Sieve SieveSpec Handler Linq LinqSpec LinqProofs
     Hoare Confine Confine2 SyncProofs AbandonProofs JournalProofs QueueProofs StoreFs StoreLogic StoreProofs
     FdProofs PassProofs JournalHistoryProofs AcceptProofs ReloadProofs AttrProofs ReloadHistory MixedHistory
     Main MainProofs Daemon DaemonProofs Klunok KlunokProofs.
From Coq Require Import Lia ZArith.
Arguments N.add : simpl never.
Arguments N.sub : simpl never.
Arguments N.mul : simpl never.
Arguments N.of_nat : simpl never.
Arguments N.to_nat : simpl never.
Arguments N.eqb : simpl never.
Arguments N.leb : simpl never.
Arguments N.ltb : simpl never.

Local Open Scope Z_scope.

(* ====================================================================== *)
(* Part 1: descriptors                                                    *)
(* ====================================================================== *)

(* descriptors that are open but not owned by the handler *)
Definition outside (h : handler) (w : world) : Z := fd_count w - held h.

(* what the handler holds when a journal is configured / is not *)
Definition jcount (c : config) : Z := match c_journal_path c with Some _ => 1 | None => 0 end.

(* the notification is not a write of the handler's configuration file *)
Definition not_cfg_notif (cp : option str) (n : notif) : Prop :=
  forall e path nc, n = NEvent e path nc -> cp <> Some path.

Lemma no_cfg_event_cons cp n rest :
  no_cfg_event cp (n :: rest) -> not_cfg_notif cp n /\ no_cfg_event cp rest.
Proof.
  intros H. split.
  - intros e path nc ->. apply (H e path nc). left. reflexivity.
  - intros e path nc Hin. apply (H e path nc). right. exact Hin.
Qed.

Lemma no_cfg_event_app_l cp pre post : no_cfg_event cp (pre ++ post) -> no_cfg_event cp pre.
Proof. intros H e path nc Hin. apply (H e path nc). apply in_or_app. left. exact Hin. Qed.

(* ---------- the dispatched handler program ---------- *)

(* EVERY oracle.  [reload_post]: either the balance is exactly the change of
   what the handler holds, or an error is pending, the journal is the old one
   and at most one descriptor is left open (FdProofs: the directory descriptor
   of a failed load_linq, or the new queue's descriptor when the new journal
   cannot be opened).  Only a write event can take the second branch. *)
Lemma dispatch_of_fd self n h o w h1 w1 :
  dispatch_of self n h o w = (Some h1, w1) ->
  reload_post h h1 (fd_count w1 - fd_count w) w1 /\
  (top_of n = T_exec -> fd_count w1 - fd_count w = held h1 - held h) /\
  (not_cfg_notif (h_cfg_path h) n -> FdProofs.keeps h h1 (fd_count w1 - fd_count w)).
Proof.
  intros E.
  assert (Hret : forall (h0 : handler) (w0 : world), (Some h, w) = (Some h0, w0) ->
            reload_post h h0 (fd_count w0 - fd_count w) w0 /\
            (fd_count w0 - fd_count w = held h0 - held h) /\
            FdProofs.keeps h h0 (fd_count w0 - fd_count w)).
  { intros h0 w0 X. injection X as <- <-.
    replace (fd_count w - fd_count w) with 0 by lia.
    split; [left; lia|]. split; [lia|]. repeat split. }
  assert (Hkeeps : forall d, FdProofs.keeps h h1 d -> d = held h1 - held h).
  { intros d (-> & Hj & _). unfold held. rewrite Hj. lia. }
  destruct n as [|e path nc| | | | |w2]; cbn [dispatch_of] in E; unfold ret_ in E;
    try (destruct (Hret _ _ E) as (A & B & C); split; [exact A|]; split; [intros _; exact B|intros _; exact C]).
  unfold after_dispatch in E. cbn [top_of]. unfold disp_top.
  destruct (ev_exec e).
  - pose proof (fdr_elim _ _ (fdr_handle_open_exec (ev_pid e) path h) o w h1 w1 E) as K.
    split; [left; apply Hkeeps; exact K|]. split; [intros _; apply Hkeeps; exact K|intros _; exact K].
  - destruct (ev_write e && negb (N.eqb (ev_pid e) self)).
    + split; [|split; [intros X; discriminate X|]].
      * pose proof (fdj_elim _ _ _ (fdj_handle_close_write (ev_pid e) path nc h) o w I) as K.
        rewrite E in K. exact K.
      * intros Hn.
        assert (Hp : forall cp, h_cfg_path h = Some cp -> str_eqb path cp = false).
        { intros cp Ecp. destruct (str_eqb_spec path cp) as [->|]; [|reflexivity].
          exfalso. exact (Hn e cp nc eq_refl Ecp). }
        exact (fdr_elim _ _ (fdr_handle_close_write_plain (ev_pid e) path nc h Hp) o w h1 w1 E).
    + unfold ret_ in E. destruct (Hret _ _ E) as (A & B & C).
      split; [exact A|]. split; [intros X; discriminate X|intros _; exact C].
Qed.

(* the handler a verdict carries *)
Definition vh (v : verdict) : handler := match v with Stop _ h => h | Next _ _ h => h end.

Lemma keeps_trans h h1 h2 d1 d2 :
  FdProofs.keeps h h1 d1 -> FdProofs.keeps h1 h2 d2 -> FdProofs.keeps h h2 (d1 + d2).
Proof. intros (-> & A1 & A2) (-> & B1 & B2). repeat split; congruence. Qed.

(* ---------- one iteration ---------- *)

(* EVERY oracle.  An iteration after which the loop goes on leaves [outside]
   exactly as it was.  An iteration in which the daemon stops too, unless it
   stops with the message of a WRITE event and an error on the trace: then at
   most one descriptor is left behind (the two paths of FdProofs). *)
Lemma iteration_fd self rev n h o w v w2 :
  is_env n = false -> iteration self rev n h o w = (Some v, w2) ->
  match v with
  | Next _ _ h2 => outside h2 w2 = outside h w
  | Stop outs h2 =>
      (okw w2 = true -> outside h2 w2 = outside h w) /\
      (~ In (OExit 1 (Some T_write)) outs -> outside h2 w2 = outside h w) /\
      0 <= outside h2 w2 - outside h w <= 1
  end /\
  (not_cfg_notif (h_cfg_path h) n -> FdProofs.keeps h (vh v) (fd_count w2 - fd_count w)).
Proof.
  intros Hn E. unfold outside.
  destruct (iteration_cases _ _ _ _ _ _ _ _ Hn E)
    as [(Hf & -> & ->)|(Hf & h1 & w1 & Ed & [(Hd & K & -> & ->)|(Hk & r & Et & ->)])].
  - (* the daemon exits without calling the handler *)
    split; [split; [intros _; lia|split; [intros _; lia|lia]]|].
    intros _. cbn [vh]. replace (fd_count w - fd_count w) with 0 by lia. repeat split.
  - (* the dispatched program left an error *)
    destruct (dispatch_of_fd _ _ _ _ _ _ _ Ed) as (A & B & C). cbn [vh]. split; [|exact C].
    split; [intros K'; rewrite K in K'; discriminate K'|].
    split.
    + intros Hni.
      assert (Ht : top_of n = T_exec).
      { destruct n as [|e path nc| | | | |w3]; try reflexivity. cbn [top_of]. unfold disp_top.
        destruct (ev_exec e) eqn:Ex; [reflexivity|]. exfalso. apply Hni.
        apply in_or_app. right. left. cbn [top_of]. unfold disp_top. rewrite Ex. reflexivity. }
      specialize (B Ht). lia.
    + destruct A as [A|(_ & Hj & A)]; [lia|]. unfold held. rewrite Hj. lia.
  - (* dispatch, then the pass *)
    destruct (dispatch_of_fd _ _ _ _ _ _ _ Ed) as (A & _ & C).
    pose proof (fdr_elim _ _ (fdr_handle_timeout rev h1) o w1 r w2 Et) as T. cbv beta in T.
    assert (A' : fd_count w1 - fd_count w = held h1 - held h).
    { destruct A as [A|(Hnk & _ & _)]; [exact A|].
      destruct (dispatched_n self n) eqn:Hd.
      - exfalso. specialize (Hk eq_refl). unfold notok in Hnk. unfold okw in Hk. congruence.
      - (* nothing was dispatched: handler and world are those of the loop head *)
        rewrite (not_dispatched _ _ _ _ _ Hd) in Ed. injection Ed as <- <-. lia. }
    assert (T' : fd_count w2 - fd_count w1 = 0 /\ held (snd r) = held h1).
    { destruct T as (T1 & T2 & _). split; [exact T1|]. unfold held. rewrite T2. reflexivity. }
    destruct T' as [T1 T2].
    assert (X : fd_count w2 - held (snd r) = fd_count w - held h) by lia.
    split.
    + destruct (fst r) as [z|]; [exact X|]. split; [intros _; exact X|]. split; [intros _; exact X|lia].
    + intros Hnc. specialize (C Hnc).
      replace (fd_count w2 - fd_count w) with ((fd_count w1 - fd_count w) + (fd_count w2 - fd_count w1)) by lia.
      assert (Ev : vh match fst r with
                      | TPause z => Next (event_outs self n ++ [OTimeout]) z (snd r)
                      | TError => Stop (event_outs self n ++ [OTimeout; OExit 1 (Some T_timeout)]) (snd r)
                      end = snd r) by (destruct (fst r); reflexivity).
      rewrite Ev. exact (keeps_trans _ _ _ _ _ C T).
Qed.

(* ---------- the environment ---------- *)

(* [NEnv w2] replaces the whole world, call log included; the descriptor
   table of the daemon is not something the environment can change.  Along
   the run: each NEnv world has the count of the world it replaces. *)
Fixpoint envs_keep_fd (self : N) (rev : bool) (o : oracle) (ns : list notif) (h : handler) (w : world) : Prop :=
  match ns with
  | [] => True
  | NEnv w2 :: rest => fd_count w2 = fd_count w /\ envs_keep_fd self rev o rest h w2
  | n :: rest =>
      match iteration self rev n h o w with
      | (Some (Next _ _ h'), w') => envs_keep_fd self rev o rest h' w'
      | _ => True
      end
  end.

(* the static form: every NEnv world has count c *)
Definition envs_fd (c : Z) (ns : list notif) : Prop :=
  forall w2, In (NEnv w2) ns -> fd_count w2 = c.

Lemma envs_keep_fd_cons self rev o n rest h w :
  is_env n = false ->
  envs_keep_fd self rev o (n :: rest) h w =
  match iteration self rev n h o w with
  | (Some (Next _ _ h'), w') => envs_keep_fd self rev o rest h' w'
  | _ => True
  end.
Proof. intros Hn. destruct n; try discriminate Hn; reflexivity. Qed.

Lemma envs_keep_fd_app_l self rev o pre : forall post h w,
  envs_keep_fd self rev o (pre ++ post) h w -> envs_keep_fd self rev o pre h w.
Proof.
  induction pre as [|n pre IH]; intros post h w H; [exact I|].
  destruct (is_env n) eqn:Hn.
  - destruct n; try discriminate Hn. cbn [app envs_keep_fd] in *. destruct H as [H1 H2].
    split; [exact H1|exact (IH _ _ _ H2)].
  - cbn [app] in H. rewrite (envs_keep_fd_cons _ _ _ _ _ _ _ Hn) in H.
    rewrite (envs_keep_fd_cons _ _ _ _ _ _ _ Hn).
    destruct (iteration self rev n h o w) as [[[outs1 h1|outs1 z h1]|] w1]; try exact I.
    exact (IH _ _ _ H).
Qed.

Lemma envs_fd_cons c n rest : envs_fd c (n :: rest) -> envs_fd c rest.
Proof. intros H w2 Hin. apply H. right. exact Hin. Qed.

(* without a write of the configuration file the count itself never moves, so
   the static form implies the form along the run *)
Lemma envs_fd_keep self rev o : forall ns h w,
  no_cfg_event (h_cfg_path h) ns -> envs_fd (fd_count w) ns -> envs_keep_fd self rev o ns h w.
Proof.
  induction ns as [|n rest IH]; intros h w Hc He; [exact I|].
  destruct (no_cfg_event_cons _ _ _ Hc) as [Hc1 Hc2].
  destruct (is_env n) eqn:Hn.
  - destruct n as [| | | | | |w2]; try discriminate Hn. cbn [envs_keep_fd].
    assert (E2 : fd_count w2 = fd_count w) by (apply He; left; reflexivity).
    split; [exact E2|]. apply IH; [exact Hc2|]. rewrite E2. exact (envs_fd_cons _ _ _ He).
  - rewrite (envs_keep_fd_cons _ _ _ _ _ _ _ Hn).
    destruct (iteration self rev n h o w) as [[[outs1 h1|outs1 z h1]|] w1] eqn:Ei; try exact I.
    destruct (iteration_fd _ _ _ _ _ _ _ _ Hn Ei) as [_ K]. destruct (K Hc1) as (K1 & K2 & K3). cbn [vh] in *.
    apply IH; [rewrite K3; exact Hc2|].
    replace (fd_count w1) with (fd_count w) by lia. exact (envs_fd_cons _ _ _ He).
Qed.

(* ---------- the loop ---------- *)

(* DAEMON_DESCRIPTORS_CONSTANT.  EVERY oracle, handler, world, and ANY list of
   notifications (events of every kind, wake-ups, rewrites of the configuration
   file with reloads, poll / read failures, moves of the environment that keep
   the descriptor table): whatever daemon_loop returns with a result -- it went
   through all the notifications, or it stopped at one --
     (a) when no error is pending at the end, and
     (b) when it did not stop with the message of a write event,
   the number of descriptors open outside the handler is what it was at the
   start, whatever the number of notifications; in any case it grew by at most
   ONE: the two daemon-stopping error paths of FdProofs (FdExample.load_linq_leak,
   FdExample.reload_leak), both inside the reload of a write event of the
   configuration file, after which main.c exits.
   (d) without a write of the configuration file the count itself, the journal
   handle and the configuration path are unchanged. *)
Theorem daemon_descriptors_constant (self : N) (rev : bool) (o : oracle) :
  forall (ns : list notif) (pause : Z) (h : handler) (w : world) outs h' w',
  envs_keep_fd self rev o ns h w ->
  daemon_loop self rev ns pause h o w = (Some (outs, h'), w') ->
  (okw w' = true -> fd_count w' - held h' = fd_count w - held h) /\
  (~ In (OExit 1 (Some T_write)) outs -> fd_count w' - held h' = fd_count w - held h) /\
  0 <= (fd_count w' - held h') - (fd_count w - held h) <= 1 /\
  (no_cfg_event (h_cfg_path h) ns ->
   fd_count w' = fd_count w /\ h_journal h' = h_journal h /\ h_cfg_path h' = h_cfg_path h).
Proof.
  induction ns as [|n rest IH]; intros pause h w outs h' w' He E.
  - rewrite daemon_loop_nil in E. injection E as _ <- <-.
    split; [intros _; lia|]. split; [intros _; lia|]. split; [lia|]. intros _. repeat split.
  - destruct (is_env n) eqn:Hn.
    + destruct n as [| | | | | |w2]; try discriminate Hn. rewrite daemon_loop_env in E.
      cbn [envs_keep_fd] in He. destruct He as [E2 He].
      destruct (IH _ _ _ _ _ _ He E) as (A & B & C & D). rewrite E2 in *.
      split; [exact A|]. split; [exact B|]. split; [exact C|].
      intros Hc. apply D. exact (proj2 (no_cfg_event_cons _ _ _ Hc)).
    + rewrite (envs_keep_fd_cons _ _ _ _ _ _ _ Hn) in He.
      rewrite (daemon_loop_cons _ _ _ _ _ _ _ _ Hn) in E.
      destruct (iteration self rev n h o w) as [[v|] w1] eqn:Ei; [|discriminate E].
      destruct (iteration_fd _ _ _ _ _ _ _ _ Hn Ei) as [Hv Hk]. unfold outside in Hv.
      destruct v as [outs1 h1|outs1 z h1]; cbn [vh] in Hk.
      * injection E as <- <- <-. destruct Hv as (A & B & C).
        split; [exact A|]. split; [intros Hni; apply B; intros Hin; apply Hni; right; exact Hin|].
        split; [exact C|]. intros Hc. destruct (Hk (proj1 (no_cfg_event_cons _ _ _ Hc))) as (K1 & K2 & K3).
        split; [lia|]. split; assumption.
      * destruct (daemon_loop self rev rest z h1 o w1) as [[[outs2 h2]|] w3] eqn:Er; [|discriminate E].
        injection E as <- <- <-. cbn [fst snd].
        destruct (IH _ _ _ _ _ _ He Er) as (A & B & C & D).
        split; [intros K; specialize (A K); lia|].
        split.
        { intros Hni. assert (Hni2 : ~ In (OExit 1 (Some T_write)) outs2).
          { intros Hin. apply Hni. right. apply in_or_app. right. exact Hin. }
          specialize (B Hni2). lia. }
        split; [lia|].
        intros Hc. destruct (no_cfg_event_cons _ _ _ Hc) as [Hc1 Hc2].
        destruct (Hk Hc1) as (K1 & K2 & K3). rewrite <- K3 in Hc2. destruct (D Hc2) as (D1 & D2 & D3).
        split; [lia|]. split; congruence.
Qed.
Print Assumptions daemon_descriptors_constant.

(* the count itself: no write of the configuration file among the
   notifications, and every NEnv world has the count of the initial world (a
   predicate on ns).  No exception: without a reload nothing is left behind,
   whether the daemon stops or not, and what the handler holds does not change
   (2 with a journal: queue directory + journal, 1 without). *)
Theorem daemon_descriptors_constant_plain (self : N) (rev : bool) (o : oracle)
        (ns : list notif) (pause : Z) (h : handler) (w : world) outs h' w' :
  no_cfg_event (h_cfg_path h) ns -> envs_fd (fd_count w) ns ->
  daemon_loop self rev ns pause h o w = (Some (outs, h'), w') ->
  fd_count w' = fd_count w /\ h_journal h' = h_journal h /\ held h' = held h /\
  forall o2 r w2, free_handler h' o2 w' = (Some r, w2) -> fd_count w2 = fd_count w - held h.
Proof.
  intros Hc He E.
  destruct (daemon_descriptors_constant self rev o ns pause h w outs h' w' (envs_fd_keep _ _ _ _ _ _ Hc He) E)
    as (_ & _ & _ & D). destruct (D Hc) as (D1 & D2 & _).
  assert (Hh : held h' = held h) by (unfold held; rewrite D2; reflexivity).
  split; [exact D1|]. split; [exact D2|]. split; [exact Hh|].
  intros o2 r w2 Ef. pose proof (fdr_elim _ _ (fdr_free_handler h') o2 w' r w2 Ef) as F. cbv beta in F. lia.
Qed.
Print Assumptions daemon_descriptors_constant_plain.

(* ---------- every loop head ---------- *)

(* at the loop head reached after ANY number of notifications the descriptors
   outside the handler are those of the start (daemon_state: the state at the
   loop head after a prefix that was gone through without exit) *)
Theorem daemon_heads_descriptors (self : N) (rev : bool) (o : oracle) :
  forall (ns : list notif) (pause : Z) (h : handler) (w : world) z hp wp,
  envs_keep_fd self rev o ns h w ->
  daemon_state self rev o ns pause h w = Some (z, hp, wp) ->
  fd_count wp - held hp = fd_count w - held h /\
  (no_cfg_event (h_cfg_path h) ns ->
   fd_count wp = fd_count w /\ h_journal hp = h_journal h /\ h_cfg_path hp = h_cfg_path h).
Proof.
  induction ns as [|n rest IH]; intros pause h w z hp wp He E.
  - cbn [daemon_state] in E. injection E as _ <- <-. split; [reflexivity|]. intros _. repeat split.
  - destruct (is_env n) eqn:Hn.
    + destruct n as [| | | | | |w2]; try discriminate Hn. cbn [daemon_state] in E.
      cbn [envs_keep_fd] in He. destruct He as [E2 He].
      destruct (IH _ _ _ _ _ _ He E) as (A & D). rewrite E2 in *. split; [exact A|].
      intros Hc. apply D. exact (proj2 (no_cfg_event_cons _ _ _ Hc)).
    + rewrite (envs_keep_fd_cons _ _ _ _ _ _ _ Hn) in He.
      rewrite (daemon_state_cons _ _ _ _ _ _ _ _ Hn) in E.
      destruct (iteration self rev n h o w) as [[[outs1 h1|outs1 z1 h1]|] w1] eqn:Ei; try discriminate E.
      destruct (iteration_fd _ _ _ _ _ _ _ _ Hn Ei) as [Hv Hk]. unfold outside in Hv. cbn [vh] in Hk.
      destruct (IH _ _ _ _ _ _ He E) as (A & D). split; [lia|].
      intros Hc. destruct (no_cfg_event_cons _ _ _ Hc) as [Hc1 Hc2].
      destruct (Hk Hc1) as (K1 & K2 & K3). rewrite <- K3 in Hc2. destruct (D Hc2) as (D1 & D2 & D3).
      split; [lia|]. split; congruence.
Qed.
Print Assumptions daemon_heads_descriptors.

(* ---------- the whole program ---------- *)

Lemma load_handler_held cfg cp cpl o w h w1 :
  load_handler cfg cp cpl o w = (Some (Some h), w1) ->
  held h = 1 + jcount cfg /\ fd_count w1 = fd_count w + 1 + jcount cfg /\ h_cfg_path h = cp.
Proof.
  intros E. destruct (load_handler_fd _ _ _ _ _ _ _ E) as [A B].
  pose proof (fdr_elim _ _ (fdr_load_handler cfg cp cpl) o w _ w1 E) as (_ & _ & C).
  unfold jcount. split; [lia|]. split; [exact A|exact C].
Qed.

(* KLUNOK_DESCRIPTORS.  EVERY oracle, environment, configuration, world and
   notification list.  Whenever the whole program returns:
   - start-up failed: the world is untouched;
   - load_handler failed (main.c exits): at most one descriptor is left (the
     directory descriptor of a failed load_linq: FdExample.load_linq_leak);
   - otherwise load_handler acquired exactly what the handler holds: the queue
     directory and, iff a journal is configured, the journal (2 or 1), and then,
     if the environment keeps the descriptor table:
       * at EVERY loop head, after any number of notifications, the descriptors
         not owned by the handler are those of the initial world;
       * at the end the same, unless the daemon stopped on a failed reload
         (error pending AND exit message of a write event): then at most one
         more;
       * free_handler on the final handler gives back everything: the count
         of the initial world (at most one more on that same path). *)
Theorem klunok_descriptors (env : Main.env) (cfg : config) (rev : bool) (ns : list notif)
        (o : oracle) (w : world) outs w' :
  klunok env cfg rev ns o w = (Some outs, w') ->
  (snd (startup env) = None /\ w' = w) \/
  exists pre cfgp cpl u g k,
    startup env = (pre, Some (cfgp, cpl, u, g, k)) /\
    ((load_handler cfg cfgp cpl o w = (Some None, w') /\
      outs = pre ++ [OLoad cfgp cpl u g k; OExit 1 (Some T_load)] /\
      fd_count w <= fd_count w' <= fd_count w + 1)
     \/
     exists h w1 outs2 h',
       load_handler cfg cfgp cpl o w = (Some (Some h), w1) /\
       daemon_loop (e_self env) rev ns 0 h o w1 = (Some (outs2, h'), w') /\
       outs = pre ++ OLoad cfgp cpl u g k :: outs2 /\
       h_cfg_path h = cfgp /\
       held h = 1 + jcount cfg /\ fd_count w1 = fd_count w + 1 + jcount cfg /\
       (envs_keep_fd (e_self env) rev o ns h w1 ->
        (forall pre_ns post z hp wp, ns = pre_ns ++ post ->
           daemon_state (e_self env) rev o pre_ns 0 h w1 = Some (z, hp, wp) ->
           fd_count wp - held hp = fd_count w) /\
        (okw w' = true -> fd_count w' - held h' = fd_count w) /\
        (~ In (OExit 1 (Some T_write)) outs -> fd_count w' - held h' = fd_count w) /\
        fd_count w <= fd_count w' - held h' <= fd_count w + 1 /\
        forall o2 r w2, free_handler h' o2 w' = (Some r, w2) ->
          (okw w' = true \/ ~ In (OExit 1 (Some T_write)) outs -> fd_count w2 = fd_count w) /\
          fd_count w <= fd_count w2 <= fd_count w + 1)).
Proof.
  intros E. unfold klunok in E. destruct (startup env) as [pre [a|]] eqn:Es.
  2:{ left. unfold ret_ in E. injection E as _ <-. split; reflexivity. }
  right. destruct a as [[[[c cpl] u] g] k]. exists pre, c, cpl, u, g, k. split; [reflexivity|].
  rewrite run_loaded_run in E.
  destruct (load_handler cfg c cpl o w) as [[[h|]|] w1] eqn:El; [| |discriminate E].
  2:{ left. injection E as <- <-. split; [reflexivity|]. split; [reflexivity|].
      exact (load_handler_fail_fd _ _ _ _ _ _ El). }
  right.
  destruct (daemon_loop (e_self env) rev ns 0 h o w1) as [[[outs2 h2]|] w2] eqn:Ed; [|discriminate E].
  injection E as <- <-. cbn [fst].
  destruct (load_handler_held _ _ _ _ _ _ _ El) as (Hh & Hc & Hp).
  exists h, w1, outs2, h2. split; [reflexivity|]. split; [exact Ed|]. split; [reflexivity|].
  split; [exact Hp|]. split; [exact Hh|]. split; [exact Hc|].
  intros He.
  destruct (daemon_descriptors_constant _ _ _ _ _ _ _ _ _ _ He Ed) as (A & B & C & _).
  assert (B' : ~ In (OExit 1 (Some T_write)) (pre ++ OLoad c cpl u g k :: outs2) ->
               fd_count w2 - held h2 = fd_count w).
  { intros Hni. rewrite B; [lia|]. intros Hin. apply Hni. apply in_or_app. right. right. exact Hin. }
  split.
  { intros pre_ns post z hp wp -> Est.
    destruct (daemon_heads_descriptors _ _ _ _ _ _ _ _ _ _ (envs_keep_fd_app_l _ _ _ _ _ _ _ He) Est) as [X _]. lia. }
  split; [intros K; specialize (A K); lia|]. split; [exact B'|]. split; [lia|].
  intros o2 r w3 Ef. pose proof (fdr_elim _ _ (fdr_free_handler h2) o2 w2 r w3 Ef) as F. cbv beta in F.
  split; [|lia]. intros [K|Hni]; [specialize (A K); lia|specialize (B' Hni); lia].
Qed.
Print Assumptions klunok_descriptors.

(* the count itself, without a write of the configuration file among the
   notifications and with NEnv worlds that have the count load_handler left
   (a predicate on ns): after start-up and load, at EVERY loop head and at the
   end -- whether the daemon stopped or not -- the count is what load_handler
   left, the count of the initial world + 2 with a journal configured (+ 1
   without); and free_handler returns to the count of the initial world. *)
Theorem klunok_descriptors_plain (env : Main.env) (cfg : config) (rev : bool) (ns : list notif)
        (o : oracle) (w : world) outs w' pre cfgp cpl u g k :
  klunok env cfg rev ns o w = (Some outs, w') ->
  startup env = (pre, Some (cfgp, cpl, u, g, k)) ->
  no_cfg_event cfgp ns -> envs_fd (fd_count w + 1 + jcount cfg) ns ->
  (load_handler cfg cfgp cpl o w = (Some None, w') /\ fd_count w <= fd_count w' <= fd_count w + 1)
  \/
  exists h w1 outs2 h',
    load_handler cfg cfgp cpl o w = (Some (Some h), w1) /\
    daemon_loop (e_self env) rev ns 0 h o w1 = (Some (outs2, h'), w') /\
    outs = pre ++ OLoad cfgp cpl u g k :: outs2 /\
    fd_count w1 = fd_count w + 1 + jcount cfg /\
    (forall pre_ns post z hp wp, ns = pre_ns ++ post ->
       daemon_state (e_self env) rev o pre_ns 0 h w1 = Some (z, hp, wp) ->
       fd_count wp = fd_count w + 1 + jcount cfg /\ held hp = 1 + jcount cfg) /\
    fd_count w' = fd_count w + 1 + jcount cfg /\ held h' = 1 + jcount cfg /\
    forall o2 r w2, free_handler h' o2 w' = (Some r, w2) -> fd_count w2 = fd_count w.
Proof.
  intros E Es Hc He.
  destruct (klunok_descriptors env cfg rev ns o w outs w' E) as [[X _]|X].
  { rewrite Es in X. discriminate X. }
  destruct X as (pre0 & c0 & cpl0 & u0 & g0 & k0 & Es0 & X). rewrite Es in Es0.
  injection Es0 as <- <- <- <- <- <-.
  destruct X as [(El & _ & B)|(h & w1 & outs2 & h2 & El & Ed & Eo & Hp & Hh & Hw1 & _)]; [left; split; assumption|].
  right. exists h, w1, outs2, h2. split; [exact El|]. split; [exact Ed|]. split; [exact Eo|]. split; [exact Hw1|].
  rewrite <- Hp in Hc. rewrite <- Hw1 in He.
  assert (Hk : envs_keep_fd (e_self env) rev o ns h w1) by (apply envs_fd_keep; assumption).
  split.
  { intros pre_ns post z hp wp -> Est.
    destruct (daemon_heads_descriptors _ _ _ _ _ _ _ _ _ _ (envs_keep_fd_app_l _ _ _ _ _ _ _ Hk) Est) as [_ D].
    destruct (D (no_cfg_event_app_l _ _ _ Hc)) as (D1 & D2 & _).
    split; [lia|]. unfold held in *. rewrite D2. exact Hh. }
  destruct (daemon_descriptors_constant_plain _ _ _ _ _ _ _ _ _ _ Hc He Ed) as (A1 & _ & A3 & A4).
  split; [lia|]. split; [lia|].
  intros o2 r w3 Ef. specialize (A4 o2 r w3 Ef). lia.
Qed.
Print Assumptions klunok_descriptors_plain.

(* ====================================================================== *)
(* Part 2: the journal is only ever appended to                            *)
(* ====================================================================== *)

(* the bytes of inode i *)
Definition jbytes (w : world) (i : nat) : str := f_bytes (get_file (w_fs w) i).

(* The notification brings no effective reload: it is not a write of the
   configuration file, or the content does not parse (JournalHistoryProofs.quiet) *)
Definition quiet_notif (cp : option str) (n : notif) : Prop :=
  match n with
  | NEvent _ path nc => nc = None \/ cp <> Some path
  | _ => True
  end.

Lemma no_cfg_event_quiet cp ns : no_cfg_event cp ns -> Forall (quiet_notif cp) ns.
Proof.
  intros H. apply Forall_forall. intros n Hin. destruct n as [|e path nc| | | | |w2]; try exact I.
  right. exact (H e path nc Hin).
Qed.

(* The environment leaves the journal file alone.  Static form (a predicate on
   ns): in every NEnv world the journal inode is still allocated, no name below
   the offset root leads to it (jsep), and its content still starts with b0 --
   in particular when the environment did not touch the file at all, since the
   daemon itself only appended to it up to then. *)
Definition envs_journal (c : config) (j : nat) (b0 : str) (ns : list notif) : Prop :=
  forall w2, In (NEnv w2) ns -> JI c j (is_prefix b0) (w_fs w2).

(* ---------- one iteration, EVERY oracle ---------- *)

Lemma jstep_timeout rev h o w :
  jstep (JTimeout rev) h o w =
  match handle_timeout rev h o w with
  | (Some r, w1) => (Some (snd r), w1)
  | (None, w1) => (None, w1)
  end.
Proof. cbn [jstep]. unfold bind. destruct (handle_timeout rev h o w) as [[r|] w1]; reflexivity. Qed.

Lemma dispatch_of_journal (o : oracle) c jn cp b0 self n h w :
  joff_ok c -> HJ c jn cp h -> quiet_notif cp n ->
  JI c (j_ino jn) (is_prefix b0) (w_fs w) ->
  match dispatch_of self n h o w with
  | (Some h1, w1) => JI c (j_ino jn) (is_prefix b0) (w_fs w1) /\ HJ c jn cp h1
  | (None, w1) => JI c (j_ino jn) (is_prefix b0) (w_fs w1)
  end.
Proof.
  intros HC Hh Hq HI.
  destruct n as [|e path nc| | | | |w2]; cbn [dispatch_of]; unfold ret_; try (split; assumption).
  unfold after_dispatch. destruct (ev_exec e).
  - exact (jstep_prefix_inv o c jn cp b0 (JExec (ev_pid e) path) h w HC Hh I HI).
  - destruct (ev_write e && negb (N.eqb (ev_pid e) self)).
    + exact (jstep_prefix_inv o c jn cp b0 (JWrite (ev_pid e) path nc) h w HC Hh Hq HI).
    + unfold ret_. split; assumption.
Qed.

Lemma iteration_journal (o : oracle) c jn cp b0 self rev n h w :
  joff_ok c -> HJ c jn cp h -> is_env n = false -> quiet_notif cp n ->
  JI c (j_ino jn) (is_prefix b0) (w_fs w) ->
  match iteration self rev n h o w with
  | (Some v, w1) => JI c (j_ino jn) (is_prefix b0) (w_fs w1) /\ HJ c jn cp (vh v)
  | (None, w1) => JI c (j_ino jn) (is_prefix b0) (w_fs w1)
  end.
Proof.
  intros HC Hh Hn Hq HI. rewrite (iteration_run _ _ _ _ _ _ Hn).
  destruct (fatal n); [cbn [vh]; split; assumption|].
  pose proof (dispatch_of_journal o c jn cp b0 self n h w HC Hh Hq HI) as Hd.
  destruct (dispatch_of self n h o w) as [[h1|] w1]; [|exact Hd]. destruct Hd as [HI1 Hh1].
  destruct (negb (dispatched_n self n) || okw w1); [|cbn [vh]; split; assumption].
  rewrite service_run.
  pose proof (jstep_prefix_inv o c jn cp b0 (JTimeout rev) h1 w1 HC Hh1 I HI1) as Ht.
  rewrite jstep_timeout in Ht.
  destruct (handle_timeout rev h1 o w1) as [[[[z|] h2]|] w2]; cbn [snd vh] in *; exact Ht.
Qed.

(* ---------- the loop ---------- *)

(* The environment along the run: each NEnv world either satisfies the static
   condition, or LEAVES THE JOURNAL ALONE relative to the world it replaces:
   the inode is still separated from the offset root and its bytes are those
   it had (or those followed by more: another process may append too). *)
Fixpoint envs_journal_along (self : N) (rev : bool) (o : oracle) (c : config) (j : nat) (b0 : str)
         (ns : list notif) (h : handler) (w : world) : Prop :=
  match ns with
  | [] => True
  | NEnv w2 :: rest =>
      (JI c j (is_prefix b0) (w_fs w2) \/ (jsep c j (w_fs w2) /\ is_prefix (jbytes w j) (jbytes w2 j))) /\
      envs_journal_along self rev o c j b0 rest h w2
  | n :: rest =>
      match iteration self rev n h o w with
      | (Some (Next _ _ h'), w') => envs_journal_along self rev o c j b0 rest h' w'
      | _ => True
      end
  end.

Lemma envs_journal_along_cons self rev o c j b0 n rest h w :
  is_env n = false ->
  envs_journal_along self rev o c j b0 (n :: rest) h w =
  match iteration self rev n h o w with
  | (Some (Next _ _ h'), w') => envs_journal_along self rev o c j b0 rest h' w'
  | _ => True
  end.
Proof. intros Hn. destruct n; try discriminate Hn; reflexivity. Qed.

Lemma envs_journal_static self rev o c j b0 : forall ns h w,
  envs_journal c j b0 ns -> envs_journal_along self rev o c j b0 ns h w.
Proof.
  induction ns as [|n rest IH]; intros h w He; [exact I|].
  assert (He' : envs_journal c j b0 rest) by (intros w2 Hin; apply He; right; exact Hin).
  destruct (is_env n) eqn:Hn.
  - destruct n as [| | | | | |w2]; try discriminate Hn. cbn [envs_journal_along].
    split; [left; apply He; left; reflexivity|apply IH; exact He'].
  - rewrite (envs_journal_along_cons _ _ _ _ _ _ _ _ _ _ Hn).
    destruct (iteration self rev n h o w) as [[[outs1 h1|outs1 z h1]|] w1]; try exact I. apply IH. exact He'.
Qed.

Lemma is_prefix_trans a b c : is_prefix a b -> is_prefix b c -> is_prefix a c.
Proof. intros [s ->] [t ->]. exists (s ++ t). rewrite app_assoc. reflexivity. Qed.

Lemma daemon_journal_inv (self : N) (rev : bool) (o : oracle) c jn cp b0 : joff_ok c ->
  forall (ns : list notif) (pause : Z) (h : handler) (w : world),
  HJ c jn cp h -> Forall (quiet_notif cp) ns -> envs_journal_along self rev o c (j_ino jn) b0 ns h w ->
  JI c (j_ino jn) (is_prefix b0) (w_fs w) ->
  match daemon_loop self rev ns pause h o w with
  | (Some t, w') => JI c (j_ino jn) (is_prefix b0) (w_fs w') /\ HJ c jn cp (snd t)
  | (None, w') => JI c (j_ino jn) (is_prefix b0) (w_fs w')
  end.
Proof.
  intros HC. induction ns as [|n rest IH]; intros pause h w Hh Hq He HI.
  - rewrite daemon_loop_nil. cbn [snd]. split; assumption.
  - inversion Hq as [|? ? Hq1 Hq2]; subst.
    destruct (is_env n) eqn:Hn.
    + destruct n as [| | | | | |w2]; try discriminate Hn. rewrite daemon_loop_env.
      cbn [envs_journal_along] in He. destruct He as [He1 He2].
      apply IH; [exact Hh|exact Hq2|exact He2|].
      destruct He1 as [X|[S2 P2]]; [exact X|]. split; [exact S2|].
      destruct HI as [_ P1]. exact (is_prefix_trans _ _ _ P1 P2).
    + rewrite (daemon_loop_cons _ _ _ _ _ _ _ _ Hn).
      rewrite (envs_journal_along_cons _ _ _ _ _ _ _ _ _ _ Hn) in He.
      pose proof (iteration_journal o c jn cp b0 self rev n h w HC Hh Hn Hq1 HI) as Hi.
      destruct (iteration self rev n h o w) as [[[outs1 h1|outs1 z h1]|] w1]; cbn [vh] in Hi.
      * cbn [snd]. exact Hi.
      * destruct Hi as [HI1 Hh1]. specialize (IH z h1 w1 Hh1 Hq2 He HI1).
        destruct (daemon_loop self rev rest z h1 o w1) as [[t|] w2]; cbn [snd]; exact IH.
      * exact Hi.
Qed.

(* DAEMON_JOURNAL_APPEND_ONLY.  EVERY oracle (failing calls, short writes, a
   crash at any call), every notification list without an effective reload
   (a write of the configuration file whose content parses), interleaved in any
   way with moves of the environment that leave the journal file alone:
   whatever the run of the loop returns -- it went through all the
   notifications, it stopped (poll / read failure, an error left by a handler
   program), or the process died at a call (r = None) -- the bytes the journal
   file had at the start are a prefix of its bytes at the end; the file is
   still separated from the offset root, and a surviving handler still holds
   the same journal. *)
Theorem daemon_journal_append_only_gen (self : N) (rev : bool) (o : oracle)
        (ns : list notif) (pause : Z) (h : handler) (w : world) (jn : journal) r w' :
  h_journal h = Some jn -> joff_ok (h_cfg h) -> jsep (h_cfg h) (j_ino jn) (w_fs w) ->
  Forall (quiet_notif (h_cfg_path h)) ns ->
  envs_journal_along self rev o (h_cfg h) (j_ino jn) (jbytes w (j_ino jn)) ns h w ->
  daemon_loop self rev ns pause h o w = (r, w') ->
  (exists s, jbytes w' (j_ino jn) = jbytes w (j_ino jn) ++ s) /\
  jsep (h_cfg h) (j_ino jn) (w_fs w') /\
  (forall outs h', r = Some (outs, h') ->
     h_journal h' = Some jn /\ h_cfg h' = h_cfg h /\ h_cfg_path h' = h_cfg_path h).
Proof.
  intros Ej HC Hs Hq He E.
  assert (Hh : HJ (h_cfg h) jn (h_cfg_path h) h) by (split; [reflexivity|split; [exact Ej|reflexivity]]).
  pose proof (daemon_journal_inv self rev o (h_cfg h) jn (h_cfg_path h) (jbytes w (j_ino jn)) HC
                ns pause h w Hh Hq He (conj Hs (is_prefix_refl _))) as X.
  rewrite E in X. destruct r as [t|].
  - destruct X as [[S P] (A1 & A2 & A3)]. split; [exact P|]. split; [exact S|].
    intros outs h' Et. injection Et as ->. cbn [snd] in *. auto.
  - destruct X as [S P]. split; [exact P|]. split; [exact S|]. intros outs h' Et. discriminate Et.
Qed.
Print Assumptions daemon_journal_append_only_gen.

Theorem daemon_journal_append_only (self : N) (rev : bool) (o : oracle)
        (ns : list notif) (pause : Z) (h : handler) (w : world) (jn : journal) r w' :
  h_journal h = Some jn -> joff_ok (h_cfg h) -> jsep (h_cfg h) (j_ino jn) (w_fs w) ->
  no_cfg_event (h_cfg_path h) ns ->
  envs_journal (h_cfg h) (j_ino jn) (jbytes w (j_ino jn)) ns ->
  daemon_loop self rev ns pause h o w = (r, w') ->
  exists s, jbytes w' (j_ino jn) = jbytes w (j_ino jn) ++ s.
Proof.
  intros Ej HC Hs Hc He E.
  exact (proj1 (daemon_journal_append_only_gen self rev o ns pause h w jn r w' Ej HC Hs
                  (no_cfg_event_quiet _ _ Hc) (envs_journal_static _ _ _ _ _ _ _ _ _ He) E)).
Qed.
Print Assumptions daemon_journal_append_only.

(* ---------- load_handler: "across restarts" ---------- *)

(* load_handler opens the journal with O_APPEND | O_CREAT after creating the
   parents of the queue directory and of the journal: when the journal path
   names a file at start-up, that file is the journal the handler gets, and
   nothing load_handler does changes a byte of it -- EVERY oracle, whether
   load_handler succeeds, fails, or the process dies in it. *)
Section LoadJournal.
Variables (cfg : config) (jp : str) (i : nat) (b0 : str).

Definition PL (f : fs) : Prop := lookup f jp = Some (NFile i) /\ JI cfg i (eq b0) f.

Lemma PL_add : cl_add PL.
Proof.
  intros f p n Hn [H1 H2]. split; [apply lookup_add_some; exact H1|apply JI_cl_add; assumption].
Qed.

Lemma PL_open p f : PL f -> PL (snd (fs_open_create p f)).
Proof.
  intros [H1 H2]. split; [|apply JI_open_create_any; exact H2].
  unfold fs_open_create, fs_create_excl. destruct (lookup f p) as [[| |]|]; cbn [snd]; try exact H1.
  destruct (parent_is_dir f p); cbn [snd]; [exact H1|]. apply lookup_app_some. exact H1.
Qed.

Lemma jt_open_journal_PL K t pat :
  jt K t PL (fun j => forall jn, j = Some jn -> j_ino jn = i) (open_journal (Some jp) pat).
Proof.
  unfold open_journal.
  eapply jt_bind; [apply jt_of_jok; apply jok_create_parents; exact PL_add|intros ? _].
  eapply jt_bind; [apply jt_of_jok; jk_with jleaf1|intros b _].
  destruct (negb b); [apply jt_ret; intros jn X; discriminate X|].
  eapply jt_bind with (R1 := fun r => forall d, r = inl d -> d = FdFile i).
  - unfold k_open_a. apply jt_open_gen; [intros e d X; discriminate X|].
    intros f Hf. split; [apply PL_open; exact Hf|].
    destruct Hf as [Hl _]. unfold fs_open_create. rewrite Hl. cbn [fst]. intros d X. injection X as <-. reflexivity.
  - intros r Hr. destruct r as [[k|d]|e].
    + apply jt_ret. intros jn X. injection X as <-. cbn [j_ino]. specialize (Hr _ eq_refl).
      injection Hr as ->. reflexivity.
    + apply jt_ret. intros jn X. discriminate X.
    + eapply jt_bind; [apply jt_of_jok; jk_with jleaf1|intros ? _]. apply jt_ret. intros jn X. discriminate X.
Qed.

Lemma jt_load_handler_PL K t cp cpl :
  c_journal_path cfg = Some jp ->
  jt K t PL (fun r => forall h jn, r = Some h -> h_journal h = Some jn -> j_ino jn = i)
     (load_handler cfg cp cpl).
Proof.
  intros Ejp. unfold load_handler. rewrite Ejp.
  eapply jt_bind; [apply jt_of_jok; jk_with jleaf1|intros ? _].
  eapply jt_bind; [apply jt_load_linq; exact PL_add|intros q _].
  eapply jt_bind; [apply jt_of_jok; jk_with jleaf1|intros ? _].
  eapply jt_bind; [apply jt_of_jok; jk_with jleaf1|intros ? _].
  eapply jt_bind; [apply jt_of_jok; jk_with jleaf1|intros ? _].
  eapply jt_bind; [apply jt_open_journal_PL|intros j Hj].
  eapply jt_bind; [apply jt_of_jok; jk_with jleaf1|intros ? _].
  eapply jt_bind; [apply jt_of_jok; jk_with jleaf1|intros ? _].
  eapply jt_bind; [apply jt_of_jok; jk_with jleaf1|intros b _].
  assert (Hfail : jt K t PL (fun r : option handler => forall h jn, r = Some h -> h_journal h = Some jn -> j_ino jn = i)
                    (match j with Some _ => k_close;; ret_ tt | None => ret_ tt end;;
                     match q with Some _ => k_close;; ret_ tt | None => ret_ tt end;;
                     ret_ None)).
  { eapply jt_bind; [apply jt_of_jok; destruct j; jk_with jleaf1|intros ? _].
    eapply jt_bind; [apply jt_of_jok; destruct q; jk_with jleaf1|intros ? _].
    apply jt_ret. intros h jn X. discriminate X. }
  destruct b; [|exact Hfail]. destruct q as [qm|]; [|exact Hfail].
  apply jt_ret. intros h jn X Y. injection X as <-. cbn [h_journal] in Y. exact (Hj jn Y).
Qed.

End LoadJournal.

Theorem load_handler_keeps_journal (o : oracle) cfg cp cpl w r w' jp i :
  c_journal_path cfg = Some jp -> lookup (w_fs w) jp = Some (NFile i) -> jsep cfg i (w_fs w) ->
  load_handler cfg cp cpl o w = (r, w') ->
  jbytes w' i = jbytes w i /\ jsep cfg i (w_fs w') /\ lookup (w_fs w') jp = Some (NFile i) /\
  forall h, r = Some (Some h) -> exists jn, h_journal h = Some jn /\ j_ino jn = i.
Proof.
  intros Ejp Hl Hs E.
  pose proof (jt_load_handler_PL cfg jp i (jbytes w i) oc_all (w_clock w) cp cpl Ejp o w I
                (conj (conj Hl (conj Hs eq_refl)) eq_refl)) as X.
  rewrite E in X. destruct r as [r|].
  - destruct X as [[[L [S B]] _] R]. split; [symmetry; exact B|]. split; [exact S|]. split; [exact L|].
    intros h X. injection X as ->. pose proof (fdr_elim _ _ (fdr_load_handler cfg cp cpl) o w _ w' E) as (_ & (N1 & _) & _).
    destruct (h_journal h) as [jn|] eqn:Ej.
    + exists jn. split; [reflexivity|]. exact (R h jn eq_refl Ej).
    + rewrite (N1 eq_refl) in Ejp. discriminate Ejp.
  - destruct X as [_ [[L [S B]] _]]. split; [symmetry; exact B|]. split; [exact S|]. split; [exact L|].
    intros h X. discriminate X.
Qed.
Print Assumptions load_handler_keeps_journal.

(* ---------- the whole program ---------- *)

(* the configuration path start-up hands to load_handler (-c), if start-up succeeds *)
Definition startup_cfg_path (env : Main.env) : option str :=
  match snd (startup env) with
  | Some (c, _, _, _, _) => c
  | None => None
  end.

(* KLUNOK_JOURNAL_APPEND_ONLY ("existing journal content is only ever appended
   to, across restarts").  The journal path of the configuration names a file
   (inode i) when the program starts; no name below the offset root leads to it
   (jsep: offset files are the only files klunok truncates).  EVERY oracle,
   environment, notification list without an effective reload, moves of the
   environment that leave the journal alone.  Whatever the whole program does --
   start-up fails, load_handler fails, the daemon runs through the
   notifications, stops on an error, or the process dies at any call, in
   load_handler or in the loop -- the bytes file i had when the program started
   are a prefix of the bytes it has at the end. *)
Theorem klunok_journal_append_only (env : Main.env) (cfg : config) (rev : bool) (ns : list notif)
        (o : oracle) (w : world) (jp : str) (i : nat) r w' :
  c_journal_path cfg = Some jp -> lookup (w_fs w) jp = Some (NFile i) ->
  joff_ok cfg -> jsep cfg i (w_fs w) ->
  Forall (quiet_notif (startup_cfg_path env)) ns ->
  envs_journal cfg i (jbytes w i) ns ->
  klunok env cfg rev ns o w = (r, w') ->
  (exists s, jbytes w' i = jbytes w i ++ s) /\ jsep cfg i (w_fs w').
Proof.
  intros Ejp Hl HC Hs Hq He E.
  assert (Hsame : forall w1, jbytes w1 i = jbytes w i -> exists s, jbytes w1 i = jbytes w i ++ s).
  { intros w1 ->. exists []. rewrite app_nil_r. reflexivity. }
  unfold klunok in E. unfold startup_cfg_path in Hq. destruct (startup env) as [pre [a|]] eqn:Es; cbn [snd] in Hq.
  2:{ unfold ret_ in E. injection E as _ <-. split; [apply Hsame; reflexivity|exact Hs]. }
  destruct a as [[[[c cpl] u] g] k]. rewrite run_loaded_run in E.
  destruct (load_handler cfg c cpl o w) as [rl w1] eqn:El.
  destruct (load_handler_keeps_journal o cfg c cpl w rl w1 jp i Ejp Hl Hs El) as (B1 & S1 & _ & J1).
  destruct rl as [[h|]|].
  - destruct (J1 h eq_refl) as (jn & Ej & Ei).
    destruct (load_handler_coherent o w cfg c cpl h w1 El) as (A1 & A2 & _).
    destruct (daemon_loop (e_self env) rev ns 0 h o w1) as [rd w2] eqn:Ed.
    assert (Ew : w2 = w') by (destruct rd; injection E as _ <-; reflexivity). subst w2.
    pose proof (daemon_journal_append_only_gen (e_self env) rev o ns 0 h w1 jn rd w') as G.
    rewrite A1, A2, Ei, B1 in G.
    destruct (G Ej HC S1 Hq (envs_journal_static _ _ _ _ _ _ _ _ _ He) Ed) as ([s P] & S2 & _).
    split; [exists s; exact P|exact S2].
  - injection E as _ <-. split; [apply Hsame; exact B1|exact S1].
  - injection E as _ <-. split; [apply Hsame; exact B1|exact S1].
Qed.
Print Assumptions klunok_journal_append_only.

(* with DaemonProofs.no_cfg_event *)
Corollary klunok_journal_append_only_no_cfg_event (env : Main.env) (cfg : config) (rev : bool)
          (ns : list notif) (o : oracle) (w : world) (jp : str) (i : nat) r w' :
  c_journal_path cfg = Some jp -> lookup (w_fs w) jp = Some (NFile i) ->
  joff_ok cfg -> jsep cfg i (w_fs w) ->
  no_cfg_event (startup_cfg_path env) ns ->
  envs_journal cfg i (jbytes w i) ns ->
  klunok env cfg rev ns o w = (r, w') ->
  exists s, jbytes w' i = jbytes w i ++ s.
Proof.
  intros Ejp Hl HC Hs Hc He E.
  exact (proj1 (klunok_journal_append_only env cfg rev ns o w jp i r w' Ejp Hl HC Hs
                  (no_cfg_event_quiet _ _ Hc) He E)).
Qed.
Print Assumptions klunok_journal_append_only_no_cfg_event.

(* ====================================================================== *)
(* Checkers for the side conditions on concrete notification lists         *)
(* ====================================================================== *)

Definition no_cfg_eventb (cp : option str) (ns : list notif) : bool :=
  forallb (fun n => match n, cp with
                    | NEvent _ path _, Some p => negb (str_eqb p path)
                    | _, _ => true
                    end) ns.

Lemma no_cfg_eventb_ok cp ns : no_cfg_eventb cp ns = true -> no_cfg_event cp ns.
Proof.
  unfold no_cfg_eventb. rewrite forallb_forall. intros H e path nc Hin X. specialize (H _ Hin).
  cbv beta iota in H. rewrite X in H. rewrite str_eqb_refl in H. discriminate H.
Qed.

Definition envs_fdb (c : Z) (ns : list notif) : bool :=
  forallb (fun n => match n with NEnv w2 => Z.eqb (fd_count w2) c | _ => true end) ns.

Lemma envs_fdb_ok c ns : envs_fdb c ns = true -> envs_fd c ns.
Proof.
  unfold envs_fdb. rewrite forallb_forall. intros H w2 Hin. specialize (H _ Hin).
  cbv beta iota in H. apply Z.eqb_eq. exact H.
Qed.

Definition prefixb (b0 b : str) : bool := str_eqb (firstn (length b0) b) b0.

Lemma prefixb_ok b0 b : prefixb b0 b = true -> is_prefix b0 b.
Proof.
  unfold prefixb. intros H. destruct (str_eqb_spec (firstn (length b0) b) b0) as [E|]; [|discriminate H].
  exists (skipn (length b0) b). rewrite <- E at 1. symmetry. apply firstn_skipn.
Qed.

Definition envs_journalb (c : config) (j : nat) (b0 : str) (ns : list notif) : bool :=
  forallb (fun n => match n with
                    | NEnv w2 => jsepb c j (w_fs w2) && prefixb b0 (jbytes w2 j)
                    | _ => true
                    end) ns.

Lemma envs_journalb_ok c j b0 ns : envs_journalb c j b0 ns = true -> envs_journal c j b0 ns.
Proof.
  unfold envs_journalb. rewrite forallb_forall. intros H w2 Hin. specialize (H _ Hin).
  cbv beta iota in H. apply andb_true_iff in H. destruct H as [H1 H2].
  split; [apply jsepb_ok; exact H1|apply prefixb_ok; exact H2].
Qed.

(* ====================================================================== *)
(* Concrete worlds                                                        *)
(* ====================================================================== *)

Module WholeExample.
  Import MixedExample.
  Local Open Scope char_scope.

  (* ---------- the loop: DaemonExample (exec of vim, two writes of /h/a, the
     daemon's own write, the clock moves to 106 s, a wake-up; journal /j =
     inode 1 holding "old\n"; oracle o2 cuts every transfer to 2 bytes) ---------- *)

  Lemma d_no_cfg : no_cfg_event (h_cfg_path hM) DaemonExample.ns.
  Proof. apply no_cfg_eventb_ok. vm_compute. reflexivity. Qed.

  Lemma d_envs_fd : envs_fd (fd_count wM) DaemonExample.ns.
  Proof. apply envs_fdb_ok. vm_compute. reflexivity. Qed.

  Example daemon_hyps_hold :
    no_cfg_event (h_cfg_path hM) DaemonExample.ns /\ envs_fd (fd_count wM) DaemonExample.ns /\
    envs_keep_fd DaemonExample.self false o2 DaemonExample.ns hM wM /\
    h_journal hM = Some jM /\ held hM = 2 /\ length DaemonExample.ns = 6%nat.
  Proof.
    split; [exact d_no_cfg|]. split; [exact d_envs_fd|].
    split; [apply envs_fd_keep; [exact d_no_cfg|exact d_envs_fd]|]. repeat split.
  Qed.

  (* through the theorems: six notifications later the count is that of wM,
     and the handler still holds two descriptors; releasing gives them back *)
  Example daemon_descriptors_by_theorem :
    fd_count DaemonExample.w_R = fd_count wM /\ held DaemonExample.h_R = 2 /\
    (okw DaemonExample.w_R = true ->
     fd_count DaemonExample.w_R - held DaemonExample.h_R = fd_count wM - held hM) /\
    forall o r w2, free_handler DaemonExample.h_R o DaemonExample.w_R = (Some r, w2) -> fd_count w2 = fd_count wM - 2.
  Proof.
    destruct (daemon_descriptors_constant_plain _ _ _ _ _ _ _ _ _ _ d_no_cfg d_envs_fd DaemonExample.run_eq)
      as (A & _ & B & C).
    destruct daemon_hyps_hold as (_ & _ & K & _ & H2 & _).
    destruct (daemon_descriptors_constant _ _ _ _ _ _ _ _ _ _ K DaemonExample.run_eq) as (D & _).
    split; [exact A|]. split; [rewrite B; exact H2|]. split; [exact D|].
    intros o r w2 Ef. rewrite (C o r w2 Ef), H2. reflexivity.
  Qed.

  (* and by evaluation: 2 opens and 2 closes per stored version and so on,
     balance 0 over the run *)
  Example daemon_descriptors_computed :
    fd_count wM = 0 /\ fd_count DaemonExample.w_R = 0 /\ (length (w_log DaemonExample.w_R) > 20)%nat.
  Proof. vm_compute. repeat split; lia. Qed.

  (* ---------- a run WITH a reload, and the failed reload: FdExample's world
     (queue /q, no journal, configuration file /c; the new configuration has
     queue /r and journal /j/l) ---------- *)
  Definition ev_w (pid : N) : Main.event := mkEv true false true false pid 5.
  Definition cfg2 : config := FdExample.cfg_with FdExample.p_q2 (Some FdExample.p_j).
  Definition ns_reload : list notif := [NEvent (ev_w 9) FdExample.p_cfg (Some cfg2); NWake].

  Lemma reload_envs o : envs_keep_fd 1 false o ns_reload FdExample.h0 FdExample.wq.
  Proof.
    unfold ns_reload. rewrite envs_keep_fd_cons by reflexivity.
    destruct (iteration 1 false (NEvent (ev_w 9) FdExample.p_cfg (Some cfg2)) FdExample.h0 o FdExample.wq) as [[[outs1 h1|outs1 z h1]|] w1]; try exact I.
    rewrite envs_keep_fd_cons by reflexivity.
    destruct (iteration 1 false NWake h1 o w1) as [[[outs2 h2|outs2 z2 h2]|] w2]; exact I.
  Qed.

  (* the reload succeeds: the handler now holds 2 descriptors instead of 1, the
     count moved by exactly that: nothing outside the handler *)
  Example daemon_reload_ok :
    match daemon_loop 1 false ns_reload 0 FdExample.h0 no_faults FdExample.wq with
    | (Some (outs, h'), w') =>
        okw w' = true /\ held FdExample.h0 = 1 /\ held h' = 2 /\ fd_count FdExample.wq = 0 /\ fd_count w' = 1 /\
        fd_count w' - held h' = fd_count FdExample.wq - held FdExample.h0
    | _ => False
    end.
  Proof.
    destruct (daemon_loop 1 false ns_reload 0 FdExample.h0 no_faults FdExample.wq) as [[[outs h']|] w'] eqn:E.
    - assert (A : match daemon_loop 1 false ns_reload 0 FdExample.h0 no_faults FdExample.wq with
                  | (Some (outs, h'), w') => okw w' = true /\ held FdExample.h0 = 1 /\ held h' = 2 /\ fd_count FdExample.wq = 0 /\ fd_count w' = 1
                  | _ => False end) by (vm_compute; repeat split; reflexivity).
      rewrite E in A. destruct A as (A1 & A2 & A3 & A4 & A5). repeat (split; [assumption|]).
      exact (proj1 (daemon_descriptors_constant 1 false no_faults ns_reload 0 FdExample.h0 FdExample.wq outs h' w' (reload_envs _) E) A1).
    - assert (A : fst (daemon_loop 1 false ns_reload 0 FdExample.h0 no_faults FdExample.wq) <> None) by (vm_compute; discriminate).
      rewrite E in A. apply A. reflexivity.
  Qed.

  (* THE +1 IS ATTAINED (FdExample.reload_leak seen through the loop): the new
     queue is loaded, opening the new journal fails with EMFILE (call 3): the
     daemon stops with the message of a write event, an error is pending, the
     handler is the old one (1 descriptor) and the new queue's directory
     descriptor stays open *)
  Example daemon_reload_leak :
    match daemon_loop 1 false ns_reload 0 FdExample.h0 (FdExample.fail_at 3 EMFILE) FdExample.wq with
    | (Some (outs, h'), w') =>
        outs = [OPoll 0; ORead; OWrite 9 5; OClose 5; OExit 1 (Some T_write)] /\ okw w' = false /\
        (fd_count w' - held h') - (fd_count FdExample.wq - held FdExample.h0) = 1
    | _ => False
    end.
  Proof. vm_compute. repeat split; reflexivity. Qed.

  (* ---------- the whole program: KlunokExample ---------- *)

  Lemma k_no_cfg : no_cfg_event (Some p_c) KlunokExample.ns.
  Proof. apply no_cfg_eventb_ok. vm_compute. reflexivity. Qed.

  Lemma k_envs_fd : envs_fd (fd_count KlunokExample.w0 + 1 + jcount cfgM) KlunokExample.ns.
  Proof. apply envs_fdb_ok. vm_compute. reflexivity. Qed.

  Example klunok_descriptors_by_theorem :
    jcount cfgM = 1 /\
    exists h w1 outs2 h',
      load_handler cfgM (Some p_c) 3 o2 KlunokExample.w0 = (Some (Some h), w1) /\
      daemon_loop 1 false KlunokExample.ns 0 h o2 w1 = (Some (outs2, h'), KlunokExample.w_R) /\
      fd_count w1 = fd_count KlunokExample.w0 + 2 /\
      fd_count KlunokExample.w_R = fd_count KlunokExample.w0 + 2 /\ held h' = 2 /\
      (forall z hp wp, daemon_state 1 false o2 KlunokExample.ns1 0 h w1 = Some (z, hp, wp) ->
         fd_count wp = fd_count KlunokExample.w0 + 2 /\ held hp = 2) /\
      forall o r w2, free_handler h' o KlunokExample.w_R = (Some r, w2) -> fd_count w2 = fd_count KlunokExample.w0.
  Proof.
    assert (J : jcount cfgM = 1) by reflexivity. split; [exact J|].
    destruct (klunok_descriptors_plain KlunokExample.env_user cfgM false KlunokExample.ns o2 KlunokExample.w0 _ _
                _ _ _ _ _ _ KlunokExample.run_eq KlunokExample.startup_user k_no_cfg k_envs_fd)
      as [[El _]|(h & w1 & outs2 & h' & El & Ed & _ & A & B & C & D & F)].
    { rewrite KlunokExample.load_eq in El. discriminate El. }
    exists h, w1, outs2, h'. rewrite J in *. split; [exact El|]. split; [exact Ed|].
    split; [lia|]. split; [lia|]. split; [exact D|]. split; [|exact F].
    intros z hp wp Est. destruct (B KlunokExample.ns1 _ z hp wp eq_refl Est) as [B1 B2]. split; [lia|exact B2].
  Qed.

  (* ---------- the journal ---------- *)

  Lemma cfgM_joff : joff_ok cfgM.
  Proof. apply joff_okb_ok. vm_compute. reflexivity. Qed.

  Example daemon_journal_hyps_hold :
    h_journal hM = Some jM /\ joff_ok (h_cfg hM) /\ jsep (h_cfg hM) (j_ino jM) (w_fs wM) /\
    jbytes wM (j_ino jM) = old /\
    envs_journal (h_cfg hM) (j_ino jM) (jbytes wM (j_ino jM)) DaemonExample.ns.
  Proof.
    split; [reflexivity|]. split; [exact cfgM_joff|]. split; [apply jsepb_ok; vm_compute; reflexivity|].
    split; [reflexivity|]. apply envs_journalb_ok. vm_compute. reflexivity.
  Qed.

  (* EVERY oracle: whatever the daemon run returns, "old\n" stays in front *)
  Example daemon_journal_by_theorem : forall (o : oracle) r w',
    daemon_loop DaemonExample.self false DaemonExample.ns 0 hM o wM = (r, w') ->
    exists s, jbytes w' 1 = (old ++ s)%list.
  Proof.
    intros o r w' E. destruct daemon_journal_hyps_hold as (Ej & HC & Hs & Hb & He).
    destruct (daemon_journal_append_only DaemonExample.self false o DaemonExample.ns 0 hM wM jM r w' Ej HC Hs d_no_cfg He E)
      as [s P]. exists s. exact P.
  Qed.

  (* the run of DaemonExample itself: two labelled events and one stored version *)
  Example daemon_journal_computed :
    prefixb old (jbytes DaemonExample.w_R 1) = true /\ (length (jbytes DaemonExample.w_R 1) > length old)%nat.
  Proof. vm_compute. split; [reflexivity|lia]. Qed.

  (* the whole program: the journal /j exists (inode 1, "old\n") when klunok
     starts; load_handler opens THAT file; every oracle *)
  Example klunok_journal_hyps_hold :
    c_journal_path cfgM = Some p_j /\ lookup (w_fs KlunokExample.w0) p_j = Some (NFile 1) /\
    jsep cfgM 1 (w_fs KlunokExample.w0) /\ jbytes KlunokExample.w0 1 = old /\
    startup_cfg_path KlunokExample.env_user = Some p_c /\
    no_cfg_event (startup_cfg_path KlunokExample.env_user) KlunokExample.ns /\
    envs_journal cfgM 1 (jbytes KlunokExample.w0 1) KlunokExample.ns.
  Proof.
    split; [reflexivity|]. split; [reflexivity|]. split; [apply jsepb_ok; vm_compute; reflexivity|].
    split; [reflexivity|].
    assert (Ec : startup_cfg_path KlunokExample.env_user = Some p_c)
      by (unfold startup_cfg_path; rewrite KlunokExample.startup_user; reflexivity).
    split; [exact Ec|]. split; [rewrite Ec; exact k_no_cfg|].
    apply envs_journalb_ok. vm_compute. reflexivity.
  Qed.

  Example klunok_journal_by_theorem : forall (o : oracle) r w',
    klunok KlunokExample.env_user cfgM false KlunokExample.ns o KlunokExample.w0 = (r, w') ->
    exists s, jbytes w' 1 = (old ++ s)%list.
  Proof.
    intros o r w' E. destruct klunok_journal_hyps_hold as (Ej & Hl & Hs & Hb & _ & Hc & He).
    destruct (klunok_journal_append_only_no_cfg_event KlunokExample.env_user cfgM false KlunokExample.ns o
                KlunokExample.w0 p_j 1 r w' Ej Hl cfgM_joff Hs Hc He E) as [s P].
    exists s. rewrite Hb in P. exact P.
  Qed.

  (* load_handler on that world, every oracle: the handler's journal is inode 1 *)
  Example klunok_load_keeps_journal : forall (o : oracle) r w',
    load_handler cfgM (Some p_c) 3 o KlunokExample.w0 = (r, w') ->
    jbytes w' 1 = old /\ forall h, r = Some (Some h) -> exists jn, h_journal h = Some jn /\ j_ino jn = 1%nat.
  Proof.
    intros o r w' E. destruct klunok_journal_hyps_hold as (Ej & Hl & Hs & Hb & _).
    destruct (load_handler_keeps_journal o cfgM (Some p_c) 3 KlunokExample.w0 r w' p_j 1 Ej Hl Hs E) as (A & _ & _ & B).
    split; [rewrite A; exact Hb|exact B].
  Qed.
End WholeExample.

Print Assumptions WholeExample.daemon_hyps_hold.
Print Assumptions WholeExample.daemon_descriptors_by_theorem.
Print Assumptions WholeExample.daemon_reload_ok.
Print Assumptions WholeExample.daemon_reload_leak.
Print Assumptions WholeExample.klunok_descriptors_by_theorem.
Print Assumptions WholeExample.daemon_journal_by_theorem.
Print Assumptions WholeExample.klunok_journal_by_theorem.
Print Assumptions WholeExample.klunok_load_keeps_journal.
