(* C11 at the level of the WORLD: the snapshot of a quiet project, for every
   benign oracle and BOTH traversal orders of the tree walk (rv).
   U = the unstable project tree (hard links to the latest stored versions,
   maintained by the file branch of the timeout pass), P = the project directory
   in the watched tree, D = the new snapshot directory.
   snap f U P r = the entry of U at relative path r if P/r still exists, nothing
   otherwise; so "lookup f' (D/r) = snap f U P r" says: the snapshot holds, at the
   same relative paths, the SAME INODES as the unstable tree for everything the
   project still has, and nothing else; the same equation for U says that what
   the project lost is pruned from the unstable tree.
   Caveat found while proving (model = code except here): the model's access()
   treats a dangling symbolic link inside the project as existing, access(2)
   follows it; the statements carry over to the C for projects without dangling
   links. *)
From K Require Import Str Dec Trace Fs World Progs Sieve Handler Linq LinqSpec LinqProofs
  SyncProofs AbandonProofs StoreFs QueueProofs JournalProofs SnapshotProofs.

Theorem C11_snapshot_tree : forall o w rv U D P restD,
  benign o ->
  tr_ok (w_tr w) = true ->
  keys_nodup (w_fs w) -> parents_exist (w_fs w) ->
  D = ch_slash :: restD -> U <> [] -> U <> root_path -> P <> [] ->
  nn U D -> nn U P -> nn D P ->
  lookup (w_fs w) D = None ->
  (forall d, In d (parents_of D) ->
             lookup (w_fs w) d = Some NDir \/ lookup (w_fs w) d = None) ->
  exists w',
    sync_shallow_tree rv D U P o w = (Some tt, w') /\
    w_tr w' = w_tr w /\
    w_clock w' = w_clock w /\
    fs_files (w_fs w') = fs_files (w_fs w) /\
    fs_next (w_fs w') = fs_next (w_fs w) /\
    keys_nodup (w_fs w') /\
    lookup (w_fs w') D = Some NDir /\
    (forall d, In d (parents_of D) -> lookup (w_fs w') d = Some NDir) /\
    (forall r, lookup (w_fs w') (D ++ ch_slash :: r) = snap (w_fs w) U P r) /\
    (forall r, lookup (w_fs w') (U ++ ch_slash :: r) = snap (w_fs w) U P r) /\
    (forall q, q <> D -> ~ In q (parents_of D) -> ~ under U q -> ~ under D q ->
               lookup (w_fs w') q = lookup (w_fs w) q).
Proof. exact sync_shallow_tree_snapshot. Qed.
Print Assumptions C11_snapshot_tree.

(* the project branch of the timeout pass: a due project head (hypotheses
   collected in project_head_due: entry first in the queue, old enough, not queued
   again, locations not nested, the first k candidate names of the snapshot
   taken and the k-th free) yields exactly one new snapshot directory
   project_store/name/version[-k], one "stored" journal line, and only then is
   the head removed from the queue; the loop continues with the rest *)
Theorem C11_project_head : forall o w rv h path meta t rest k fuel,
  project_head_due o w h path meta t rest k ->
  exists w' f1 f2,
    handle_timeout_loop (S fuel) rv h o w =
      handle_timeout_loop fuel rv (set_q (popped path (h_q h)) h) o w' /\
    snapshot_post (w_fs w) f1 (unstable_of h path) (snap_dir h path (w_clock w) k) path /\
    journal_after (h_journal h) (c_ev_stored (h_cfg h)) 0%N (rel_of h path) (w_clock w) f1 f2 /\
    w_fs w' = del_dent (head_name (h_q h)) f2 /\
    QRel (popped path (h_q h)) (w_fs w') rest /\
    keys_nodup (w_fs w') /\ parents_exist (w_fs w') /\
    tr_keep (w_tr w) (w_tr w') /\ w_clock w' = w_clock w.
Proof. exact project_head_snapshot. Qed.
Print Assumptions C11_project_head.

(* a pass over a queue that holds just this project: one snapshot, indefinite wait *)
Theorem C11_project_pass : forall o w rv h path meta t k,
  project_head_due o w h path meta t [] k ->
  exists w' f1 f2,
    handle_timeout rv h o w = (Some (TPause (-1), set_q (popped path (h_q h)) h), w') /\
    snapshot_post (w_fs w) f1 (unstable_of h path) (snap_dir h path (w_clock w) k) path /\
    journal_after (h_journal h) (c_ev_stored (h_cfg h)) 0%N (rel_of h path) (w_clock w) f1 f2 /\
    w_fs w' = del_dent (head_name (h_q h)) f2 /\
    QRel (popped path (h_q h)) (w_fs w') [] /\
    keys_nodup (w_fs w') /\ parents_exist (w_fs w') /\
    tr_keep (w_tr w) (w_tr w') /\ w_clock w' = w_clock w.
Proof. exact handle_timeout_project_single. Qed.
Print Assumptions C11_project_pass.

(* in words: hard links, pruning, earlier snapshots untouched *)
Theorem C11_hard_link : forall (f f' : fs) (U D P : str),
  snapshot_post f f' U D P -> forall r i,
  lookup f (U ++ ch_slash :: r) = Some (NFile i) ->
  fs_exists (P ++ ch_slash :: r) f = true ->
  lookup f' (D ++ ch_slash :: r) = Some (NFile i) /\
  lookup f' (U ++ ch_slash :: r) = Some (NFile i) /\
  get_file f' i = get_file f i.
Proof. exact snapshot_hard_link. Qed.
Print Assumptions C11_hard_link.

Theorem C11_deleted_absent : forall (f f' : fs) (U D P : str),
  snapshot_post f f' U D P -> forall r,
  fs_exists (P ++ ch_slash :: r) f = false ->
  lookup f' (D ++ ch_slash :: r) = None /\ lookup f' (U ++ ch_slash :: r) = None.
Proof. exact snapshot_pruned. Qed.
Print Assumptions C11_deleted_absent.

(* non-vacuity: SnapshotExample (project /w/proj with files at depth 1 and 2,
   one file and one directory deleted, an earlier snapshot) meets the hypotheses
   (tree_hyps, head_due) and is evaluated by vm_compute in both orders *)
Example C11_world_example := SnapshotExample.tree_hyps.
Example C11_world_example_head := SnapshotExample.head_due.
