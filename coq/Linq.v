(* Model of src/linq.c over an abstract queue directory: a list of
   (numeric link name, (link target, mtime)).  No proofs here. *)
From K Require Export Str SetM.
Local Open Scope N_scope.

(* ---------- codec (concat_metadata / the decode loop of get_head / strip_metadata) ---------- *)

Fixpoint pos_bits (p : positive) : list bool :=   (* most significant first *)
  match p with
  | xH => [true]
  | xO q => pos_bits q ++ [false]
  | xI q => pos_bits q ++ [true]
  end.

Definition n_bits (m : N) : list bool :=
  match m with N0 => [] | Npos p => pos_bits p end.

Fixpoint bits_str (l : list bool) : str :=
  match l with
  | [] => []
  | true :: r => ch_slash :: ch_dot :: bits_str r
  | false :: r => ch_slash :: bits_str r
  end.

Definition meta_limit : N := 1073741824. (* 2^30: beyond it `1 << bit_length` is an int overflow *)

Definition encode (m : N) (path : str) : str := bits_str (n_bits m) ++ path.

(* the loop `while (path[1]=='/' || (path[1]=='.' && path[2]=='/'))` *)
Fixpoint decode_aux (t : str) (m : N) : N * str :=
  match t with
  | c0 :: t1 =>
      match t1 with
      | c1 :: t2 =>
          if is_slash c1 then decode_aux t1 (2 * m)
          else if is_dot c1 then
            match t2 with
            | c2 :: _ => if is_slash c2 then decode_aux t2 (2 * m + 1) else (m, t)
            | [] => (m, t)
            end
          else (m, t)
      | [] => (m, t)
      end
  | [] => (m, t)
  end.

Definition decode (t : str) : N * str := decode_aux t 0.
Definition strip (t : str) : str := snd (decode t).

(* ---------- the queue ---------- *)

Notation dirent := (N * (str * Z))%type.   (* name, (target, mtime) *)

Record linq := mkLinq {
  l_dir : list dirent;     (* on disk *)
  l_head : N;              (* in memory *)
  l_size : N;
  l_deb : Z;
  l_set : set
}.

Fixpoint dir_lookup (n : N) (d : list dirent) : option (str * Z) :=
  match d with
  | [] => None
  | (k, v) :: d' => if k =? n then Some v else dir_lookup n d'
  end.

Fixpoint dir_remove (n : N) (d : list dirent) : list dirent :=
  match d with
  | [] => []
  | (k, v) :: d' => if k =? n then d' else (k, v) :: dir_remove n d'
  end.

(* scandir + qsort by strtol value *)
Fixpoint dir_insert (e : dirent) (d : list dirent) : list dirent :=
  match d with
  | [] => [e]
  | x :: d' => if fst e <=? fst x then e :: d else x :: dir_insert e d'
  end.
Definition dir_sort (d : list dirent) : list dirent := fold_right dir_insert [] d.

Definition load (d : list dirent) (deb : Z) (count_guess : nat) : linq :=
  let es := dir_sort d in
  let n := length es in
  let s := fold_left (fun s e => set_add (strip (fst (snd e))) s) es
                     (create_set (Nat.max count_guess n)) in
  mkLinq d (match es with [] => 0 | e :: _ => fst e end) (N.of_nat n) deb s.

Inductive push_res := PushOk | PushExists | PushUB.

Definition push (path : str) (meta : N) (now : Z) (l : linq) : push_res * linq :=
  if meta_limit <=? meta then (PushUB, l)
  else
    let name := l_head l + l_size l in
    match dir_lookup name (l_dir l) with
    | Some _ => (PushExists, l)                       (* symlinkat: EEXIST *)
    | None =>
        (PushOk, mkLinq (l_dir l ++ [(name, (encode meta path, now))])
                        (l_head l) (l_size l + 1) (l_deb l) (set_add path (l_set l)))
    end.

Inductive pop_res := PopOk | PopAbort | PopErr.

Definition pop_head (l : linq) : pop_res * linq :=
  if l_size l =? 0 then (PopAbort, l)               (* assert(linq->size) *)
  else
    match dir_lookup (l_head l) (l_dir l) with
    | None => (PopErr, l)                             (* readlinkat fails *)
    | Some (target, _) =>
        let size' := l_size l - 1 in
        (PopOk, mkLinq (dir_remove (l_head l) (l_dir l))
                       (if size' =? 0 then 0 else l_head l + 1) size' (l_deb l)
                       (set_pop (strip target) (l_set l)))
    end.

Inductive head_res := HPause (z : Z) | HReady (p : str) (m : N) | HErr.

Fixpoint get_head (fuel : nat) (now : Z) (l : linq) : head_res * linq :=
  if l_size l =? 0 then (HPause (-1), l)
  else
    match dir_lookup (l_head l) (l_dir l) with
    | None => (HErr, l)                               (* fstatat fails *)
    | Some (target, mtime) =>
        let age := (now - mtime)%Z in
        if (age <? l_deb l)%Z then (HPause (l_deb l - age)%Z, l)
        else
          let '(meta, path) := decode target in
          if (1 <? get_count path (l_set l))%nat then
            match fuel with
            | O => (HErr, l)
            | S fuel' =>
                match pop_head l with
                | (PopOk, l') => get_head fuel' now l'
                | (_, l') => (HErr, l')
                end
            end
          else (HReady path meta, l)
    end.

Definition redebounce (d : Z) (l : linq) : linq :=
  mkLinq (l_dir l) (l_head l) (l_size l) d (l_set l).

(* ---------- operation sequences ---------- *)

Inductive lop :=
| LPush (p : str) (m : N)
| LHead
| LPop
| LTick (n : Z)
| LRedeb (d : Z)
| LReload (guess : nat).

Inductive lout :=
| OPush (r : push_res)
| OHead (r : head_res)
| OPop (r : pop_res).

Record lstate := mkLS { ls_q : linq; ls_now : Z }.

Definition lstep (s : lstate) (o : lop) : lstate * list lout :=
  let l := ls_q s in
  let now := ls_now s in
  match o with
  | LPush p m => let '(r, l') := push p m now l in (mkLS l' now, [OPush r])
  | LHead => let '(r, l') := get_head (N.to_nat (l_size l)) now l in (mkLS l' now, [OHead r])
  | LPop => let '(r, l') := pop_head l in (mkLS l' now, [OPop r])
  | LTick n => (mkLS l (now + n)%Z, [])
  | LRedeb d => (mkLS (redebounce d l) now, [])
  | LReload g => (mkLS (load (l_dir l) (l_deb l) g) now, [])
  end.

Fixpoint lrun (s : lstate) (ops : list lop) : lstate * list lout :=
  match ops with
  | [] => (s, [])
  | o :: r => let '(s', out) := lstep s o in
              let '(s'', outs) := lrun s' r in (s'', out ++ outs)
  end.

Definition linit (deb : Z) (guess : nat) (now : Z) : lstate :=
  mkLS (load [] deb guess) now.

(* ---------- the drain loop of handle_timeout, queue part only ---------- *)
(* returns what was handed to the store, in order, and the pause *)
Fixpoint drain (fuel : nat) (now : Z) (l : linq) : list (str * N) * Z * linq :=
  match fuel with
  | O => ([], 0%Z, l)
  | S fuel' =>
      match get_head (N.to_nat (l_size l)) now l with
      | (HPause z, l') => ([], z, l')
      | (HErr, l') => ([], 0%Z, l')
      | (HReady p m, l') =>
          match pop_head l' with
          | (PopOk, l'') => let '(out, z, l3) := drain fuel' now l'' in ((p, m) :: out, z, l3)
          | (_, l'') => ([(p, m)], 0%Z, l'')
          end
      end
  end.

(* enough fuel: every iteration removes at least one entry *)
Definition drain_all (now : Z) (l : linq) : list (str * N) * Z * linq :=
  drain (S (N.to_nat (l_size l))) now l.
