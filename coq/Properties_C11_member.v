(* C11, the file branch that maintains the unstable project tree, and its
   composition with the snapshot (Properties_C11_world): for every benign oracle
   and both traversal orders.
   A project MEMBER (a file below a project root; queue flags mmeta k, k = the end
   of the root in its path) that is due gets a version like any file AND the
   unstable tree's entry for it - member_path = unstable_root/<project name>/<path
   below the root> - is made a hard link to exactly that new version (same inode),
   whether the entry was absent or pointed to an older version, which stays
   untouched (member_link_cases).  When the project entry that follows it is due
   too, the same pass creates the snapshot directory, whose entry for the member
   is again THAT inode: a snapshot links the latest stored version of every member
   written in the burst (handle_timeout_burst: any number of members, each
   followed by a coalesced copy of the project entry).
   Scope: first candidate names of the version and of the snapshot free; the
   unstable entry absent or a regular file. *)
From K Require Import Str Dec Trace Fs World Progs Sieve Handler Linq LinqSpec LinqProofs
  SyncProofs AbandonProofs StoreFs QueueProofs JournalProofs PassProofs SnapshotProofs
  MemberProofs MemberBurst.

Theorem C11_member_iteration : forall o w h rev fuel p k t rest i b,
  benign o -> tr_ok (w_tr w) = true -> keys_nodup (w_fs w) ->
  QRel (h_q h) (w_fs w) ((p, mmeta k, t) :: rest) ->
  (q_deb (h_q h) <= w_clock w - t)%Z ->
  occurs p rest = false ->
  plain_ok (h_cfg h) (h_cpl h) (h_journal h) (q_dir (h_q h)) (w_fs w) (w_clock w) p i b ->
  member_ok (h_cfg h) (h_cpl h) (q_dir (h_q h)) (w_fs w) (w_clock w) p k ->
  exists w',
    handle_timeout_loop (S fuel) rev h o w =
      handle_timeout_loop fuel rev (set_q (popped p (h_q h)) h) o w' /\
    member_post (h_cfg h) (h_cpl h) (h_journal h) (head_name (h_q h))
                (w_fs w) (w_fs w') (w_clock w) p k b /\
    QRel (popped p (h_q h)) (w_fs w') rest /\
    keys_nodup (w_fs w') /\
    tr_keep (w_tr w) (w_tr w') /\ w_clock w' = w_clock w.
Proof. exact member_head_iteration. Qed.
Print Assumptions C11_member_iteration.

(* what member_post says about the link: it is the new version; an older version
   that the entry pointed to keeps its name, inode and content *)
Theorem C11_member_link : forall cfg cpl oj hname f f' now p k b,
  member_post cfg cpl oj hname f f' now p k b ->
  lookup f' (member_path cfg p k) = lookup f' (store_name cfg cpl now p) /\
  (lookup f (member_path cfg p k) = None ->
   lookup f' (member_path cfg p k) = Some (NFile (fs_next f))) /\
  (forall io vold,
     lookup f (member_path cfg p k) = Some (NFile io) ->
     lookup f vold = Some (NFile io) -> vold <> member_path cfg p k -> vold <> hname ->
     io < fs_next f -> (forall jn, oj = Some jn -> io <> j_ino jn) ->
     lookup f' (member_path cfg p k) = Some (NFile (fs_next f)) /\ fs_next f <> io /\
     lookup f' vold = Some (NFile io) /\ get_file f' io = get_file f io).
Proof. exact member_link_cases. Qed.
Print Assumptions C11_member_link.

(* member, then its project, in one pass *)
Theorem C11_member_then_snapshot : forall o rev w h p k t t2 rest i b X name r,
  benign o ->
  member_project_due w h p k t t2 rest i b X name r ->
  not_due (w_clock w) (q_deb (h_q h)) rest ->
  let P := firstn k p in
  let U := unstable_of h P in
  let D := snap_dir h P (w_clock w) 0 in
  let dst := store_name (h_cfg h) (h_cpl h) (w_clock w) p in
  let inew := fs_next (w_fs w) in
  exists w2,
    handle_timeout rev h o w =
      (Some (TPause (pause_of (w_clock w) (q_deb (h_q h)) rest),
             set_q (popped P (popped p (h_q h))) h), w2) /\
    lookup (w_fs w2) dst = Some (NFile inew) /\
    f_bytes (get_file (w_fs w2) inew) = b /\
    lookup (w_fs w2) (U ++ ch_slash :: r) = Some (NFile inew) /\
    lookup (w_fs w2) D = Some NDir /\
    lookup (w_fs w2) (D ++ ch_slash :: r) = Some (NFile inew) /\
    (forall x, lookup (w_fs w) x <> None -> ~ under (q_dir (h_q h)) x -> ~ under U x ->
               lookup (w_fs w2) x = lookup (w_fs w) x) /\
    (forall j, j < inew -> (forall jn, h_journal h = Some jn -> j <> j_ino jn) ->
               get_file (w_fs w2) j = get_file (w_fs w) j) /\
    QRel (popped P (popped p (h_q h))) (w_fs w2) rest /\
    keys_nodup (w_fs w2) /\ parents_exist (w_fs w2) /\
    tr_ok (w_tr w2) = true /\ (t_post (w_tr w) = 0 -> w_tr w2 = w_tr w) /\
    w_clock w2 = w_clock w.
Proof. exact handle_timeout_member_project. Qed.
Print Assumptions C11_member_then_snapshot.

(* a burst of members m1, P, m2, P, ..., mn, P: one snapshot linking every new version *)
Theorem C11_burst_then_snapshot : forall o rev w h k X name es rest,
  benign o -> burst_due w h k X name es rest ->
  not_due (w_clock w) (q_deb (h_q h)) rest ->
  exists qf w2,
    handle_timeout rev h o w =
      (Some (TPause (pause_of (w_clock w) (q_deb (h_q h)) rest), set_q qf h), w2) /\
    burst_result h k (X ++ ch_slash :: name) (w_fs w) (w_clock w) es (w_fs w2) /\
    QRel qf (w_fs w2) rest /\
    keys_nodup (w_fs w2) /\ parents_exist (w_fs w2) /\
    tr_ok (w_tr w2) = true /\ (t_post (w_tr w) = 0 -> w_tr w2 = w_tr w) /\
    w_clock w2 = w_clock w.
Proof. exact handle_timeout_burst. Qed.
Print Assumptions C11_burst_then_snapshot.

(* non-vacuity: /w/proj with src/m.c, two passes (link created, then moved); a burst of two members *)
Example C11_member_pass1 := MemberExample.pass1_by_theorem.
Example C11_member_pass2 := MemberExample.pass2_by_theorem.
Example C11_member_moves_link := MemberExample.iteration_moves_link.
Example C11_burst_instance := BurstExample.burst_by_theorem.
