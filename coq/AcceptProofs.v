(* C06 / C02 / C14 at the level of the handler programs: ACCEPTING a write.

   handle_close_write (Handler.v, handler.c) on a path that is not the
   configuration file, under every benign oracle (no call fails, the process
   does not die, transfers may be cut into arbitrary positive pieces):

     accept_write        the queue directory + the in-memory queue (QueueProofs.QRel)
                         are extended by exactly the entries push_decision asks for
                         (none / the file / the file and then its project root),
                         all stamped with the current clock; apart from these links
                         only the journal inode changes (one line, PassProofs.journal_step);
                         no error
     accept_write_rejected / _plain / _project   the three cases spelled out
     accept_write_decides / accept_write_default handler-level C06: the case split
                         restated through SieveSpec.decides ("the deepest matching
                         rule decides", the default: editors only)
     rejected_write_every_oracle   EVERY oracle: a rejected write issues only journal
                         writes, changes no name, returns the handler unchanged
     accepted_write_every_oracle   EVERY oracle: an accepted write that comes back
                         without an error IS in the queue (no silent loss)
     accept_then_pass    a write accepted on an empty queue at t0; a pass earlier
                         than t0 + debounce stores nothing, a pass at t >= t0 + debounce
                         stores exactly one version with the content the file has
                         AT THE PASS (composition with PassProofs) *)
From K Require Import Str Dec Trace Fs World Progs Sieve SieveSpec SieveProofs Handler Linq LinqSpec
     LinqProofs DecProofs SyncProofs AbandonProofs JournalProofs QueueProofs Confine PassProofs
     JournalHistoryProofs.
From Coq Require Import Lia.
Arguments N.add : simpl never.
Arguments N.sub : simpl never.
Arguments N.mul : simpl never.
Arguments N.of_nat : simpl never.
Arguments N.eqb : simpl never.
Arguments N.leb : simpl never.
Arguments Nat.pow : simpl never.
Arguments Nat.mul : simpl never.

Notation benign := SyncProofs.benign.

(* ---------- record_event with a process id ---------- *)

(* the line record_event writes for an event of process [pid] *)
Definition wline (oj : option journal) (ev : option str) (pid : N) (path : str) (now : Z) : str :=
  match oj, ev with
  | Some jn, Some e => journal_line (ts_of jn now) e pid path
  | _, _ => []
  end.

Lemma wline_pid0 oj ev path now : wline oj ev 0%N path now = jline oj ev path now.
Proof. reflexivity. Qed.

(* the same line in the vocabulary of JournalHistoryProofs *)
Lemma wline_jl jn ev pid path now : wline (Some jn) ev pid path now = concat (jl jn now ev pid path).
Proof.
  unfold wline, jl, stamp, ts_of. destruct ev as [e|]; cbn [concat]; [rewrite app_nil_r|]; reflexivity.
Qed.

(* PassProofs.record_event_ok for any pid *)
Lemma record_event_ok_pid o w ev pid path h :
  benign o -> tr_ok (w_tr w) = true ->
  journal_fits (h_journal h) ev (w_clock w) ->
  exists w',
    record_event ev pid path h o w = (Some tt, w') /\
    tr_keep (w_tr w) (w_tr w') /\ w_clock w' = w_clock w /\
    journal_step (h_journal h) (wline (h_journal h) ev pid path (w_clock w)) (w_fs w) (w_fs w').
Proof.
  intros H Hok Hfit. unfold record_event.
  rewrite (bind_some _ _ _ _ _ _ (try_eq o w)).
  set (w1 := QueueProofs.upd_tr tr_try w).
  assert (Hok1 : tr_ok (w_tr w1) = true) by (apply tr_try_ok; exact Hok).
  assert (Hn : exists w2,
             note ev pid path (h_journal h) o w1 = (Some tt, w2) /\
             w_tr w2 = w_tr w1 /\ w_clock w2 = w_clock w /\
             journal_step (h_journal h) (wline (h_journal h) ev pid path (w_clock w)) (w_fs w) (w_fs w2)).
  { destruct (h_journal h) as [jn|] eqn:Ej.
    - destruct ev as [e|].
      + destruct (note_appends_one_line o w1 e pid path jn H Hok1) as (w2 & E2 & A2 & T2 & C2).
        { exact (Hfit jn e eq_refl eq_refl). }
        exists w2. split; [exact E2|]. split; [exact T2|]. split; [exact C2|]. exact A2.
      + exists w1. split; [apply note_no_event|]. split; [reflexivity|]. split; [reflexivity|].
        cbn [journal_step wline]. apply appended_nil.
    - exists w1. split; [apply note_no_journal|]. split; [reflexivity|]. split; [reflexivity|].
      reflexivity. }
  destruct Hn as (w2 & E2 & T2 & C2 & J2).
  rewrite (bind_some _ _ _ _ _ _ E2).
  assert (Hk : tr_keep (w_tr w) (tr_finally_rethrow_static M_journal_cannot_write (w_tr w2))).
  { rewrite T2. apply tr_keep_finally_rethrow; [exact Hok | apply tr_keep_refl; exact Hok1]. }
  destruct (c_journal_path (h_cfg h)) as [jp|].
  - rewrite (bind_some _ _ _ _ _ _ (rethrow_context_eq jp o w2)).
    rewrite finally_rethrow_eq. eexists. split; [reflexivity|].
    cbn [QueueProofs.upd_tr w_fs w_tr w_clock].
    rewrite (tr_rethrow_context_ok jp (w_tr w2)) by (rewrite T2; exact Hok1).
    split; [exact Hk|]. split; [exact C2 | exact J2].
  - rewrite (bind_some _ _ _ _ _ _ (ret_eq tt o w2)).
    rewrite finally_rethrow_eq. eexists. split; [reflexivity|].
    cbn [QueueProofs.upd_tr w_fs w_tr w_clock].
    split; [exact Hk|]. split; [exact C2 | exact J2].
Qed.

(* ---------- what an accepted write adds to the queue ---------- *)

(* the entries: the file first, then (if the file lies in a project) the project root *)
Definition acc_ents (path : str) (ih : bool) (pre : option nat) (now : Z) : list qent :=
  (path, linq_meta ih pre, now) ::
  match pre with Some k => [(firstn k path, 1%N, now)] | None => [] end.

(* the in-memory queue *)
Definition acc_q (path : str) (pre : option nat) (q : qmem) : qmem :=
  match pre with
  | None => pushed path q
  | Some k => pushed (firstn k path) (pushed path q)
  end.

(* the file system: one or two new symbolic links in the queue directory *)
Definition acc_fs (path : str) (ih : bool) (pre : option nat) (now : Z) (q : qmem) (f : fs) : fs :=
  let f1 := add_dent (next_name q) (NLink (encode (linq_meta ih pre) path) now) f in
  match pre with
  | None => f1
  | Some k => add_dent (next_name (pushed path q)) (NLink (encode 1 (firstn k path)) now) f1
  end.

(* what QueueProofs.push_ok asks of each pushed entry: the path is one the
   kernel produces (absolute, first component neither empty nor "."), and the
   link target is reached by the doubling buffer of read_entry.  (That the new
   names are free follows from QRel.) *)
Definition ents_ok (guess : nat) (es : list qent) : Prop :=
  Forall (fun e => normal (qpath e) /\ fits guess e) es.

(* one try { push } rethrow_context finally_rethrow_static block, followed by
   any continuation k *)
Lemma push_block o w q ents p m :
  benign o -> tr_ok (w_tr w) = true ->
  QRel q (w_fs w) ents -> normal p -> fits (q_len_guess q) (p, m, w_clock w) ->
  exists w',
    (forall B (k : qmem -> M B),
       (try_;; do q1 <- q_push p m q; rethrow_context p;; finally_rethrow_static M_linq_cannot_push;; k q1) o w
       = k (pushed p q) o w') /\
    QRel (pushed p q) (w_fs w') (ents ++ [(p, m, w_clock w)]) /\
    w_fs w' = add_dent (next_name q) (NLink (encode m p) (w_clock w)) (w_fs w) /\
    tr_keep (w_tr w) (w_tr w') /\ w_clock w' = w_clock w /\
    w_n w' = S (w_n w) /\
    w_log w' = (CSymlinkat (encode m p) (q_dir q) (dec (q_head q + q_size q)), RInt 0) :: w_log w /\
    (keys_nodup (w_fs w) -> keys_nodup (w_fs w')).
Proof.
  intros H Hok HR Hp Hfit.
  set (w1 := QueueProofs.upd_tr tr_try w).
  assert (Hok1 : tr_ok (w_tr w1) = true) by (apply tr_try_ok; exact Hok).
  pose proof (QRel_next_free _ _ _ HR) as Hnew. rewrite <- (QR_size _ _ _ HR) in Hnew.
  pose proof (parent_of_name (w_fs w) (q_dir q) (q_head q + q_size q)
                (QR_nroot _ _ _ HR) (QR_dir _ _ _ HR)) as Hpar.
  assert (E1 : q_push p m q o w1 =
               (Some (pushed p q),
                mkW (add_dent (next_name q) (NLink (encode m p) (w_clock w)) (w_fs w)) (S (w_n w))
                    ((CSymlinkat (encode m p) (q_dir q) (dec (q_head q + q_size q)), RInt 0) :: w_log w)
                    (w_clock w) (tr_try (w_tr w)))).
  { unfold q_push. rewrite when_ok_true by exact Hok1.
    unfold bind at 1.
    rewrite (k_symlinkat_new o w1 (q_dir q) (dec (q_head q + q_size q)) (encode m p) H Hnew Hpar).
    reflexivity. }
  exists (mkW (add_dent (next_name q) (NLink (encode m p) (w_clock w)) (w_fs w)) (S (w_n w))
              ((CSymlinkat (encode m p) (q_dir q) (dec (q_head q + q_size q)), RInt 0) :: w_log w)
              (w_clock w)
              (tr_finally_rethrow_static M_linq_cannot_push (tr_rethrow_context p (tr_try (w_tr w))))).
  split.
  { intros B k.
    rewrite (bind_some _ _ _ _ _ _ (try_eq o w)). fold w1.
    rewrite (bind_some _ _ _ _ _ _ E1).
    rewrite (bind_some _ _ _ _ _ _ (rethrow_context_eq p o _)).
    rewrite (bind_some _ _ _ _ _ _ (finally_rethrow_eq _ o _)).
    reflexivity. }
  cbn [w_fs w_tr w_clock w_n w_log].
  split; [apply QRel_push; assumption|].
  split; [reflexivity|].
  split; [apply tr_cycle; exact Hok|].
  split; [reflexivity|]. split; [reflexivity|]. split; [reflexivity|].
  intros Hnd. apply keys_nodup_add; [exact Hnd | exact Hnew].
Qed.

(* the system calls of an accepted write, most recent first: symlinkat, once or twice *)
Definition acc_log (path : str) (ih : bool) (pre : option nat) (q : qmem) : list (call * ret) :=
  match pre with
  | None => []
  | Some k => [(CSymlinkat (encode 1 (firstn k path)) (q_dir q)
                           (dec (q_head (pushed path q) + q_size (pushed path q))), RInt 0)]
  end ++
  [(CSymlinkat (encode (linq_meta ih pre) path) (q_dir q) (dec (q_head q + q_size q)), RInt 0)].

(* ---------- push_to_linq ---------- *)

Lemma push_to_linq_accept o w h pid path ents pu ih pre :
  benign o -> tr_ok (w_tr w) = true ->
  QRel (h_q h) (w_fs w) ents ->
  push_decision (c_rules (h_cfg h)) (h_cpl h) (pid_mem pid (h_pids h)) path = (pu, ih, pre) ->
  (pu = true -> ents_ok (q_len_guess (h_q h)) (acc_ents path ih pre (w_clock w))) ->
  exists w',
    push_to_linq pid path h o w =
      (Some (pu, if pu then set_q (acc_q path pre (h_q h)) h else h), w') /\
    w_fs w' = (if pu then acc_fs path ih pre (w_clock w) (h_q h) (w_fs w) else w_fs w) /\
    QRel (if pu then acc_q path pre (h_q h) else h_q h) (w_fs w')
         (if pu then ents ++ acc_ents path ih pre (w_clock w) else ents) /\
    tr_keep (w_tr w) (w_tr w') /\ w_clock w' = w_clock w /\
    w_log w' = (if pu then acc_log path ih pre (h_q h) else []) ++ w_log w /\
    (keys_nodup (w_fs w) -> keys_nodup (w_fs w')).
Proof.
  intros H Hok HR Hd Hwf.
  unfold push_to_linq. rewrite when_ok_true by exact Hok. rewrite Hd. cbv iota beta.
  destruct pu; cbn [negb].
  2:{ unfold ret_. exists w. split; [reflexivity|]. split; [reflexivity|]. split; [exact HR|].
      split; [apply tr_keep_refl; exact Hok|]. split; [reflexivity|]. split; [reflexivity|]. auto. }
  specialize (Hwf eq_refl). unfold ents_ok, acc_ents in Hwf.
  inversion Hwf as [|e1 es1 [Hn1 Hf1] Hwf2]; subst. unfold qpath in Hn1. cbn [fst] in Hn1.
  destruct (push_block o w (h_q h) ents path (linq_meta ih pre) H Hok HR Hn1 Hf1)
    as (w1 & E1 & HR1 & F1 & K1 & C1 & N1 & L1 & ND1).
  rewrite E1. clear E1.
  destruct pre as [k|].
  - inversion Hwf2 as [|e2 es2 [Hn2 Hf2] _]; subst. unfold qpath in Hn2. cbn [fst] in Hn2.
    assert (Hf2' : fits (q_len_guess (pushed path (h_q h))) (firstn k path, 1%N, w_clock w1)).
    { rewrite C1. exact Hf2. }
    destruct (push_block o w1 (pushed path (h_q h)) _ (firstn k path) 1%N H (tr_keep_ok _ _ K1) HR1 Hn2 Hf2')
      as (w2 & E2 & HR2 & F2 & K2 & C2 & N2 & L2 & ND2).
    rewrite E2. clear E2. unfold ret_. exists w2. split; [reflexivity|].
    cbn [acc_q acc_fs acc_ents acc_log]. rewrite C1 in HR2, F2.
    split; [rewrite F2, F1; reflexivity|].
    split; [rewrite <- app_assoc in HR2; exact HR2|].
    split; [exact (tr_keep_trans _ _ _ K1 K2)|]. split; [congruence|].
    split; [rewrite L2, L1; reflexivity|]. auto.
  - unfold ret_. exists w1. split; [reflexivity|]. cbn [acc_q acc_fs acc_ents acc_log app].
    split; [exact F1|]. split; [exact HR1|]. split; [exact K1|]. split; [exact C1|].
    split; [exact L1 | exact ND1].
Qed.

(* ---------- the calls record_event issues: write(2) only, under every oracle ---------- *)

(* the log of w' extends the log of w by calls that satisfy P, and no name of
   the file system has changed *)
Definition log_ext (P : call -> Prop) (w w' : world) : Prop :=
  exists l, w_log w' = l ++ w_log w /\ Forall (fun cr => P (fst cr)) l /\
            fs_dents (w_fs w') = fs_dents (w_fs w).

Definition lext {A} (P : call -> Prop) (m : M A) : Prop :=
  forall o w r w', m o w = (r, w') -> log_ext P w w'.

Lemma log_ext_refl P w w' : w_log w' = w_log w -> w_fs w' = w_fs w -> log_ext P w w'.
Proof. intros E F. exists []. split; [exact E|]. split; [constructor | rewrite F; reflexivity]. Qed.

Lemma log_ext_trans P a b c : log_ext P a b -> log_ext P b c -> log_ext P a c.
Proof.
  intros (l1 & E1 & F1 & D1) (l2 & E2 & F2 & D2). exists (l2 ++ l1). split; [|split].
  - rewrite E2, E1, app_assoc. reflexivity.
  - apply Forall_app. split; assumption.
  - congruence.
Qed.

Lemma lext_ret {A} P (a : A) : lext P (ret_ a).
Proof. intros o w r w' E. injection E as _ <-. apply log_ext_refl; reflexivity. Qed.

Lemma lext_bind {A B} P (m : M A) (k : A -> M B) :
  lext P m -> (forall a, lext P (k a)) -> lext P (bind m k).
Proof.
  intros Hm Hk o w r w' E. unfold bind in E.
  destruct (m o w) as [[a|] w1] eqn:E1.
  - exact (log_ext_trans _ _ _ _ (Hm o w _ _ E1) (Hk a o w1 _ _ E)).
  - injection E as _ <-. exact (Hm o w _ _ E1).
Qed.

Lemma lext_mod_tr P f : lext P (mod_tr f).
Proof. intros o w r w' E. injection E as _ <-. apply log_ext_refl; reflexivity. Qed.

Lemma lext_is_ok P : lext P is_ok.
Proof. intros o w r w' E. injection E as _ <-. apply log_ext_refl; reflexivity. Qed.

Lemma lext_sys {A} (P : call -> Prop) c (perform : fs -> ret * A * fs) on_fail :
  P c -> (forall f, fs_dents (snd (perform f)) = fs_dents f) -> lext P (sys c perform on_fail).
Proof.
  intros Hc Hd o w r w' E. unfold sys in E.
  assert (Hone : forall x, fs_dents (fst x) = fs_dents (w_fs w) ->
            log_ext P w (mkW (fst x) (S (w_n w)) ((c, snd x) :: w_log w) (w_clock w) (w_tr w))).
  { intros x Hx. exists [(c, snd x)]. split; [reflexivity|].
    split; [constructor; [exact Hc | constructor] | exact Hx]. }
  pose proof (Hd (w_fs w)) as Hdw.
  destruct (o (w_n w)).
  - destruct (perform (w_fs w)) as [[rr a] f']. injection E as _ <-. exact (Hone (f', rr) Hdw).
  - injection E as _ <-. exact (Hone (w_fs w, RFault e) eq_refl).
  - destruct (perform (w_fs w)) as [[rr a] f']. injection E as _ <-. exact (Hone (f', rr) Hdw).
  - destruct (perform (w_fs w)) as [[rr a] f']. injection E as _ <-. exact (Hone (f', rr) Hdw).
  - injection E as _ <-. apply log_ext_refl; reflexivity.
Qed.

Definition is_write (c : call) : Prop := exists n, c = CWrite n.

Lemma lext_k_write i b : lext is_write (k_write i b).
Proof.
  unfold k_write. apply lext_bind.
  - intros o w r w' E. injection E as _ <-. apply log_ext_refl; reflexivity.
  - intros lim. apply lext_sys; [eexists; reflexivity | reflexivity].
Qed.

Lemma lext_write_all fuel : forall i b, lext is_write (write_all fuel i b).
Proof.
  induction fuel as [|fuel IH]; intros i b; cbn [write_all]; [apply lext_ret|].
  destruct b as [|c b]; [apply lext_ret|].
  apply lext_bind; [apply lext_k_write|]. intros [n|e]; [apply IH|].
  apply lext_mod_tr.
Qed.

Lemma lext_get_timestamp P pat : lext P (get_timestamp pat).
Proof.
  unfold get_timestamp. apply lext_bind.
  - intros o w r w' E. injection E as _ <-. apply log_ext_refl; reflexivity.
  - intros now. apply lext_bind; [apply lext_is_ok|]. intros [|]; [|apply lext_ret].
    destruct (Nat.ltb _ _); [|apply lext_ret].
    apply lext_bind; [apply lext_mod_tr | intros; apply lext_ret].
Qed.

Lemma lext_note ev pid path oj : lext is_write (note ev pid path oj).
Proof.
  unfold note. destruct oj as [jn|]; [|apply lext_ret]. destruct ev as [e|]; [|apply lext_ret].
  unfold when_ok. apply lext_bind; [apply lext_is_ok|]. intros [|]; [|apply lext_ret].
  apply lext_bind; [apply lext_get_timestamp|]. intros [t|]; [apply lext_write_all | apply lext_ret].
Qed.

(* record_event issues nothing but writes (to the journal descriptor) and
   changes no name, whatever the oracle *)
Lemma lext_record_event ev pid path h : lext is_write (record_event ev pid path h).
Proof.
  unfold record_event. apply lext_bind; [apply lext_mod_tr|]. intros _.
  apply lext_bind; [apply lext_note|]. intros _.
  apply lext_bind; [destruct (c_journal_path (h_cfg h)); [apply lext_mod_tr | apply lext_ret]|].
  intros _. apply lext_mod_tr.
Qed.

(* ---------- handle_close_write: accepting (or rejecting) a write ---------- *)

(* the journal label of a write event *)
Definition write_ev (cfg : config) (pu : bool) : option str :=
  if pu then c_ev_write_by_editor cfg else c_ev_write_not_by_editor cfg.

(* the label is the one JournalHistoryProofs.ev_spec names *)
Lemma write_ev_label h pid path :
  write_ev (h_cfg h) (push_answer h pid path) = write_label (h_cfg h) h pid path.
Proof. reflexivity. Qed.

(* the journal line of accept_write is the line JournalHistoryProofs.ev_spec
   gives for the event JWrite pid path *)
Lemma accept_line_ev_spec h jn pid path pu ih pre now :
  h_journal h = Some jn ->
  push_decision (c_rules (h_cfg h)) (h_cpl h) (pid_mem pid (h_pids h)) path = (pu, ih, pre) ->
  wline (h_journal h) (write_ev (h_cfg h) pu) pid path now =
  concat (jl jn now (write_label (h_cfg h) h pid path) pid path).
Proof.
  intros Ej Hd. rewrite Ej, wline_jl. rewrite <- write_ev_label. unfold push_answer. rewrite Hd.
  reflexivity.
Qed.

Theorem accept_write o w h pid path nc ents pu ih pre :
  benign o -> tr_ok (w_tr w) = true ->
  QRel (h_q h) (w_fs w) ents ->
  push_decision (c_rules (h_cfg h)) (h_cpl h) (pid_mem pid (h_pids h)) path = (pu, ih, pre) ->
  (* the written file is not the configuration file *)
  h_cfg_path h <> Some path ->
  (* the time stamp of the journal line is at most a file name long *)
  journal_fits (h_journal h) (write_ev (h_cfg h) pu) (w_clock w) ->
  (* what push_ok needs of the new entries *)
  (pu = true -> ents_ok (q_len_guess (h_q h)) (acc_ents path ih pre (w_clock w))) ->
  let now := w_clock w in
  let q' := if pu then acc_q path pre (h_q h) else h_q h in
  exists w',
    handle_close_write pid path nc h o w = (Some (if pu then set_q q' h else h), w') /\
    (* the file system: the new links (if any), then the journal line; nothing else *)
    journal_step (h_journal h) (wline (h_journal h) (write_ev (h_cfg h) pu) pid path now)
                 (if pu then acc_fs path ih pre now (h_q h) (w_fs w) else w_fs w) (w_fs w') /\
    (* the queue: extended by exactly the entries of the decision, stamped [now] *)
    QRel q' (w_fs w') (if pu then ents ++ acc_ents path ih pre now else ents) /\
    (* the calls: symlinkat for each new entry, then writes to the journal *)
    (exists lj, w_log w' = lj ++ (if pu then acc_log path ih pre (h_q h) else []) ++ w_log w /\
                Forall (fun cr => is_write (fst cr)) lj) /\
    (* no error *)
    tr_ok (w_tr w') = true /\ (t_post (w_tr w) = 0 -> w_tr w' = w_tr w) /\
    w_clock w' = now /\
    (keys_nodup (w_fs w) -> keys_nodup (w_fs w')).
Proof.
  intros H Hok HR Hd Hcp Hjf Hwf. cbv zeta.
  destruct (push_to_linq_accept o w h pid path ents pu ih pre H Hok HR Hd Hwf)
    as (w1 & E1 & F1 & HR1 & K1 & C1 & L1 & ND1).
  unfold handle_close_write. rewrite when_ok_true by exact Hok.
  rewrite (bind_some _ _ _ _ _ _ E1). cbv iota beta.
  set (h1 := if pu then set_q (acc_q path pre (h_q h)) h else h) in *.
  assert (Ecfg : h_cfg h1 = h_cfg h) by (unfold h1; destruct pu; reflexivity).
  assert (Ej : h_journal h1 = h_journal h) by (unfold h1; destruct pu; reflexivity).
  assert (Ecp : h_cfg_path h1 = h_cfg_path h) by (unfold h1; destruct pu; reflexivity).
  rewrite Ecfg. fold (write_ev (h_cfg h) pu).
  destruct (record_event_ok_pid o w1 (write_ev (h_cfg h) pu) pid path h1 H (tr_keep_ok _ _ K1))
    as (w2 & E2 & K2 & C2 & J2).
  { rewrite Ej, C1. exact Hjf. }
  pose proof (lext_record_event _ _ _ _ _ _ _ _ E2) as (lj & L2 & Flj & _).
  rewrite (bind_some _ _ _ _ _ _ E2).
  rewrite (bind_some _ _ _ _ _ _ (is_ok_eq o w2)). rewrite (tr_keep_ok _ _ K2).
  rewrite Ecp.
  assert (Etail : (match h_cfg_path h with
                   | Some cp => if str_eqb path cp then reload nc h1 else ret_ h1
                   | None => ret_ h1
                   end) o w2 = (Some h1, w2)).
  { destruct (h_cfg_path h) as [cp|]; [|reflexivity].
    destruct (str_eqb_spec path cp) as [->|_]; [congruence | reflexivity]. }
  rewrite Etail. exists w2. split; [unfold h1; destruct pu; reflexivity|].
  rewrite Ej, C1, F1 in J2.
  split; [exact J2|].
  split.
  { apply (QRel_same_dents _ (w_fs w1)); [|exact HR1].
    rewrite (journal_step_dents _ _ _ _ J2), F1. reflexivity. }
  split; [exists lj; split; [rewrite L2, L1; reflexivity | exact Flj]|].
  pose proof (tr_keep_trans _ _ _ K1 K2) as [K3 K4].
  split; [exact K3|]. split; [exact K4|]. split; [congruence|].
  intros Hnd. rewrite <- F1 in J2. exact (journal_step_nodup _ _ _ _ J2 (ND1 Hnd)).
Qed.
Print Assumptions accept_write.

(* ---------- the project root entry needs no hypothesis of its own ---------- *)

Lemma index_from_ge f : forall s i j, index_from f s i = Some j -> i <= j.
Proof.
  induction s as [|c s IH]; intros i j E; cbn [index_from] in E; [discriminate|].
  destruct (f c); [injection E as <-; lia|]. apply IH in E. lia.
Qed.

(* the end of a project root is at least 1: the root is never the empty string *)
Lemma project_root_pos r cpl ed path pu ih k :
  push_decision r cpl ed path = (pu, ih, Some k) -> 1 <= k.
Proof.
  unfold push_decision. rewrite sieve_correct. unfold rule_sets. cbn [map].
  intros E. injection E as _ _ E. unfold project_root_end in E. cbn [nth] in E.
  destruct (ptr_gt _ _ && _).
  - destruct (spec_end path cpl (r_project_parent r)) as [k0|]; [|discriminate].
    destruct (index_from is_slash (skipn (S k0) path) (S k0)) as [j|] eqn:Ei; [|discriminate].
    injection E as <-. apply index_from_ge in Ei. lia.
  - match type of E with (if ?c then _ else _) = _ => destruct c end; [|discriminate].
    pose proof (greatest_spec (matches_at path cpl (r_project r)) (length path)) as G.
    unfold spec_end in E. rewrite E in G. lia.
Qed.

Lemma normal_firstn p k : normal p -> 1 <= k -> normal (firstn k p).
Proof.
  intros (r & -> & Hr) Hk. destruct k as [|k]; [lia|]. cbn [firstn].
  exists (firstn k r). split; [reflexivity|].
  destruct r as [|c1 r']; [destruct k; exact I|].
  destruct k as [|k]; [exact I|]. cbn [firstn]. destruct Hr as [H1 H2]. split; [exact H1|].
  intros Hdot. specialize (H2 Hdot). destruct r' as [|c2 r'']; [destruct k; exact I|].
  destruct k as [|k]; [exact I | exact H2].
Qed.

Lemma bits_str_length l : length l <= length (bits_str l).
Proof.
  induction l as [|b l IH]; [reflexivity|]. destruct b; cbn [bits_str length]; lia.
Qed.

Lemma pos_bits_nonempty p : 1 <= length (pos_bits p).
Proof. destruct p; cbn [pos_bits]; rewrite ?app_length; cbn [length]; lia. Qed.

(* a metadata word that carries a project offset has at least three bits *)
Lemma n_bits_ge4 m : (4 <= m)%N -> 3 <= length (n_bits m).
Proof.
  destruct m as [|p]; [lia|]. intros Hm. cbn [n_bits].
  destruct p as [p|p|]; [| |lia];
    (destruct p as [p|p|]; [| |lia]; cbn [pos_bits]; rewrite !app_length; cbn [length];
     pose proof (pos_bits_nonempty p); lia).
Qed.

Lemma linq_meta_ge4 ih k : 1 <= k -> (4 <= linq_meta ih (Some k))%N.
Proof.
  intros Hk. unfold linq_meta.
  apply N.le_trans with (N.shiftl (N.of_nat k) 2).
  - rewrite N.shiftl_mul_pow2. change (2 ^ 2)%N with 4%N. lia.
  - apply N.ldiff_le. apply N.bits_inj. intros n.
    rewrite N.ldiff_spec, N.lor_spec, N.bits_0.
    destruct (N.testbit (N.shiftl (N.of_nat k) 2) n); [rewrite orb_true_r|]; reflexivity.
Qed.

(* so: a normal path whose own link target fits gives well-formed entries *)
Lemma acc_ents_ok r cpl ed path pu ih pre guess now :
  push_decision r cpl ed path = (pu, ih, pre) ->
  normal path -> fits guess (path, linq_meta ih pre, now) ->
  ents_ok guess (acc_ents path ih pre now).
Proof.
  intros Hd Hn Hf. unfold ents_ok, acc_ents.
  constructor; [split; assumption|].
  destruct pre as [k|]; [|constructor].
  pose proof (project_root_pos _ _ _ _ _ _ _ Hd) as Hk.
  constructor; [|constructor]. unfold qpath. cbn [fst]. split; [apply normal_firstn; assumption|].
  unfold fits, qpath in *. cbn [fst snd] in *.
  eapply Nat.le_lt_trans; [|exact Hf].
  unfold encode. rewrite !app_length.
  pose proof (bits_str_length (n_bits (linq_meta ih (Some k)))) as B.
  pose proof (n_bits_ge4 _ (linq_meta_ge4 ih k Hk)) as B3.
  assert (Fl : length (firstn k path) <= length path) by (rewrite firstn_length; lia).
  change (length (bits_str (n_bits 1))) with 2. lia.
Qed.

(* ---------- "nothing else on disk changes" ---------- *)

(* f' is f up to: the names [names], and [line] appended to the journal inode *)
Definition only_journal (oj : option journal) (line : str) (names : list str) (f f' : fs) : Prop :=
  (forall x, ~ In x names -> lookup f' x = lookup f x) /\
  (forall k, (forall jn, oj = Some jn -> k <> j_ino jn) -> get_file f' k = get_file f k) /\
  (forall jn, oj = Some jn ->
     f_bytes (get_file f' (j_ino jn)) = f_bytes (get_file f (j_ino jn)) ++ line /\
     f_readable (get_file f' (j_ino jn)) = f_readable (get_file f (j_ino jn))) /\
  fs_next f' = fs_next f.

(* the names of the new links *)
Definition acc_names (path : str) (pre : option nat) (q : qmem) : list str :=
  next_name q :: match pre with Some _ => [next_name (pushed path q)] | None => [] end.

Lemma acc_fs_frame oj line (pu : bool) path ih pre now q f f' :
  journal_step oj line (if pu then acc_fs path ih pre now q f else f) f' ->
  only_journal oj line (if pu then acc_names path pre q else []) f f'.
Proof.
  set (g := if pu then acc_fs path ih pre now q f else f).
  assert (Gl : forall x, ~ In x (if pu then acc_names path pre q else []) -> lookup g x = lookup f x).
  { intros x Hx. unfold g. destruct pu; [|reflexivity]. unfold acc_fs, acc_names in *.
    destruct pre as [k|]; cbn [In] in Hx.
    - rewrite !lookup_add_dent_other; [reflexivity| |]; intros E; apply Hx; auto.
    - rewrite lookup_add_dent_other; [reflexivity|]. intros E; apply Hx; auto. }
  assert (Gf : forall k, get_file g k = get_file f k).
  { apply get_file_ext. unfold g. destruct pu; [|reflexivity]. destruct pre; reflexivity. }
  assert (Gn : fs_next g = fs_next f).
  { unfold g. destruct pu; [|reflexivity]. destruct pre; reflexivity. }
  intros J. unfold only_journal.
  split; [intros x Hx; rewrite (journal_step_lookup _ _ _ _ x J); exact (Gl x Hx)|].
  split; [intros k Hk; rewrite (journal_step_file _ _ _ _ k J Hk); apply Gf|].
  split; [|rewrite (journal_step_next _ _ _ _ J); exact Gn].
  intros jn Ej. subst oj. cbn [journal_step] in J. destruct J as (A1 & A2 & _).
  rewrite A1, A2, Gf. split; reflexivity.
Qed.

(* ---------- the result of accept_write as one predicate ---------- *)

Definition accept_post (o : oracle) (w : world) (h : handler) (pid : N) (path : str)
           (nc : option config) (ents : list qent) (pu ih : bool) (pre : option nat) (w' : world) : Prop :=
  let now := w_clock w in
  let q' := if pu then acc_q path pre (h_q h) else h_q h in
  handle_close_write pid path nc h o w = (Some (if pu then set_q q' h else h), w') /\
  only_journal (h_journal h) (wline (h_journal h) (write_ev (h_cfg h) pu) pid path now)
               (if pu then acc_names path pre (h_q h) else []) (w_fs w) (w_fs w') /\
  (pu = true ->
     lookup (w_fs w') (next_name (h_q h)) = Some (NLink (encode (linq_meta ih pre) path) now) /\
     forall k, pre = Some k ->
       lookup (w_fs w') (next_name (pushed path (h_q h))) = Some (NLink (encode 1 (firstn k path)) now)) /\
  QRel q' (w_fs w') (if pu then ents ++ acc_ents path ih pre now else ents) /\
  (exists lj, w_log w' = lj ++ (if pu then acc_log path ih pre (h_q h) else []) ++ w_log w /\
              Forall (fun cr => is_write (fst cr)) lj) /\
  tr_ok (w_tr w') = true /\ (t_post (w_tr w) = 0 -> w_tr w' = w_tr w) /\
  w_clock w' = now /\
  (keys_nodup (w_fs w) -> keys_nodup (w_fs w')).

(* accept_write with the hypotheses on the entries reduced to the path itself *)
Theorem accept_write_post o w h pid path nc ents pu ih pre :
  benign o -> tr_ok (w_tr w) = true ->
  QRel (h_q h) (w_fs w) ents ->
  push_decision (c_rules (h_cfg h)) (h_cpl h) (pid_mem pid (h_pids h)) path = (pu, ih, pre) ->
  h_cfg_path h <> Some path ->
  journal_fits (h_journal h) (write_ev (h_cfg h) pu) (w_clock w) ->
  (pu = true -> normal path /\ fits (q_len_guess (h_q h)) (path, linq_meta ih pre, w_clock w)) ->
  exists w', accept_post o w h pid path nc ents pu ih pre w'.
Proof.
  intros H Hok HR Hd Hcp Hjf Hp.
  destruct (accept_write o w h pid path nc ents pu ih pre H Hok HR Hd Hcp Hjf)
    as (w' & E & J & HR' & L & T1 & T2 & C & ND).
  { intros ->. destruct (Hp eq_refl) as [Hn Hf]. exact (acc_ents_ok _ _ _ _ _ _ _ _ _ Hd Hn Hf). }
  exists w'. unfold accept_post. cbv zeta.
  split; [exact E|]. split; [exact (acc_fs_frame _ _ _ _ _ _ _ _ _ _ J)|].
  split; [|auto 10].
  intros ->. pose proof (QR_ent _ _ _ HR') as He. pose proof (QR_size _ _ _ HR) as Hs.
  split.
  - specialize (He (length ents) path (linq_meta ih pre) (w_clock w)).
    rewrite nth_error_app2, Nat.sub_diag in He by lia. specialize (He eq_refl).
    unfold next_name. rewrite Hs. destruct pre; exact He.
  - intros k ->. specialize (He (S (length ents)) (firstn k path) 1%N (w_clock w)).
    rewrite nth_error_app2 in He by lia. replace (S (length ents) - length ents) with 1 in He by lia.
    specialize (He eq_refl). unfold next_name. cbn [pushed q_dir q_head q_size acc_q] in *.
    rewrite Hs. replace (q_head (h_q h) + (N.of_nat (length ents) + 1))%N
      with (q_head (h_q h) + N.of_nat (S (length ents)))%N by lia. exact He.
Qed.
Print Assumptions accept_write_post.

(* ---------- the three cases spelled out ---------- *)

(* (a) the decision is "no": nothing is queued, no symlinkat is issued, the
   queue directory is as before; only the journal line of the event is written *)
Corollary accept_write_rejected o w h pid path nc ents ih pre :
  benign o -> tr_ok (w_tr w) = true ->
  QRel (h_q h) (w_fs w) ents ->
  push_decision (c_rules (h_cfg h)) (h_cpl h) (pid_mem pid (h_pids h)) path = (false, ih, pre) ->
  h_cfg_path h <> Some path ->
  journal_fits (h_journal h) (c_ev_write_not_by_editor (h_cfg h)) (w_clock w) ->
  exists w',
    handle_close_write pid path nc h o w = (Some h, w') /\
    QRel (h_q h) (w_fs w') ents /\
    fs_dents (w_fs w') = fs_dents (w_fs w) /\
    only_journal (h_journal h)
                 (wline (h_journal h) (c_ev_write_not_by_editor (h_cfg h)) pid path (w_clock w))
                 [] (w_fs w) (w_fs w') /\
    (exists lj, w_log w' = lj ++ w_log w /\ Forall (fun cr => is_write (fst cr)) lj) /\
    tr_ok (w_tr w') = true /\ (t_post (w_tr w) = 0 -> w_tr w' = w_tr w) /\ w_clock w' = w_clock w.
Proof.
  intros H Hok HR Hd Hcp Hjf.
  destruct (accept_write o w h pid path nc ents false ih pre H Hok HR Hd Hcp Hjf)
    as (w' & E & J & HR' & L & T1 & T2 & C & _); [discriminate|].
  cbv zeta in *. exists w'. split; [exact E|]. split; [exact HR'|].
  split; [exact (journal_step_dents _ _ _ _ J)|].
  split; [exact (acc_fs_frame _ _ false path ih pre (w_clock w) (h_q h) _ _ J)|].
  auto.
Qed.

(* (b) "yes", no project: exactly one new entry, the file, stamped with the clock *)
Corollary accept_write_plain o w h pid path nc ents ih :
  benign o -> tr_ok (w_tr w) = true ->
  QRel (h_q h) (w_fs w) ents ->
  push_decision (c_rules (h_cfg h)) (h_cpl h) (pid_mem pid (h_pids h)) path = (true, ih, None) ->
  h_cfg_path h <> Some path ->
  journal_fits (h_journal h) (c_ev_write_by_editor (h_cfg h)) (w_clock w) ->
  normal path -> fits (q_len_guess (h_q h)) (path, linq_meta ih None, w_clock w) ->
  let now := w_clock w in
  exists w',
    handle_close_write pid path nc h o w = (Some (set_q (pushed path (h_q h)) h), w') /\
    QRel (pushed path (h_q h)) (w_fs w') (ents ++ [(path, linq_meta ih None, now)]) /\
    lookup (w_fs w') (next_name (h_q h)) = Some (NLink (encode (linq_meta ih None) path) now) /\
    only_journal (h_journal h) (wline (h_journal h) (c_ev_write_by_editor (h_cfg h)) pid path now)
                 [next_name (h_q h)] (w_fs w) (w_fs w') /\
    tr_ok (w_tr w') = true /\ (t_post (w_tr w) = 0 -> w_tr w' = w_tr w) /\ w_clock w' = now /\
    (keys_nodup (w_fs w) -> keys_nodup (w_fs w')).
Proof.
  intros H Hok HR Hd Hcp Hjf Hn Hf. cbv zeta.
  destruct (accept_write_post o w h pid path nc ents true ih None H Hok HR Hd Hcp Hjf (fun _ => conj Hn Hf))
    as (w' & E & F & Lk & HR' & _ & T1 & T2 & C & ND).
  cbv zeta in *. exists w'. destruct (Lk eq_refl) as [Lk1 _]. auto 10.
Qed.

(* (c) "yes", inside a project whose root ends at offset k: the file entry
   first, then the project root entry (flags 1), both stamped with the clock *)
Corollary accept_write_project o w h pid path nc ents ih k :
  benign o -> tr_ok (w_tr w) = true ->
  QRel (h_q h) (w_fs w) ents ->
  push_decision (c_rules (h_cfg h)) (h_cpl h) (pid_mem pid (h_pids h)) path = (true, ih, Some k) ->
  h_cfg_path h <> Some path ->
  journal_fits (h_journal h) (c_ev_write_by_editor (h_cfg h)) (w_clock w) ->
  normal path -> fits (q_len_guess (h_q h)) (path, linq_meta ih (Some k), w_clock w) ->
  let now := w_clock w in
  let q2 := pushed (firstn k path) (pushed path (h_q h)) in
  exists w',
    handle_close_write pid path nc h o w = (Some (set_q q2 h), w') /\
    QRel q2 (w_fs w')
         (ents ++ [(path, linq_meta ih (Some k), now); (firstn k path, 1%N, now)]) /\
    lookup (w_fs w') (next_name (h_q h)) = Some (NLink (encode (linq_meta ih (Some k)) path) now) /\
    lookup (w_fs w') (next_name (pushed path (h_q h))) = Some (NLink (encode 1 (firstn k path)) now) /\
    only_journal (h_journal h) (wline (h_journal h) (c_ev_write_by_editor (h_cfg h)) pid path now)
                 [next_name (h_q h); next_name (pushed path (h_q h))] (w_fs w) (w_fs w') /\
    tr_ok (w_tr w') = true /\ (t_post (w_tr w) = 0 -> w_tr w' = w_tr w) /\ w_clock w' = now /\
    (keys_nodup (w_fs w) -> keys_nodup (w_fs w')).
Proof.
  intros H Hok HR Hd Hcp Hjf Hn Hf. cbv zeta.
  destruct (accept_write_post o w h pid path nc ents true ih (Some k) H Hok HR Hd Hcp Hjf (fun _ => conj Hn Hf))
    as (w' & E & F & Lk & HR' & _ & T1 & T2 & C & ND).
  cbv zeta in *. exists w'. destruct (Lk eq_refl) as [Lk1 Lk2]. specialize (Lk2 k eq_refl).
  auto 12.
Qed.
Print Assumptions accept_write_rejected.
Print Assumptions accept_write_plain.
Print Assumptions accept_write_project.

(* ---------- C06 at the level of the handler ---------- *)

(* "The most specific matching rule decides": if candidate c (the last hidden
   component, or the deepest entry of the cluded / included / excluded / history
   set) is the deepest one (SieveSpec.decides), the write is accepted -- with
   everything accept_write says -- iff [outcome editor c] holds: hidden and
   excluded never, included and history always, cluded only for editors. *)
Theorem accept_write_decides o w h pid path nc ents c k :
  let ed := pid_mem pid (h_pids h) in
  let pd := push_decision (c_rules (h_cfg h)) (h_cpl h) ed path in
  benign o -> tr_ok (w_tr w) = true ->
  QRel (h_q h) (w_fs w) ents ->
  decides c k (rule_ends (c_rules (h_cfg h)) (h_cpl h) path) ->
  h_cfg_path h <> Some path ->
  journal_fits (h_journal h) (write_ev (h_cfg h) (outcome ed c)) (w_clock w) ->
  (outcome ed c = true ->
     normal path /\ fits (q_len_guess (h_q h)) (path, linq_meta (snd (fst pd)) (snd pd), w_clock w)) ->
  fst (fst pd) = outcome ed c /\
  exists w', accept_post o w h pid path nc ents (outcome ed c) (snd (fst pd)) (snd pd) w'.
Proof.
  cbv zeta. intros H Hok HR Hdec Hcp Hjf Hp.
  pose proof (policy_decides _ _ (pid_mem pid (h_pids h)) _ _ _ Hdec) as Epu.
  split; [exact Epu|].
  destruct (push_decision _ _ _ _) as [[pu ih] pre] eqn:Hd. cbn [fst snd] in *. subst pu.
  exact (accept_write_post o w h pid path nc ents _ ih pre H Hok HR Hd Hcp Hjf Hp).
Qed.

(* the default: no rule matches and no component is hidden -- only editors' writes are queued *)
Theorem accept_write_default o w h pid path nc ents :
  let ed := pid_mem pid (h_pids h) in
  let pd := push_decision (c_rules (h_cfg h)) (h_cpl h) ed path in
  benign o -> tr_ok (w_tr w) = true ->
  QRel (h_q h) (w_fs w) ents ->
  (forall c e, In (c, e) (rule_ends (c_rules (h_cfg h)) (h_cpl h) path) -> e = None) ->
  h_cfg_path h <> Some path ->
  journal_fits (h_journal h) (write_ev (h_cfg h) ed) (w_clock w) ->
  (ed = true ->
     normal path /\ fits (q_len_guess (h_q h)) (path, linq_meta (snd (fst pd)) (snd pd), w_clock w)) ->
  fst (fst pd) = ed /\
  exists w', accept_post o w h pid path nc ents ed (snd (fst pd)) (snd pd) w'.
Proof.
  cbv zeta. intros H Hok HR Hnone Hcp Hjf Hp.
  pose proof (policy_default _ _ (pid_mem pid (h_pids h)) _ Hnone) as Epu.
  split; [exact Epu|].
  destruct (push_decision _ _ _ _) as [[pu ih] pre] eqn:Hd. cbn [fst snd] in *. subst pu.
  exact (accept_write_post o w h pid path nc ents _ ih pre H Hok HR Hd Hcp Hjf Hp).
Qed.

(* the one-line reading: the queue grows iff the deepest candidate says so, and
   then its first new entry is the written file stamped with the current clock *)
Corollary write_queued_iff_deepest_rule o w h pid path nc ents c k :
  let ed := pid_mem pid (h_pids h) in
  let pd := push_decision (c_rules (h_cfg h)) (h_cpl h) ed path in
  benign o -> tr_ok (w_tr w) = true ->
  QRel (h_q h) (w_fs w) ents ->
  decides c k (rule_ends (c_rules (h_cfg h)) (h_cpl h) path) ->
  h_cfg_path h <> Some path ->
  journal_fits (h_journal h) (write_ev (h_cfg h) (outcome ed c)) (w_clock w) ->
  (outcome ed c = true ->
     normal path /\ fits (q_len_guess (h_q h)) (path, linq_meta (snd (fst pd)) (snd pd), w_clock w)) ->
  exists h' w' es,
    handle_close_write pid path nc h o w = (Some h', w') /\
    QRel (h_q h') (w_fs w') (ents ++ es) /\
    (es <> [] <-> outcome ed c = true) /\
    (outcome ed c = true -> exists m rest, es = (path, m, w_clock w) :: rest) /\
    (outcome ed c = false -> h' = h /\ fs_dents (w_fs w') = fs_dents (w_fs w)) /\
    tr_ok (w_tr w') = true.
Proof.
  cbv zeta. intros H Hok HR Hdec Hcp Hjf Hp.
  pose proof (policy_decides _ _ (pid_mem pid (h_pids h)) _ _ _ Hdec) as Epu.
  destruct (push_decision _ _ _ _) as [[pu ih] pre] eqn:Hd. cbn [fst snd] in *. subst pu.
  destruct (outcome (pid_mem pid (h_pids h)) c) eqn:Eo.
  - destruct (accept_write_post o w h pid path nc ents true ih pre H Hok HR Hd Hcp Hjf Hp)
      as (w' & E & _ & _ & HR' & _ & T1 & _).
    cbv zeta in *. eexists _, w', (acc_ents path ih pre (w_clock w)).
    split; [exact E|]. split; [exact HR'|].
    split; [split; [reflexivity | intros _; discriminate]|].
    split; [intros _; eexists _, _; reflexivity|]. split; [discriminate | exact T1].
  - destruct (accept_write o w h pid path nc ents false ih pre H Hok HR Hd Hcp Hjf)
      as (w' & E & J & HR' & _ & T1 & _); [discriminate|].
    cbv zeta in *. exists h, w', []. rewrite app_nil_r.
    split; [exact E|]. split; [exact HR'|].
    split; [split; [intros X; congruence | discriminate]|].
    split; [discriminate|].
    split; [intros _; split; [reflexivity | exact (journal_step_dents _ _ _ _ J)] | exact T1].
Qed.
Print Assumptions accept_write_decides.
Print Assumptions accept_write_default.
Print Assumptions write_queued_iff_deepest_rule.

(* ---------- accept, then a timeout pass: C01 + C02 for one file ---------- *)

(* Between two events the environment (the editor, other processes) may do
   anything to the file system and the clock may advance; the queue directory
   belongs to klunok: its names are as the handler left them. *)
Definition queue_untouched (q : qmem) (f f2 : fs) : Prop :=
  lookup f2 (q_dir q) = lookup f (q_dir q) /\
  forall k, lookup f2 (join (q_dir q) (dec k)) = lookup f (join (q_dir q) (dec k)).

Lemma QRel_env q f f2 ents : QRel q f ents -> queue_untouched q f f2 -> QRel q f2 ents.
Proof.
  intros [Hs Hh0 Hd Hnr He Hf Hb Hw] [U1 U2]. constructor; try assumption.
  - rewrite U1. exact Hd.
  - intros i p m t Hi. rewrite U2. exact (He i p m t Hi).
  - intros k Hk. rewrite U2. exact (Hf k Hk).
Qed.

Lemma queue_untouched_refl q f : queue_untouched q f f.
Proof. split; reflexivity. Qed.

(* A write to a plain path (no history, no project) is accepted at time t0 on
   an empty queue.  Whatever happens to the file afterwards:
   - a pass at a time t with t - t0 < debounce stores nothing, changes nothing
     and asks to be woken when the entry is due;
   - a pass at t >= t0 + debounce stores exactly one version, whose content is
     the content b the file has AT THE PASS (plain_ok is stated on the file
     system of the pass), removes the entry, and leaves the queue empty. *)
Theorem accept_then_pass o rev h w pid path nc :
  benign o -> tr_ok (w_tr w) = true ->
  QRel (h_q h) (w_fs w) [] ->
  push_decision (c_rules (h_cfg h)) (h_cpl h) (pid_mem pid (h_pids h)) path = (true, false, None) ->
  h_cfg_path h <> Some path ->
  journal_fits (h_journal h) (c_ev_write_by_editor (h_cfg h)) (w_clock w) ->
  normal path -> fits (q_len_guess (h_q h)) (path, 0%N, w_clock w) ->
  let t0 := w_clock w in
  let deb := q_deb (h_q h) in
  let h1 := set_q (pushed path (h_q h)) h in
  exists w1,
    handle_close_write pid path nc h o w = (Some h1, w1) /\
    QRel (h_q h1) (w_fs w1) [(path, 0%N, t0)] /\
    tr_ok (w_tr w1) = true /\ w_clock w1 = t0 /\
    forall w2,
      queue_untouched (h_q h) (w_fs w1) (w_fs w2) -> tr_ok (w_tr w2) = true ->
      (* too early *)
      ((w_clock w2 - t0 < deb)%Z ->
       exists w3,
         handle_timeout rev h1 o w2 = (Some (TPause (deb - (w_clock w2 - t0)), h1), w3) /\
         w_fs w3 = w_fs w2 /\ QRel (h_q h1) (w_fs w3) [(path, 0%N, t0)] /\
         tr_ok (w_tr w3) = true) /\
      (* due *)
      (forall i b,
         (deb <= w_clock w2 - t0)%Z -> keys_nodup (w_fs w2) ->
         plain_ok (h_cfg h) (h_cpl h) (h_journal h) (q_dir (h_q h)) (w_fs w2) (w_clock w2) path i b ->
         exists w3,
           handle_timeout rev h1 o w2 = (Some (TPause (-1), set_q (popped path (h_q h1)) h1), w3) /\
           step_post (h_cfg h) (h_cpl h) (h_journal h) (next_name (h_q h))
                     (w_fs w2) (w_fs w3) (w_clock w2) path b /\
           QRel (popped path (h_q h1)) (w_fs w3) [] /\ keys_nodup (w_fs w3) /\
           tr_ok (w_tr w3) = true /\ (t_post (w_tr w2) = 0 -> w_tr w3 = w_tr w2) /\
           w_clock w3 = w_clock w2).
Proof.
  intros H Hok HR Hd Hcp Hjf Hn Hf. cbv zeta.
  change 0%N with (linq_meta false None) in Hf.
  destruct (accept_write_plain o w h pid path nc [] false H Hok HR Hd Hcp Hjf Hn Hf)
    as (w1 & E1 & HR1 & _ & _ & T1 & _ & C1 & _).
  cbv zeta in *. cbn [app] in HR1. change (linq_meta false None) with 0%N in HR1.
  exists w1. split; [exact E1|]. split; [exact HR1|]. split; [exact T1|]. split; [exact C1|].
  intros w2 Hun Hok2.
  set (h1 := set_q (pushed path (h_q h)) h).
  assert (HR2 : QRel (h_q h1) (w_fs w2) [(path, 0%N, w_clock w)]).
  { apply (QRel_env _ (w_fs w1)); [exact HR1 | exact Hun]. }
  split.
  - intros Hearly.
    destruct (handle_timeout_not_due o w2 h1 rev path 0%N (w_clock w) [] H Hok2 HR2 Hearly)
      as (w3 & E3 & F3 & _ & K3 & HR3).
    exists w3. split; [exact E3|]. split; [exact F3|]. split; [exact HR3 | exact (tr_keep_ok _ _ K3)].
  - intros i b Hdue Hnd HP.
    destruct (handle_timeout_one_plain_head o rev h1 w2 path (w_clock w) [] i b H Hok2 Hnd HR2 Hdue
                eq_refl I HP) as (w3 & E3 & S3 & HR3 & Hnd3 & T3 & T3' & C3).
    exists w3. split; [exact E3|].
    assert (Ehn : head_name (h_q h1) = next_name (h_q h)).
    { unfold head_name, next_name, h1. cbn [set_q h_q pushed q_dir q_head].
      rewrite (QR_size _ _ _ HR). cbn [length]. change (N.of_nat 0) with 0%N.
      rewrite N.add_0_r. reflexivity. }
    rewrite Ehn in S3. auto 10.
Qed.
Print Assumptions accept_then_pass.

(* ---------- the failure side, for EVERY oracle ---------- *)

(* A write the policy rejects never reaches the queue: whatever fails, whenever
   the process dies, and whatever the error trace was on entry, the only calls
   issued are writes (to the journal), no name of the file system changes, and
   the handler is returned unchanged. *)
Theorem rejected_write_every_oracle (o : oracle) w h pid path nc ih pre r w' :
  push_decision (c_rules (h_cfg h)) (h_cpl h) (pid_mem pid (h_pids h)) path = (false, ih, pre) ->
  h_cfg_path h <> Some path ->
  handle_close_write pid path nc h o w = (r, w') ->
  log_ext is_write w w' /\ (forall h', r = Some h' -> h' = h).
Proof.
  intros Hd Hcp E. unfold handle_close_write, when_ok in E.
  rewrite (bind_some _ _ _ _ _ _ (is_ok_eq o w)) in E.
  destruct (tr_ok (w_tr w)) eqn:Hok.
  2:{ injection E as <- <-. split; [apply log_ext_refl; reflexivity | intros h' X; congruence]. }
  assert (Ep : push_to_linq pid path h o w = (Some (false, h), w)).
  { unfold push_to_linq. rewrite when_ok_true by exact Hok. rewrite Hd. reflexivity. }
  rewrite (bind_some _ _ _ _ _ _ Ep) in E. cbv iota beta in E.
  unfold bind at 1 in E.
  destruct (record_event (c_ev_write_not_by_editor (h_cfg h)) pid path h o w) as [[u|] w1] eqn:E1.
  2:{ injection E as <- <-. split; [exact (lext_record_event _ _ _ _ _ _ _ _ E1) | discriminate]. }
  pose proof (lext_record_event _ _ _ _ _ _ _ _ E1) as L1.
  rewrite (bind_some _ _ _ _ _ _ (is_ok_eq o w1)) in E.
  assert (Et : (match tr_ok (w_tr w1), h_cfg_path h with
                | true, Some cp => if str_eqb path cp then reload nc h else ret_ h
                | _, _ => ret_ h
                end) o w1 = (Some h, w1)).
  { destruct (tr_ok (w_tr w1)); [|reflexivity]. destruct (h_cfg_path h) as [cp|]; [|reflexivity].
    destruct (str_eqb_spec path cp) as [->|_]; [congruence | reflexivity]. }
  rewrite Et in E. injection E as <- <-. split; [exact L1 | intros h' X; congruence].
Qed.
Print Assumptions rejected_write_every_oracle.

(* ---------- C14 for EVERY oracle: an accepted write is queued, or an error is reported ---------- *)

Definition push_blk {B} (p : str) (m : N) (q : qmem) (k : qmem -> M B) : M B :=
  try_;; do q1 <- q_push p m q; rethrow_context p;; finally_rethrow_static M_linq_cannot_push;; k q1.

(* with an error pending the block does nothing *)
Lemma push_blk_nok (o : oracle) w q p m :
  tr_ok (w_tr w) = false ->
  exists w1,
    (forall B (k : qmem -> M B), push_blk p m q k o w = k q o w1) /\
    tr_ok (w_tr w1) = false /\ w_fs w1 = w_fs w /\ w_clock w1 = w_clock w.
Proof.
  intros Hn.
  exists (QueueProofs.upd_tr (fun t => tr_finally_rethrow_static M_linq_cannot_push
                                         (tr_rethrow_context p (tr_try t))) w).
  split; [|split; [|split; reflexivity]].
  - intros B k. unfold push_blk.
    rewrite (bind_some _ _ _ _ _ _ (try_eq o w)).
    assert (E : q_push p m q o (QueueProofs.upd_tr tr_try w) = (Some q, QueueProofs.upd_tr tr_try w)).
    { unfold q_push, when_ok. rewrite (bind_some _ _ _ _ _ _ (is_ok_eq o _)).
      cbn [QueueProofs.upd_tr w_tr]. rewrite (nok_try _ Hn). reflexivity. }
    rewrite (bind_some _ _ _ _ _ _ E).
    rewrite (bind_some _ _ _ _ _ _ (rethrow_context_eq p o _)).
    rewrite (bind_some _ _ _ _ _ _ (finally_rethrow_eq _ o _)). reflexivity.
  - cbn [QueueProofs.upd_tr w_tr].
    apply nok_finally_rethrow, nok_rethrow_context, nok_try. exact Hn.
Qed.

(* under any oracle the block dies, fails with an error, or pushes *)
Lemma push_blk_any (o : oracle) w q ents p m :
  tr_ok (w_tr w) = true ->
  QRel q (w_fs w) ents -> normal p -> fits (q_len_guess q) (p, m, w_clock w) ->
  exists w1,
    (forall B (k : qmem -> M B), push_blk p m q k o w = (None, w1)) \/
    ((forall B (k : qmem -> M B), push_blk p m q k o w = k q o w1) /\ tr_ok (w_tr w1) = false) \/
    ((forall B (k : qmem -> M B), push_blk p m q k o w = k (pushed p q) o w1) /\
     QRel (pushed p q) (w_fs w1) (ents ++ [(p, m, w_clock w)]) /\
     tr_ok (w_tr w1) = true /\ w_clock w1 = w_clock w).
Proof.
  intros Hok HR Hp Hfit.
  set (w0 := QueueProofs.upd_tr tr_try w).
  assert (Hok0 : tr_ok (w_tr w0) = true) by (apply tr_try_ok; exact Hok).
  pose proof (QRel_next_free _ _ _ HR) as Hnew. rewrite <- (QR_size _ _ _ HR) in Hnew.
  pose proof (parent_of_name (w_fs w) (q_dir q) (q_head q + q_size q)
                (QR_nroot _ _ _ HR) (QR_dir _ _ _ HR)) as Hpar.
  set (nm := dec (q_head q + q_size q)) in *.
  (* the three possible answers of symlinkat *)
  assert (Hsym :
    k_symlinkat (encode m p) (q_dir q) nm o w0 = (None, w0) \/
    (exists e, k_symlinkat (encode m p) (q_dir q) nm o w0 =
       (Some (Some e), mkW (w_fs w) (S (w_n w)) ((CSymlinkat (encode m p) (q_dir q) nm, RFault e) :: w_log w)
                           (w_clock w) (tr_try (w_tr w)))) \/
    k_symlinkat (encode m p) (q_dir q) nm o w0 =
       (Some None, mkW (add_dent (next_name q) (NLink (encode m p) (w_clock w)) (w_fs w)) (S (w_n w))
                       ((CSymlinkat (encode m p) (q_dir q) nm, RInt 0) :: w_log w)
                       (w_clock w) (tr_try (w_tr w)))).
  { unfold k_symlinkat, bind, get_clock, sys_unit, sys. change (w_n w0) with (w_n w).
    change (w_fs w0) with (w_fs w). change (w_clock w0) with (w_clock w).
    unfold fs_symlink. rewrite Hnew, Hpar.
    destruct (o (w_n w)); [right; right | right; left; eexists | right; right | right; right | left];
      reflexivity. }
  destruct Hsym as [Ec|[(e & Ee)|Eg]].
  - exists w0. left. intros B k. unfold push_blk.
    rewrite (bind_some _ _ _ _ _ _ (try_eq o w)). fold w0.
    unfold q_push. unfold bind at 1. rewrite when_ok_true by exact Hok0.
    unfold bind at 1. fold nm. rewrite Ec. reflexivity.
  - eexists. right. left. split.
    + intros B k. unfold push_blk.
      rewrite (bind_some _ _ _ _ _ _ (try_eq o w)). fold w0.
      assert (E : q_push p m q o w0 =
                  (Some q, mkW (w_fs w) (S (w_n w))
                               ((CSymlinkat (encode m p) (q_dir q) nm, RFault e) :: w_log w)
                               (w_clock w) (tr_push (FErrno e) (tr_try (w_tr w))))).
      { unfold q_push. rewrite when_ok_true by exact Hok0. unfold bind at 1. fold nm. rewrite Ee.
        reflexivity. }
      rewrite (bind_some _ _ _ _ _ _ E).
      rewrite (bind_some _ _ _ _ _ _ (rethrow_context_eq p o _)).
      rewrite (bind_some _ _ _ _ _ _ (finally_rethrow_eq _ o _)). reflexivity.
    + cbn [QueueProofs.upd_tr w_tr]. apply nok_finally_rethrow, nok_rethrow_context. reflexivity.
  - eexists. right. right. split; [|split; [|split]].
    + intros B k. unfold push_blk.
      rewrite (bind_some _ _ _ _ _ _ (try_eq o w)). fold w0.
      assert (E : q_push p m q o w0 =
                  (Some (pushed p q),
                   mkW (add_dent (next_name q) (NLink (encode m p) (w_clock w)) (w_fs w)) (S (w_n w))
                       ((CSymlinkat (encode m p) (q_dir q) nm, RInt 0) :: w_log w)
                       (w_clock w) (tr_try (w_tr w)))).
      { unfold q_push. rewrite when_ok_true by exact Hok0. unfold bind at 1. fold nm. rewrite Eg.
        reflexivity. }
      rewrite (bind_some _ _ _ _ _ _ E).
      rewrite (bind_some _ _ _ _ _ _ (rethrow_context_eq p o _)).
      rewrite (bind_some _ _ _ _ _ _ (finally_rethrow_eq _ o _)). reflexivity.
    + cbn [QueueProofs.upd_tr w_fs]. apply QRel_push; assumption.
    + cbn [QueueProofs.upd_tr w_tr]. exact (tr_keep_ok _ _ (tr_cycle p M_linq_cannot_push _ Hok)).
    + reflexivity.
Qed.

Lemma push_to_linq_any (o : oracle) w h pid path ents ih pre :
  tr_ok (w_tr w) = true ->
  QRel (h_q h) (w_fs w) ents ->
  push_decision (c_rules (h_cfg h)) (h_cpl h) (pid_mem pid (h_pids h)) path = (true, ih, pre) ->
  ents_ok (q_len_guess (h_q h)) (acc_ents path ih pre (w_clock w)) ->
  exists w1,
    push_to_linq pid path h o w = (None, w1) \/
    (exists q1, push_to_linq pid path h o w = (Some (true, set_q q1 h), w1) /\ tr_ok (w_tr w1) = false) \/
    (push_to_linq pid path h o w = (Some (true, set_q (acc_q path pre (h_q h)) h), w1) /\
     QRel (acc_q path pre (h_q h)) (w_fs w1) (ents ++ acc_ents path ih pre (w_clock w)) /\
     tr_ok (w_tr w1) = true).
Proof.
  intros Hok HR Hd Hwf.
  unfold push_to_linq. rewrite when_ok_true by exact Hok. rewrite Hd. cbv iota beta. cbn [negb].
  unfold ents_ok, acc_ents in Hwf.
  inversion Hwf as [|e1 es1 [Hn1 Hf1] Hwf2]; subst. unfold qpath in Hn1. cbn [fst] in Hn1.
  match goal with |- context [(?prog o w)] =>
    change (prog o w) with
      (push_blk path (linq_meta ih pre) (h_q h)
         (fun q1 => match pre with
                    | None => ret_ (true, set_q q1 h)
                    | Some k => push_blk (firstn k path) 1%N q1 (fun q2 => ret_ (true, set_q q2 h))
                    end) o w)
  end.
  destruct (push_blk_any o w (h_q h) ents path (linq_meta ih pre) Hok HR Hn1 Hf1)
    as (w1 & [E1|[[E1 N1]|(E1 & HR1 & T1 & C1)]]); rewrite E1; clear E1.
  - exists w1. left. reflexivity.
  - destruct pre as [k|].
    + destruct (push_blk_nok o w1 (h_q h) (firstn k path) 1%N N1) as (w2 & E2 & N2 & _).
      rewrite E2. exists w2. right. left. exists (h_q h). split; [reflexivity | exact N2].
    + exists w1. right. left. exists (h_q h). split; [reflexivity | exact N1].
  - destruct pre as [k|].
    + inversion Hwf2 as [|e2 es2 [Hn2 Hf2] _]; subst. unfold qpath in Hn2. cbn [fst] in Hn2.
      assert (Hf2' : fits (q_len_guess (pushed path (h_q h))) (firstn k path, 1%N, w_clock w1))
        by (rewrite C1; exact Hf2).
      destruct (push_blk_any o w1 (pushed path (h_q h)) _ (firstn k path) 1%N T1 HR1 Hn2 Hf2')
        as (w2 & [E2|[[E2 N2]|(E2 & HR2 & T2 & C2)]]); rewrite E2; clear E2.
      * exists w2. left. reflexivity.
      * exists w2. right. left. eexists. split; [reflexivity | exact N2].
      * exists w2. right. right. split; [reflexivity|]. cbn [acc_q acc_ents].
        rewrite C1, <- app_assoc in HR2. split; [exact HR2 | exact T2].
    + exists w1. right. right. split; [reflexivity|]. cbn [acc_q acc_ents]. split; assumption.
Qed.

Lemma record_event_nok (o : oracle) w ev pid path h :
  tr_ok (w_tr w) = false ->
  exists w', record_event ev pid path h o w = (Some tt, w') /\ tr_ok (w_tr w') = false.
Proof.
  intros Hn. rewrite record_event_eq.
  assert (E : note ev pid path (h_journal h) o (Hoare.upd_tr (tr_try (w_tr w)) w) =
              (Some tt, Hoare.upd_tr (tr_try (w_tr w)) w)).
  { unfold note. destruct (h_journal h) as [jn|]; [|reflexivity]. destruct ev as [e|]; [|reflexivity].
    unfold when_ok. rewrite (bind_some _ _ _ _ _ _ (is_ok_eq o _)).
    cbn [Hoare.upd_tr w_tr]. rewrite (nok_try _ Hn). reflexivity. }
  rewrite E. eexists. split; [reflexivity|]. cbn [Hoare.upd_tr w_tr].
  apply nok_rec_tr, nok_try. exact Hn.
Qed.

(* "Every qualifying write is queued" without assumptions on the oracle: if
   the policy accepts the write and handle_close_write comes back without an
   error, the entries ARE in the queue (QRel with the extended reference queue).
   Otherwise the process died or an error is on the trace -- never a silent loss. *)
Theorem accepted_write_every_oracle (o : oracle) w h pid path nc ents ih pre h' w' :
  tr_ok (w_tr w) = true ->
  QRel (h_q h) (w_fs w) ents ->
  push_decision (c_rules (h_cfg h)) (h_cpl h) (pid_mem pid (h_pids h)) path = (true, ih, pre) ->
  h_cfg_path h <> Some path ->
  normal path -> fits (q_len_guess (h_q h)) (path, linq_meta ih pre, w_clock w) ->
  handle_close_write pid path nc h o w = (Some h', w') ->
  tr_ok (w_tr w') = true ->
  h' = set_q (acc_q path pre (h_q h)) h /\
  QRel (h_q h') (w_fs w') (ents ++ acc_ents path ih pre (w_clock w)).
Proof.
  intros Hok HR Hd Hcp Hn Hf E Hok'.
  pose proof (acc_ents_ok _ _ _ _ _ _ _ _ _ Hd Hn Hf) as Hwf.
  unfold handle_close_write in E. rewrite when_ok_true in E by exact Hok.
  assert (Htail : forall h1 w2, h_cfg_path h1 = h_cfg_path h ->
            (do b <- is_ok;
             match b, h_cfg_path h1 with
             | true, Some cp => if str_eqb path cp then reload nc h1 else ret_ h1
             | _, _ => ret_ h1
             end) o w2 = (Some h1, w2)).
  { intros h1 w2 Ecp. rewrite (bind_some _ _ _ _ _ _ (is_ok_eq o w2)). rewrite Ecp.
    destruct (tr_ok (w_tr w2)); [|reflexivity]. destruct (h_cfg_path h) as [cp|]; [|reflexivity].
    destruct (str_eqb_spec path cp) as [->|_]; [congruence | reflexivity]. }
  destruct (push_to_linq_any o w h pid path ents ih pre Hok HR Hd Hwf)
    as (w1 & [E1|[(q1 & E1 & N1)|(E1 & HR1 & T1)]]).
  - unfold bind at 1 in E. rewrite E1 in E. discriminate.
  - rewrite (bind_some _ _ _ _ _ _ E1) in E. cbv iota beta in E.
    destruct (record_event_nok o w1 (c_ev_write_by_editor (h_cfg (set_q q1 h))) pid path (set_q q1 h) N1)
      as (w2 & E2 & N2).
    rewrite (bind_some _ _ _ _ _ _ E2) in E. rewrite Htail in E by reflexivity.
    injection E as <- <-. congruence.
  - rewrite (bind_some _ _ _ _ _ _ E1) in E. cbv iota beta in E.
    unfold bind at 1 in E.
    destruct (record_event _ pid path (set_q (acc_q path pre (h_q h)) h) o w1) as [[u|] w2] eqn:E2;
      [|discriminate].
    rewrite Htail in E by reflexivity. injection E as <- <-.
    split; [reflexivity|]. cbn [set_q h_q].
    destruct (lext_record_event _ _ _ _ _ _ _ _ E2) as (_ & _ & _ & D2).
    exact (QRel_same_dents _ _ _ _ D2 HR1).
Qed.
Print Assumptions accepted_write_every_oracle.

(* ====================================================================== *)
(* a concrete configuration                                               *)
(* ====================================================================== *)

Module AcceptExample.
  Local Open Scope char_scope.

  Definition p_q : str := ["/"; "q"].
  Definition p_st : str := ["/"; "s"; "t"].
  Definition p_j : str := ["/"; "j"].
  Definition p_h : str := ["/"; "h"].
  Definition p_c : str := ["/"; "h"; "/"; "c"].                 (* the configuration file *)
  Definition p_x : str := ["/"; "h"; "/"; "x"].                 (* an excluded directory *)
  Definition p_i : str := ["/"; "h"; "/"; "x"; "/"; "i"].       (* an included file below it *)
  Definition p_o : str := ["/"; "h"; "/"; "x"; "/"; "o"].       (* another file below it *)
  Definition p_a : str := ["/"; "h"; "/"; "a"].                 (* no rule matches *)
  Definition p_p : str := ["/"; "h"; "/"; "p"].                 (* a project root *)
  Definition p_f : str := ["/"; "h"; "/"; "p"; "/"; "f"].       (* a file of the project *)
  Definition p_l : str := ["/"; "h"; "/"; "l"].                 (* a history (log) directory *)
  Definition p_g : str := ["/"; "h"; "/"; "l"; "/"; "g"].       (* a log file *)
  Definition p_lp : str := ["/"; "h"; "/"; "l"; "/"; "p"].      (* a project root INSIDE the history directory *)
  Definition p_lpg : str := ["/"; "h"; "/"; "l"; "/"; "p"; "/"; "g"].
  Definition one : str := ["o"; "n"; "e"].
  Definition two : str := ["t"; "w"; "o"; "!"; "!"].
  Definition old : str := ["o"; "l"; "d"; "010"].
  Definition stored : str := ["s"; "t"; "o"; "r"; "e"; "d"].

  Definition rulesA : rules := mkRules [] [p_i] [p_x] [p_l] [p_p; p_lp] [].

  (* debounce 5 s; journal /j, time stamp "<seconds>"; versions "v<seconds>";
     labels "W" (write accepted) and "w" (write not accepted) *)
  Definition cfgA : config :=
    mkCfg [["v"; "i"]] rulesA p_st ["/"; "p"; "s"] ["/"; "u"] p_q (Some p_j) ["/"; "o"; "f"; "f"]
          ["%"; "s"] ["v"; "%"; "s"] 5%Z 0 16 None None (Some ["w"]) (Some ["W"]) None None (Some stored).

  Definition fs0 : fs :=
    mkFs [ (p_q, NDir); (p_h, NDir); (p_x, NDir); (p_p, NDir); (p_j, NFile 1);
           (p_i, NFile 2); (p_o, NFile 3); (p_a, NFile 4); (p_f, NFile 5) ]
         [ (1, mkFile old true); (2, mkFile one true); (3, mkFile ["o"] true);
           (4, mkFile ["a"] true); (5, mkFile ["f"] true) ]
         6.

  Definition q0 : qmem := mkQ p_q 0 0 5%Z 16 [].
  Definition jA : journal := mkJ 1 ["%"; "s"].

  (* the common parent is "/h/"; pid 7 is an editor, pid 9 is not *)
  Definition h0 : handler := mkH cfgA (Some p_c) 3 q0 (Some jA) [7%N] [].
  Definition w0 : world := mkW fs0 0 [] 100%Z tr_empty.

  Definition decision (pid : N) (p : str) := push_decision rulesA 3 (pid_mem pid (h_pids h0)) p.

  (* ----- the policy on this configuration (C06) ----- *)
  Example decisions :
    decision 9 p_i = (true, false, None) /\        (* included below an excluded directory: anyone *)
    decision 7 p_o = (false, false, None) /\       (* excluded: not even the editor *)
    decision 9 p_a = (false, false, None) /\       (* no rule: not a non-editor *)
    decision 7 p_a = (true, false, None) /\        (* no rule: the editor *)
    decision 7 p_f = (true, false, Some 4) /\      (* a project file, written by the editor *)
    decision 9 p_f = (false, false, Some 4) /\
    decision 9 p_g = (true, true, None).           (* history: anyone, flagged *)
  Proof. vm_compute. repeat split; reflexivity. Qed.

  (* OBSERVATION (handler.c, push_to_linq: `is_history = i == history` is
     executed for EVERY set whose end is farther, also for the project sets):
     a project root below a history directory switches the history flag off,
     although the project sets never change whether the write is queued. *)
  Example history_flag_reset_by_deeper_project :
    decision 9 p_g = (true, true, None) /\ decision 9 p_lpg = (true, false, Some 6).
  Proof. vm_compute. split; reflexivity. Qed.

  Lemma free0 k : lookup fs0 (join p_q (dec k)) = None.
  Proof.
    unfold lookup.
    destruct (str_eqb_spec (join p_q (dec k)) root_path) as [E|_].
    { exfalso. revert E. apply join_dec_nonroot. discriminate. }
    rewrite (join_nonroot p_q (dec k)) by discriminate.
    unfold fs0, p_q, p_h, p_x, p_p, p_j, p_i, p_o, p_a, p_f. cbn [fs_dents alookup app].
    repeat (destruct (str_eqb_spec _ _) as [E|_]; [discriminate E|]). reflexivity.
  Qed.

  Lemma q0_rel : QRel (h_q h0) (w_fs w0) [].
  Proof. apply QRel_empty; [discriminate | reflexivity | exact free0]. Qed.

  Lemma fits16 p m t : Nat.leb (length (encode m p)) 16 = true -> fits 16 (p, m, t).
  Proof.
    intros Hl. unfold fits, qpath. cbn [fst snd]. apply Nat.leb_le in Hl.
    assert (Hb : 1 <= 2 ^ 63) by (apply Nat.neq_0_lt_0, Nat.pow_nonzero; discriminate).
    apply Nat.lt_le_trans with 17; [lia|].
    rewrite <- (Nat.mul_1_r 17) at 1. apply Nat.mul_le_mono_l. exact Hb.
  Qed.

  Lemma jfits ev : journal_fits (h_journal h0) ev 100%Z.
  Proof. intros jn e Ej _. injection Ej as <-. vm_compute. lia. Qed.

  Lemma w0_nodup : keys_nodup (w_fs w0).
  Proof.
    unfold keys_nodup. vm_compute.
    repeat (constructor; [let Hin := fresh in intros Hin; cbn [In] in Hin;
                          repeat (destruct Hin as [Hin|Hin]; [discriminate Hin|]); exact Hin|]).
    constructor.
  Qed.

  (* ----- direct evaluation ----- *)

  Definition n0 : str := ["/"; "q"; "/"; "0"].
  Definition n1 : str := ["/"; "q"; "/"; "1"].

  (* the non-editor writes the included file: one link, one journal line *)
  Example run_included :
    match handle_close_write 9 p_i None h0 no_faults w0 with
    | (Some h1, w1) =>
        q_head (h_q h1) = 0%N /\ q_size (h_q h1) = 1%N /\ q_bag (h_q h1) = [p_i] /\
        lookup (w_fs w1) n0 = Some (NLink p_i 100%Z) /\ lookup (w_fs w1) n1 = None /\
        f_bytes (get_file (w_fs w1) 1) = old ++ journal_line ["1"; "0"; "0"] ["W"] 9 p_i /\
        get_file (w_fs w1) 2 = mkFile one true /\
        map fst (w_log w1) = [CWrite 15; CSymlinkat p_i p_q ["0"]] /\
        w_tr w1 = tr_empty
    | _ => False
    end.
  Proof. vm_compute. repeat split; reflexivity. Qed.

  (* the editor writes a file of the project: the file entry (project offset 4
     in the flags), then the project root entry (flags 1) *)
  Example run_project :
    match handle_close_write 7 p_f None h0 no_faults w0 with
    | (Some h1, w1) =>
        q_size (h_q h1) = 2%N /\ q_bag (h_q h1) = [p_p; p_f] /\
        lookup (w_fs w1) n0 = Some (NLink (encode 16 p_f) 100%Z) /\
        lookup (w_fs w1) n1 = Some (NLink (encode 1 p_p) 100%Z) /\
        decode (encode 16 p_f) = (16%N, p_f) /\ shift_right2 16 = 4 /\ firstn 4 p_f = p_p /\
        f_bytes (get_file (w_fs w1) 1) = old ++ journal_line ["1"; "0"; "0"] ["W"] 7 p_f /\
        w_tr w1 = tr_empty
    | _ => False
    end.
  Proof. vm_compute. repeat split; reflexivity. Qed.

  (* the editor writes below the excluded directory: no link, the "w" line *)
  Example run_excluded :
    match handle_close_write 7 p_o None h0 no_faults w0 with
    | (Some h1, w1) =>
        h1 = h0 /\ fs_dents (w_fs w1) = fs_dents fs0 /\
        f_bytes (get_file (w_fs w1) 1) = old ++ journal_line ["1"; "0"; "0"] ["w"] 7 p_o /\
        map fst (w_log w1) = [CWrite 15] /\ w_tr w1 = tr_empty
    | _ => False
    end.
  Proof. vm_compute. repeat split; reflexivity. Qed.

  (* symlinkat fails: an error is reported, nothing is queued (cf. accepted_write_every_oracle) *)
  Example run_symlink_fails :
    match handle_close_write 9 p_i None h0 (fun n => if Nat.eqb n 0 then FFail ENOSPC else FNone) w0 with
    | (Some h1, w1) =>
        h1 = h0 /\ fs_dents (w_fs w1) = fs_dents fs0 /\
        t_frames (w_tr w1) = [FStatic M_linq_cannot_push; FContext p_i; FErrno ENOSPC]
    | _ => False
    end.
  Proof. vm_compute. repeat split; reflexivity. Qed.

  (* ----- the same by the theorems, for every benign oracle ----- *)

  Lemma cfg_path_other p : p <> p_c -> h_cfg_path h0 <> Some p.
  Proof. intros Hp E. injection E as E. congruence. Qed.

  Ltac neq := let E := fresh in intros E; vm_compute in E; discriminate E.

  (* all hypotheses of accept_write (through accept_write_plain) hold *)
  Example hyps_included :
    tr_ok (w_tr w0) = true /\ QRel (h_q h0) (w_fs w0) [] /\
    push_decision (c_rules (h_cfg h0)) (h_cpl h0) (pid_mem 9 (h_pids h0)) p_i = (true, false, None) /\
    h_cfg_path h0 <> Some p_i /\
    journal_fits (h_journal h0) (c_ev_write_by_editor (h_cfg h0)) (w_clock w0) /\
    normal p_i /\ fits (q_len_guess (h_q h0)) (p_i, linq_meta false None, w_clock w0).
  Proof.
    split; [reflexivity|]. split; [exact q0_rel|]. split; [vm_compute; reflexivity|].
    split; [apply cfg_path_other; neq|]. split; [apply jfits|].
    split; [apply normalb_spec; reflexivity | apply fits16; reflexivity].
  Qed.

  Example included_by_theorem o nc : benign o ->
    exists w',
      handle_close_write 9 p_i nc h0 o w0 = (Some (set_q (pushed p_i q0) h0), w') /\
      QRel (pushed p_i q0) (w_fs w') [(p_i, 0%N, 100%Z)] /\
      lookup (w_fs w') n0 = Some (NLink p_i 100%Z) /\
      (forall x, x <> n0 -> lookup (w_fs w') x = lookup fs0 x) /\
      f_bytes (get_file (w_fs w') 1) = old ++ journal_line ["1"; "0"; "0"] ["W"] 9 p_i /\
      get_file (w_fs w') 2 = mkFile one true /\
      w_tr w' = tr_empty.
  Proof.
    intros H. destruct hyps_included as (A1 & A2 & A3 & A4 & A5 & A6 & A7).
    destruct (accept_write_plain o w0 h0 9 p_i nc [] false H A1 A2 A3 A4 A5 A6 A7)
      as (w' & E & HR & L & (F1 & F2 & F3 & _) & _ & T & _).
    exists w'. split; [exact E|]. split; [exact HR|]. split; [exact L|].
    split; [intros x Hx; apply F1; intros [<-|[]]; apply Hx; reflexivity|].
    split; [exact (proj1 (F3 jA eq_refl))|].
    split; [apply (F2 2); intros jn Ej; injection Ej as <-; discriminate | apply T; reflexivity].
  Qed.

  Example hyps_project :
    push_decision (c_rules (h_cfg h0)) (h_cpl h0) (pid_mem 7 (h_pids h0)) p_f = (true, false, Some 4) /\
    h_cfg_path h0 <> Some p_f /\
    normal p_f /\ fits (q_len_guess (h_q h0)) (p_f, linq_meta false (Some 4), w_clock w0).
  Proof.
    split; [vm_compute; reflexivity|]. split; [apply cfg_path_other; neq|].
    split; [apply normalb_spec; reflexivity | apply fits16; reflexivity].
  Qed.

  Example project_by_theorem o nc : benign o ->
    exists w',
      handle_close_write 7 p_f nc h0 o w0 = (Some (set_q (pushed p_p (pushed p_f q0)) h0), w') /\
      QRel (pushed p_p (pushed p_f q0)) (w_fs w') [(p_f, 16%N, 100%Z); (p_p, 1%N, 100%Z)] /\
      lookup (w_fs w') n0 = Some (NLink (encode 16 p_f) 100%Z) /\
      lookup (w_fs w') n1 = Some (NLink (encode 1 p_p) 100%Z) /\
      f_bytes (get_file (w_fs w') 1) = old ++ journal_line ["1"; "0"; "0"] ["W"] 7 p_f /\
      w_tr w' = tr_empty.
  Proof.
    intros H. destruct hyps_project as (A3 & A4 & A6 & A7).
    destruct (accept_write_project o w0 h0 7 p_f nc [] false 4 H eq_refl q0_rel A3 A4 (jfits _) A6 A7)
      as (w' & E & HR & L1 & L2 & (_ & _ & F3 & _) & _ & T & _).
    exists w'. split; [exact E|]. split; [exact HR|]. split; [exact L1|]. split; [exact L2|].
    split; [exact (proj1 (F3 jA eq_refl)) | apply T; reflexivity].
  Qed.

  Example excluded_by_theorem o nc : benign o ->
    exists w',
      handle_close_write 7 p_o nc h0 o w0 = (Some h0, w') /\
      QRel q0 (w_fs w') [] /\ fs_dents (w_fs w') = fs_dents fs0 /\
      f_bytes (get_file (w_fs w') 1) = old ++ journal_line ["1"; "0"; "0"] ["w"] 7 p_o /\
      (exists lj, w_log w' = lj /\ Forall (fun cr => is_write (fst cr)) lj) /\
      w_tr w' = tr_empty.
  Proof.
    intros H.
    destruct (accept_write_rejected o w0 h0 7 p_o nc [] false None H eq_refl q0_rel)
      as (w' & E & HR & D & (_ & _ & F3 & _) & (lj & L & Fl) & _ & T & _).
    { vm_compute. reflexivity. }
    { apply cfg_path_other; neq. }
    { apply jfits. }
    exists w'. split; [exact E|]. split; [exact HR|]. split; [exact D|].
    split; [exact (proj1 (F3 jA eq_refl))|].
    split; [exists lj; split; [rewrite L; apply app_nil_r | exact Fl] | apply T; reflexivity].
  Qed.

  (* ----- C06 through SieveSpec.decides ----- *)

  (* for /h/x/i the candidates are: included entry /h/x/i (end 6) and excluded
     entry /h/x (end 4); the deeper one, "included", decides *)
  Example included_decides : decides (CRule KIncluded) 6 (rule_ends rulesA 3 p_i).
  Proof.
    exists [(CHidden, None); (CRule KCluded, None)], [(CRule KExcluded, Some 4); (CRule KHistory, None)].
    split; [vm_compute; reflexivity|]. split.
    - intros c' e' [X|[X|[]]]; injection X as <- <-; reflexivity.
    - intros c' e' [X|[X|[]]]; injection X as <- <-; reflexivity.
  Qed.

  (* for /h/x/o only the excluded entry /h/x matches *)
  Example excluded_decides : decides (CRule KExcluded) 4 (rule_ends rulesA 3 p_o).
  Proof.
    exists [(CHidden, None); (CRule KCluded, None); (CRule KIncluded, None)], [(CRule KHistory, None)].
    split; [vm_compute; reflexivity|]. split.
    - intros c' e' [X|[X|[X|[]]]]; injection X as <- <-; reflexivity.
    - intros c' e' [X|[]]; injection X as <- <-; reflexivity.
  Qed.

  (* whoever writes /h/x/i (editor or not, any pid), it is queued; whoever
     writes /h/x/o, it is not -- by the handler-level C06 theorem *)
  Example C06_included_any_pid o pid nc : benign o ->
    exists h' w' m rest,
      handle_close_write pid p_i nc h0 o w0 = (Some h', w') /\
      QRel (h_q h') (w_fs w') ((p_i, m, 100%Z) :: rest) /\ tr_ok (w_tr w') = true.
  Proof.
    intros H.
    destruct (write_queued_iff_deepest_rule o w0 h0 pid p_i nc [] (CRule KIncluded) 6 H eq_refl q0_rel
                included_decides) as (h' & w' & es & E & HR & _ & Hes & _ & T).
    { apply cfg_path_other; neq. }
    { apply jfits. }
    { intros _. split; [apply normalb_spec; reflexivity|]. apply fits16.
      destruct (pid_mem pid (h_pids h0)); vm_compute; reflexivity. }
    destruct (Hes eq_refl) as (m & rest & ->). exists h', w', m, rest. auto.
  Qed.

  Example C06_excluded_any_pid o pid nc : benign o ->
    exists w',
      handle_close_write pid p_o nc h0 o w0 = (Some h0, w') /\
      QRel q0 (w_fs w') [] /\ fs_dents (w_fs w') = fs_dents fs0.
  Proof.
    intros H.
    destruct (write_queued_iff_deepest_rule o w0 h0 pid p_o nc [] (CRule KExcluded) 4 H eq_refl q0_rel
                excluded_decides) as (h' & w' & es & E & HR & Hiff & _ & Hno & _).
    { apply cfg_path_other; neq. }
    { apply jfits. }
    { discriminate. }
    destruct (Hno eq_refl) as [-> D]. exists w'. split; [exact E|]. split; [|exact D].
    destruct es as [|e es]; [exact HR|]. exfalso.
    assert (X : outcome (pid_mem pid (h_pids h0)) (CRule KExcluded) = true) by (apply Hiff; discriminate).
    discriminate X.
  Qed.

  (* the default: /h/a matches nothing -- queued iff the writer is an editor *)
  Example C06_default_a o pid nc : benign o ->
    fst (fst (push_decision rulesA 3 (pid_mem pid (h_pids h0)) p_a)) = pid_mem pid (h_pids h0) /\
    exists w', accept_post o w0 h0 pid p_a nc [] (pid_mem pid (h_pids h0)) false None w'.
  Proof.
    intros H.
    destruct (accept_write_default o w0 h0 pid p_a nc [] H eq_refl q0_rel) as [E1 (w' & P)].
    { intros c e Hin. vm_compute in Hin.
      repeat (destruct Hin as [Hin|Hin]; [injection Hin as _ <-; reflexivity|]). destruct Hin. }
    { apply cfg_path_other; neq. }
    { apply jfits. }
    { intros _. split; [apply normalb_spec; reflexivity|]. apply fits16.
      destruct (pid_mem pid (h_pids h0)); vm_compute; reflexivity. }
    split; [exact E1|]. exists w'.
    assert (Ed : push_decision (c_rules (h_cfg h0)) (h_cpl h0) (pid_mem pid (h_pids h0)) p_a
                 = (pid_mem pid (h_pids h0), false, None)).
    { destruct (pid_mem pid (h_pids h0)); vm_compute; reflexivity. }
    rewrite Ed in P. exact P.
  Qed.

  (* ----- accept, then timeout passes: the content stored is the one AT THE PASS ----- *)

  (* the kernel moves at most 2 bytes per transfer (journal writes and sendfile alike) *)
  Definition o2 : oracle := fun _ => FShort 2.
  Lemma o2_benign : benign o2.
  Proof. intros i. right. exists 2. split; [lia | left; reflexivity]. Qed.

  Definition h1 : handler := set_q (pushed p_i q0) h0.
  (* the world after the write of pid 9 to /h/x/i at 100 s (its content then: "one") *)
  Definition w1 : world := snd (handle_close_write 9 p_i None h0 o2 w0).

  (* the environment: the file is rewritten ("two!!") and the clock advances *)
  Definition env (t : Z) (w : world) : world :=
    mkW (set_file 2 (mkFile two true) (w_fs w)) (w_n w) (w_log w) t (w_tr w).
  Definition w_early : world := env 103 w1.
  Definition w_due : world := env 105 w1.
  Definition v105 : str := p_st ++ ["/"; "x"; "/"; "i"; "/"; "v"; "1"; "0"; "5"].

  Example run_accept_then_pass :
    (* at 103 s: wait 2 s more, nothing stored *)
    match handle_timeout false h1 o2 w_early with
    | (Some (TPause z, h'), w') => z = 2%Z /\ h' = h1 /\ w_fs w' = w_fs w_early
    | _ => False
    end /\
    (* at 105 s: one version, with the content of 105 s *)
    match handle_timeout false h1 o2 w_due with
    | (Some (TPause z, h'), w') =>
        z = (-1)%Z /\ q_size (h_q h') = 0%N /\ q_bag (h_q h') = [] /\
        lookup (w_fs w') v105 = Some (NFile 6) /\ get_file (w_fs w') 6 = mkFile two true /\
        lookup (w_fs w') n0 = None /\
        f_bytes (get_file (w_fs w') 1) =
          old ++ journal_line ["1"; "0"; "0"] ["W"] 9 p_i
              ++ journal_line ["1"; "0"; "5"] stored 0 ["x"; "/"; "i"] /\
        w_tr w' = tr_empty
    | _ => False
    end.
  Proof. vm_compute. repeat split; reflexivity. Qed.

  Lemma lookup_set_file i x f p : lookup (set_file i x f) p = lookup f p.
  Proof. reflexivity. Qed.

  Lemma env_untouched t w : queue_untouched (h_q h0) (w_fs w) (w_fs (env t w)).
  Proof. split; intros; apply lookup_set_file. Qed.

  Ltac not_in := let Hin := fresh in intros Hin; vm_compute in Hin;
                 repeat (destruct Hin as [Hin|Hin]; [discriminate Hin|]); exact Hin.

  (* the hypotheses of the "due" part hold of the world at 105 s *)
  Lemma due_plain_ok : plain_ok cfgA 3 (Some jA) p_q (w_fs w_due) 105%Z p_i 2 two.
  Proof.
    constructor.
    - reflexivity.
    - reflexivity.
    - vm_compute. lia.
    - vm_compute. lia.
    - reflexivity.
    - vm_compute. reflexivity.
    - vm_compute. reflexivity.
    - vm_compute. lia.
    - eexists. reflexivity.
    - vm_compute. reflexivity.
    - intros d Hd. vm_compute in Hd.
      repeat (destruct Hd as [Hd|Hd]; [subst d; vm_compute; auto|]). destruct Hd.
    - vm_compute. reflexivity.
    - vm_compute. reflexivity.
    - vm_compute. reflexivity.
    - neq.
    - not_in.
    - not_in.
    - intros jn e Ej _. injection Ej as <-. vm_compute. lia.
    - intros jn Ej. injection Ej as <-. vm_compute. split; [discriminate | lia].
  Qed.

  Lemma due_nodup : keys_nodup (w_fs w_due).
  Proof.
    unfold keys_nodup. vm_compute.
    repeat (constructor; [let Hin := fresh in intros Hin; cbn [In] in Hin;
                          repeat (destruct Hin as [Hin|Hin]; [discriminate Hin|]); exact Hin|]).
    constructor.
  Qed.

  (* the same by accept_then_pass *)
  Example accept_then_pass_by_theorem :
    handle_close_write 9 p_i None h0 o2 w0 = (Some h1, w1) /\
    (exists w3, handle_timeout false h1 o2 w_early = (Some (TPause 2, h1), w3) /\
                w_fs w3 = w_fs w_early) /\
    (exists w3, handle_timeout false h1 o2 w_due = (Some (TPause (-1), set_q (popped p_i (h_q h1)) h1), w3) /\
                lookup (w_fs w3) v105 = Some (NFile 6) /\
                f_bytes (get_file (w_fs w3) 6) = two /\          (* not "one" *)
                f_bytes (get_file (w_fs w0) 2) = one /\
                lookup (w_fs w3) n0 = None /\
                QRel (popped p_i (h_q h1)) (w_fs w3) [] /\ tr_ok (w_tr w3) = true).
  Proof.
    destruct hyps_included as (A1 & A2 & A3 & A4 & A5 & A6 & A7).
    destruct (accept_then_pass o2 false h0 w0 9 p_i None o2_benign A1 A2 A3 A4 A5 A6 A7)
      as (w1' & E1 & _ & _ & _ & Hpass).
    cbv zeta in *.
    assert (Ew : w1' = w1) by (unfold w1; rewrite E1; reflexivity). subst w1'.
    split; [exact E1|]. split.
    - destruct (Hpass w_early (env_untouched 103 w1) eq_refl) as [Hearly _].
      destruct Hearly as (w3 & E3 & F3 & _); [vm_compute; reflexivity|].
      exists w3. split; [exact E3 | exact F3].
    - destruct (Hpass w_due (env_untouched 105 w1) eq_refl) as [_ Hdue].
      destruct (Hdue 2 two) as (w3 & E3 & S3 & HR3 & _ & T3 & _).
      { vm_compute. discriminate. }
      { exact due_nodup. }
      { exact due_plain_ok. }
      exists w3. split; [exact E3|].
      destruct S3 as [S1 S2 _ S4 _ _ _ _ _].
      assert (Nm : store_name (h_cfg h0) (h_cpl h0) (w_clock w_due) p_i = v105) by (vm_compute; reflexivity).
      assert (Nx : fs_next (w_fs w_due) = 6) by (vm_compute; reflexivity).
      rewrite Nm, Nx in S1. rewrite Nx in S2.
      split; [exact S1|]. split; [exact S2|]. split; [reflexivity|].
      split; [exact S4|]. split; [exact HR3 | exact T3].
  Qed.

  (* ----- the statements for EVERY oracle on the same data ----- *)

  Example rejected_every_oracle (o : oracle) nc r w' :
    handle_close_write 7 p_o nc h0 o w0 = (r, w') ->
    log_ext is_write w0 w' /\ (forall h', r = Some h' -> h' = h0).
  Proof.
    apply (rejected_write_every_oracle o w0 h0 7 p_o nc false None).
    - vm_compute. reflexivity.
    - apply cfg_path_other; neq.
  Qed.

  Example accepted_every_oracle (o : oracle) nc h' w' :
    handle_close_write 9 p_i nc h0 o w0 = (Some h', w') -> tr_ok (w_tr w') = true ->
    h' = h1 /\ QRel (h_q h') (w_fs w') [(p_i, 0%N, 100%Z)].
  Proof.
    destruct hyps_included as (A1 & A2 & A3 & A4 & _ & A6 & A7).
    exact (accepted_write_every_oracle o w0 h0 9 p_i nc [] false None h' w' A1 A2 A3 A4 A6 A7).
  Qed.
End AcceptExample.

Print Assumptions AcceptExample.rejected_every_oracle.
Print Assumptions AcceptExample.accepted_every_oracle.
Print Assumptions AcceptExample.included_by_theorem.
Print Assumptions AcceptExample.project_by_theorem.
Print Assumptions AcceptExample.excluded_by_theorem.
Print Assumptions AcceptExample.C06_included_any_pid.
Print Assumptions AcceptExample.C06_excluded_any_pid.
Print Assumptions AcceptExample.C06_default_a.
Print Assumptions AcceptExample.run_accept_then_pass.
Print Assumptions AcceptExample.accept_then_pass_by_theorem.
Print Assumptions AcceptExample.history_flag_reset_by_deeper_project.
