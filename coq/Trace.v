(* Model of src/trace.c: the error trace with try/catch/finally bookkeeping. *)
From K Require Export Str.

Inductive msg :=
| M_ts_overflow | M_cannot_remove_ancestor | M_cannot_create_ancestor
| M_not_regular | M_src_missing | M_src_denied | M_dst_exists
| M_invalid_entry | M_version_slashes
| M_cfg_cannot_load | M_cfg_cannot_reload
| M_linq_cannot_load | M_linq_cannot_reload | M_linq_cannot_get_head | M_linq_cannot_push
| M_store_cannot_copy | M_journal_cannot_open | M_journal_cannot_write
| M_cannot_handle_exec | M_cannot_handle_write | M_cannot_handle_timeout.

Definition msg_eqb (a b : msg) : bool :=
  match a, b with
  | M_ts_overflow, M_ts_overflow | M_cannot_remove_ancestor, M_cannot_remove_ancestor
  | M_cannot_create_ancestor, M_cannot_create_ancestor | M_not_regular, M_not_regular
  | M_src_missing, M_src_missing | M_src_denied, M_src_denied | M_dst_exists, M_dst_exists
  | M_invalid_entry, M_invalid_entry | M_version_slashes, M_version_slashes
  | M_cfg_cannot_load, M_cfg_cannot_load | M_cfg_cannot_reload, M_cfg_cannot_reload
  | M_linq_cannot_load, M_linq_cannot_load | M_linq_cannot_reload, M_linq_cannot_reload
  | M_linq_cannot_get_head, M_linq_cannot_get_head | M_linq_cannot_push, M_linq_cannot_push
  | M_store_cannot_copy, M_store_cannot_copy | M_journal_cannot_open, M_journal_cannot_open
  | M_journal_cannot_write, M_journal_cannot_write
  | M_cannot_handle_exec, M_cannot_handle_exec | M_cannot_handle_write, M_cannot_handle_write
  | M_cannot_handle_timeout, M_cannot_handle_timeout => true
  | _, _ => false
  end.

Inductive errno :=
| ENOENT | EEXIST | EACCES | ENOTEMPTY | ENOTDIR | EISDIR | EIO | ENOSPC | EMFILE | ENOMEM | EINVAL | EOTHER.

Inductive frame :=
| FStatic (m : msg)
| FErrno (e : errno)          (* throw_errno: strerror(errno), dynamic *)
| FDyn (s : str)              (* throw_dynamic with another text *)
| FContext (s : str).         (* throw_context *)

Record trace := mkTr { t_frames : list frame; t_pre : nat; t_post : nat }.

Definition tr_empty : trace := mkTr [] 0 0.
Definition tr_ok (t : trace) : bool := match t_frames t with [] => true | _ => false end.
Definition tr_push (f : frame) (t : trace) : trace := mkTr (f :: t_frames t) (t_pre t) (t_post t).
Definition tr_try (t : trace) : trace :=
  if tr_ok t then mkTr (t_frames t) (S (t_pre t)) (t_post t)
  else mkTr (t_frames t) (t_pre t) (S (t_post t)).

Definition tr_catch_static (m : msg) (t : trace) : bool * trace :=
  if Nat.eqb (t_post t) 0 then
    match t_frames t with
    | FStatic m' :: _ => if msg_eqb m m' then (true, mkTr [] (t_pre t) (t_post t)) else (false, t)
    | _ => (false, t)
    end
  else (false, t).

(* decrement_depth: true iff the pre-throw depth was decremented *)
Definition tr_decrement (t : trace) : bool * trace :=
  match t_post t with
  | S p => (false, mkTr (t_frames t) (t_pre t) p)
  | O => (true, mkTr (t_frames t) (Nat.pred (t_pre t)) 0)
  end.

Definition tr_finally (t : trace) : trace := snd (tr_decrement t).
Definition tr_finally_catch_all (t : trace) : trace :=
  snd (tr_decrement (mkTr [] (t_pre t) (t_post t))).
Definition tr_finally_rethrow_static (m : msg) (t : trace) : trace :=
  let '(b, t') := tr_decrement t in
  if b && negb (tr_ok t') then tr_push (FStatic m) t' else t'.
Definition tr_rethrow_context (s : str) (t : trace) : trace :=
  if Nat.eqb (t_post t) 0 && negb (tr_ok t) then tr_push (FContext s) t else t.
