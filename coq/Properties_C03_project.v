(* C03 at the level of the WORLD, for the two kinds of first entry that
   Properties_C03_world.v leaves out: a PROJECT entry and a project MEMBER.
   The final world is `snd (handle_timeout rev h o w)` whether the pass
   returned, reported an error, or the process died (`fst res = None`).
   CrashProofs2.v (+ CrashLog, CrashSnapFrame, CrashTree, CrashMember).

   Definitions: honest o = CrashCopy.honest (the oracle never answers ENOENT /
   ENOTDIR / EACCES / EEXIST to a call and never moves 0 bytes; crashes at any
   index and every other errno at any call are honest).  For the snapshot the
   errnos that matter are EEXIST on the mkdir of the snapshot directory (name
   taken: next name) and ENOENT / EACCES on fts_open (project deleted /
   forbidden: the entry is dropped).  AF w = the call log of w holds a failed
   access(2) probe (CAccess _, RFault _): sync_shallow_tree reads EVERY failure
   of access() as "the project no longer has this entry" (sync.c:
   `if (!access(..))`), so an honest oracle that fails such a probe with EIO
   makes the pass drop the entry from the snapshot, delete its hard link from
   the unstable tree and pop the queue entry without any error
   (Crash2Example.pop_after_snapshot_refuted_failed_access).
   snapshot_name_free w h p k = the first k candidate names of the snapshot
   directory are taken, the k-th is free, and snapshot / unstable tree / project
   do not nest (the name part of SnapshotProofs.project_head_due).
   snap f U P r = the node of U/r if the project still has P/r, else None. *)
From K Require Import Str Dec Trace Fs World Progs Elf Linq LinqSpec LinqProofs Sieve Handler Hoare
     Confine Confine2 SyncProofs AbandonProofs StoreFs StoreLogic StoreProgs StoreProofs DecProofs
     QueueProofs CrashFrame CrashLoad CrashQueue CrashCopy CrashProofs CrashLog CrashTree CrashSnapFrame
     CrashProofs2 CrashMember.
From K Require SnapshotProofs MemberProofs.

(* (3) pop only after the snapshot: if the link of the first entry (a project
   entry queued once) is gone from the final world, the snapshot directory is
   complete: it exists and holds exactly the entries of the unstable tree that
   the project still has, as the same inodes; every honest oracle whose run
   does not fail an access probe *)
Theorem C03_project_pop_after_snapshot :
  forall (o : oracle) (w : world) (rev : bool) (h : handler)
         (p1 : str) (m1 : N) (t1 : Z) (rest : list qent) (k : nat),
  honest o ->
  disjoint_locs (h_cfg h) ->
  qdir_ok2 (h_cfg h) (q_dir (h_q h)) ->
  SI (h_cfg h) (h_journal h) (w_fs w) ->
  keys_nodup (w_fs w) ->
  qclean (q_dir (h_q h)) (w_fs w) ->
  QRel (h_q h) (w_fs w) ((p1, m1, t1) :: rest) ->
  count_paths p1 ((p1, m1, t1) :: rest) = 1 ->
  N.odd m1 = true ->
  snapshot_name_free w h p1 k ->
  let res := handle_timeout rev h o w in
  let f' := w_fs (snd res) in
  ~ AF (snd res) ->
  lookup f' (join (q_dir (h_q h)) (dec (q_head (h_q h)))) = None ->
  lookup f' (SnapshotProofs.snap_dir h p1 (w_clock w) k) = Some NDir /\
  forall r, lookup f' (SnapshotProofs.snap_dir h p1 (w_clock w) k ++ ch_slash :: r) =
            SnapshotProofs.snap (w_fs w) (SnapshotProofs.unstable_of h p1) p1 r.
Proof. exact crash_project_pop_after_snapshot. Qed.
Print Assumptions C03_project_pop_after_snapshot.

(* ... and otherwise the entry is still pending: EVERY oracle for the pass; if
   the link is still there, a fault-free restart loads the queue with the entry
   at its head (nothing at all has been popped) *)
Theorem C03_project_restart :
  forall (o : oracle) (w : world) (rev : bool) (h : handler)
         (p1 : str) (m1 : N) (t1 : Z) (rest : list qent)
         (o2 : oracle) (w2 : world) (deb : Z) (g : nat),
  disjoint_locs (h_cfg h) ->
  qdir_ok2 (h_cfg h) (q_dir (h_q h)) ->
  SI (h_cfg h) (h_journal h) (w_fs w) ->
  keys_nodup (w_fs w) ->
  qclean (q_dir (h_q h)) (w_fs w) ->
  QRel (h_q h) (w_fs w) ((p1, m1, t1) :: rest) ->
  Forall (fits g) ((p1, m1, t1) :: rest) ->
  SyncProofs.benign o2 -> tr_ok (w_tr w2) = true ->
  w_fs w2 = w_fs (snd (handle_timeout rev h o w)) ->
  lookup (w_fs w2) (join (q_dir (h_q h)) (dec (q_head (h_q h)))) <> None ->
  exists (q2 : qmem) (w2' : world),
    load_linq (q_dir (h_q h)) deb g o2 w2 = (Some (Some q2), w2') /\
    QRel q2 (w_fs w2') ((p1, m1, t1) :: rest) /\
    lookup (w_fs w2') (join (q_dir q2) (dec (q_head q2))) = Some (NLink (encode m1 p1) t1) /\
    w_fs w2' = w_fs w2 /\ tr_ok (w_tr w2') = true.
Proof. exact crash_restart_after_project. Qed.
Print Assumptions C03_project_restart.

(* a project MEMBER as the only entry (file entry with a project offset, not a
   history path): (3) as for any file entry, and the hard link of the member in
   the unstable tree is, in the final world, the entry it was before the pass,
   absent (unlink done, link not: MemberExample.crash_before_link_drops_member,
   or a failed create_parents / link), or the inode of the complete new version;
   every honest oracle *)
Theorem C03_member_link_cases :
  forall (o : oracle) (w : world) (rev : bool) (h : handler)
         (p1 : str) (m1 : N) (t1 : Z) (i : nat) (b : str),
  honest o ->
  disjoint_locs (h_cfg h) ->
  qdir_ok2 (h_cfg h) (q_dir (h_q h)) ->
  SI (h_cfg h) (h_journal h) (w_fs w) ->
  keys_nodup (w_fs w) ->
  qclean (q_dir (h_q h)) (w_fs w) ->
  QRel (h_q h) (w_fs w) [(p1, m1, t1)] ->
  N.odd m1 = false -> N.testbit m1 1 = false ->
  lookup (w_fs w) p1 = Some (NFile i) ->
  get_file (w_fs w) i = mkFile b true ->
  let res := handle_timeout rev h o w in
  let f' := w_fs (snd res) in
  let pp := MemberProofs.member_path (h_cfg h) p1 (shift_right2 m1) in
  (lookup f' (join (q_dir (h_q h)) (dec (q_head (h_q h)))) = None ->
     exists s j, StoreFs.under (c_store_root (h_cfg h)) s /\ lookup f' s = Some (NFile j) /\
                 f_bytes (get_file f' j) = b) /\
  (lookup f' pp = lookup (w_fs w) pp \/
   lookup f' pp = None \/
   exists s j, StoreFs.under (c_store_root (h_cfg h)) s /\ lookup f' s = Some (NFile j) /\
               lookup f' pp = Some (NFile j) /\ f_bytes (get_file f' j) = b).
Proof. exact crash_member_link_cases. Qed.
Print Assumptions C03_member_link_cases.

(* non-vacuity: the hypotheses hold of the project of SnapshotProofs (and of
   the same world with the first snapshot name taken); a crash before each of
   the 25 calls of its pass, EIO at every call, EIO at k followed by a crash at
   j (26 x 28 pairs) are checked by evaluation; the conditions on the oracle
   are necessary (witnesses). *)
Example C03_project_hyps_hold := Crash2Example.hyps_hold.
Example C03_project_crash_at_every_call := Crash2Example.crash_at_every_call.
Example C03_project_fail_at_every_call := Crash2Example.fail_at_every_call.
Example C03_project_needs_access_honesty := Crash2Example.pop_after_snapshot_refuted_failed_access.
Example C03_member_hyps_hold := CrashMemberExample.hyps_hold.
Example C03_member_crash_at_every_call := CrashMemberExample.crash_at_every_call.
