(* C07 Editor attribution follows the process's executions. *)
From K Require Import Str Sieve SieveSpec SieveProofs Bitmap BitmapProofs.

(* the pid table behaves as a set for process ids of any magnitude and any
   initial size (0 included): a process is marked iff the last operation on it
   was a set *)
Theorem C07_bitmap_is_set : forall (g : nat) (ops : list bm_op) (bit : nat),
  bm_get bit (bm_run g ops) = ref_bit bit ops false.
Proof. exact bm_run_ref. Qed.
Print Assumptions C07_bitmap_is_set.

(* attribution: after any sequence of execution events, over any process ids and
   any editor list, the table marks exactly the processes the property's wording
   calls editors, and the recorded loaders are exactly the interpreters of the
   editor binaries seen so far *)
Theorem C07_attribution : forall (editors : list str) (g : nat) (evs : list exec_ev),
  let r := attr_run editors g evs in
  let s := spec_run editors evs (fun _ => false) [] in
  (forall p, bm_get p (a_pids r) = fst s p) /\ a_interps r = snd s.
Proof. exact attr_run_spec. Qed.
Print Assumptions C07_attribution.

(* writes by non-editor processes are queued only when an included or history
   entry decides *)
Theorem C07_non_editor_not_queued : forall (r : rules) (cpl : nat) (path : str) (c : cand) (k : nat),
  decides c k (rule_ends r cpl path) ->
  c <> CRule KIncluded -> c <> CRule KHistory ->
  fst (fst (push_decision r cpl false path)) = false.
Proof.
  intros r cpl path c k Hd H1 H2. rewrite (policy_decides r cpl false path c k Hd).
  destruct c as [|[| | | | |]]; simpl; congruence.
Qed.
Print Assumptions C07_non_editor_not_queued.

Theorem C07_non_editor_default : forall (r : rules) (cpl : nat) (path : str),
  (forall c e, In (c, e) (rule_ends r cpl path) -> e = None) ->
  fst (fst (push_decision r cpl false path)) = false.
Proof. intros. apply policy_default. assumption. Qed.
Print Assumptions C07_non_editor_default.

(* writes by editor processes are queued unless a hidden component or an
   excluded entry decides *)
Theorem C07_editor_queued : forall (r : rules) (cpl : nat) (path : str) (c : cand) (k : nat),
  decides c k (rule_ends r cpl path) ->
  c <> CHidden -> c <> CRule KExcluded ->
  fst (fst (push_decision r cpl true path)) = true.
Proof.
  intros r cpl path c k Hd H1 H2. rewrite (policy_decides r cpl true path c k Hd).
  destruct c as [|[| | | | |]]; simpl; congruence.
Qed.
Print Assumptions C07_editor_queued.

Theorem C07_editor_default : forall (r : rules) (cpl : nat) (path : str),
  (forall c e, In (c, e) (rule_ends r cpl path) -> e = None) ->
  fst (fst (push_decision r cpl true path)) = true.
Proof. intros. apply policy_default. assumption. Qed.
Print Assumptions C07_editor_default.

Local Open Scope char_scope.
Example C07_example :
  let vim := ["/";"b";"/";"v";"i";"m"] in let ld := ["/";"l";"d"] in let sh := ["/";"b";"/";"s";"h"] in
  let evs := [mkEx 3000 vim (Some ld); mkEx 3000 ld None; mkEx 5 sh None; mkEx 3000 sh None; mkEx 0 vim None] in
  map (fun n => bm_get 3000 (a_pids (attr_run [["v";"i";"m"]] 0 (firstn n evs)))) [1; 2; 3; 4; 5]%nat
    = [true; true; true; false; false] /\
  bm_get 0 (a_pids (attr_run [["v";"i";"m"]] 0 evs)) = true.
Proof. vm_compute. auto. Qed.
