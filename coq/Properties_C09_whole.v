(* C09 for the WHOLE program: "the daemon creates entries only beneath its
   configured store, project, queue, offset and journal locations", for
   Klunok.klunok and Daemon.daemon_loop, under EVERY oracle.  Statements only;
   the proofs are in WholeInvariants.v.

   Vocabulary (Confine.v, Confine2.v, WholeInvariants.v):
   [conf L c]       call c, if it creates, removes, links or opens for writing,
                    names a path inside one of the locations L (mkdir / rmdir:
                    or an ancestor directory of one); every other call is
                    read-only (the source, the executed image, the queue
                    directory) or a transfer on a descriptor so obtained.
   [log_all P w]    every call in the log of world w satisfies P.
   [hinv2 L h]      the six locations of the handler's configuration are in L
                    and not empty, its queue directory is one of them, not "/".
   [cfg_in L c]     the same of a configuration c.
   [cfg_write self cp n c]  notification n is a close-after-write of the
                    configuration file cp by another process, without the exec
                    bit, and the file then parses to c.
   [conf_ns L self cp ns]  every NEnv w2 of ns has a confined log (the
                    environment does not forge calls of the daemon); every
                    configuration a notification of ns can install is in L.
   [no_cfg_write self cp ns]  no notification of ns can install a configuration
                    (implied by DaemonProofs.no_cfg_event cp ns).
   [untouched L f f']  every name that is not inside a location of L and not
                    an ancestor directory of one resolves in f' to what it
                    resolves to in f: same kind, same inode number, same link
                    target, or nothing in both (WatchedProofs.v).
   [cfgs_in L self cp ns]  every configuration a notification of ns can install
                    is in L.
   [watched_run_ok L self rev o cp ns h w]  cfgs_in, and along the run from
                    (h, w) under oracle o every NEnv w2 satisfies
                    untouched L (w_fs w) (w_fs w2) for the world w it replaces.

   "never modifies or removes a watched file" is proved at the DIRECTORY level
   (the name keeps its entry and its inode: not removed, renamed, replaced or
   created).  That the BYTES behind the inode are not written is NOT proved
   here (see the report in WatchedProofs.v). *)
From K Require Import Str Dec Trace Fs World Progs Handler Hoare Confine Confine2 WatchedProofs ReloadProofs ReloadHistory
     Main MainProofs Daemon DaemonProofs Klunok KlunokProofs WholeInvariants.
Local Open Scope N_scope.

(* THE WHOLE PROGRAM, any location list L that covers the configuration of the
   start and every configuration a notification can install.  Whatever `klunok`
   returns, also None (the process died at some call): every call in the log
   of the final world is confined to L.  The initial log must be (the empty
   log is). *)
Theorem C09_whole_confined :
  forall (L : list str) (o : oracle) (env : Main.env) (cfg : config) (rev : bool) (ns : list notif) (w : world),
  cfg_in L cfg -> log_all (conf L) w ->
  (forall cp cpl u g n, snd (startup env) = Some (cp, cpl, u, g, n) -> conf_ns L (e_self env) cp ns) ->
  log_all (conf L) (snd (klunok env cfg rev ns o w)).
Proof. exact whole_confined. Qed.
Print Assumptions C09_whole_confined.

(* THE CONFIGURATION IN FORCE: from the empty log, when no notification can
   install a new configuration, every call the whole run logged is confined to
   the six locations of the configuration *)
Theorem C09_whole_confined_in_force :
  forall (o : oracle) (env : Main.env) (cfg : config) (rev : bool) (ns : list notif) (w : world),
  let L := cfg_locs cfg in
  c_queue_path cfg <> root_path -> (forall l, In l (cfg_locs cfg) -> l <> []) ->
  w_log w = [] ->
  (forall w2, In (NEnv w2) ns -> log_all (conf L) w2) ->
  (forall cp cpl u g n, snd (startup env) = Some (cp, cpl, u, g, n) -> no_cfg_write (e_self env) cp ns) ->
  log_all (conf L) (snd (klunok env cfg rev ns o w)).
Proof. exact whole_confined_in_force. Qed.
Print Assumptions C09_whole_confined_in_force.

(* THE DAEMON from a loaded handler; when the run returns, the invariant of
   the handler holds again *)
Theorem C09_daemon_confined :
  forall (L : list str) (o : oracle) (self : N) (rev : bool) (ns : list notif) (pause : Z)
         (h : handler) (w : world),
  hinv2 L h -> log_all (conf L) w ->
  conf_ns L self (h_cfg_path h) ns ->
  let res := daemon_loop self rev ns pause h o w in
  log_all (conf L) (snd res) /\
  (forall outs h', fst res = Some (outs, h') -> hinv2 L h').
Proof. exact daemon_confined. Qed.
Print Assumptions C09_daemon_confined.

Theorem C09_daemon_confined_in_force :
  forall (o : oracle) (self : N) (rev : bool) (ns : list notif) (pause : Z) (h : handler) (w : world),
  let L := cfg_locs (h_cfg h) in
  hinv2 L h -> log_all (conf L) w ->
  (forall w2, In (NEnv w2) ns -> log_all (conf L) w2) ->
  no_cfg_write self (h_cfg_path h) ns ->
  log_all (conf L) (snd (daemon_loop self rev ns pause h o w)).
Proof. exact daemon_confined_in_force. Qed.
Print Assumptions C09_daemon_confined_in_force.

(* at every loop head the run reaches: in particular, up to the first
   notification that can install a new configuration every call is confined
   to the locations of the configuration of the start (take for ns the prefix
   before it) *)
Theorem C09_daemon_confined_state :
  forall (L : list str) (o : oracle) (self : N) (rev : bool) (ns : list notif) (pause : Z)
         (h : handler) (w : world) z hp wp,
  hinv2 L h -> log_all (conf L) w ->
  conf_ns L self (h_cfg_path h) ns ->
  daemon_state self rev o ns pause h w = Some (z, hp, wp) ->
  log_all (conf L) wp /\ hinv2 L hp /\ h_cfg_path hp = h_cfg_path h.
Proof. exact daemon_confined_state. Qed.
Print Assumptions C09_daemon_confined_state.

Theorem C09_no_cfg_event_no_cfg_write :
  forall self cp ns, no_cfg_event cp ns -> no_cfg_write self cp ns.
Proof. exact no_cfg_event_no_cfg_write. Qed.

(* ---------- names outside the locations ---------- *)

(* per operation, EVERY oracle (whether it returned or the process died in it) *)
Theorem C09_untouched_timeout : forall (L : list str) (rev : bool) (h : handler) (o : oracle) (w : world),
  hinv2 L h ->
  untouched L (w_fs w) (w_fs (snd (handle_timeout rev h o w))) /\
  (forall r, fst (handle_timeout rev h o w) = Some r -> hinv2 L (snd r)).
Proof. exact handle_timeout_untouched. Qed.
Print Assumptions C09_untouched_timeout.

Theorem C09_untouched_exec : forall (L : list str) (pid : N) (path : str) (h : handler) (o : oracle) (w : world),
  hinv L h ->
  untouched L (w_fs w) (w_fs (snd (handle_open_exec pid path h o w))) /\
  (forall h', fst (handle_open_exec pid path h o w) = Some h' -> hinv L h').
Proof. exact handle_open_exec_untouched. Qed.
Print Assumptions C09_untouched_exec.

Theorem C09_untouched_write :
  forall (L : list str) (pid : N) (path : str) (nc : option config) (h : handler) (o : oracle) (w : world),
  hinv L h ->
  (forall c, nc = Some c -> incl (cfg_locs c) L /\ c_queue_path c <> root_path) ->
  untouched L (w_fs w) (w_fs (snd (handle_close_write pid path nc h o w))) /\
  (forall h', fst (handle_close_write pid path nc h o w) = Some h' -> hinv L h').
Proof. exact handle_close_write_untouched. Qed.
Print Assumptions C09_untouched_write.

Theorem C09_untouched_start :
  forall (L : list str) (cfg : config) (cp : option str) (cpl : nat) (o : oracle) (w : world),
  incl (cfg_locs cfg) L -> c_queue_path cfg <> root_path ->
  untouched L (w_fs w) (w_fs (snd (load_handler cfg cp cpl o w))) /\
  (forall h, fst (load_handler cfg cp cpl o w) = Some (Some h) -> hinv L h).
Proof. exact load_handler_untouched. Qed.
Print Assumptions C09_untouched_start.

(* THE WHOLE PROGRAM: whatever `klunok` returns, also None, every name outside
   the locations resolves in the final world to what it resolved to in the
   initial world *)
Theorem C09_whole_watched_untouched :
  forall (L : list str) (o : oracle) (env : Main.env) (cfg : config) (rev : bool) (ns : list notif) (w : world),
  cfg_in L cfg ->
  (forall h w1, loaded env cfg o w = Some (h, w1) ->
     watched_run_ok L (e_self env) rev o (h_cfg_path h) ns h w1) ->
  untouched L (w_fs w) (w_fs (snd (klunok env cfg rev ns o w))).
Proof. exact whole_watched_untouched. Qed.
Print Assumptions C09_whole_watched_untouched.

Theorem C09_whole_watched_untouched_noenv :
  forall (L : list str) (o : oracle) (env : Main.env) (cfg : config) (rev : bool) (ns : list notif) (w : world),
  cfg_in L cfg ->
  (forall w2, ~ In (NEnv w2) ns) ->
  (forall cp cpl u g n, snd (startup env) = Some (cp, cpl, u, g, n) -> cfgs_in L (e_self env) cp ns) ->
  untouched L (w_fs w) (w_fs (snd (klunok env cfg rev ns o w))).
Proof. exact whole_watched_untouched_noenv. Qed.
Print Assumptions C09_whole_watched_untouched_noenv.

(* THE DAEMON *)
Theorem C09_daemon_watched_untouched :
  forall (L : list str) (o : oracle) (self : N) (rev : bool) (ns : list notif) (pause : Z)
         (h : handler) (w : world),
  hinv2 L h ->
  watched_run_ok L self rev o (h_cfg_path h) ns h w ->
  let res := daemon_loop self rev ns pause h o w in
  untouched L (w_fs w) (w_fs (snd res)) /\
  (forall outs h', fst res = Some (outs, h') -> hinv2 L h').
Proof. exact daemon_watched_untouched. Qed.
Print Assumptions C09_daemon_watched_untouched.

(* ONLY THE ENVIRONMENT CHANGES THEM: whatever the environment steps do, at
   every loop head the run reaches, the next iteration (dispatch + timeout
   pass, any outcome) leaves every name outside the locations as it finds it *)
Theorem C09_daemon_step_untouched :
  forall (L : list str) (o : oracle) (self : N) (rev : bool) (pre : list notif) (n : notif) (post : list notif)
         (pause : Z) (h : handler) (w : world) z hp wp,
  hinv2 L h -> cfgs_in L self (h_cfg_path h) (pre ++ n :: post) ->
  daemon_state self rev o pre pause h w = Some (z, hp, wp) -> is_env n = false ->
  untouched L (w_fs wp) (w_fs (snd (iteration self rev n hp o wp))).
Proof. exact daemon_step_untouched. Qed.
Print Assumptions C09_daemon_step_untouched.

(* non-vacuity on KlunokExample (klunok -c /h/c -w /h -e / -d /h; store /st,
   project store /ps, unstable /u, queue /q, offsets /off, journal /j).
   EVERY oracle, pid 7 executes /b/vim and closes /h/a after writing, poll times
   out: every call is confined to these six locations *)
Example C09_whole_example_every_oracle : forall (o : oracle),
  log_all (conf (cfg_locs MixedHistory.MixedExample.cfgM))
          (snd (klunok KlunokExample.env_user MixedHistory.MixedExample.cfgM false WholeExample.nsQ o KlunokExample.w0)).
Proof. exact WholeExample.confined_every_oracle. Qed.
Print Assumptions C09_whole_example_every_oracle.

(* KlunokExample's own run (oracle o2, the environment moves the clock to
   106 s, the version /st/a/v106 is stored): confined by the theorem; and its
   log, 37 calls, oldest first *)
Example C09_whole_example_run :
  log_all (conf (cfg_locs MixedHistory.MixedExample.cfgM)) KlunokExample.w_R /\
  length (w_log KlunokExample.w_R) = 37%nat /\
  In (COpenExcl KlunokExample.v106) (map fst (w_log KlunokExample.w_R)) /\
  In (COpenR MixedHistory.MixedExample.p_a) (map fst (w_log KlunokExample.w_R)).
Proof.
  split; [exact WholeExample.confined_run|]. vm_compute.
  split; [reflexivity|]. split; tauto.
Qed.
Print Assumptions C09_whole_example_run.

(* the watched names of KlunokExample: EVERY oracle, /h/a, /h, /b/vim keep
   their entries and /h/c is not created; and KlunokExample's own run (with
   its environment step) leaves them alone while it stores /st/a/v106 *)
Example C09_whole_example_watched : forall (o : oracle),
  let w' := snd (klunok KlunokExample.env_user MixedHistory.MixedExample.cfgM false WholeExample.nsQ o KlunokExample.w0) in
  untouched (cfg_locs MixedHistory.MixedExample.cfgM) (w_fs KlunokExample.w0) (w_fs w') /\
  lookup (w_fs w') MixedHistory.MixedExample.p_a = Some (NFile 4) /\
  lookup (w_fs w') MixedHistory.MixedExample.p_h = Some NDir /\
  lookup (w_fs w') MixedHistory.MixedExample.p_vim = Some (NFile 5) /\
  lookup (w_fs w') MixedHistory.MixedExample.p_c = None.
Proof. exact WholeExample.watched_every_oracle. Qed.
Print Assumptions C09_whole_example_watched.

Example C09_whole_example_watched_run :
  untouched (cfg_locs MixedHistory.MixedExample.cfgM) (w_fs KlunokExample.w0) (w_fs KlunokExample.w_R) /\
  lookup (w_fs KlunokExample.w_R) MixedHistory.MixedExample.p_a = Some (NFile 4) /\
  lookup (w_fs KlunokExample.w0) KlunokExample.v106 = None /\
  lookup (w_fs KlunokExample.w_R) KlunokExample.v106 = Some (NFile 9).
Proof. exact WholeExample.watched_run. Qed.
Print Assumptions C09_whole_example_watched_run.
