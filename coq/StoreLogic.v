(* C04, part 2: triples whose pre-, post- and crash condition are one and the
   same predicate on the file system (plus a fact about the returned value),
   for every oracle.  Programs that only read keep every predicate; programs
   that only create directories / symlinks keep every predicate closed under
   adding a non-file dentry. *)
From K Require Import Str Dec Trace Fs World Progs Elf Linq Sieve Handler Hoare Confine Confine2 SyncProofs StoreFs.
From Coq Require Import Lia.

Definition tri {A} (P : fs -> Prop) (R : A -> Prop) (m : M A) : Prop :=
  ht (fun _ => True) (fun w => P (w_fs w)) m (fun a w => P (w_fs w) /\ R a) (fun w => P (w_fs w)).

Definition tok {A} (P : fs -> Prop) (m : M A) : Prop := tri P (fun _ => True) m.

Lemma tri_ret {A} P (R : A -> Prop) a : R a -> tri P R (ret_ a).
Proof. intros H. apply ht_ret. auto. Qed.

Lemma tri_bind {A B} P (R1 : A -> Prop) (R : B -> Prop) (m : M A) (k : A -> M B) :
  tri P R1 m -> (forall a, R1 a -> tri P R (k a)) -> tri P R (bind m k).
Proof.
  intros Hm Hk. eapply ht_bind; [exact Hm|]. intros a o w Ho [Hw Ha]. apply (Hk a Ha o w Ho Hw).
Qed.

Lemma tri_weaken {A} P (R R' : A -> Prop) (m : M A) :
  tri P R m -> (forall a, R a -> R' a) -> tri P R' m.
Proof. intros H Hw. eapply ht_post; [|exact H]. intros a w [H1 H2]. auto. Qed.

Lemma tri_of_tok {A} P (m : M A) : tok P m -> tri P (fun _ => True) m.
Proof. intros H. exact H. Qed.

Lemma tok_of_tri {A} P (R : A -> Prop) (m : M A) : tri P R m -> tok P m.
Proof. intros H. eapply tri_weaken; [exact H | auto]. Qed.

(* facts that follow from the invariant at the start may be used for the program *)
Lemma tri_from {A} (P : fs -> Prop) (R : A -> Prop) (m : M A) :
  (forall f, P f -> tri P R m) -> tri P R m.
Proof. intros H o w Ho Hp. exact (H (w_fs w) Hp o w Ho Hp). Qed.

Lemma tok_ret {A} P (a : A) : tok P (ret_ a).
Proof. apply tri_ret. exact I. Qed.

Lemma tok_bind {A B} P (m : M A) (k : A -> M B) :
  tok P m -> (forall a, tok P (k a)) -> tok P (bind m k).
Proof. intros Hm Hk. eapply tri_bind; [exact Hm | intros a _; apply Hk]. Qed.

Lemma tok_bindv {A B} P (R1 : A -> Prop) (m : M A) (k : A -> M B) :
  tri P R1 m -> (forall a, R1 a -> tok P (k a)) -> tok P (bind m k).
Proof. intros Hm Hk. eapply tri_bind; [exact Hm | exact Hk]. Qed.

Lemma tok_from {A} (P : fs -> Prop) (m : M A) : (forall f, P f -> tok P m) -> tok P m.
Proof. apply tri_from. Qed.

(* state-only primitives *)
Lemma tok_get_tr P : tok P get_tr.
Proof. intros o w _ Hw. simpl. auto. Qed.
Lemma tok_set_tr P t : tok P (set_tr t).
Proof. intros o w _ Hw. simpl. auto. Qed.
Lemma tok_get_clock P : tok P get_clock.
Proof. intros o w _ Hw. simpl. auto. Qed.
Lemma tok_get_fs P : tok P get_fs.
Proof. intros o w _ Hw. simpl. auto. Qed.
Lemma tok_transfer_limit P b n : tok P (transfer_limit b n).
Proof. intros o w _ Hw. simpl. auto. Qed.

(* one system call *)
Lemma tri_sys {A} (P : fs -> Prop) (R : A -> Prop) c (perform : fs -> ret * A * fs) on_fail :
  (forall e, R (on_fail e)) ->
  (forall f, P f -> P (snd (perform f)) /\ R (snd (fst (perform f)))) ->
  tri P R (sys c perform on_fail).
Proof.
  intros Hf Hs. apply ht_sys.
  - auto.
  - intros w e Hw. simpl. auto.
  - intros w Hw. specialize (Hs (w_fs w) Hw).
    destruct (perform (w_fs w)) as [[r a] f']. simpl in *. exact Hs.
Qed.

Lemma tok_sys_ro {A} (P : fs -> Prop) c (perform : fs -> ret * A * fs) on_fail :
  (forall f, snd (perform f) = f) -> tok P (sys c perform on_fail).
Proof. intros H. apply tri_sys; [auto|]. intros f Hf. rewrite H. auto. Qed.

Lemma tok_sys_unit (P : fs -> Prop) c op :
  (forall f, P f -> P (snd (op f))) -> tok P (sys_unit c op).
Proof.
  intros H. unfold sys_unit. apply tri_sys; [auto|]. intros f Hf. specialize (H f Hf).
  destruct (op f) as [e f']. simpl in *. auto.
Qed.

Lemma tri_open_gen (P : fs -> Prop) (R : fd + errno -> Prop) c op :
  (forall e, R (inr e)) ->
  (forall f, P f -> P (snd (op f)) /\ R (fst (op f))) ->
  tri P R (k_open_gen c op).
Proof.
  intros Hf H. unfold k_open_gen. apply tri_sys; [exact Hf|]. intros f Hp. specialize (H f Hp).
  destruct (op f) as [r f']. simpl in *. exact H.
Qed.

(* ---------- stepping ---------- *)

Ltac tk_with leaf :=
  repeat (lazymatch goal with
          | |- tok _ (ret_ _) => apply tok_ret
          | |- tok _ (bind _ _) => apply tok_bind; [|intros ?]
          | |- tok _ get_tr => apply tok_get_tr
          | |- tok _ (set_tr _) => apply tok_set_tr
          | |- tok _ get_clock => apply tok_get_clock
          | |- tok _ get_fs => apply tok_get_fs
          | |- tok _ (transfer_limit _ _) => apply tok_transfer_limit
          | |- tok _ (mod_tr _) => unfold mod_tr
          | |- tok _ is_ok => unfold is_ok
          | |- tok _ (throw _) => unfold throw
          | |- tok _ (throw_static _) => unfold throw_static
          | |- tok _ (throw_errno _) => unfold throw_errno
          | |- tok _ (throw_context _) => unfold throw_context
          | |- tok _ try_ => unfold try_
          | |- tok _ finally_ => unfold finally_
          | |- tok _ (finally_rethrow_static _) => unfold finally_rethrow_static
          | |- tok _ (rethrow_context _) => unfold rethrow_context
          | |- tok _ (catch_static _) => unfold catch_static
          | |- tok _ (when_ok _ _) => unfold when_ok
          | |- tok _ (match ?x with _ => _ end) => destruct x
          | |- tok _ (if ?b then _ else _) => destruct b
          | |- tok _ (let '(_, _) := ?x in _) => destruct x
          | |- tok _ _ => leaf
          end).

Ltac tv :=
  repeat (lazymatch goal with
          | |- tri _ _ (ret_ _) => apply tri_ret
          | |- tri _ _ (bind _ _) => eapply tri_bind; [|intros ? ?]
          | |- tri _ _ (when_ok _ _) => unfold when_ok
          | |- tri _ _ (match ?x with _ => _ end) => destruct x
          | |- tri _ _ (if ?b then _ else _) => destruct b
          | |- tri _ _ (let '(_, _) := ?x in _) => destruct x
          end).

(* ---------- programs that only read: any predicate ---------- *)

Section Any.
Variable P : fs -> Prop.

Lemma tok_close : tok P k_close.
Proof. apply tok_sys_unit. auto. Qed.
Lemma tok_open_read p : tok P (k_open_read p).
Proof. apply tok_of_tri with (R := fun _ => True). apply tri_open_gen; auto. Qed.
Lemma tok_open_dir p : tok P (k_open_dir p).
Proof. apply tok_of_tri with (R := fun _ => True). apply tri_open_gen; auto. Qed.
Lemma tok_fstat d : tok P (k_fstat d).
Proof. apply tok_sys_ro. reflexivity. Qed.
Lemma tok_access p : tok P (k_access p).
Proof. apply tok_sys_ro. intros f. destruct (fs_exists p f); reflexivity. Qed.
Lemma tok_read1 i pos : tok P (k_read1 i pos).
Proof. apply tok_sys_ro. intros f. destruct (nth_error _ _); reflexivity. Qed.
Lemma tok_read_dir : tok P (sys (CRead 1) (fun f => (RErr EISDIR, @inr (option ascii) _ EISDIR, f)) (fun e => inr e)).
Proof. apply tok_sys_ro. reflexivity. Qed.
Lemma tok_scandir p : tok P (k_scandir p).
Proof. apply tok_sys_ro. intros f. destruct (fs_scandir p f); reflexivity. Qed.
Lemma tok_fts r p : tok P (k_fts r p).
Proof. apply tok_sys_ro. reflexivity. Qed.
Lemma tok_readlinkat d n s : tok P (k_readlinkat d n s).
Proof. apply tok_sys_ro. intros f. destruct (fs_readlink _ f); reflexivity. Qed.
Lemma tok_fstatat d n : tok P (k_fstatat_mtime d n).
Proof. apply tok_sys_ro. intros f. destruct (fs_lstat_mtime _ f); reflexivity. Qed.
Lemma tok_read_at i pos want : tok P (k_read_at i pos want).
Proof. apply tok_sys_ro. reflexivity. Qed.

Ltac leaf0 :=
  first [ apply tok_close | apply tok_open_read | apply tok_open_dir | apply tok_fstat | apply tok_access
        | apply tok_read1 | apply tok_read_dir | apply tok_scandir | apply tok_fts | apply tok_readlinkat
        | apply tok_fstatat | apply tok_read_at ].
Ltac tk := tk_with leaf0.

Lemma tok_read_digits fuel : forall d pos acc, tok P (read_digits fuel d pos acc).
Proof.
  induction fuel as [|fuel IH]; intros d pos acc; simpl; [apply tok_ret|].
  apply tok_bind.
  - destruct d; [apply tok_read1 | apply tok_read_dir].
  - intros r. destruct r as [[ch|]|e]; tk. apply IH.
Qed.

Lemma tok_read_counter p : tok P (read_counter p).
Proof. unfold read_counter, file_len. tk. all: apply tok_read_digits. Qed.

Lemma tok_get_timestamp p : tok P (get_timestamp p).
Proof. unfold get_timestamp. tk. Qed.

Lemma tok_read_entry_loop fuel : forall dir name size, tok P (read_entry_loop fuel dir name size).
Proof.
  induction fuel as [|fuel IH]; intros dir name size; simpl; [apply tok_ret|].
  tk. apply IH.
Qed.

Lemma tok_read_entry q name : tok P (read_entry q name).
Proof. unfold read_entry. tk. apply tok_read_entry_loop. Qed.

Lemma tok_fill_bag q names : forall bag, tok P (fill_bag q names bag).
Proof.
  induction names as [|n names IH]; intros bag; simpl; [apply tok_ret|].
  tk; try apply tok_read_entry. apply IH.
Qed.

Lemma tok_read_full i pos want : tok P (read_full i pos want).
Proof. unfold read_full. tk. Qed.

Lemma tok_phdr_loop count : forall i pos, tok P (phdr_loop count i pos).
Proof.
  induction count as [|count IH]; intros i pos; simpl; [apply tok_ret|].
  tk; try apply tok_read_full. apply IH.
Qed.

Lemma tok_get_elf_interpreter i : tok P (get_elf_interpreter i).
Proof.
  unfold get_elf_interpreter, get_elf_interpreter_raw. tk; try apply tok_read_full.
  apply tok_phdr_loop.
Qed.

End Any.

Ltac leaf1 :=
  first [ apply tok_close | apply tok_open_read | apply tok_open_dir | apply tok_fstat | apply tok_access
        | apply tok_read1 | apply tok_read_dir | apply tok_scandir | apply tok_fts | apply tok_readlinkat
        | apply tok_fstatat | apply tok_read_at
        | apply tok_read_digits | apply tok_read_counter | apply tok_get_timestamp
        | apply tok_read_entry_loop | apply tok_read_entry | apply tok_fill_bag
        | apply tok_read_full | apply tok_phdr_loop | apply tok_get_elf_interpreter ].

(* ---------- programs that only add directories and symlinks ---------- *)

Definition cl_add (P : fs -> Prop) : Prop :=
  forall f p n, (forall i, n <> NFile i) -> P f -> P (add_dent p n f).

Section Mk.
Variable P : fs -> Prop.
Hypothesis HP : cl_add P.

Ltac tk := tk_with leaf1.
Ltac tvok := solve [apply tri_of_tok; tk].

Lemma P_mkdir p f : P f -> P (snd (fs_mkdir p f)).
Proof.
  intros H. unfold fs_mkdir. destruct (lookup f p); [exact H|].
  destruct (parent_is_dir f p); [exact H|]. simpl. apply HP; [discriminate | exact H].
Qed.

Lemma P_symlink p t m f : P f -> P (snd (fs_symlink p t m f)).
Proof.
  intros H. unfold fs_symlink. destruct (lookup f p); [exact H|].
  destruct (parent_is_dir f p); [exact H|]. simpl. apply HP; [discriminate | exact H].
Qed.

Lemma tok_mkdir p : tok P (k_mkdir p).
Proof. apply tok_sys_unit. intros f. apply P_mkdir. Qed.
Lemma tok_mkdirat d r : tok P (k_mkdirat d r).
Proof. apply tok_sys_unit. intros f. apply P_mkdir. Qed.
Lemma tok_symlinkat t d n : tok P (k_symlinkat t d n).
Proof. unfold k_symlinkat. tk. apply tok_sys_unit. intros f. apply P_symlink. Qed.

Lemma tok_mkdir_all ds : tok P (mkdir_all ds).
Proof.
  induction ds as [|d ds IH]; simpl; [apply tok_ret|].
  apply tok_bind; [apply tok_mkdir|]. intros r.
  destruct r as [e|]; [destruct e|]; try exact IH; tk.
Qed.

Lemma tok_create_parents p : tok P (create_parents p).
Proof. unfold create_parents. tk. apply tok_mkdir_all. Qed.

Lemma tri_load_linq_aux fuel : forall tc path deb lg,
  tri P (some_dir path) (load_linq_aux tc fuel path deb lg).
Proof.
  induction fuel as [|fuel IH]; intros tc path deb lg.
  - simpl. tv; try tvok; try (intros q Hq; discriminate).
    all: try (intros q Hq; inversion Hq; reflexivity).
    all: try exact I.
  - simpl. tv; try tvok; try (intros q Hq; discriminate).
    all: try (intros q Hq; inversion Hq; reflexivity).
    all: try exact I.
    all: try (apply tri_of_tok; apply tok_create_parents).
    all: try (apply tri_of_tok; apply tok_mkdir).
    all: try apply IH.
Qed.

Lemma tri_load_linq path deb lg : tri P (some_dir path) (load_linq path deb lg).
Proof. apply tri_load_linq_aux. Qed.

Lemma tri_q_push path meta q : tri P (fun q' => q_dir q' = q_dir q) (q_push path meta q).
Proof.
  unfold q_push. tv; try reflexivity; try tvok.
  apply tri_of_tok. apply tok_symlinkat.
Qed.

(* what push_to_linq leaves unchanged in the handler *)
Definition same_h (h h' : handler) : Prop :=
  h_cfg h' = h_cfg h /\ h_cfg_path h' = h_cfg_path h /\ h_journal h' = h_journal h /\
  q_dir (h_q h') = q_dir (h_q h).

Lemma same_h_refl h : same_h h h.
Proof. repeat split. Qed.

Lemma tri_push_to_linq pid path h : tri P (fun r => same_h h (snd r)) (push_to_linq pid path h).
Proof.
  unfold push_to_linq, when_ok.
  eapply tri_bind; [tvok|intros b _]. destruct b; [|apply tri_ret; apply same_h_refl].
  destruct (push_decision _ _ _ _) as [[pushed is_hist] pre].
  destruct (negb pushed); [apply tri_ret; apply same_h_refl|].
  eapply tri_bind; [tvok|intros ? _].
  eapply tri_bind; [apply tri_q_push|intros q1 Hq1].
  eapply tri_bind; [tvok|intros ? _].
  eapply tri_bind; [tvok|intros ? _].
  destruct pre as [k|].
  - eapply tri_bind; [tvok|intros ? _].
    eapply tri_bind; [apply tri_q_push|intros q2 Hq2].
    eapply tri_bind; [tvok|intros ? _].
    eapply tri_bind; [tvok|intros ? _].
    apply tri_ret. repeat split; simpl. congruence.
  - apply tri_ret. repeat split; simpl. assumption.
Qed.

End Mk.

(* ---------- combining and leaving the one-predicate format ---------- *)

Lemma tri_conj {A} (P1 P2 : fs -> Prop) (R1 R2 : A -> Prop) (m : M A) :
  tri P1 R1 m -> tri P2 R2 m -> tri (fun f => P1 f /\ P2 f) (fun a => R1 a /\ R2 a) m.
Proof.
  intros H1 H2 o w Ho [Hp1 Hp2]. specialize (H1 o w Ho Hp1). specialize (H2 o w Ho Hp2).
  destruct (m o w) as [[a|] w']; tauto.
Qed.

Lemma tok_conj {A} (P1 P2 : fs -> Prop) (m : M A) :
  tok P1 m -> tok P2 m -> tok (fun f => P1 f /\ P2 f) m.
Proof. intros H1 H2. eapply tri_weaken; [apply tri_conj; [exact H1 | exact H2] | auto]. Qed.

Lemma cl_add_conj (P1 P2 : fs -> Prop) : cl_add P1 -> cl_add P2 -> cl_add (fun f => P1 f /\ P2 f).
Proof. intros H1 H2 f p n Hn [A B]. split; [apply H1 | apply H2]; assumption. Qed.

Lemma cl_add_true : cl_add (fun _ => True).
Proof. intros f p n _ _. exact I. Qed.

(* general triples over the file system: precondition P, postcondition Q, crash condition C *)
Definition htf {A} (P : fs -> Prop) (m : M A) (Q : A -> fs -> Prop) (C : fs -> Prop) : Prop :=
  ht (fun _ => True) (fun w => P (w_fs w)) m (fun a w => Q a (w_fs w)) (fun w => C (w_fs w)).

Lemma htf_of_tri {A} (P : fs -> Prop) (R : A -> Prop) (m : M A) (Q : A -> fs -> Prop) (C : fs -> Prop) :
  tri P R m -> (forall a f, P f -> R a -> Q a f) -> (forall f, P f -> C f) -> htf P m Q C.
Proof.
  intros H HQ HC o w Ho Hp. specialize (H o w Ho Hp).
  destruct (m o w) as [[a|] w']; [destruct H; auto | auto].
Qed.

Lemma htf_bind {A B} (P : fs -> Prop) (m : M A) (k : A -> M B) (Q1 : A -> fs -> Prop)
      (Q : B -> fs -> Prop) (C : fs -> Prop) :
  htf P m Q1 C -> (forall a, htf (Q1 a) (k a) Q C) -> htf P (bind m k) Q C.
Proof. intros Hm Hk. eapply ht_bind; [exact Hm | exact Hk]. Qed.

(* a step that keeps P and yields a pure fact, followed by a general continuation *)
Lemma htf_bind_tri {A B} (P : fs -> Prop) (R1 : A -> Prop) (m : M A) (k : A -> M B)
      (Q : B -> fs -> Prop) (C : fs -> Prop) :
  tri P R1 m -> (forall f, P f -> C f) -> (forall a, R1 a -> htf P (k a) Q C) -> htf P (bind m k) Q C.
Proof.
  intros Hm HC Hk o w Ho Hp. unfold bind. specialize (Hm o w Ho Hp).
  destruct (m o w) as [[a|] w']; [|auto].
  destruct Hm as [Hw Ha]. exact (Hk a Ha o w' Ho Hw).
Qed.

Lemma htf_ret {A} (P : fs -> Prop) (a : A) (Q : A -> fs -> Prop) (C : fs -> Prop) :
  (forall f, P f -> Q a f) -> htf P (ret_ a) Q C.
Proof. intros H. apply ht_ret. intros w Hw. apply H. exact Hw. Qed.

Lemma htf_conseq {A} (P P' : fs -> Prop) (m : M A) (Q Q' : A -> fs -> Prop) (C C' : fs -> Prop) :
  (forall f, P' f -> P f) -> (forall a f, Q a f -> Q' a f) -> (forall f, C f -> C' f) ->
  htf P m Q C -> htf P' m Q' C'.
Proof.
  intros H1 H2 H3 H o w Ho Hp. specialize (H o w Ho (H1 _ Hp)).
  destruct (m o w) as [[a|] w']; auto.
Qed.

Lemma htf_from {A} (P : fs -> Prop) (m : M A) (Q : A -> fs -> Prop) (C : fs -> Prop) :
  (forall f, P f -> htf P m Q C) -> htf P m Q C.
Proof. intros H o w Ho Hp. exact (H (w_fs w) Hp o w Ho Hp). Qed.
